#!/bin/sh
# create a scratch worktree of /repo for a seeding sub-agent: /tmp/seed/<name>
set -e
name="$1"
d=/tmp/seed/$name
mkdir -p /tmp/seed
git -C /repo worktree add --detach "$d" HEAD >/dev/null 2>&1
cd "$d" && /venv/bin/python setup.py build_ext --inplace >/dev/null 2>&1
rm -rf "$d/build"
echo "$d"
