HOOK_COMMITS = []
NOT_APPLICABLE = {}
CHECKS = {
 "C10": {
  "technique": "TLA+ reference models (StreamRecv/StreamSend/RangeSet) model-checked with TLC; BFS closure over the concrete objects with every edge validated by TLC",
  "text": "TLC explores StreamRecv, StreamSend and RangeSet exhaustively for the bound and checks the property invariants; the harness then explores the real QuicStreamReceiver/QuicStreamSender/RangeSet objects by BFS to closure under the same alphabet and TLC validates every concrete edge (abs(pre), call, output, abs(post)) with the operators of the design module, so within the bound the code and the reference model are bisimilar; seeded random runs on larger streams are validated the same way.",
  "note": "Bounded (stream length N<=5/6 receiver, 3/4 sender; larger only sampled). Trusts TLC, the mechanical projection of object fields to the abstract record, and the driver's payload convention Byte(o). The repetition of the end marker on frames arriving after completion is part of the reference model at this level because tests/test_stream.py pins it; 'at most once' is judged at connection level by C01."},
}
