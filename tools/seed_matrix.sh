#!/bin/sh
# usage: seed_matrix.sh [-j N] [dir-prefix ...]  -- run every seeded/<id>-*/patch.diff against the check of its property (quick tier,
# scratch worktree of /repo HEAD, see try_seed.sh); one result file per patch in .work/matrix/, then tools/mkresults.py writes
# seeded/RESULTS.md.  N patches side by side (default 3).
cd /verif
J=3
if [ "$1" = "-j" ]; then J=$2; shift 2; fi
mkdir -p .work/matrix
list=""
for d in seeded/*/; do
  n=$(basename "$d")
  if [ $# -gt 0 ]; then ok=0; for p in "$@"; do case "$n" in $p*) ok=1;; esac; done; [ $ok = 1 ] || continue; fi
  [ -f "$d/patch.diff" ] || continue
  list="$list $n"
done
for n in $list; do echo $n; done | xargs -P $J -I{} sh -c '
  n={}; id=${n%%-*}
  out=$(tools/try_seed.sh "/verif/seeded/$n/patch.diff" $id 2>&1)
  rc=$(echo "$out" | grep -o "exit=[0-9]*" | tail -1)
  case "$out" in *"does not apply"*) rc="no-apply";; esac
  { echo "$n $rc"; echo "$out" | grep "signature:" | sed "s/ *signature: //" | head -6; } > .work/matrix/$n.txt
'
tools/mkresults.py
