#!/bin/sh
# usage: seed_matrix.sh [dir-prefix ...]  -- run every seeded/<id>-*/patch.diff against the check of its property; append to .work/seed_matrix.log
cd /verif
for d in seeded/*/; do
  n=$(basename "$d"); id=${n%%-*}
  if [ $# -gt 0 ]; then ok=0; for p in "$@"; do case "$n" in $p*) ok=1;; esac; done; [ $ok = 1 ] || continue; fi
  [ -f "$d/patch.diff" ] || continue
  [ -f "harness/drivers/$(echo $id | tr A-Z a-z).py" ] || { echo "$n no-check" >> .work/seed_matrix.log; continue; }
  out=$(tools/try_seed.sh "/verif/$d/patch.diff" $id 2>&1)
  rc=$(echo "$out" | grep -o "exit=[0-9]*" | tail -1)
  sig=$(echo "$out" | grep "signature:" | head -1 | sed 's/ *signature: //')
  case "$out" in *"does not apply"*) rc="no-apply";; esac
  echo "$n $rc $sig" >> .work/seed_matrix.log
done
echo DONE >> .work/seed_matrix.log
