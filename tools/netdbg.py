#!/venv/bin/python
"""Re-run the job of a replay file (or a JSON job) in the netsim and print a compact log.
usage: tools/netdbg.py <replay.json> [grep-substring]"""
import json, os, sys
sys.path.insert(0, "/verif")
os.environ.setdefault("PYTHONHASHSEED", "0")
from harness import overlay
root = overlay.build("/verif/.work/scratch/dbg")
overlay.activate(root)
from harness.netsim import sim, script
A = sim.load_modules()
d = json.load(open(sys.argv[1]))
job = d["detail"]["job"] if "detail" in d else d
s = script.run(A, job["cfg"], job["script"], seed=job["seed"], hs_adv=job.get("hs_adv", False))
flt = sys.argv[2] if len(sys.argv) > 2 else None
for e in s.log:
    e = dict(e)
    if "data" in e and isinstance(e["data"], list):
        e["data"] = "<%d>" % len(e["data"])
    if e["k"] == "pkt" and "frames" in e:
        e["frames"] = [" ".join("%s=%s" % kv for kv in f.items()) for f in e["frames"]]
    if e["k"] in ("gt",) and not flt:
        continue
    line = json.dumps(e)
    if flt is None or flt in line:
        print(line[:400])
if os.environ.get("DBG_STATE"):
    for ep, c in s.eps.items():
        print(ep, "close_at", c._close_at, "loss_at", c._loss.get_loss_detection_time(), "pacing_at", c._pacing_at,
              "ack_at", [sp.ack_at for sp in c._loss.spaces], "tf", s.tf, "timer", c.get_timer(),
              "pacer", vars(c._loss._pacer))
