#!/bin/sh
# usage: try_patch.sh <patch> <property id> [tier]   -- apply to /repo, run the check, always revert
patch="$1"; id="$2"; tier="${3:-quick}"
cd /repo || exit 2
git diff --quiet || { echo "/repo not clean"; exit 2; }
git apply "$patch" || { echo "patch does not apply"; exit 2; }
cd /verif && ./check "$id" --tier "$tier" > /tmp/try_$id.log 2>&1
rc=$?
git -C /repo checkout -- .
grep -c "^VIOLATION" /tmp/try_$id.log | sed "s/^/violations: /"
grep -E "^VIOLATION|signature|KNOWN|MACHINERY" /tmp/try_$id.log | head -8
tail -1 /tmp/try_$id.log
echo "exit=$rc"
