#!/bin/sh
# Rebuild aioquic's two C helpers in place from the current sources (the *.abi3.so files are git-ignored build
# products of the editable install in /venv; after a change to _buffer.c/_crypto.c the repository's test-suite
# would otherwise keep testing the stale binaries).
set -e
repo="${1:-/repo}"
inc=$(/venv/bin/python -c "import sysconfig;print(sysconfig.get_paths()['include'])")
cd "$repo/src/aioquic"
gcc -O2 -fPIC -shared -std=c99 -DPy_LIMITED_API=0x030A0000 -I"$inc" _buffer.c -o _buffer.abi3.so
gcc -O2 -fPIC -shared -std=c99 -DPy_LIMITED_API=0x030A0000 -I"$inc" _crypto.c -o _crypto.abi3.so -lcrypto
echo "rebuilt _buffer/_crypto in $repo/src/aioquic"
