#!/bin/sh
# usage: [MUT_SUFFIX=r3] ingest_mutant.sh <id> <A|B> <k>   -- confirm /tmp/mut-<id>-out/<A|B> in a scratch worktree (demo passes clean, fails patched,
# repository suite passes patched), keep it as /verif/seeded/<id>-M<k>/ and run the check of <id> against it
id="$1"; ab="$2"; k="$3"
src=/tmp/mut-$id${MUT_SUFFIX}-out/$ab
[ -f "$src/patch.diff" ] || { echo "$id-$ab: no patch"; exit 2; }
wt=/tmp/wt-ing-$id-$ab
git -C /repo worktree add -q --detach $wt HEAD || exit 2
cp /repo/src/aioquic/*.abi3.so $wt/src/aioquic/
clean=$(cd $wt && PYTHONPATH=$wt/src timeout 300 /venv/bin/python $src/demo.py >/dev/null 2>&1; echo $?)
if ! git -C $wt apply "$src/patch.diff"; then echo "$id-$ab: patch does not apply"; git -C /repo worktree remove --force $wt; exit 2; fi
if git -C $wt diff --name-only | grep -q '\.c$'; then /verif/tools/rebuild_ext.sh $wt >/dev/null; fi
patched=$(cd $wt && PYTHONPATH=$wt/src timeout 300 /venv/bin/python $src/demo.py >/dev/null 2>&1; echo $?)
tests=$(cd $wt && PYTHONPATH=$wt/src timeout 900 /venv/bin/python -m pytest -q -p no:cacheprovider 2>&1 | tail -1)
git -C /repo worktree remove --force $wt
d=/verif/seeded/$id-M$k
mkdir -p $d; cp $src/patch.diff $src/demo.py $d/; 
python3 - "$src/meta.json" "$d/meta.json" "$clean" "$patched" "$tests" <<'P'
import json,sys
m=json.load(open(sys.argv[1]))
m["confirmed_by_main_session"]={"demo_exit_on_clean_tree":int(sys.argv[3]),"demo_exit_with_change":int(sys.argv[4]),"repository_suite_with_change":sys.argv[5],
  "how":"scratch worktree of /repo HEAD (tools/ingest_mutant.sh): demo run before and after git apply, full pytest run with the change"}
json.dump(m,open(sys.argv[2],"w"),indent=1)
P
echo "$id-M$k ($ab): demo clean=$clean patched=$patched tests: $tests"
out=$(/verif/tools/try_seed.sh $d/patch.diff $id 2>&1)
echo "$id-M$k check: $(echo "$out" | grep -o 'exit=[0-9]*' | tail -1) $(echo "$out" | grep 'signature:' | head -1)"
