#!/bin/sh
# usage: confirm_seed.sh <Cxx> <A|B>  -- independently confirm a seeded change in a fresh scratch worktree,
# then store it under /verif/seeded/<Cxx>-<A|B>/
id="$1"; v="$2"
src=/tmp/seed/$id/seed_out
wt=/tmp/seedconfirm/$id-$v
rm -rf "$wt"; mkdir -p /tmp/seedconfirm
git -C /repo worktree add --detach "$wt" HEAD >/dev/null 2>&1 || exit 2
cd "$wt" || exit 2
mkdir -p "$wt/seed_out"; cp "$src/demo_$v.py" "$wt/seed_out/demo.py"
build() { /venv/bin/python setup.py build_ext --inplace >/dev/null 2>&1; rm -rf build; }
build
PYTHONPATH=$wt/src timeout 900 /venv/bin/python seed_out/demo.py >/tmp/seedconfirm/$id-$v.clean.log 2>&1; clean_rc=$?
git apply "$src/$v.diff" || { echo "$id-$v: patch does not apply"; exit 2; }
build
tests=$(PYTHONPATH=$wt/src /venv/bin/python -m pytest -q -p no:cacheprovider -n 4 2>&1 | tail -1)
PYTHONPATH=$wt/src timeout 900 /venv/bin/python seed_out/demo.py >/tmp/seedconfirm/$id-$v.mut.log 2>&1; mut_rc=$?
cd /; git -C /repo worktree remove --force "$wt"
echo "$id-$v: tests=[$tests] demo_clean_rc=$clean_rc demo_mutant_rc=$mut_rc"
case "$tests" in *"470 passed"*) ;; *) echo "  NOT KEPT (tests)"; exit 1;; esac
[ "$clean_rc" = 0 ] && [ "$mut_rc" = 1 ] || { echo "  NOT KEPT (demo)"; exit 1; }
d=/verif/seeded/$id-$v; mkdir -p "$d"
cp "$src/$v.diff" "$d/patch.diff"; cp "$src/demo_$v.py" "$d/demo.py"
cp "$src/NOTES.md" "$d/NOTES.md"
printf '{"confirmed": {"tests_with_change": "%s", "demo_clean_exit": %s, "demo_with_change_exit": %s}}\n' "$tests" "$clean_rc" "$mut_rc" > "$d/confirm.json"
echo "  kept -> $d"
