#!/venv/bin/python
"""Regenerate MANIFEST.json from tools/manifest_table.py (single source of truth)."""
import json, os, sys
ROOT = os.path.dirname(os.path.dirname(os.path.abspath(__file__)))
sys.path.insert(0, os.path.join(ROOT, "tools"))
from manifest_table import CHECKS, NOT_APPLICABLE, HOOK_COMMITS, BASELINE  # noqa
ids = [json.loads(l)["id"] for l in open(os.path.join(ROOT, "properties.jsonl"))]
checks = []
for pid in ids:
    if pid in CHECKS:
        c = CHECKS[pid]
        checks.append({
            "property_id": pid,
            "quick_cmd": "./check %s --tier quick" % pid,
            "thorough_cmd": "./check %s --tier thorough" % pid,
            "evidence_file": "/verif/evidence/%s.json" % pid,
            "replay_cmd_template": "./check %s --replay {path}" % pid,
            "engine": "tlc",
            "level_claimed": {"category": "model_checking", "text": c["text"], "design_ref": "DESIGN.md section 4, " + pid},
            "level_note": c["note"],
            "technique": c["technique"],
        })
na = [{"property_id": p, "reason": NOT_APPLICABLE.get(p, "check not built yet (construction in progress, see DESIGN.md section 7)")}
      for p in ids if p not in CHECKS]
m = {"version": 1,
     "setup_cmd": "./setup.sh",
     "hooks": {"guard": "AIOQUIC_VERIF",
               "enable": "no hooks in /repo are needed: each check copies /repo/src/aioquic into an overlay, recompiles _buffer.c/_crypto.c and observes the code through its public API and attribute reads from the harness process",
               "baseline_off_cmd": BASELINE,
               "source_commits": HOOK_COMMITS, "add_only": True},
     "engines": [{"name": "tlc", "path": "/verif/check", "serves_properties": sorted(CHECKS),
                  "kind_free_text": "explicit TLA+ specifications in /verif/spec checked with TLC (design configurations) and bound to the code by closure/trace validation: Python drivers record edges/traces from the real objects and TLC judges every line with the operators of the design module"}],
     "checks": checks, "not_applicable": na,
     "notes": "See DESIGN.md. Exit codes: 0 held, 1 violation (VIOLATION line), 2 machinery failure."}
json.dump(m, open(os.path.join(ROOT, "MANIFEST.json"), "w"), indent=1)
import subprocess  # noqa
subprocess.run(["python3-vt", "-c", "import json,jsonschema;jsonschema.validate(json.load(open('%s/MANIFEST.json')),json.load(open('/root/.vp/MANIFEST.schema.json')))" % ROOT], check=True)
print("MANIFEST.json: %d checks, %d not_applicable" % (len(checks), len(na)))
