#!/bin/sh
# usage: try_seed.sh <patch> <property id> [tier]  -- apply the patch to a scratch worktree of /repo HEAD, run the check against it, remove the worktree
patch="$1"; id="$2"; tier="${3:-quick}"
wt=/tmp/wt-seed-$$
git -C /repo worktree add -q --detach $wt HEAD || exit 2
if ! git -C $wt apply "$patch"; then echo "patch does not apply"; git -C /repo worktree remove --force $wt; exit 2; fi
cd /verif && VERIF_REPO=$wt ./check "$id" --tier "$tier" > /tmp/try_${id}_$$.log 2>&1
rc=$?
git -C /repo worktree remove --force $wt
grep -c "^VIOLATION" /tmp/try_${id}_$$.log | sed "s/^/violations: /"
grep -E "^VIOLATION|signature|KNOWN|MACHINERY" /tmp/try_${id}_$$.log | head -8
tail -1 /tmp/try_${id}_$$.log
rm -f /tmp/try_${id}_$$.log
echo "exit=$rc"
