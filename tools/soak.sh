#!/bin/sh
# usage: soak.sh <id>... -- run each check's quick tier for VERIF_SEED=1..5 and the default seed; print one line per run
cd /verif
for id in "$@"; do
  for seed in 1 2 3 4 5 default; do
    if [ "$seed" = default ]; then out=$(timeout 1500 ./check $id --tier quick 2>&1); else out=$(VERIF_SEED=$seed timeout 1500 ./check $id --tier quick 2>&1); fi
    rc=$?
    echo "$id seed=$seed rc=$rc $(echo "$out" | grep -c '^VIOLATION') violations; $(echo "$out" | tail -1)"
    echo "$out" | grep -A1 "^VIOLATION" | grep signature | head -5
  done
done
