-------------------------- MODULE TraceStreamSend --------------------------
(* Validates edges recorded from the real QuicStreamSender. *)
EXTENDS StreamSend, TraceBase

Frames(sq) == {<<f[1], f[2], f[3]>> : f \in ToSet(sq)}
Abs(j) == [written |-> j.written, finAt |-> j.finAt, pending |-> ToSet(j.pending),
           pendingFin |-> j.pendingFin, acked |-> ToSet(j.acked), ackedFin |-> j.ackedFin,
           highest |-> j.highest, reset |-> j.reset, resetPending |-> j.resetPending,
           resetInFlight |-> j.resetInFlight, resetAcked |-> j.resetAcked,
           finished |-> j.finished, bufferEmpty |-> j.bufferEmpty,
           outstanding |-> Frames(j.outstanding)]

Guard(e, pre) ==
  CASE e.op = "write"     -> WriteOk(pre)
    [] e.op = "getframe"  -> GetFrameOk(pre)
    [] e.op = "delivery"  -> <<e.f[1], e.f[2], e.f[3]>> \in pre.outstanding
    [] e.op = "reset"     -> TRUE
    [] e.op = "resetframe"-> GetResetFrameOk(pre)
    [] e.op = "resetdeliv"-> OnResetDeliveryOk(pre)

Expected(e, pre) ==
  CASE e.op = "write"     -> WriteF(pre, e.n, e.fin)
    [] e.op = "getframe"  -> GetFrameF(pre, e.ms, e.mo)
    [] e.op = "delivery"  -> OnDeliveryF(pre, e.acked, <<e.f[1], e.f[2], e.f[3]>>)
    [] e.op = "reset"     -> ResetF(pre)
    [] e.op = "resetframe"-> GetResetFrameF(pre)
    [] e.op = "resetdeliv"-> OnResetDeliveryF(pre, e.acked)

\* the bytes still buffered are the written bytes from the acknowledged prefix on
BufOk(j, s) == /\ j.bufStart = Prefix(s.acked) \/ s.reset
               /\ j.bufStart + Len(j.buf) = s.written
               /\ \A i \in 1..Len(j.buf) : j.buf[i] = Byte(j.bufStart + i - 1)

\* (a FIN-only frame consumes no credit)
CapsOk(e) == (e.op = "getframe" /\ e.out.k = "Frame" /\ Len(e.out.bytes) > 0) =>
                /\ Len(e.out.bytes) <= e.ms
                /\ (e.mo # NONE => e.out.offset + Len(e.out.bytes) <= e.mo)

Clauses(e) ==
  LET pre == Abs(e.pre)  post == Abs(e.post) IN
  IF ~Guard(e, pre) THEN << <<"harness-guard", FALSE>> >> ELSE
  LET x == Expected(e, pre) IN
  << <<"pre-state-wellformed", StateOk(pre)>>,
     <<"output", x.out = e.out>>,
     <<"caps", CapsOk(e)>>,
     <<"post-state", x.st = post>>,
     <<"post-state-wellformed", StateOk(post)>>,
     <<"buffer-bytes", BufOk(e.post, post)>> >>

TInit == l = 1 /\ Init
TNext == Judge(Clauses) /\ UNCHANGED vars
TSpec == TInit /\ [][TNext]_<<l, vars>>
============================================================================
