---------------------------- MODULE TraceH3Conn ----------------------------
(* Judges what real H3Connection / H0Connection objects on a live QUIC
   connection did, one record per (state before, input class, chunking,
   outcome) -- recorded by harness/drivers/c16.py -- with the operators of
   H3Conn.

   record: [pre, want : state records, postdone : BOOLEAN, cls : [t, k], chunk : STRING,
            out : [kind : "events" | "close" | "raised", code, n (events, capped at 2),
                   txraised : BOOLEAN, txsent : Nat, peer : Int, ...]]
   pre  = projection of the real object before the input,
   want = the state TLC enumerated (for replayed EDGEs; = pre for sessions),
   postdone = the layer's done flag after the input,
   out.kind = "raised" when an exception escaped handle_event,
   out.txraised = datagrams_to_send raised afterwards, out.txsent = datagrams it
   returned, out.peer = error code the real peer connection reported (-1 none).

   The first three clauses are the statement of C16.  harness-guard protects
   against a driver that left the environment's alphabet.  "model:" clauses
   compare with the rest of the specification (the state a valid prefix leads
   to, which class closes, with which code) and are reported as SPEC-DRIFT
   only. *)
EXTENDS H3Conn, TraceBase

Outcome(o) == [kind |-> o.kind, code |-> o.code]
IsSession(c) == c.k = "SESSION"          \* byte-level random sessions: no class prediction
ExpectedOf(pre, c) == IF IsSession(c) THEN (IF pre.done THEN {Ev} ELSE AnyLegal) ELSE Expected(pre, c)

Clauses(e) ==
  LET pre == e.pre  c == e.cls  o == e.out IN
  << <<"no-raise", o.kind # "raised">>,
     <<"close-code-is-h3", o.kind = "close" => o.code \in H3Codes>>,
     <<"transmit-after-close", o.kind = "close" => (~o.txraised /\ o.txsent >= 1)>>,
     <<"harness-guard", IsSession(c) \/ (StateOk(e.want) /\ Enabled(e.want, c))>>,
     <<"model:prefix-state", e.want = pre>>,
     <<"model:outcome", (o.kind # "raised" /\ e.want = pre) => Outcome(o) \in ExpectedOf(pre, c)>>,
     <<"model:done-flag", pre.layer = "h3" => (e.postdone = (pre.done \/ o.kind = "close"))>>,
     <<"model:done-silent", pre.done => (o.kind = "events" /\ o.n = 0)>>,
     <<"model:peer-sees-close", (o.kind = "close" /\ ~o.txraised) => o.peer = o.code>>,
     <<"model:transmit", ~o.txraised>> >>

TInit == l = 1 /\ s = InitState("h3", "server", TRUE)
TNext == Judge(Clauses) /\ UNCHANGED s
TSpec == TInit /\ [][TNext]_<<l, s>>
============================================================================
