--------------------------- MODULE TraceFlowSend ---------------------------
(* Judges what each endpoint puts on the wire (STREAM / RESET_STREAM frames
   decoded by the observer) against the flow-control and stream-count limits
   it has been given (C06).  Lines:
     init  sl_c cl_c mb_c mu_c sl_s cl_s mb_s mu_s   initial limits *given to* c and to s by the peer's
                                                     transport parameters (stream, connection, bidi/uni stream counts)
     lim   ep kind sid value      a MAX_STREAM_DATA (kind "stream"), MAX_DATA ("conn"), MAX_STREAMS ("bidi"/"uni")
                                  frame arrived in a packet the endpoint could authenticate; in a resumed session (init
                                  then carries the limits remembered from the ticket) the peer's transport parameters
                                  processed during the handshake: "stream0" (initial limit of every stream), "conn",
                                  "bidi", "uni" (FlowSend!RecvTransportParams)
     sent  ep ends                a packet left ep; ends = <<sid, highest offset of the frame>> for every STREAM frame
                                  and <<sid, final size>> for every RESET_STREAM frame in it
     write ep sid n / reset ep sid   application calls (for the progress clause)
     end                          quiescent end of the run *)
EXTENDS FlowSend, TraceBase, Functions

VARIABLE s
Ep0(sl, cl, mb, mu) == [sl |-> sl, cl |-> cl, mb |-> mb, mu |-> mu, lim |-> <<>>, hi |-> <<>>,
                        wr |-> <<>>, rst |-> {}]
S0(e) == [c |-> Ep0(e.sl_c, e.cl_c, e.mb_c, e.mu_c), s |-> Ep0(e.sl_s, e.cl_s, e.mb_s, e.mu_s)]
At(f, k, d) == IF k \in DOMAIN f THEN f[k] ELSE d
Put(f, k, v) == [x \in (DOMAIN f) \cup {k} |-> IF x = k THEN v ELSE f[x]]
MaxOf(a, b) == IF a > b THEN a ELSE b
Total(f) == FoldFunction(LAMBDA a, b : a + b, 0, f)

Limit(x, sid) == MaxOf(x.sl, At(x.lim, sid, 0))
Mine(ep, sid) == (sid % 2 = 0) = (ep = "c")          \* stream initiated by ep
Uni(sid) == (sid \div 2) % 2 = 1
RECURSIVE Apply(_, _, _)
Apply(hi, ends, i) == IF i > Len(ends) THEN hi
                      ELSE Apply(Put(hi, ends[i][1], MaxOf(At(hi, ends[i][1], 0), ends[i][2])), ends, i + 1)

StepE(x, e) ==
  CASE e.ev = "lim"   -> (CASE e.kind = "stream" -> [x EXCEPT !.lim = Put(@, e.sid, MaxOf(At(@, e.sid, 0), e.value))]
                            [] e.kind = "stream0" -> [x EXCEPT !.sl = MaxOf(@, e.value)]   \* transport parameters: every stream
                            [] e.kind = "conn"   -> [x EXCEPT !.cl = MaxOf(@, e.value)]
                            [] e.kind = "bidi"   -> [x EXCEPT !.mb = MaxOf(@, e.value)]
                            [] e.kind = "uni"    -> [x EXCEPT !.mu = MaxOf(@, e.value)])
    [] e.ev = "sent"  -> [x EXCEPT !.hi = Apply(@, e.ends, 1)]
    [] e.ev = "write" -> [x EXCEPT !.wr = Put(@, e.sid, At(@, e.sid, 0) + e.n)]
    [] e.ev = "reset" -> [x EXCEPT !.rst = @ \cup {e.sid}]
    [] OTHER -> x
StepS(st, e) == IF e.ev = "init" THEN S0(e) ELSE IF e.ev = "end" THEN st ELSE [st EXCEPT ![e.ep] = StepE(st[e.ep], e)]

Blocked(x, sid) == \/ At(x.hi, sid, 0) >= Limit(x, sid)
                   \/ Total(x.hi) >= x.cl
Cl(st, e) ==
  CASE e.ev = "sent" ->
         LET x == st[e.ep]  hi2 == Apply(x.hi, e.ends, 1) IN
         << <<"stream-offset-within-latest-stream-limit",
               \A i \in DOMAIN e.ends : StreamWithin(e.ends[i][2], Limit(x, e.ends[i][1]))>>,
            <<"sum-of-offsets-within-connection-limit", ConnWithin(Total(hi2), x.cl)>>,
            <<"stream-within-stream-count-limit",
               \A i \in DOMAIN e.ends : Mine(e.ep, e.ends[i][1]) =>
                  CountWithin(e.ends[i][1] \div 4, IF Uni(e.ends[i][1]) THEN x.mu ELSE x.mb)>> >>
    [] e.ev = "end" ->
         << <<"blocked-data-is-sent-once-the-limit-allows",
               e.terminated \/ \A p \in {"c", "s"} : \A sid \in DOMAIN st[p].wr :
                  \/ sid \in st[p].rst \/ At(st[p].hi, sid, 0) >= st[p].wr[sid] \/ Blocked(st[p], sid)
                  \/ (Mine(p, sid) /\ ~CountWithin(sid \div 4, IF Uni(sid) THEN st[p].mu ELSE st[p].mb))>> >>
    [] OTHER -> << >>

TInit == l = 1 /\ s = S0([sl_c |-> 0, cl_c |-> 0, mb_c |-> 0, mu_c |-> 0, sl_s |-> 0, cl_s |-> 0, mb_s |-> 0, mu_s |-> 0]) /\ Init
TNext == /\ \/ /\ l <= Len(Lines)
               /\ LET f == FirstFailing(Cl(s, Lines[l])) IN
                    IF f = "" THEN TRUE ELSE PrintT(<<"TRACE-FAIL", l, f>>)
               /\ s' = StepS(s, Lines[l])
               /\ l' = l + 1
            \/ /\ l = Len(Lines) + 1
               /\ PrintT(<<"TRACE-END", Len(Lines)>>)
               /\ l' = l + 1 /\ UNCHANGED s
         /\ UNCHANGED vars
TSpec == TInit /\ [][TNext]_<<l, s, vars>>
============================================================================
