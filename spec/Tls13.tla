------------------------------- MODULE Tls13 -------------------------------
(* Handshake state machine of aioquic's tls.Context (src/aioquic/tls.py) for
   both roles, as seen by a peer that HOLDS ALL KEYS: it can feed any handshake
   message at any time and recomputes every signature / MAC over whatever
   transcript the receiver has accepted so far.  The only thing that stops
   such a peer is the receiver's order check -- property C11.

   The 13 values of `state' are the members of tls.State.  Which message types
   may be processed in a state is NOT taken from the dispatch table of
   Context._handle_reassembled_message: every implementation state is mapped
   to the state of the RFC 8446 appendix A.1 / A.2 machines it stands for, and
   `Allowed' is appendix A (with section 4.4/4.6 and the restrictions RFC 9001
   makes for TLS inside QUIC) written down for those.

   House style: a pure operator XxxF(s, args) == [st |-> ..., out |-> ...] per
   entry point, one action per operator; the trace module TraceTls13 evaluates
   the same operators on what the real objects did. *)
EXTENDS Naturals, Sequences, FiniteSets, TLC

CONSTANTS MaxLen,      \* free exploration: most messages a context accepts
          ScriptLen,   \* script exploration: longest flight fed after the hello
          ScriptRep    \* script exploration: most occurrences of one message

VARIABLES st,          \* abstract state of one tls.Context (record, see InitState)
          out,         \* last output: message fed, alert raised, keys released
          script, pos  \* script exploration: the flight being fed, cursor
vars == <<st, out, script, pos>>
View == <<st, script, pos>>

---------------------------------------------------------------------------
(* States *)
ClientStates == {"CLIENT_HANDSHAKE_START", "CLIENT_EXPECT_SERVER_HELLO",
                 "CLIENT_EXPECT_ENCRYPTED_EXTENSIONS",
                 "CLIENT_EXPECT_CERTIFICATE_REQUEST_OR_CERTIFICATE",
                 "CLIENT_EXPECT_CERTIFICATE", "CLIENT_EXPECT_CERTIFICATE_VERIFY",
                 "CLIENT_EXPECT_FINISHED", "CLIENT_POST_HANDSHAKE"}
ServerStates == {"SERVER_EXPECT_CLIENT_HELLO", "SERVER_EXPECT_CERTIFICATE",
                 "SERVER_EXPECT_CERTIFICATE_VERIFY", "SERVER_EXPECT_FINISHED",
                 "SERVER_POST_HANDSHAKE"}
States == ClientStates \cup ServerStates          \* 13

\* the RFC 8446 appendix A state an implementation state stands for
Rfc(state) ==
  CASE state = "CLIENT_HANDSHAKE_START"                            -> "A1:START"
    [] state = "CLIENT_EXPECT_SERVER_HELLO"                        -> "A1:WAIT_SH"
    [] state = "CLIENT_EXPECT_ENCRYPTED_EXTENSIONS"                -> "A1:WAIT_EE"
    [] state = "CLIENT_EXPECT_CERTIFICATE_REQUEST_OR_CERTIFICATE"  -> "A1:WAIT_CERT_CR"
    [] state = "CLIENT_EXPECT_CERTIFICATE"                         -> "A1:WAIT_CERT"
    [] state = "CLIENT_EXPECT_CERTIFICATE_VERIFY"                  -> "A1:WAIT_CV"
    [] state = "CLIENT_EXPECT_FINISHED"                            -> "A1:WAIT_FINISHED"
    [] state = "CLIENT_POST_HANDSHAKE"                             -> "A1:CONNECTED"
    [] state = "SERVER_EXPECT_CLIENT_HELLO"                        -> "A2:START"
    [] state = "SERVER_EXPECT_CERTIFICATE"                         -> "A2:WAIT_CERT"
    [] state = "SERVER_EXPECT_CERTIFICATE_VERIFY"                  -> "A2:WAIT_CV"
    [] state = "SERVER_EXPECT_FINISHED"                            -> "A2:WAIT_FINISHED"
    [] state = "SERVER_POST_HANDSHAKE"                             -> "A2:CONNECTED"

(* Handshake message types: the 12 members of tls.HandshakeType and one type
   byte that is not a member ("UNKNOWN", sent as 99). *)
Types == {"CLIENT_HELLO", "SERVER_HELLO", "NEW_SESSION_TICKET", "END_OF_EARLY_DATA",
          "ENCRYPTED_EXTENSIONS", "CERTIFICATE", "CERTIFICATE_REQUEST",
          "CERTIFICATE_VERIFY", "FINISHED", "KEY_UPDATE", "COMPRESSED_CERTIFICATE",
          "MESSAGE_HASH", "UNKNOWN"}

(* RFC 8446 appendix A.1 (client) and A.2 (server): the message that moves the
   machine out of each state.  Inside QUIC (RFC 9001): no EndOfEarlyData
   (8.3), so A.2 has no WAIT_EOED; KeyUpdate is forbidden (6) and post-handshake
   client authentication is forbidden (4.4), so a connected client may only be
   sent NewSessionTicket (RFC 8446 4.6.1) and a connected server nothing.
   HelloRetryRequest, certificate compression and post_handshake_auth are not
   offered by this implementation, hence not permitted either. *)
AllowedRfc(r) ==
  CASE r = "A1:START"         -> {}
    [] r = "A1:WAIT_SH"       -> {"SERVER_HELLO"}
    [] r = "A1:WAIT_EE"       -> {"ENCRYPTED_EXTENSIONS"}
    [] r = "A1:WAIT_CERT_CR"  -> {"CERTIFICATE_REQUEST", "CERTIFICATE"}
    [] r = "A1:WAIT_CERT"     -> {"CERTIFICATE"}
    [] r = "A1:WAIT_CV"       -> {"CERTIFICATE_VERIFY"}
    [] r = "A1:WAIT_FINISHED" -> {"FINISHED"}
    [] r = "A1:CONNECTED"     -> {"NEW_SESSION_TICKET"}
    [] r = "A2:START"         -> {"CLIENT_HELLO"}
    [] r = "A2:WAIT_CERT"     -> {"CERTIFICATE"}
    [] r = "A2:WAIT_CV"       -> {"CERTIFICATE_VERIFY"}
    [] r = "A2:WAIT_FINISHED" -> {"FINISHED"}
    [] r = "A2:CONNECTED"     -> {}
Allowed(state) == AllowedRfc(Rfc(state))

---------------------------------------------------------------------------
(* Messages of the key-holding adversary.  `ok': the authenticator the message
   carries (signature of CertificateVerify, MAC of Finished, binder of a
   ClientHello offering a PSK) is valid over the receiver's transcript; `psk':
   a ServerHello selecting / a ClientHello offering a PSK; `empty': a
   Certificate with an empty list.  The drivers name messages; TLC derives the
   record from the name. *)
M(t, ok, psk, empty) == [type |-> t, ok |-> ok, psk |-> psk, empty |-> empty, variant |-> ""]
Names == {"CH", "CHpsk", "CHpskbad", "SH", "SHpsk", "SHpskbad", "NST", "EOED", "EE", "EEearly", "CERT",
          "CERTempty", "CR", "CRctx", "CV", "CVbad", "FIN", "FINbad", "KU", "CCERT", "MH",
          "UNKNOWN"}
Msg(n) ==
  CASE n = "CH"        -> M("CLIENT_HELLO", TRUE, FALSE, FALSE)
    [] n = "CHpsk"     -> M("CLIENT_HELLO", TRUE, TRUE, FALSE)
    [] n = "CHpskbad"  -> M("CLIENT_HELLO", FALSE, TRUE, FALSE)
    [] n = "SH"        -> M("SERVER_HELLO", TRUE, FALSE, FALSE)
    [] n = "SHpsk"     -> M("SERVER_HELLO", TRUE, TRUE, FALSE)
    \* a ServerHello that selects the offered PSK but comes from a party that cannot hold it (another cipher suite than the
    \* ticket's, keys derived without the PSK): ok = FALSE, it authenticates nothing
    [] n = "SHpskbad"  -> M("SERVER_HELLO", FALSE, TRUE, FALSE)
    [] n = "NST"       -> M("NEW_SESSION_TICKET", TRUE, FALSE, FALSE)
    [] n = "EOED"      -> M("END_OF_EARLY_DATA", TRUE, FALSE, FALSE)
    [] n = "EE"        -> M("ENCRYPTED_EXTENSIONS", TRUE, FALSE, FALSE)
    \* content variants that must not steer the order: EncryptedExtensions carrying
    \* the early_data extension (whether or not a PSK was offered / selected), a
    \* CertificateRequest with a non-empty request context
    [] n = "EEearly"   -> [M("ENCRYPTED_EXTENSIONS", TRUE, FALSE, FALSE) EXCEPT !.variant = "early_data"]
    [] n = "CRctx"     -> [M("CERTIFICATE_REQUEST", TRUE, FALSE, FALSE) EXCEPT !.variant = "context"]
    [] n = "CERT"      -> M("CERTIFICATE", TRUE, FALSE, FALSE)
    [] n = "CERTempty" -> M("CERTIFICATE", TRUE, FALSE, TRUE)
    [] n = "CR"        -> M("CERTIFICATE_REQUEST", TRUE, FALSE, FALSE)
    [] n = "CV"        -> M("CERTIFICATE_VERIFY", TRUE, FALSE, FALSE)
    [] n = "CVbad"     -> M("CERTIFICATE_VERIFY", FALSE, FALSE, FALSE)
    [] n = "FIN"       -> M("FINISHED", TRUE, FALSE, FALSE)
    [] n = "FINbad"    -> M("FINISHED", FALSE, FALSE, FALSE)
    [] n = "KU"        -> M("KEY_UPDATE", TRUE, FALSE, FALSE)
    [] n = "CCERT"     -> M("COMPRESSED_CERTIFICATE", TRUE, FALSE, FALSE)
    [] n = "MH"        -> M("MESSAGE_HASH", TRUE, FALSE, FALSE)
    [] n = "UNKNOWN"   -> M("UNKNOWN", TRUE, FALSE, FALSE)
ClientAlphabet == Names \ {"CHpsk", "CHpskbad"}       \* what a client can be sent
ServerAlphabet == Names \ {"SHpsk", "SHpskbad"}                   \* what a server can be sent
Alphabet(role) == IF role = "client" THEN ClientAlphabet ELSE ServerAlphabet

(* Traffic keys: <<direction, epoch>> as passed to update_traffic_key_cb. *)
K(d, e) == <<d, e>>
AllKeys == {K(d, e) : d \in {"DECRYPT", "ENCRYPT"}, e \in {"ZERO_RTT", "HANDSHAKE", "ONE_RTT"}}
ZeroRtt == {K("DECRYPT", "ZERO_RTT"), K("ENCRYPT", "ZERO_RTT")}

---------------------------------------------------------------------------
(* State.  role/pskOffered(client)/certReq(server)/tickets(server) are the
   configuration; pskOffered of a server and certReq of a client are learnt
   from the peer.  transcript = the messages accepted so far (history). *)
InitState(role, pskOffered, certReq, tickets) ==
  [role |-> role,
   state |-> IF role = "client" THEN "CLIENT_HANDSHAKE_START" ELSE "SERVER_EXPECT_CLIENT_HELLO",
   pskOffered |-> (role = "client" /\ pskOffered),   \* client: holds a valid session ticket
   pskSelected |-> FALSE,
   certReq |-> (role = "server" /\ certReq),          \* server: asks for a client certificate
   tickets |-> (role = "server" /\ tickets),          \* server: can look session tickets up
   certSeen |-> FALSE, certVerified |-> FALSE, finVerified |-> FALSE,
   keys |-> {}, alert |-> "none", transcript |-> <<>>]

NoOut == [name |-> "", alert |-> "none", keys |-> {}]

\* tls.Context.handle_message(b"") of a fresh client (connection.py _connect):
\* the ClientHello goes out; with a ticket that allows it the 0-RTT send key
StartF(s) ==
  [st |-> [s EXCEPT !.state = "CLIENT_EXPECT_SERVER_HELLO"],
   out |-> [name |-> "", alert |-> "none", keys |-> {}]]

\* content conditions under which an admissible message may be accepted at all
Valid(s, m) ==
  CASE m.type = "SERVER_HELLO"        -> (m.psk => (s.pskOffered /\ m.ok))      \* RFC 8446 4.2.11
    [] m.type = "CERTIFICATE_VERIFY"  -> m.ok                          \* 4.4.3
    [] m.type = "FINISHED"            -> m.ok                          \* 4.4.4
    [] m.type = "CERTIFICATE"         -> (s.role = "client" => ~m.empty)  \* 4.4.2
    [] m.type = "CLIENT_HELLO"        -> (m.psk => m.ok) \/ ~s.tickets  \* 4.2.11 binder
    \* (whether an unsolicited early_data extension or a request context makes a
    \*  client abort is extension validation, which the statement leaves open: such a
    \*  message may be refused, or accepted exactly like the plain one)
    [] OTHER                          -> TRUE

(* History flags after a message was accepted (used by AcceptF and, on what
   the implementation accepted, by the trace module).  sel: the server's
   choice to resume from the offered PSK. *)
Flags(s, m, sel) ==
  [s EXCEPT
     !.transcript   = Append(@, m),
     !.pskOffered   = IF m.type = "CLIENT_HELLO" THEN m.psk /\ m.ok ELSE @,
     !.pskSelected  = IF m.type = "SERVER_HELLO" THEN m.psk /\ m.ok
                      ELSE IF m.type = "CLIENT_HELLO" THEN sel ELSE @,
     !.certReq      = IF s.role = "client" /\ m.type = "CERTIFICATE_REQUEST" THEN TRUE ELSE @,
     !.certSeen     = @ \/ (m.type = "CERTIFICATE" /\ ~m.empty),
     !.certVerified = @ \/ (m.type = "CERTIFICATE_VERIFY" /\ m.ok /\ s.certSeen),
     !.finVerified  = @ \/ (m.type = "FINISHED" /\ m.ok)]

\* successor state name and released keys when an admissible, valid message is accepted
NextState(s, m, sel) ==
  IF s.role = "client" THEN
    CASE m.type = "SERVER_HELLO"         -> "CLIENT_EXPECT_ENCRYPTED_EXTENSIONS"
      [] m.type = "ENCRYPTED_EXTENSIONS" -> IF s.pskSelected THEN "CLIENT_EXPECT_FINISHED"
                                            ELSE "CLIENT_EXPECT_CERTIFICATE_REQUEST_OR_CERTIFICATE"
      [] m.type = "CERTIFICATE_REQUEST"  -> "CLIENT_EXPECT_CERTIFICATE"
      [] m.type = "CERTIFICATE"          -> "CLIENT_EXPECT_CERTIFICATE_VERIFY"
      [] m.type = "CERTIFICATE_VERIFY"   -> "CLIENT_EXPECT_FINISHED"
      [] m.type = "FINISHED"             -> "CLIENT_POST_HANDSHAKE"
      [] OTHER                           -> s.state            \* NewSessionTicket
  ELSE
    CASE m.type = "CLIENT_HELLO"         -> IF s.certReq /\ ~sel THEN "SERVER_EXPECT_CERTIFICATE"
                                            ELSE "SERVER_EXPECT_FINISHED"
      [] m.type = "CERTIFICATE"          -> IF m.empty THEN "SERVER_EXPECT_FINISHED"
                                            ELSE "SERVER_EXPECT_CERTIFICATE_VERIFY"
      [] m.type = "CERTIFICATE_VERIFY"   -> "SERVER_EXPECT_FINISHED"
      [] m.type = "FINISHED"             -> "SERVER_POST_HANDSHAKE"
      [] OTHER                           -> s.state
Released(s, m) ==      \* 0-RTT keys are left open (they depend on the ticket)
  IF s.role = "client" THEN
    CASE m.type = "SERVER_HELLO"         -> {K("DECRYPT", "HANDSHAKE")}
      [] m.type = "ENCRYPTED_EXTENSIONS" -> {K("ENCRYPT", "HANDSHAKE")}
      [] m.type = "FINISHED"             -> {K("DECRYPT", "ONE_RTT"), K("ENCRYPT", "ONE_RTT")}
      [] OTHER                           -> {}
  ELSE
    CASE m.type = "CLIENT_HELLO"         -> {K("ENCRYPT", "HANDSHAKE"), K("DECRYPT", "HANDSHAKE"),
                                             K("ENCRYPT", "ONE_RTT")}
      [] m.type = "FINISHED"             -> {K("DECRYPT", "ONE_RTT")}
      [] OTHER                           -> {}

Refuse(s, n, a) == [st |-> [s EXCEPT !.alert = a],
                    out |-> [name |-> n, alert |-> a, keys |-> {}]]

(* Context.handle_message(one message).  r resolves what the statement leaves
   open: r.acc -- an admissible, valid message may still be refused (then with
   some alert, nothing changes); r.sel -- a server may decline a valid PSK. *)
RecvF(s, n, r) ==
  LET m == Msg(n) IN
  IF m.type \notin Allowed(s.state)
  THEN Refuse(s, n, "unexpected_message")
  ELSE IF ~Valid(s, m) \/ ~r.acc
  THEN Refuse(s, n, "other")
  ELSE LET sel == m.type = "CLIENT_HELLO" /\ m.psk /\ m.ok /\ s.tickets /\ r.sel
           rel == Released(s, m)
       IN [st |-> [Flags(s, m, sel) EXCEPT !.state = NextState(s, m, sel),
                                           !.keys = s.keys \cup rel],
           out |-> [name |-> n, alert |-> "none", keys |-> rel]]

(* Several messages in turn, every admissible and valid one accepted; stops at
   the first refusal.  Returns the final state and the keys released. *)
RECURSIVE Run(_, _, _, _)
Run(s, names, ks, sel) ==
  IF names = <<>> \/ s.alert # "none" THEN [st |-> s, keys |-> ks]
  ELSE LET x == RecvF(s, Head(names), [acc |-> TRUE, sel |-> sel]) IN
       Run(x.st, Tail(names), ks \cup x.out.keys, sel)

\* the model is not vacuous: the legal orders do complete
LegalRun(role, psk, creq, names) ==
  LET c == InitState(role, psk, creq, TRUE)
      s == IF role = "client" THEN StartF(c).st ELSE c IN
  Run(s, names, {}, TRUE).st.state
ASSUME LegalOrdersComplete ==
  /\ LegalRun("client", FALSE, FALSE, <<"SH", "EE", "CERT", "CV", "FIN", "NST">>) = "CLIENT_POST_HANDSHAKE"
  /\ LegalRun("client", TRUE, FALSE, <<"SH", "EE", "CR", "CERT", "CV", "FIN">>) = "CLIENT_POST_HANDSHAKE"
  /\ LegalRun("client", TRUE, FALSE, <<"SHpsk", "EE", "FIN">>) = "CLIENT_POST_HANDSHAKE"
  /\ LegalRun("client", TRUE, FALSE, <<"SHpsk", "EEearly", "FIN">>) = "CLIENT_POST_HANDSHAKE"
  /\ LegalRun("client", FALSE, FALSE, <<"SH", "EEearly", "FIN">>) # "CLIENT_POST_HANDSHAKE"
  /\ LegalRun("client", TRUE, FALSE, <<"SH", "EEearly", "FIN">>) # "CLIENT_POST_HANDSHAKE"
  /\ LegalRun("server", FALSE, FALSE, <<"CH", "FIN">>) = "SERVER_POST_HANDSHAKE"
  /\ LegalRun("server", FALSE, FALSE, <<"CHpsk", "FIN">>) = "SERVER_POST_HANDSHAKE"
  /\ LegalRun("server", FALSE, TRUE, <<"CH", "CERT", "CV", "FIN">>) = "SERVER_POST_HANDSHAKE"
  /\ LegalRun("server", FALSE, TRUE, <<"CH", "CERTempty", "FIN">>) = "SERVER_POST_HANDSHAKE"
  /\ LegalRun("server", FALSE, TRUE, <<"CHpsk", "FIN">>) = "SERVER_POST_HANDSHAKE"

---------------------------------------------------------------------------
(* Properties (C11; the clause of the statement each one encodes is quoted) *)

Handshake(tr) == SelectSeq(tr, LAMBDA x : x.type # "NEW_SESSION_TICKET")
TypesOf(tr) == [i \in DOMAIN tr |-> tr[i].type]

(* "No ordering, omission or repetition of the server's flight other than the
   legal one lets a client finish ...; in particular a client never accepts
   Finished without a verified CertificateVerify unless it offered, and the
   server selected, a pre-shared key."  Stated on the history alone. *)
LegalClientHistory(s) ==
  LET tr == Handshake(s.transcript)  ty == TypesOf(tr) IN
  \/ /\ ty \in {<<"SERVER_HELLO", "ENCRYPTED_EXTENSIONS", "CERTIFICATE",
                  "CERTIFICATE_VERIFY", "FINISHED">>,
                <<"SERVER_HELLO", "ENCRYPTED_EXTENSIONS", "CERTIFICATE_REQUEST",
                  "CERTIFICATE", "CERTIFICATE_VERIFY", "FINISHED">>}
     /\ \A i \in DOMAIN tr : tr[i].ok /\ ~tr[i].psk /\ ~tr[i].empty
  \/ /\ ty = <<"SERVER_HELLO", "ENCRYPTED_EXTENSIONS", "FINISHED">>
     /\ s.pskOffered /\ tr[1].psk /\ tr[3].ok
\* the same for the client's flight as seen by a server
LegalServerHistory(s) ==
  LET tr == Handshake(s.transcript)  ty == TypesOf(tr) IN
  \/ /\ s.certReq /\ ~s.pskSelected
     /\ \/ ty = <<"CLIENT_HELLO", "CERTIFICATE", "FINISHED">> /\ tr[2].empty /\ tr[3].ok
        \/ /\ ty = <<"CLIENT_HELLO", "CERTIFICATE", "CERTIFICATE_VERIFY", "FINISHED">>
           /\ ~tr[2].empty /\ tr[3].ok /\ tr[4].ok
  \/ /\ ~(s.certReq /\ ~s.pskSelected)
     /\ ty = <<"CLIENT_HELLO", "FINISHED">> /\ tr[2].ok
Authenticated(s) == s.certVerified \/ (s.pskOffered /\ s.pskSelected)

NoSkipOf(s) ==
  /\ (s.state = "CLIENT_POST_HANDSHAKE" => LegalClientHistory(s) /\ Authenticated(s))
  /\ (s.state = "SERVER_POST_HANDSHAKE" => LegalServerHistory(s))

(* "Traffic keys for an epoch are released only after the messages that
   authenticate them were verified." *)
HasType(s, t) == \E i \in DOMAIN s.transcript : s.transcript[i].type = t
Authorised(k, s) ==
  IF s.role = "client" THEN
    CASE k = K("ENCRYPT", "ZERO_RTT") -> s.pskOffered
      [] k[2] = "HANDSHAKE"           -> HasType(s, "SERVER_HELLO")
      [] k[2] = "ONE_RTT"             -> s.finVerified /\ Authenticated(s)
      [] OTHER                        -> FALSE
  ELSE
    CASE k = K("DECRYPT", "ZERO_RTT") -> s.pskSelected
      [] k[2] = "HANDSHAKE"           -> HasType(s, "CLIENT_HELLO")
      [] k = K("ENCRYPT", "ONE_RTT")  -> HasType(s, "CLIENT_HELLO")     \* 0.5-RTT data
      [] k = K("DECRYPT", "ONE_RTT")  -> s.finVerified /\ (s.certSeen => s.certVerified)
      [] OTHER                        -> FALSE
KeysAfterAuthOf(s) == \A k \in s.keys : Authorised(k, s)

---------------------------------------------------------------------------
(* Exploration 1 ("all 13 states x all message types"): every configuration,
   the adversary feeds any message of the alphabet at any time. *)
Apply(x) == st' = x.st /\ out' = x.out
Configs == {InitState("client", p, FALSE, FALSE) : p \in BOOLEAN}
           \cup {InitState("server", FALSE, c, t) : c \in BOOLEAN, t \in BOOLEAN}
Alive(s) == s.alert = "none"
Start == /\ st.state = "CLIENT_HANDSHAKE_START" /\ Apply(StartF(st))
Recv(n) == /\ Alive(st) /\ st.state # "CLIENT_HANDSHAKE_START"
           /\ \E acc \in BOOLEAN, sel \in BOOLEAN :
                 Apply(RecvF(st, n, [acc |-> acc, sel |-> sel]))
Init == st \in Configs /\ out = NoOut /\ script = <<>> /\ pos = 0
Next == /\ UNCHANGED <<script, pos>>
        /\ \/ Start
           \/ /\ Len(st.transcript) < MaxLen
              /\ \E n \in Alphabet(st.role) : Recv(n)
Spec == Init /\ [][Next]_vars

(* Exploration 2 ("all permutations and sub-multisets of the flights"): a
   genuine hello, then a fixed script over the flight; the receiver accepts
   whatever it may accept.  Every script is printed so that the driver replays
   exactly the scripts TLC enumerated into the real code. *)
Count(x, sq) == Cardinality({i \in DOMAIN sq : sq[i] = x})
SeqsOver(A) == UNION {[1..k -> A] : k \in 1..ScriptLen}
Flights(A) == {f \in SeqsOver(A) : \A a \in A : Count(a, f) <= ScriptRep}
\* sent to a client: the flight, and the flight whose EncryptedExtensions
\* carries early_data; sent to a server: the client's flight
FlightAlphabets(role) ==
  IF role = "client" THEN {{"EE", "CR", "CERT", "CV", "FIN"}, {"EEearly", "CR", "CERT", "CV", "FIN"}}
  ELSE {{"CERT", "CERTempty", "CV", "FIN"}}
Hellos(s) == IF s.role = "client"
             THEN (IF s.pskOffered THEN {"SH", "SHpsk", "SHpskbad"} ELSE {"SH"})
             ELSE (IF s.tickets THEN {"CH", "CHpsk"} ELSE {"CH"})
Scripts(s) == {<<h>> \o f : h \in Hellos(s),
                            f \in UNION {Flights(A) : A \in FlightAlphabets(s.role)}}
ScriptConfigs == {InitState("client", p, FALSE, FALSE) : p \in BOOLEAN}
                 \cup {InitState("server", FALSE, c, TRUE) : c \in BOOLEAN}
RECURSIVE Join(_)
Join(sq) == IF sq = <<>> THEN "" ELSE
            IF Len(sq) = 1 THEN sq[1] ELSE sq[1] \o "," \o Join(Tail(sq))
B(b) == IF b THEN "1" ELSE "0"
InitScript ==
  /\ \E c \in ScriptConfigs :
        /\ st = (IF c.role = "client" THEN StartF(c).st ELSE c)
        /\ script \in Scripts(c)
        /\ PrintT(<<"CASE", c.role \o "|" \o B(c.pskOffered) \o B(c.certReq) \o B(c.tickets)
                             \o "|" \o Join(script)>>)
  /\ out = NoOut /\ pos = 0
NextScript ==
  /\ Alive(st) /\ pos < Len(script)
  /\ Apply(RecvF(st, script[pos + 1], [acc |-> TRUE, sel |-> TRUE]))
  /\ pos' = pos + 1 /\ UNCHANGED script
SpecScript == InitScript /\ [][NextScript]_vars

---------------------------------------------------------------------------
TypeOk == /\ st.state \in (IF st.role = "client" THEN ClientStates ELSE ServerStates)
          /\ st.keys \subseteq AllKeys
          /\ st.alert \in {"none", "unexpected_message", "other"}
NoSkip == NoSkipOf(st)
KeysAfterAuth == KeysAfterAuthOf(st)

(* "In every handshake state, only the message types TLS 1.3 permits next are
   processed and any other type is refused with an unexpected-message alert
   without changing state or installing keys." *)
RefusalIsUnexpectedMessage ==
  [][out'.name # "" =>
       IF Msg(out'.name).type \in Allowed(st.state)
       THEN out'.alert # "unexpected_message"
       ELSE /\ out'.alert = "unexpected_message"
            /\ st'.state = st.state /\ st'.keys = st.keys
            /\ st'.transcript = st.transcript]_vars
\* a refused message never changes anything but the alert
RefusedChangesNothing ==
  [][out'.alert # "none" => st' = [st EXCEPT !.alert = out'.alert]]_vars
============================================================================
