------------------------- MODULE TraceBufferModel -------------------------
(* Judges every recorded Buffer call (executed in the sanitizer build) with the
   operators of BufferModel.  A line:
     [m, cap, pos, lead, a, b, n, out: [kind, ret], pos2, cap2, san, sig, usable, died] *)
EXTENDS BufferModel, TraceBase

Pre(e)    == [cap |-> e.cap, pos |-> e.pos]
CallOf(e) == Call(e.m, e.a, e.b, e.n, e.lead)
InAlphabet(e) ==
  \/ e.m = "new"
  \/ e.m \in Methods /\ e.n >= 0 /\ e.lead \in 0..3

(* statement clauses first: no report, no crash; an accepted call touches only
   [0, cap) and leaves pos in 0..cap; a rejected call leaves the buffer usable
   with pos in range; a negative capacity is not accepted.  "model:" clauses
   (which exception, exact pos', return value, pos unchanged on rejection) are
   drift. *)
MethodClauses(e) ==
  LET s0 == Pre(e)  res == MethodF(s0, CallOf(e)) IN
  << <<"harness-guard", InAlphabet(e)>>,
     <<"out-of-bounds-accepted", ~(e.died = 0 /\ e.out.kind = "ok" /\ e.cap >= 0 /\ e.pos \in 0..e.cap
                                   /\ res.out.kind \in {Rd, Wr})>>,
     <<"sanitizer", e.san = "">>,
     <<"crash", e.died = 0>>,
     <<"pre-state-out-of-range", e.cap >= 0 /\ e.pos \in 0..e.cap>>,      \* left behind by an earlier call
     <<"pos-out-of-range", e.pos2 \in 0..e.cap /\ e.cap2 = e.cap>>,
     <<"unusable", e.usable # 0>>,
     <<"model:outcome", e.out.kind = res.out.kind>>,
     <<"model:pos", e.pos2 = res.st.pos>>,
     <<"model:return", e.out.kind = "ok" /\ res.out.kind = "ok" => e.out.ret = res.out.ret>>,
     <<"model:step", StepOk(s0, res)>> >>

NewClauses(e) ==
  << \* (with initial contents the capacity argument is not what sizes the buffer: only the contents clause applies)
     <<"negative-capacity-accepted", ~(e.died = 0 /\ e.out.kind = "ok" /\ FitsSsize(e.a) /\ Neg(e.a) /\ e.n = 0)>>,
     <<"sanitizer", e.san = "">>,
     <<"crash", e.died = 0>>,
     <<"unusable", e.usable # 0>>,
     <<"pos-out-of-range", e.out.kind = "ok" => e.pos2 = 0 /\ e.cap2 >= 0>>,
     \* initial contents given together with a capacity (e.n bytes): an accepted buffer holds them all
     <<"initial-contents-do-not-fit", (e.died = 0 /\ e.out.kind = "ok" /\ e.n > 0) => e.cap2 >= e.n>>,
     <<"model:outcome", e.n > 0 \/ e.out.kind \in NewOutcomes(e.a)>>,
     <<"model:capacity", (e.out.kind = "ok" /\ IsSmall(e.a) /\ e.n = 0) => e.cap2 = Val(e.a)>> >>

Clauses(e) == IF e.m = "new" THEN NewClauses(e) ELSE MethodClauses(e)

TInit == l = 1 /\ s = [cap |-> 0, pos |-> 0] /\ depth = 0 /\ last = "init"
TNext == Judge(Clauses) /\ UNCHANGED vars
TSpec == TInit /\ [][TNext]_<<l, vars>>
============================================================================
