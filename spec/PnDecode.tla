------------------------------ MODULE PnDecode -----------------------------
(* Packet-number expansion (RFC 9000 appendix A.3; aioquic packet.decode_packet_number)
   - clause (b) of property C02: "a truncated packet number is always expanded to the
   candidate closest to the next expected number".

   Dec is an arithmetic transcription of the implementation; Good states the requirement
   declaratively: the result is congruent to the truncated value, lies in the packet number
   space, and neither in-range neighbour one window away is strictly closer to the expected
   number.  S is the size of the packet number space (2^62; scaled down for TLC, whose
   integers are 32 bit - the unbounded lemma is checked with Apalache, see MC_PnDecode). *)
EXTENDS Integers, PnDecodeOps

(* scaled instance, exhaustive with TLC *)
CONSTANTS Space, Windows
VARIABLE done
Init == done = FALSE
Next == done' = TRUE
Spec == Init /\ [][Next]_done
Lemma == \A w \in Windows : \A e \in 0 .. Space - 1 : \A t \in 0 .. w - 1 : Good(Dec(t, w, e, Space), t, w, e, Space)
=============================================================================
