----------------------------- MODULE ConnTotal -----------------------------
(* Totality of the QUIC/TLS connection API under network input - property C05.

   "For every byte string handed to a connection as a received datagram, in
    every connection state, including correctly protected packets carrying
    arbitrary frames or arbitrary TLS handshake messages, the call returns
    normally: the input is ignored, or the connection closes itself with an
    error code.  Afterwards the timer, transmit and event calls keep returning
    normally until the connection reports termination."

   One endpoint (aioquic QuicConnection) of role `role` is in connection phase
   `phase`.  The environment makes the five calls of the sans-IO API:
     receive_datagram   - action Receive(c) for an input class c (hostile), or
                          Genuine (the next message of a valid handshake / a
                          genuine close of the peer: the "valid prefix")
     datagrams_to_send  - Transmit        get_timer   - GetTimer
     handle_timer       - HandleTimer     next_event  - NextEvent
   Each call has an outcome; `Raised` (an exception escaping the call) is an
   outcome that no action produces.  After termination has been reported by
   next_event (ConnectionTerminated) no call is made.

   Which of Ignored / Progress / Close(code) a class gets in a phase is the
   table Allowed(role, phase, c) below.  It follows RFC 9000/9001/8446 and
   what the implementation does; the property's statement does not fix it, so
   a disagreement of the implementation with this table is specification
   drift, never a violation.  The value of the model-checking run is the
   enumeration: TLC visits every phase by every valid prefix and tries every
   input class there; it prints each (role, phase, class) edge and the driver
   replays every one on a real connection driven to that phase. *)
EXTENDS Naturals, Sequences, FiniteSets, TLC

CONSTANTS MaxHostile,     \* hostile inputs per behaviour explored by TLC
          PrintEdges      \* TRUE: print every (role, phase, class) edge once per source state

Roles == {"client", "server"}
\* handshake ladder of each role (TLS state classes of aioquic.tls.State, then completion / confirmation)
Ladder(r) == IF r = "client" THEN <<"first", "ee", "cert", "cv", "fin", "complete", "confirmed">>
                             ELSE <<"first", "ch", "fin", "confirmed">>
LivePhases(r) == {Ladder(r)[i] : i \in DOMAIN Ladder(r)}
\* the endpoint has decided to close / is closing / draining: nothing received is processed any more
DeadPhases == {"closepending", "hsclosepending", "hsclosing", "closing", "draining"}
Phases(r) == LivePhases(r) \cup DeadPhases \cup {"terminated"}
Confirmed(p) == p \in {"confirmed", "closing"}

-----------------------------------------------------------------------------
(* Input classes (DESIGN.md appendix B.1, B.2, B.3).  A class is a record
   [lvl, name, ep]: lvl "d" = a raw datagram nobody authenticated, "f" = a
   correctly protected packet of a key-holding peer in packet epoch ep
   (i = Initial, h = Handshake, z = 0-RTT, a = 1-RTT) carrying frames, "t" = a
   TLS handshake message inside well-formed CRYPTO frames. *)
Epochs == {"i", "h", "z", "a"}

DgramFam ==
  [ garbage  |-> {"empty", "one-byte", "rand-small", "rand-1199", "rand-1200", "rand-1201", "rand-65535"},
    longhdr  |-> {"long-fixed-bit-0", "long-unknown-version", "long-dcid-len", "long-scid-len", "long-trunc-each-field",
                  "initial-token-len", "initial-length-field", "initial-lt-1200", "initial-unknown-keys",
                  "zerortt-unknown-keys", "handshake-unknown-keys", "handshake-unknown-dcid"},
    vn       |-> {"vn-none", "vn-unsupported", "vn-many", "vn-odd-length", "vn-current", "vn-other-supported", "vn-wrong-dcid"},
    retry    |-> {"retry-short", "retry-bad-tag", "retry-valid", "retry-valid-twice", "retry-wrong-dcid"},
    short    |-> {"short-lt-cid", "short-unknown-cid", "short-fixed-bit-0", "short-unknown-keys", "stateless-reset-shaped"},
    genuine  |-> {"genuine-trunc", "genuine-byte-insert", "genuine-byte-remove", "genuine-bitflip", "genuine-concat",
                  "genuine-coalesce-wrong-order", "genuine-replay", "genuine-plus-garbage"} ]
DgramNames == UNION {DgramFam[f] : f \in DOMAIN DgramFam}
FamOf(n) == CHOOSE f \in DOMAIN DgramFam : n \in DgramFam[f]

FrameTypes == {"padding", "ping", "ack", "ack_ecn", "reset_stream", "stop_sending", "crypto", "new_token", "stream",
               "max_data", "max_stream_data", "max_streams_bidi", "max_streams_uni", "data_blocked",
               "stream_data_blocked", "streams_blocked_bidi", "streams_blocked_uni", "new_connection_id",
               "retire_connection_id", "path_challenge", "path_response", "close_transport", "close_app",
               "handshake_done", "datagram", "datagram_len"}
NoFields == {"padding", "ping", "handshake_done"}
Aspects(t) == IF t \in NoFields THEN {"min", "repeat"} ELSE {"min", "fields", "trunc", "repeat"}
FrameSpecific == {"unknown-type-0x1f", "unknown-type-0x20", "unknown-type-0x40", "type-2byte-encoding", "type-8byte-encoding",
                  "type-truncated-varint", "empty-payload", "padding-only",
                  "ack:first-gt-largest", "ack:range-count-huge", "ack:gaps-negative", "ack:ecn-truncated", "ack:never-sent",
                  "crypto:offsets", "crypto:garbage", "stream:flags-kinds", "stream:limits", "stream:final-size",
                  "streamctl:kinds", "max_streams:2^60", "streams_blocked:2^60",
                  "ncid:cid-lengths", "ncid:rpt-vs-seq", "ncid:duplicates", "ncid:out-of-order", "ncid:exceed-limit",
                  "ncid:consume-sequence", "rcid:unknown-current-retired", "path_challenge:x33",
                  "path_response:unsolicited-dup", "close:reason-not-utf8", "close:reason-len-beyond", "close:codes",
                  "datagram:sizes", "hdr:reserved-bits", "hdr:fixed-bit-0", "hdr:pn-far-ahead", "hdr:pn-far-behind",
                  "hdr:pn-duplicate", "hdr:pnlen-each", "hdr:key-phase-flip", "hdr:pn-gaps-700", "mix:random-frames"}
FrameClasses ==
  UNION {{[lvl |-> "f", name |-> t \o ":" \o a, ep |-> e, ft |-> t, asp |-> a] : a \in Aspects(t), e \in Epochs} : t \in FrameTypes}
  \cup {[lvl |-> "f", name |-> n, ep |-> e, ft |-> "", asp |-> ""] : n \in FrameSpecific, e \in Epochs}

TlsMsgs == {"ch", "sh", "ee", "cert", "cv", "fin", "nst"}
TlsGenericMut == {"genuine", "wrong-type-byte", "len-plus-1", "len-minus-1", "trunc-body", "trailing", "empty-body"}
HelloMut == {"legacy-version", "ciphers-empty", "ciphers-unknown", "compression-empty", "compression-nonnull",
             "ext-missing-each", "ext-dup-each", "ext-empty-each", "ext-innerlen-beyond", "ext-unknown",
             "supported-versions-no-13", "keyshare-empty", "keyshare-unknown-group", "keyshare-short-key",
             "keyshare-long-key", "keyshare-invalid-point"}
ChOnlyMut == {"sni-nonascii", "sni-empty", "sni-unknown-type", "alpn-empty-list", "alpn-empty-name", "alpn-nonascii",
              "alpn-no-overlap", "psk-not-last", "psk-identities", "psk-binder-len", "psk-unknown-identity",
              "early-data-without-psk", "sigalgs-unknown", "groups-unknown", "tp-missing", "tp-truncated", "tp-duplicated",
              "tp-bounds", "tp-forbidden-from-client", "tp-version-information"}
ShOnlyMut == {"psk-selected-index", "hello-retry-request", "cipher-not-offered", "ext-forbidden"}
EeMut == {"alpn-empty-list", "alpn-two", "alpn-nonascii", "alpn-not-offered", "tp-missing", "tp-truncated", "tp-duplicated",
          "tp-bounds", "tp-version-information", "tp-server-only-params", "ext-dup-each", "ext-forbidden", "early-data-unsolicited"}
CertMut == {"empty-list", "garbage-der", "zero-length-cert", "long-chain", "nonempty-context", "entry-extensions", "other-valid-cert"}
CvMut == {"alg-not-advertised", "alg-unknown", "sig-empty", "sig-garbage"}
FinMut == {"wrong-length", "wrong-mac"}
NstMut == {"max-early-data-size", "truncated", "ext-dup-each", "huge-ticket"}
TlsOther == {"keyupdate", "unknown-type", "certreq-synthetic", "certreq-empty", "end-of-early-data", "message-huge-length",
             "split-every-byte", "out-of-order", "overlapping", "offset-gap", "crypto-buffer-exceeded",
             "wrong-epoch:i", "wrong-epoch:h", "wrong-epoch:a", "two-messages-one-frame"}
TlsNames == {m \o ":" \o x : m \in TlsMsgs, x \in TlsGenericMut}
            \cup {"ch:" \o x : x \in HelloMut \cup ChOnlyMut} \cup {"sh:" \o x : x \in HelloMut \cup ShOnlyMut}
            \cup {"ee:" \o x : x \in EeMut} \cup {"cert:" \o x : x \in CertMut} \cup {"cv:" \o x : x \in CvMut}
            \cup {"fin:" \o x : x \in FinMut} \cup {"nst:" \o x : x \in NstMut} \cup TlsOther

Classes == [lvl : {"d"}, name : DgramNames, ep : {"-"}, ft : {""}, asp : {""}]
           \cup FrameClasses
           \cup [lvl : {"t"}, name : TlsNames, ep : {"-"}, ft : {""}, asp : {""}]
ClassId(c) == c.lvl \o ":" \o c.name \o (IF c.ep = "-" THEN "" ELSE "@" \o c.ep)

-----------------------------------------------------------------------------
(* Can the endpoint open a packet of epoch ep in this phase?  "yes" / "no" /
   "maybe" (depends on whether keys were already discarded: RFC 9001 4.9). *)
Opens(r, p, ep) ==
  IF p \in DeadPhases \cup {"terminated"} \/ ep = "z" THEN "no"
  ELSE IF r = "client" THEN
    CASE ep = "i" -> IF p \in {"first", "ee"} THEN "yes" ELSE IF p \in {"cert", "cv", "fin"} THEN "maybe" ELSE "no"
      [] ep = "h" -> IF p \in {"ee", "cert", "cv", "fin", "complete"} THEN "yes" ELSE "no"
      [] ep = "a" -> IF p \in {"complete", "confirmed"} THEN "yes" ELSE "no"
  ELSE
    CASE ep = "i" -> IF p \in {"first", "ch"} THEN "yes" ELSE IF p = "fin" THEN "maybe" ELSE "no"
      [] ep = "h" -> IF p = "fin" THEN "yes" ELSE "no"
      [] ep = "a" -> IF p = "confirmed" THEN "yes" ELSE "no"

\* the epoch whose CRYPTO stream the endpoint's TLS state is reading
CurEpoch(r, p) == IF r = "client" THEN (IF p = "first" THEN "i" ELSE IF p \in {"ee", "cert", "cv", "fin"} THEN "h" ELSE "a")
                  ELSE (IF p \in {"first", "ch"} THEN "i" ELSE IF p = "fin" THEN "h" ELSE "a")

TransportCodes == 0 .. 16
CryptoCodes == 256 .. 511
BigCode == 1073741824            \* stands for every code >= 2^30 (application codes of a peer's CONNECTION_CLOSE)
AnyCode == TransportCodes \cup CryptoCodes \cup {BigCode} \cup 17 .. 255 \cup 512 .. 1024
Out(kinds, codes) == [kinds |-> kinds, codes |-> codes]
Drop    == Out({"Ignored"}, {})
Benign  == Out({"Ignored", "Progress"}, {})
Fatal(codes) == Out({"Close"}, codes)
Open    == Out({"Ignored", "Progress", "Close"}, AnyCode)

\* RFC 9000 table 3: packet types a frame may appear in
FrameIn(t) == CASE t \in {"padding", "ping", "close_transport"} -> {"i", "h", "z", "a"}
                [] t \in {"ack", "ack_ecn", "crypto"} -> {"i", "h", "a"}
                [] t \in {"new_token", "handshake_done"} -> {"a"}
                [] OTHER -> {"z", "a"}
\* frame classes that are protocol errors whatever the state (given the packet is opened)
AlwaysFatal == {"unknown-type-0x1f", "unknown-type-0x20", "unknown-type-0x40", "type-truncated-varint", "empty-payload",
                "ack:ecn-truncated", "close:reason-len-beyond", "hdr:reserved-bits"}
\* frame classes that never authenticate / never reach frame processing
NeverOpened == {"hdr:fixed-bit-0"}

FrameOutcome(r, p, c) ==
  LET t == c.ft a == c.asp IN
  IF c.name \in NeverOpened THEN Benign
  ELSE IF c.name \in AlwaysFatal THEN Fatal({7, 10})
  ELSE IF t # "" /\ c.ep \notin FrameIn(t) /\ a # "repeat" THEN Fatal({10, 7})          \* frame not permitted in this packet type
  ELSE IF r = "server" /\ p = "first" THEN Open                        \* first Initial without CRYPTO data is an error (RFC 9000 17.2.2)
  ELSE IF a = "trunc" THEN Fatal({7, 10})
  ELSE IF a = "repeat" /\ t \notin {"padding", "ping"} THEN Open      \* includes packets larger than the receiver's buffer, which are not opened
  ELSE IF t \in {"close_transport", "close_app"} \/ c.name \in {"close:reason-not-utf8", "close:codes"}
       THEN Out({"Close"}, AnyCode)                                     \* the peer closed: draining, its code is reported
  ELSE IF t \in {"padding", "ping"} /\ a \in {"min", "repeat"} THEN Benign
  ELSE IF c.name = "padding-only" THEN Benign
  ELSE Open

\* datagram-level classes: nothing here authenticates, except replayed / re-coalesced genuine packets and Retry / VN
DgramOutcome(r, p, c) ==
  LET f == FamOf(c.name) IN
  IF f = "vn" THEN (IF r = "client" /\ p = "first" THEN Out({"Ignored", "Progress", "Close"}, {1}) ELSE Drop)
  ELSE IF f = "retry" THEN (IF r = "client" /\ p = "first" THEN Benign ELSE Drop)
  ELSE IF f = "genuine" THEN Out({"Ignored", "Progress"}, {})
  ELSE IF f = "longhdr" /\ Opens(r, p, "i") # "no" THEN Open            \* some of these carry a correctly protected Initial packet
  ELSE Out({"Ignored", "Progress"}, {})     \* Progress: an unreadable packet makes a client re-send its flight (lost-Initial heuristic)

TlsOutcome(r, p, c) == Open

Allowed(r, p, c) ==
  IF p \in DeadPhases THEN Drop
  ELSE IF c.lvl = "d" THEN DgramOutcome(r, p, c)
  ELSE IF c.lvl = "f" THEN
        (CASE Opens(r, p, c.ep) = "no" -> Benign
           [] Opens(r, p, c.ep) = "yes" -> FrameOutcome(r, p, c)
           [] OTHER -> LET o == FrameOutcome(r, p, c) IN Out(o.kinds \cup {"Ignored", "Progress"}, o.codes))
  ELSE TlsOutcome(r, p, c)

(* Classes the endpoint cannot tell apart in a phase share a signature class:
   a packet it cannot open is just "a packet of that type". *)
WrongEpochOf(n) == CASE n = "wrong-epoch:i" -> "i" [] n = "wrong-epoch:h" -> "h" [] n = "wrong-epoch:a" -> "a" [] OTHER -> ""
SigClass(r, p, c) ==
  IF c.lvl = "f" /\ (Opens(r, p, c.ep) = "no" \/ c.name \in NeverOpened) /\ p \notin DeadPhases THEN "f:unopenable@" \o c.ep
  ELSE IF c.lvl = "t" /\ WrongEpochOf(c.name) # "" /\ Opens(r, p, WrongEpochOf(c.name)) = "no" /\ p \notin DeadPhases
       THEN "f:unopenable@" \o WrongEpochOf(c.name)
  ELSE IF c.lvl = "d" THEN "d:" \o FamOf(c.name)
  ELSE ClassId(c)

-----------------------------------------------------------------------------
VARIABLES role, phase, reported, last, hostile
vars == <<role, phase, reported, last, hostile>>

Calls == {"receive_datagram", "datagrams_to_send", "get_timer", "handle_timer", "next_event"}
Outcomes == {"Normal", "Ignored", "Progress", "Close", "Raised"}

\* outcome of one of the four calls that take no network input: the only outcome is Normal
ApiF(st, call) == [st |-> st, out |-> "Normal"]
\* is a recorded outcome of an API call one that the model's action for it allows?
CallAllowed(rep, call, out) == ~rep /\ call \in Calls /\ out \in Outcomes \ {"Raised"}

Init == /\ role \in Roles /\ phase = "first" /\ reported = FALSE
        /\ last = [call |-> "create", out |-> "Normal"] /\ hostile = 0

Idx(r, p) == CHOOSE i \in DOMAIN Ladder(r) : Ladder(r)[i] = p
\* the valid prefix: the genuine peer's next handshake message arrives, or its CONNECTION_CLOSE
Genuine == /\ ~reported /\ phase \in LivePhases(role)
           /\ \/ /\ Idx(role, phase) < Len(Ladder(role))
                 /\ phase' = Ladder(role)[Idx(role, phase) + 1]
              \/ phase' = "draining"
           /\ last' = [call |-> "receive_datagram", out |-> "Progress"]
           /\ UNCHANGED <<role, reported, hostile>>
\* the application calls close()
AppClose == /\ ~reported /\ phase \in LivePhases(role)
            /\ phase' = (IF phase = "confirmed" THEN "closepending" ELSE "hsclosepending")
            /\ last' = [call |-> "close", out |-> "Normal"] /\ UNCHANGED <<role, reported, hostile>>

After(r, p, k) == CASE k = "Ignored" -> {p}
                    [] k = "Progress" -> {p} \cup (IF p \in LivePhases(r) /\ Idx(r, p) < Len(Ladder(r)) THEN {Ladder(r)[Idx(r, p) + 1]} ELSE {})
                    [] k = "Close" -> {IF p = "confirmed" THEN "closepending" ELSE "hsclosepending", "draining", "terminated"}

Receive(c) ==
  /\ ~reported /\ phase # "terminated" /\ hostile < MaxHostile
  /\ LET al == Allowed(role, phase, c) IN
     /\ (PrintEdges /\ hostile = 0) =>
           PrintT("EDGE|" \o role \o "|" \o phase \o "|" \o c.lvl \o "|" \o c.name \o "|" \o c.ep \o "|" \o SigClass(role, phase, c)
                     \o "|" \o CurEpoch(role, phase) \o "|" \o c.ft \o "|" \o c.asp)
     /\ \E k \in al.kinds :
          /\ phase' \in After(role, phase, k)
          /\ last' = [call |-> "receive_datagram", out |-> k]
  /\ hostile' = hostile + 1
  /\ UNCHANGED <<role, reported>>

\* datagrams_to_send: a pending close is sent and the closing period begins
Transmit == /\ ~reported
            /\ phase' = (IF phase = "closepending" THEN "closing" ELSE IF phase = "hsclosepending" THEN "hsclosing" ELSE phase)
            /\ last' = [call |-> "datagrams_to_send", out |-> ApiF(phase, "datagrams_to_send").out]
            /\ UNCHANGED <<role, reported, hostile>>
GetTimer == /\ ~reported /\ last' = [call |-> "get_timer", out |-> ApiF(phase, "get_timer").out]
            /\ UNCHANGED <<role, phase, reported, hostile>>
\* handle_timer: loss detection / probe, or the end of the closing, draining or idle period
HandleTimer == /\ ~reported /\ phase # "terminated"
               /\ phase' \in {phase, "terminated"}
               /\ (phase \in {"closing", "hsclosing", "draining"} => phase' = "terminated")
               /\ last' = [call |-> "handle_timer", out |-> ApiF(phase, "handle_timer").out]
               /\ UNCHANGED <<role, reported, hostile>>
\* next_event: reports termination exactly when the connection has terminated
NextEvent == /\ ~reported /\ reported' = (phase = "terminated")
             /\ last' = [call |-> "next_event", out |-> ApiF(phase, "next_event").out]
             /\ UNCHANGED <<role, phase, hostile>>

Next == Genuine \/ AppClose \/ (\E c \in Classes : Receive(c)) \/ Transmit \/ GetTimer \/ HandleTimer \/ NextEvent
Spec == Init /\ [][Next]_vars

-----------------------------------------------------------------------------
TypeOk == /\ role \in Roles /\ phase \in Phases(role) /\ reported \in BOOLEAN /\ hostile \in 0 .. MaxHostile
          /\ last.out \in Outcomes
\* the property: no call ever has the outcome Raised
NeverRaised == last.out # "Raised"
\* "afterwards the timer, transmit and event calls keep returning normally until the connection reports termination"
ApiAlwaysEnabled == ~reported => (ENABLED Transmit /\ ENABLED GetTimer /\ ENABLED NextEvent
                                  /\ (phase # "terminated" => ENABLED HandleTimer))
\* after termination has been reported no call is made
QuietAfterReport == reported => ~ENABLED Next
ReportOnlyWhenTerminated == reported => phase = "terminated"
\* every class has an outcome in every phase (the table is total), and closing always names at least one code
TableTotal == \A c \in Classes : LET al == Allowed(role, phase, c) IN
                 phase # "terminated" => (al.kinds # {} /\ al.kinds \subseteq {"Ignored", "Progress", "Close"}
                                           /\ ("Close" \in al.kinds => al.codes # {}))
=============================================================================
