--------------------------- MODULE HeaderRulesMC ---------------------------
(* (M) The stream of HeaderRules as a state machine over a small universe of
   frames: one action per operator (FrameF, FinF); TLC checks that whatever
   sequence of frames a peer sends, and however the nondeterminism the
   statement leaves is resolved, every delivered header block is well-formed
   and a stream that ended agrees with its declared content-length. *)
EXTENDS HeaderRules

CONSTANTS MaxBody,       \* model checking only: body bytes per stream
          Big            \* model checking only: the larger pool of headers
VARIABLES role, st, seen, out
vars == <<role, st, seen, out>>

h(n, v) == <<n, v>>
Va == <<97>>
MPool == {h(PMethod, Va), h(PStatus, Va), h(Va, Va), h(<<65>>, Va), h(ContentLength, <<49>>), h(ContentLength, <<50>>)}
         \cup (IF Big THEN {h(PPath, Va), h(<<58, 97>>, Va), h(Va, <<32>>), h(ContentLength, <<43, 49>>)} ELSE {})
MLists == UNION {[1..k -> MPool] : k \in 0..2}
MFrames == {HF(x) : x \in MLists} \cup {PF(x) : x \in MLists} \cup {DF(n) : n \in 0..2}

Init == /\ role \in Roles /\ st = InitStream /\ seen = {} /\ out = Accepted
Open == st.closed = 0 /\ ~st.ended
RecvFrame(f, fin) ==
  /\ Open /\ FrameLegal(role, st, f)
  /\ f.t = "D" => st.body + f.n <= MaxBody
  /\ \E r \in FrameF(role, st, f, fin) :
       /\ st' = r.st /\ out' = r.out
       /\ seen' = IF r.out.k = "Accept" /\ f.t \in {"H", "P"}
                  THEN seen \cup {<<KindOf(role, st, f), f.hs>>} ELSE seen
  /\ UNCHANGED role
RecvFin ==
  /\ Open
  /\ \E r \in FinF(st) : st' = r.st /\ out' = r.out
  /\ UNCHANGED <<role, seen>>
Next == RecvFin \/ \E f \in MFrames, fin \in BOOLEAN : RecvFrame(f, fin)
Spec == Init /\ [][Next]_vars

TypeOk == /\ st.phase \in {"initial", "headers", "trailers"} /\ st.body \in 0..MaxBody
          /\ st.ended \in BOOLEAN /\ st.closed \in {0, H3_MESSAGE_ERROR, H3_GENERAL_PROTOCOL_ERROR}
\* every header block handed to the application is well-formed
DeliveredWellFormed == \A e \in seen : WellFormed(e[1], e[2])
\* when a stream has ended (and the application was told), content-length agrees
EndedMatches == st.ended => ~CertainMismatch(st.declared, st.loose, st.body)
============================================================================
