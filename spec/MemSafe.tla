------------------------------ MODULE MemSafe ------------------------------
(* Access model of the native crypto helper src/aioquic/_crypto.c (C04).

   A call of one of the four C entry points is a record
       [ep, x, y, pn]
   ep = "AEAD_decrypt" | "AEAD_encrypt":  x = len(data), y = len(associated)
   ep = "HP_apply":   x = len(header), y = len(payload), pn = (header[0] & 3) + 1
   ep = "HP_remove":  x = len(packet), y = pn_offset,    pn = pn_length found
                                                        after unmasking byte 0
   Per entry point the module transcribes
     * LenGuard  - the argument checks the C code had when it was transcribed
                   (before them nothing but PyArg_ParseTuple runs);
     * FixGuard  - the bounds checks of the proposed repair; an entry point in
                   the set B ("bounded") executes them as well;
     * Accesses  - the byte ranges the code then reads / writes, in code
                   order, as functions of the argument lengths and of pn.
   InBounds(c): every range lies inside its object.  The objects are the bytes
   arguments (extent = their length; CPython's trailing NUL is not counted),
   the fixed scratch of Scratch = PACKET_LENGTH_MAX bytes inside the AEAD /
   HeaderProtection object, and the 31-byte mask.

   Second layer (the callers): which calls the library can make --
   receive_datagram / pull_quic_header / CryptoContext.decrypt_packet for
   datagrams of up to MaxDatagram bytes, QuicPacketBuilder._end_packet /
   encrypt_packet for max_datagram_size >= MinMds.

   The model-checking configuration is flat: an initial state fixes (ep, x), one
   step chooses (y, pn); every call with lengths 0..N is one state.          *)
EXTENDS Integers, Sequences, FiniteSets, TLC

CONSTANTS Scratch,       \* PACKET_LENGTH_MAX (1500)
          N,             \* lengths and offsets explored: 0..N
          MaxDatagram,   \* largest UDP payload (65535)
          MinMds         \* SMALLEST_MAX_DATAGRAM_SIZE (1200)

Tag        == 16         \* AEAD_TAG_LENGTH
SampleLen  == 16         \* SAMPLE_LENGTH
PnMax      == 4          \* PACKET_NUMBER_LENGTH_MAX
MaskLen    == 31
CidMax     == 20         \* CONNECTION_ID_MAX_SIZE
PnSend     == 2          \* PACKET_NUMBER_SEND_SIZE

EntryPoints == {"AEAD_decrypt", "AEAD_encrypt", "HP_apply", "HP_remove"}
AllBounded  == {"AEAD_encrypt", "HP_apply", "HP_remove"}

Call(ep, x, y, pn) == [ep |-> ep, x |-> x, y |-> y, pn |-> pn]

-----------------------------------------------------------------------------
(* Objects and byte ranges *)

Extent(obj, c) ==
  CASE obj = "arg1"    -> c.x                \* data / header / packet
    [] obj = "arg2"    -> c.y                \* associated / payload (not for HP_remove)
    [] obj = "scratch" -> Scratch
    [] obj = "mask"    -> MaskLen

Acc(name, obj, lo, hi, w) == [name |-> name, obj |-> obj, lo |-> lo, hi |-> hi, w |-> w]
R == FALSE
W == TRUE

(* AEAD_decrypt: tag = data + data_len - 16; EVP update over associated;
   EVP update data[0, data_len-16) -> buffer; PyBytes from buffer[0, outlen). *)
DecryptAcc(c) ==
  << Acc("tag-read",         "arg1",    c.x - Tag, c.x,       R),
     Acc("aad-read",         "arg2",    0,         c.y,       R),
     Acc("ciphertext-read",  "arg1",    0,         c.x - Tag, R),
     Acc("plaintext-write",  "scratch", 0,         c.x - Tag, W),
     Acc("result-read",      "scratch", 0,         c.x - Tag, R) >>

(* AEAD_encrypt: EVP update data[0, data_len) -> buffer; GET_TAG writes 16
   bytes at buffer + outlen; PyBytes from buffer[0, outlen + 16). *)
EncryptAcc(c) ==
  << Acc("aad-read",         "arg2",    0,   c.y,       R),
     Acc("plaintext-read",   "arg1",    0,   c.x,       R),
     Acc("ciphertext-write", "scratch", 0,   c.x,       W),
     Acc("tag-write",        "scratch", c.x, c.x + Tag, W),
     Acc("result-read",      "scratch", 0,   c.x + Tag, R) >>

(* HeaderProtection_apply: pn_length from header[0]; sample = payload + 4 -
   pn_length (16 bytes); memcpy(buffer, header); memcpy(buffer + header_len,
   payload); buffer[pn_offset + i] ^= mask[1 + i], pn_offset = header_len -
   pn_length; PyBytes from buffer[0, header_len + payload_len). *)
ApplyAcc(c) ==
  << Acc("first-byte-read",    "arg1",    0,            1,                        R),
     Acc("sample-read",        "arg2",    PnMax - c.pn, PnMax - c.pn + SampleLen, R),
     Acc("mask-write",         "mask",    0,            SampleLen,                W),
     Acc("header-copy-read",   "arg1",    0,            c.x,                      R),
     Acc("header-copy-write",  "scratch", 0,            c.x,                      W),
     Acc("payload-copy-read",  "arg2",    0,            c.y,                      R),
     Acc("payload-copy-write", "scratch", c.x,          c.x + c.y,                W),
     Acc("pn-mask-write",      "scratch", c.x - c.pn,   c.x,                      W),
     Acc("result-read",        "scratch", 0,            c.x + c.y,                R) >>

(* HeaderProtection_remove: sample = packet + pn_offset + 4 (16 bytes);
   memcpy(buffer, packet, pn_offset + 4); unmask buffer[0]; pn_length from it;
   buffer[pn_offset + i] ^= mask[1 + i]; bytes from buffer[0, pn_offset + pn_length). *)
RemoveAcc(c) ==
  << Acc("sample-read",        "arg1",    c.y + PnMax, c.y + PnMax + SampleLen, R),
     Acc("mask-write",         "mask",    0,           SampleLen,               W),
     Acc("header-copy-read",   "arg1",    0,           c.y + PnMax,             R),
     Acc("header-copy-write",  "scratch", 0,           c.y + PnMax,             W),
     Acc("pn-unmask-write",    "scratch", c.y,         c.y + c.pn,              W),
     Acc("result-read",        "scratch", 0,           c.y + c.pn,              R) >>

Accesses(c) ==
  CASE c.ep = "AEAD_decrypt" -> DecryptAcc(c)
    [] c.ep = "AEAD_encrypt" -> EncryptAcc(c)
    [] c.ep = "HP_apply"     -> ApplyAcc(c)
    [] c.ep = "HP_remove"    -> RemoveAcc(c)

AccOk(a, c)  == 0 <= a.lo /\ a.lo <= a.hi /\ a.hi <= Extent(a.obj, c)
Broken(c)    == LET s == Accesses(c) IN {i \in DOMAIN s : ~AccOk(s[i], c)}
InBounds(c)  == Broken(c) = {}
\* name of the first range (in code order) that leaves its object, "" if none
FirstBroken(c) ==
  LET s == Accesses(c)  b == Broken(c) IN
  IF b = {} THEN "" ELSE s[CHOOSE i \in b : \A j \in b : i <= j].name

-----------------------------------------------------------------------------
(* Guards *)

LenGuard(c) ==
  CASE c.ep = "AEAD_decrypt" -> c.x >= Tag /\ c.x <= Scratch
    [] c.ep = "AEAD_encrypt" -> c.x <= Scratch
    [] c.ep = "HP_apply"     -> TRUE
    [] c.ep = "HP_remove"    -> TRUE

(* the checks of the proposed repair (.work/proposals/C04-*.fix.diff) *)
FixGuard(c) ==
  CASE c.ep = "AEAD_decrypt" -> TRUE
    [] c.ep = "AEAD_encrypt" -> c.x <= Scratch - Tag
    [] c.ep = "HP_apply"     -> /\ c.x >= 1 + c.pn
                                /\ c.y >= PnMax - c.pn + SampleLen
                                /\ c.x + c.y <= Scratch
    [] c.ep = "HP_remove"    -> /\ c.y + PnMax + SampleLen <= c.x
                                /\ c.y + PnMax <= Scratch

Guard(c, B) == LenGuard(c) /\ (c.ep \in B => FixGuard(c))

(* one entry point as a pure operator: outcome and the ranges touched *)
CallF(c, B) ==
  IF Guard(c, B) THEN [out |-> "accepted", acc |-> Accesses(c)]
                 ELSE [out |-> "rejected", acc |-> << >>]

(* outcomes the model allows for a call under guard set B: a call that passes
   the guards is served (AEAD_decrypt may still fail authentication); one that
   does not is rejected with a Python exception *)
Outcomes(c, B) ==
  IF Guard(c, B) THEN {"accepted"} \cup (IF c.ep = "AEAD_decrypt" THEN {"rejected"} ELSE {})
                 ELSE {"rejected"}

-----------------------------------------------------------------------------
(* The same bounds once more as flat arithmetic.  Building the range records
   costs TLC ~50 microseconds per call, too much for 10^7 calls; Fits is what
   the real-scale sweep evaluates, and the invariant FitsIsInBounds ties it to
   Accesses (exhaustively at small N, and on every threshold call at full N). *)
In(lo, hi, ext) == 0 <= lo /\ lo <= hi /\ hi <= ext
Fits(c) ==
  CASE c.ep = "AEAD_decrypt" ->
         /\ In(c.x - Tag, c.x, c.x) /\ In(0, c.y, c.y)
         /\ In(0, c.x - Tag, c.x)   /\ In(0, c.x - Tag, Scratch)
    [] c.ep = "AEAD_encrypt" ->
         /\ In(0, c.y, c.y) /\ In(0, c.x, c.x) /\ In(0, c.x, Scratch)
         /\ In(c.x, c.x + Tag, Scratch) /\ In(0, c.x + Tag, Scratch)
    [] c.ep = "HP_apply" ->
         /\ In(0, 1, c.x) /\ In(PnMax - c.pn, PnMax - c.pn + SampleLen, c.y)
         /\ In(0, SampleLen, MaskLen)
         /\ In(0, c.x, c.x) /\ In(0, c.x, Scratch)
         /\ In(0, c.y, c.y) /\ In(c.x, c.x + c.y, Scratch)
         /\ In(c.x - c.pn, c.x, Scratch) /\ In(0, c.x + c.y, Scratch)
    [] c.ep = "HP_remove" ->
         /\ In(c.y + PnMax, c.y + PnMax + SampleLen, c.x)
         /\ In(0, SampleLen, MaskLen)
         /\ In(0, c.y + PnMax, c.x) /\ In(0, c.y + PnMax, Scratch)
         /\ In(c.y, c.y + c.pn, Scratch) /\ In(0, c.y + c.pn, Scratch)

-----------------------------------------------------------------------------
(* Second layer: what the callers let through *)

VarintSizes == {1, 2, 4, 8}
VarintCap(sz) == IF sz = 1 THEN 63 ELSE IF sz = 2 THEN 16383 ELSE MaxDatagram

(* offsets of the protected packet number that pull_quic_header can produce:
   short header: 1 + host cid length; long header: 7 + dcid + scid
   [+ token length varint + token, INITIAL only] + length varint *)
LongFixed == {7 + cc + lv : cc \in 0..(2 * CidMax), lv \in VarintSizes}
LongOff(off) ==
  \E f \in LongFixed :
     \/ off = f
     \/ \E tv \in VarintSizes : off - f - tv >= 0 /\ off - f - tv <= VarintCap(tv)
ShortOff(off) == off - 1 \in 0..CidMax
OffStruct(off) == LongOff(off) \/ ShortOff(off)
\* closed form of OffStruct (lemma OffLemma below)
ReachOff(off) == off >= 1 /\ off <= MaxDatagram

(* receive_datagram slices data[start_off : start_off + packet_length] with
   packet_length = encrypted_off + rest_length, rest_length >= 0 any value the
   peer wrote (long header), or the rest of the datagram (short header) *)
ReachRemove(c) == ReachOff(c.y) /\ c.y <= c.x /\ c.x <= MaxDatagram

(* decrypt_packet: aead.decrypt(packet[off + pn:], plain_header, pn) *)
ReachDecrypt(c) == (\E pn \in 1..PnMax : ReachOff(c.y - pn)) /\ c.x + c.y <= MaxDatagram

(* QuicPacketBuilder: header_size = 3 + cid (short) or 11 + dcid + scid
   [+ varint + token]; _end_packet pads the payload to >= 2 bytes and every
   frame is admitted only while header + payload + 16 <= buffer capacity
   <= max_datagram_size; aead.encrypt(payload, header), then
   hp.apply(header, payload + tag), packet number length always 2 *)
HeaderSize(h) == ReachOff(h - PnSend)
Built(h, p, mds) == HeaderSize(h) /\ p >= PnMax - PnSend /\ h + p + Tag <= mds
\* the smallest permitted max_datagram_size that can build (h, p)
MdsFor(h, p)     == IF h + p + Tag > MinMds THEN h + p + Tag ELSE MinMds
\* (\E mds \in MinMds..MaxDatagram : Built(h, p, mds)) in closed form
Buildable(h, p)  == MdsFor(h, p) <= MaxDatagram /\ Built(h, p, MdsFor(h, p))
ReachEncrypt(c)  == Buildable(c.y, c.x)
ReachApply(c)    == c.pn = PnSend /\ c.y >= Tag /\ Buildable(c.x, c.y - Tag)

Reach(c) ==
  CASE c.ep = "AEAD_decrypt" -> ReachDecrypt(c)
    [] c.ep = "AEAD_encrypt" -> ReachEncrypt(c)
    [] c.ep = "HP_apply"     -> ReachApply(c)
    [] c.ep = "HP_remove"    -> ReachRemove(c)
\* the smallest max_datagram_size under which the builder makes this call (0: not a builder call)
MdsOf(c) ==
  CASE c.ep = "AEAD_encrypt" -> MdsFor(c.y, c.x)
    [] c.ep = "HP_apply"     -> MdsFor(c.x, c.y - Tag)
    [] OTHER                 -> 0

-----------------------------------------------------------------------------
(* Thresholds: a call is "near" when one of its bound or guard comparisons is
   within one of flipping.  Every comparison is linear with unit coefficients,
   so these are exactly the calls where InBounds or a guard changes between the
   call and a neighbour (+-1 in one argument), +-1. *)
Slacks(c) ==          \* one entry per direction (comparisons that differ by a constant < 3 share one)
  CASE c.ep = "AEAD_decrypt" -> <<c.x - Tag, Scratch - c.x, Scratch + Tag - c.x>>
    [] c.ep = "AEAD_encrypt" -> <<Scratch - c.x, Scratch - Tag - c.x>>
    [] c.ep = "HP_apply"     -> <<c.x - 1 - c.pn, c.y - (PnMax - c.pn + SampleLen), Scratch - c.x, Scratch - c.x - c.y>>
    [] c.ep = "HP_remove"    -> <<c.x - (c.y + PnMax + SampleLen), c.x - (c.y + PnMax), Scratch - c.y - PnMax>>
\* where along its threshold line a call sits (0: the threshold is a point, not a line)
Along(c) ==
  CASE c.ep = "AEAD_decrypt" -> <<0, 0, 0>>
    [] c.ep = "AEAD_encrypt" -> <<0, 0>>
    [] c.ep = "HP_apply"     -> <<c.y, c.x, c.y, c.x>>
    [] c.ep = "HP_remove"    -> <<c.y, c.y, c.x>>
NK(k) == k >= -2 /\ k <= 1
Near(c)   == LET s == Slacks(c) IN \E i \in DOMAIN s : NK(s[i])
Corner(c) == LET s == Slacks(c) IN Cardinality({s[i] : i \in {j \in DOMAIN s : NK(s[j])}}) >= 2

-----------------------------------------------------------------------------
(* Flat state space.  An initial state fixes (ep, x); one step picks pn and
   turns the state into a "row": the invariants then quantify over every y of
   the row, so each row state stands for N + 1 calls. *)
CONSTANTS Pns,           \* pn values swept for HP_apply
          Stride, Phase, \* thinning of the printed threshold calls
          Full           \* compare Fits with the range records on every call (else on threshold calls)
VARIABLE c

PnDomain(ep) == IF ep = "HP_apply" THEN Pns ELSE IF ep = "HP_remove" THEN {PnMax} ELSE {0}
YDomain(ep)  == IF ep \in {"HP_apply", "HP_remove"} THEN 0..N ELSE {0, 1, CidMax + 9, N}

Init == c \in {Call(ep, x, -1, 0) : ep \in EntryPoints, x \in 0..N}
Next == /\ c.y = -1
        /\ \E pn \in PnDomain(c.ep) : c' = Call(c.ep, c.x, -2, pn)
Spec == Init /\ [][Next]_c

IsRow  == c.y = -2
Row(P(_)) == IsRow => \A y \in YDomain(c.ep) : P(Call(c.ep, c.x, y, c.pn))
Calls  == IF IsRow THEN Cardinality(YDomain(c.ep)) ELSE 0

(* the design with the repair: whatever passes the guards stays in bounds *)
SafeAt(d, fits) == Guard(d, AllBounded) => fits

(* the repair loses nothing: packets the builder makes for datagrams that fit
   the scratch, and well-formed received packets that fit it, pass the guards *)
NoLossAt(d) ==
  CASE d.ep = "HP_apply"  -> Reach(d) /\ MdsOf(d) <= Scratch
                               => Guard(d, AllBounded) /\ Guard(Call("AEAD_encrypt", d.y - Tag, d.x, 0), AllBounded)
    [] d.ep = "HP_remove" -> d.x <= Scratch /\ d.y + PnMax + SampleLen <= d.x => Guard(d, AllBounded)
    [] OTHER              -> TRUE

(* as transcribed (no bounds checks): the calls the callers can make and the
   code serves out of bounds have exactly this shape; in particular whatever
   the builder makes is in bounds iff max_datagram_size <= Scratch *)
ExposureAt(d, fits) ==
  LET exposed == Reach(d) /\ Guard(d, {}) /\ ~fits IN
  CASE d.ep = "AEAD_decrypt" -> ~exposed
    [] d.ep = "AEAD_encrypt" -> (exposed <=> Reach(d) /\ d.x > Scratch - Tag /\ d.x <= Scratch)
                                /\ (exposed => MdsOf(d) > Scratch)
    [] d.ep = "HP_apply"     -> (exposed <=> Reach(d) /\ MdsOf(d) > Scratch)
    [] d.ep = "HP_remove"    -> (exposed <=> Reach(d) /\ (d.x < d.y + PnMax + SampleLen \/ d.y + PnMax > Scratch))

Fail(what, d) == PrintT(<<"FAIL", what, d.ep, d.x, d.y, d.pn>>) /\ FALSE
SweepAt(d) ==
  LET fits == Fits(d) IN
    /\ SafeAt(d, fits)     \/ Fail("Safe", d)
    /\ NoLossAt(d)         \/ Fail("NoLoss", d)
    /\ ExposureAt(d, fits) \/ Fail("Exposure", d)
Sweep == Row(SweepAt)

(* Fits and the range records agree *)
FitsAt(d) == (Full \/ Near(d)) => (Fits(d) <=> InBounds(d)) \/ Fail("FitsIsInBounds", d)
FitsIsInBounds == Row(FitsAt)

(* closed form of the offsets pull_quic_header produces *)
OffLemma == c.y = -1 /\ c.ep = "HP_remove" => (OffStruct(c.x) <=> ReachOff(c.x))

(* printing threshold calls for the replay into the sanitizer build *)
\* thinning: whole cross-sections of a threshold line (all four slack values -2..1) every Stride
\* positions, so both sides of every threshold are always present; point thresholds and corners always
Thin(d) == \/ LET sl == Slacks(d)  al == Along(d) IN
                \E i \in DOMAIN sl : NK(sl[i]) /\ (al[i] = 0 \/ al[i] % Stride = Phase)
           \/ Corner(d)
EmitAt(d) ==
  Near(d) /\ Reach(d) /\ Thin(d) =>
    PrintT(<<"NEAR", d.ep, d.x, d.y, d.pn, Guard(d, {}), Guard(d, AllBounded), FirstBroken(d)>>)
Emit == Row(EmitAt)
=============================================================================
