------------------------- MODULE HeaderRulesCases -------------------------
(* (M->R) TLC enumerates the scenarios that the driver replays into a real
   H3Connection: every case of a family, written as newline delimited JSON to
   the file named by the environment variable CASES_OUT.

   A scenario is [role, chan, frames, fin]: the frames a peer sends on one
   stream of a connection whose local end is `role`, on a request stream
   (chan = "request") or on a push stream (chan = "push", client only), and
   where the end of the stream is: "none", "last" (together with the last
   bytes) or "lone" (on its own afterwards).

   Families
     A  one probe header <<name, value>> over the boundary alphabet appended to
        a valid block of each kind
     B  every sequence of at most K symbols out of the six pseudo-headers, an
        unknown pseudo-header and a regular header, for each kind
     C  every list of 1..3 headers out of a pool of good and bad headers,
        appended to a valid block of each kind
     D  content-length spellings (none, one, two) x DATA frame sizes x trailers
        x end of stream, for requests, responses and pushed responses *)
EXTENDS HeaderRules, SequencesExt, Json, IOUtils, TLC

CONSTANTS Family,      \* "A" | "B" | "C" | "D"
          LN, LV,      \* A: names / values up to this length alone
          LP,          \* A: pairs name x value, both up to this length
          K,           \* B: sequence length
          Dup,         \* D: TRUE = pairs out of eight spellings, FALSE = pairs out of three
          NB,          \* D: at most this many DATA frames
          AllTemplates,\* TRUE = also pushed responses and trailers of responses (A, B, C)
          Part         \* 0 = the whole family; n > 0 = only its n-th part (A, B, C: the n-th template;
                       \* D: the n-th role/stream) - large families are generated in parts, side by side

Alphabet == {0, 9, 10, 13, 32, 33, 58, 65, 90, 97, 127, 128, 255}
Strs(S, lo, hi) == UNION {[1..k -> S] : k \in lo..hi}

VA == <<97>>   VGet == <<71, 69, 84>>   VSlash == <<47>>   V200 == <<50, 48, 48>>
BaseReq  == << <<PMethod, VGet>>, <<PScheme, VHttps>>, <<PAuthority, VA>>, <<PPath, VSlash>> >>
BaseResp == << <<PStatus, V200>> >>
Base(kind) == CASE kind \in {"request", "push"} -> BaseReq
                [] kind = "response" -> BaseResp
                [] kind = "trailers" -> <<>>

Scn(role, chan, frames, fin) == [role |-> role, chan |-> chan, frames |-> frames, fin |-> fin]

\* the scenario templates in which a block `hs` of a given kind is put to the test
TemplateSeq == << <<"request", 1>>, <<"response", 1>>, <<"push", 1>>, <<"trailers", 1>>, <<"response", 2>>, <<"trailers", 2>> >>
Templates == IF Part > 0 THEN {TemplateSeq[Part]}
             ELSE {TemplateSeq[i] : i \in 1..(IF AllTemplates THEN 6 ELSE 4)}
Build(t, hs) ==
  CASE t = <<"request", 1>>  -> Scn("server", "request", <<HF(hs)>>, "none")
    [] t = <<"response", 1>> -> Scn("client", "request", <<HF(hs)>>, "none")
    [] t = <<"response", 2>> -> Scn("client", "push", <<HF(hs)>>, "none")
    [] t = <<"push", 1>>     -> Scn("client", "request", <<PF(hs)>>, "none")
    [] t = <<"trailers", 1>> -> Scn("server", "request", <<HF(BaseReq), DF(1), HF(hs)>>, "none")
    [] t = <<"trailers", 2>> -> Scn("client", "request", <<HF(BaseResp), HF(hs)>>, "last")
\* Tails: the lists appended to the valid block of each kind
OverKinds(Tails) == UNION {{Build(t, Base(t[1]) \o x) : x \in Tails} : t \in Templates}

\* --- A ---
Probes(x) ==
  {<<n, VA>> : n \in Strs(Alphabet, 0, LN)} \cup {<<VA, v>> : v \in Strs(Alphabet, 0, LV)}
  \cup {<<n, v>> : n \in Strs(Alphabet, 0, LP), v \in Strs(Alphabet, 0, LP)}
CasesA(x) == OverKinds({<<p>> : p \in Probes(x)})

\* --- B ---
Syms == {<<PMethod, VGet>>, <<PScheme, VHttps>>, <<PAuthority, VA>>, <<PPath, VSlash>>,
         <<PProtocol, VA>>, <<PStatus, V200>>, <<<<58, 97>>, VA>>, <<VA, VA>>}
CasesB(x) == UNION {{Build(t, y) : y \in Strs(Syms, 0, K)} : t \in Templates}

\* --- C ---
Pool == {<<VA, VA>>, <<<<98>>, <<>>>>, <<<<65>>, VA>>, <<<<97, 127>>, VA>>, <<<<128>>, VA>>,
         <<VA, <<10>>>>, <<VA, <<32, 97>>>>, <<VA, <<97, 9>>>>, <<VA, <<32>>>>, <<VA, <<0>>>>}
CasesC(x) == OverKinds(Strs(Pool, 1, 3))

\* --- D ---
Spell == {<<48>>, <<49>>, <<50>>, <<51>>, <<48, 49>>, <<49, 48>>, <<43, 49>>, <<45, 49>>, <<45, 48>>,
          <<49, 95, 48>>, <<>>, <<97>>, <<49, 44, 49>>, <<49, 32, 49>>, <<11, 49>>}
SpellFew == {<<49>>, <<50>>, <<48, 49>>}
SpellSome == SpellFew \cup {<<48>>, <<43, 49>>, <<45, 48>>, <<49, 95, 48>>, <<97>>}
CLs(x) == {<<>>} \cup {<<s>> : s \in Spell}
       \cup {<<s, t>> : s \in (IF Dup THEN SpellSome ELSE SpellFew), t \in (IF Dup THEN SpellSome ELSE SpellFew)}
CLHeaders(c) == [i \in DOMAIN c |-> <<ContentLength, c[i]>>]
Bodies(x) == Strs(0..2, 0, NB)
DataFrames(b) == [i \in DOMAIN b |-> DF(b[i])]
Trailer == << <<VA, VA>> >>
RoleChans == << <<"server", "request">>, <<"client", "request">>, <<"client", "push">> >>
CasesD(x) ==
  {Scn(rc[1], rc[2],
       <<HF((IF rc[1] = "server" THEN BaseReq ELSE BaseResp) \o CLHeaders(c))>> \o DataFrames(b)
         \o (IF trl THEN <<HF(Trailer)>> ELSE <<>>),
       fin) :
     rc \in (IF Part > 0 THEN {RoleChans[Part]} ELSE {RoleChans[i] : i \in 1..3}),
     c \in CLs(x), b \in Bodies(x), trl \in BOOLEAN, fin \in {"last", "lone"}}

\* (the families take a dummy argument: TLC evaluates constant definitions
\* without arguments eagerly, and only one family is wanted per run)
CasesOf(x) == CASE Family = "A" -> CasesA(x) [] Family = "B" -> CasesB(x)
                [] Family = "C" -> CasesC(x) [] Family = "D" -> CasesD(x)

\* every scenario only contains frame sequences a rule-abiding peer can send
RECURSIVE LegalFrom(_, _, _, _)
LegalFrom(role, s, frames, i) ==
  IF i > Len(frames) THEN TRUE
  ELSE FrameLegal(role, s, frames[i]) /\ LegalFrom(role, AcceptF(role, s, frames[i]), frames, i + 1)

\* the generator: evaluated once when TLC starts
ASSUME LET Cases == CasesOf(0) IN
         /\ \A c \in Cases : LegalFrom(c.role, InitStream, c.frames, 1)
         /\ ndJsonSerialize(IOEnv.CASES_OUT, SetToSeq(Cases))
         /\ PrintT(<<"CASES", Family, Cardinality(Cases)>>)
============================================================================
