--------------------------- MODULE TraceTransfer ---------------------------
(* Judges application-level traces of two real QuicConnections driven by the
   netsim over a dropping / duplicating / reordering / rebinding network
   against the clauses of Transfer (C01).

   Lines (one per event, several traces per file, each starting with "init"):
     init                       start of a trace
     write  k sid n fin         the application wrote n bytes (+FIN) on flow k
     reset  k                   the writer reset flow k, or the reader asked it to stop
     data   k sid data end      StreamDataReceived at the reader of flow k
     sreset k                   StreamReset event at the reader of flow k
     term   ep code             ConnectionTerminated at endpoint ep
     end    quiescent           end of the fair phase *)
EXTENDS Transfer, TraceBase

VARIABLE s
Fresh == [written |-> 0, fin |-> FALSE, reset |-> FALSE, delivered |-> 0,
          endSeen |-> FALSE, resetSeen |-> FALSE]
S0 == [fl |-> <<>>, terms |-> 0]
Get(st, k) == IF k \in DOMAIN st.fl THEN st.fl[k] ELSE Fresh
Set(st, k, v) == [st EXCEPT !.fl = [x \in (DOMAIN st.fl) \cup {k} |-> IF x = k THEN v ELSE st.fl[x]]]

StepS(st, e) ==
  CASE e.ev = "init"   -> S0
    [] e.ev = "write"  -> LET f == Get(st, e.k) IN
                          Set(st, e.k, [f EXCEPT !.written = @ + e.n, !.fin = e.fin])
    [] e.ev = "reset"  -> Set(st, e.k, [Get(st, e.k) EXCEPT !.reset = TRUE])
    [] e.ev = "data"   -> LET f == Get(st, e.k) IN
                          Set(st, e.k, [f EXCEPT !.delivered = @ + Len(e.data),
                                                 !.endSeen = @ \/ e.end])
    [] e.ev = "sreset" -> Set(st, e.k, [Get(st, e.k) EXCEPT !.resetSeen = TRUE])
    [] e.ev = "term"   -> [st EXCEPT !.terms = @ + 1]
    [] OTHER           -> st

FlowDone(f) == IF f.reset THEN TRUE
               ELSE f.delivered = f.written /\ (f.fin => f.endSeen)
FlowDoneStrict(f) == f.reset => (f.resetSeen \/ f.endSeen \/ f.delivered = f.written)

Cl(st, e) ==
  CASE e.ev = "data" ->
         LET f == Get(st, e.k) IN
         << <<"delivered-bytes-are-prefix-of-written", EvPrefixOk(e.sid, f.written, f.delivered, e.data)>>,
            <<"end-of-stream-at-most-once", e.end => ~f.endSeen>>,
            <<"end-of-stream-only-after-all-bytes", e.end => (f.fin /\ f.delivered + Len(e.data) = f.written)>>,
            <<"model:data-after-reset-event", ~f.resetSeen>> >>
    [] e.ev = "sreset" ->
         LET f == Get(st, e.k) IN
         << <<"model:stream-reset-without-cause", f.reset>> >>
    [] e.ev = "term" ->
         \* the scripts of this property never close a connection and the adversarial
         \* phase is far shorter than the idle timeout: every termination is
         \* "the connection closed because of what the network did"
         << <<"network-never-causes-close", FALSE>> >>
    [] e.ev = "end" ->
         << <<"every-written-byte-and-fin-delivered", st.terms > 0 \/ \A k \in DOMAIN st.fl : FlowDone(st.fl[k])>>,
            <<"model:reset-announced", st.terms > 0 \/ \A k \in DOMAIN st.fl : FlowDoneStrict(st.fl[k])>>,
            <<"model:quiescent", e.quiescent>> >>
    [] OTHER -> << >>

TInit == l = 1 /\ s = S0 /\ Init
TNext == /\ \/ /\ l <= Len(Lines)
               /\ LET f == FirstFailing(Cl(s, Lines[l])) IN
                    IF f = "" THEN TRUE ELSE PrintT(<<"TRACE-FAIL", l, f>>)
               /\ s' = StepS(s, Lines[l])
               /\ l' = l + 1
            \/ /\ l = Len(Lines) + 1
               /\ PrintT(<<"TRACE-END", Len(Lines)>>)
               /\ l' = l + 1 /\ UNCHANGED s
         /\ UNCHANGED vars
TSpec == TInit /\ [][TNext]_<<l, s, vars>>
============================================================================
