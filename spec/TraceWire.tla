----------------------------- MODULE TraceWire -----------------------------
(* Wire clause of C08 judged on real connections (netsim + observer): one line per
   datagrams_to_send call:
     tx ep cwnd0 bif0 probe0 mds inflight closing
   inflight = bytes of the in-flight packets (those that are ack-eliciting or carry padding,
   as decoded by the observer) in the datagrams the call returned, including datagram padding. *)
EXTENDS Recovery, TraceBase

Clauses(e) ==
  IF e.ev # "tx" THEN << >> ELSE
  << <<"in-flight-bytes-within-congestion-window", e.closing \/ WireOk(e.cwnd0, e.bif0, e.probe0, e.mds, e.inflight)>> >>

TInit == l = 1 /\ Init
TNext == Judge(Clauses) /\ UNCHANGED <<vars, now, nextPn>>
TSpec == TInit /\ [][TNext]_<<l, vars, now, nextPn>>
=============================================================================
