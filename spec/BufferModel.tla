---------------------------- MODULE BufferModel ----------------------------
(* Access model of the byte-buffer helper src/aioquic/_buffer.c (C04).

   State: cap = end - base, pos = pos - base.  One pure operator per method,
       XxxF(s, a) == [st |-> state after, out |-> outcome, acc |-> ranges]
   out.kind is "ok" or the Python exception the C code raises; acc is the set
   of byte ranges <<lo, hi>> of the malloc'ed block [0, cap) the code touches.
   The property: every range of an accepted call lies in [0, cap); pos stays in
   0..cap; a rejected call changes nothing.

   Integer arguments are arbitrary Python ints.  TLC's integers are 32 bit, so
   an argument is a record [sg, l0, l1, l2]: sign (-1, 0, 1) and magnitude
   l0 + l1 * 2^30 + l2 * 2^60 (l2 <= 16: |v| <= 2^64 + ...).                 *)
EXTENDS Integers, Sequences, FiniteSets, TLC

CONSTANTS MaxCap,      \* capacities explored: 0..MaxCap
          MaxDepth     \* length of method sequences

B30 == 1073741824      \* 2^30

\* ---- integer arguments ----------------------------------------------------
Small(n)  == [sg |-> IF n < 0 THEN -1 ELSE IF n = 0 THEN 0 ELSE 1,
              l0 |-> IF n < 0 THEN -n ELSE n, l1 |-> 0, l2 |-> 0]
P31       == [sg |-> 1,  l0 |-> 0,       l1 |-> 2,       l2 |-> 0]      \* 2^31
P62m1     == [sg |-> 1,  l0 |-> B30 - 1, l1 |-> B30 - 1, l2 |-> 3]      \* 2^62 - 1
P62       == [sg |-> 1,  l0 |-> 0,       l1 |-> 0,       l2 |-> 4]      \* 2^62
P63m1     == [sg |-> 1,  l0 |-> B30 - 1, l1 |-> B30 - 1, l2 |-> 7]      \* 2^63 - 1
P63       == [sg |-> 1,  l0 |-> 0,       l1 |-> 0,       l2 |-> 8]      \* 2^63
M63       == [sg |-> -1, l0 |-> 0,       l1 |-> 0,       l2 |-> 8]      \* -2^63
M63m1     == [sg |-> -1, l0 |-> 1,       l1 |-> 0,       l2 |-> 8]      \* -2^63 - 1
P64m1     == [sg |-> 1,  l0 |-> B30 - 1, l1 |-> B30 - 1, l2 |-> 15]     \* 2^64 - 1
IsSmall(a) == a.l1 = 0 /\ a.l2 = 0
Val(a)     == a.sg * a.l0                        \* only when IsSmall(a)

\* "n" format (Py_ssize_t): OverflowError outside [-2^63, 2^63 - 1]
FitsSsize(a) == a.l2 < 8 \/ (a.sg = -1 /\ a.l2 = 8 /\ a.l1 = 0 /\ a.l0 = 0)
Neg(a)       == a.sg = -1
\* a > n for a fitting, non-negative argument and a small n (capacities are < 2^30)
Above(a, n)  == ~IsSmall(a) \/ a.l0 > n

\* parse_uint(args, max): PyLong_AsUnsignedLongLong raises OverflowError for a
\* negative int or one >= 2^64; a value above the type's maximum is a ValueError
LeMax(a, k) == CASE k = 1 -> IsSmall(a) /\ a.l0 <= 255
                 [] k = 2 -> IsSmall(a) /\ a.l0 <= 65535
                 [] k = 4 -> a.l2 = 0 /\ a.l1 <= 3
                 [] k = 8 -> TRUE
UintParse(a, k) == IF Neg(a) \/ a.l2 >= 16 THEN "OverflowError"
                   ELSE IF ~LeMax(a, k) THEN "ValueError" ELSE "ok"
\* the size class push_uint_var selects for a parsed value (0 = too big -> ValueError)
VarSize(a) ==
  IF a.l2 = 0 /\ a.l1 = 0 /\ a.l0 <= 63 THEN 1
  ELSE IF a.l2 = 0 /\ a.l1 = 0 /\ a.l0 <= 16383 THEN 2
  ELSE IF a.l2 = 0 /\ a.l1 = 0 THEN 4
  ELSE IF a.l2 < 4 THEN 8
  ELSE 0

\* ---- outcomes ----------------------------------------------------------------
Ok(s, pos2, ret, acc) == [st |-> [s EXCEPT !.pos = pos2], out |-> [kind |-> "ok", ret |-> ret], acc |-> acc]
Err(s, kind)          == [st |-> s, out |-> [kind |-> kind, ret |-> -1], acc |-> {}]
Rd == "BufferReadError"
Wr == "BufferWriteError"

\* ---- methods (a: integer argument record; n: length of a bytes argument; lead: top two bits of the byte at pos) ----
TellF(s)  == Ok(s, s.pos, s.pos, {})
EofF(s)   == Ok(s, s.pos, IF s.pos = s.cap THEN 1 ELSE 0, {})
CapacityF(s) == Ok(s, s.pos, s.cap, {})
DataF(s)  == Ok(s, s.pos, s.pos, {<<0, s.pos>>})

SeekF(s, a) ==
  IF ~FitsSsize(a) THEN Err(s, "OverflowError")
  ELSE IF Neg(a) \/ Above(a, s.cap) THEN Err(s, Rd)
  ELSE Ok(s, Val(a), -1, {})

DataSliceF(s, a, b) ==
  IF ~FitsSsize(a) \/ ~FitsSsize(b) THEN Err(s, "OverflowError")
  ELSE IF Neg(a) \/ Above(a, s.cap) \/ Neg(b) \/ Above(b, s.cap) \/ Val(b) < Val(a) THEN Err(s, Rd)
  ELSE Ok(s, s.pos, Val(b) - Val(a), {<<Val(a), Val(b)>>})

PullBytesF(s, a) ==
  IF ~FitsSsize(a) THEN Err(s, "OverflowError")
  ELSE IF Neg(a) \/ Above(a, s.cap - s.pos) THEN Err(s, Rd)
  ELSE Ok(s, s.pos + Val(a), Val(a), {<<s.pos, s.pos + Val(a)>>})

PullFixedF(s, k) ==
  IF s.pos + k > s.cap THEN Err(s, Rd) ELSE Ok(s, s.pos + k, -1, {<<s.pos, s.pos + k>>})

PullVarF(s, lead) ==
  IF s.pos + 1 > s.cap THEN Err(s, Rd)
  ELSE LET k == IF lead = 0 THEN 1 ELSE IF lead = 1 THEN 2 ELSE IF lead = 2 THEN 4 ELSE 8 IN
       IF s.pos + k > s.cap THEN Err(s, Rd) ELSE Ok(s, s.pos + k, -1, {<<s.pos, s.pos + 1>>, <<s.pos, s.pos + k>>})

PushBytesF(s, n) ==
  IF s.pos + n > s.cap THEN Err(s, Wr) ELSE Ok(s, s.pos + n, -1, {<<s.pos, s.pos + n>>})

PushFixedF(s, k, a) ==
  LET p == UintParse(a, k) IN
  IF p # "ok" THEN Err(s, p)
  ELSE IF s.pos + k > s.cap THEN Err(s, Wr) ELSE Ok(s, s.pos + k, -1, {<<s.pos, s.pos + k>>})

PushVarF(s, a) ==
  LET p == UintParse(a, 8)  k == VarSize(a) IN
  IF p # "ok" THEN Err(s, p)
  ELSE IF k = 0 THEN Err(s, "ValueError")
  ELSE IF s.pos + k > s.cap THEN Err(s, Wr) ELSE Ok(s, s.pos + k, -1, {<<s.pos, s.pos + k>>})

(* the constructor Buffer(capacity=a): a negative capacity must be rejected; one
   that cannot be allocated must be rejected (MemoryError) -- whether a large
   allocation succeeds is left open *)
NewOutcomes(a) ==
  IF ~FitsSsize(a) THEN {"OverflowError"}
  ELSE IF Neg(a) THEN {"ValueError"}
  ELSE IF IsSmall(a) THEN {"ok"} ELSE {"ok", "MemoryError"}

FixedSize(m) == CASE m \in {"pull_uint8", "push_uint8"}   -> 1
                  [] m \in {"pull_uint16", "push_uint16"} -> 2
                  [] m \in {"pull_uint32", "push_uint32"} -> 4
                  [] m \in {"pull_uint64", "push_uint64"} -> 8

\* a call: [m, a, b, n, lead]; unused fields are Small(0) / 0
MethodF(s, call) ==
  CASE call.m = "tell"          -> TellF(s)
    [] call.m = "eof"           -> EofF(s)
    [] call.m = "capacity"      -> CapacityF(s)
    [] call.m = "data"          -> DataF(s)
    [] call.m = "seek"          -> SeekF(s, call.a)
    [] call.m = "data_slice"    -> DataSliceF(s, call.a, call.b)
    [] call.m = "pull_bytes"    -> PullBytesF(s, call.a)
    [] call.m \in {"pull_uint8", "pull_uint16", "pull_uint32", "pull_uint64"} -> PullFixedF(s, FixedSize(call.m))
    [] call.m = "pull_uint_var" -> PullVarF(s, call.lead)
    [] call.m = "push_bytes"    -> PushBytesF(s, call.n)
    [] call.m \in {"push_uint8", "push_uint16", "push_uint32", "push_uint64"} -> PushFixedF(s, FixedSize(call.m), call.a)
    [] call.m = "push_uint_var" -> PushVarF(s, call.a)

Methods == {"tell", "eof", "capacity", "data", "seek", "data_slice", "pull_bytes", "pull_uint8", "pull_uint16",
            "pull_uint32", "pull_uint64", "pull_uint_var", "push_bytes", "push_uint8", "push_uint16",
            "push_uint32", "push_uint64", "push_uint_var"}

\* ---- the property on one step ---------------------------------------------------
RangeOk(r, cap) == 0 <= r[1] /\ r[1] <= r[2] /\ r[2] <= cap
StepOk(s, res) ==
  /\ res.st.cap = s.cap
  /\ res.st.pos \in 0..s.cap
  /\ \A r \in res.acc : RangeOk(r, s.cap)
  /\ res.out.kind # "ok" => res.st = s /\ res.acc = {}

\* ---- model-checking configuration: every method sequence up to MaxDepth --------
P32m1     == [sg |-> 1,  l0 |-> B30 - 1, l1 |-> 3,       l2 |-> 0]      \* 2^32 - 1
P32       == [sg |-> 1,  l0 |-> 0,       l1 |-> 4,       l2 |-> 0]      \* 2^32
P64       == [sg |-> 1,  l0 |-> 0,       l1 |-> 0,       l2 |-> 16]     \* 2^64
IntArgs(cap) == {Small(n) : n \in {-1, 0, 1, 2, cap - 1, cap, cap + 1, 63, 64, 255, 256, 16383, 16384, 65535, 65536}}
                \cup {P31, P32m1, P32, P62m1, P62, P63m1, P63, M63, M63m1, P64m1, P64}
Call(m, a, b, n, lead) == [m |-> m, a |-> a, b |-> b, n |-> n, lead |-> lead]
Z == Small(0)
Alphabet(cap) ==
  {Call(m, Z, Z, 0, 0) : m \in {"tell", "eof", "capacity", "data", "pull_uint8", "pull_uint16", "pull_uint32", "pull_uint64"}}
  \cup {Call(m, a, Z, 0, 0) : m \in {"seek", "pull_bytes", "push_uint_var", "push_uint8", "push_uint16", "push_uint32",
                                      "push_uint64"}, a \in IntArgs(cap)}
  \cup {Call("data_slice", a, b, 0, 0) : a \in IntArgs(cap), b \in IntArgs(cap)}
  \cup {Call("pull_uint_var", Z, Z, 0, lead) : lead \in 0..3}
  \cup {Call("push_bytes", Z, Z, n, 0) : n \in {0, 1, 2, cap - 1, cap, cap + 1, 9} \cap Nat}

VARIABLES s, depth, last
vars == <<s, depth, last>>
Init == /\ s \in {[cap |-> cp, pos |-> 0] : cp \in 0..MaxCap}
        /\ depth = 0 /\ last = "init"
Next == /\ depth < MaxDepth
        /\ \E call \in Alphabet(s.cap) :
             LET res == MethodF(s, call) IN
               /\ s' = res.st
               /\ last' = res.out.kind
               /\ depth' = depth + 1
Spec == Init /\ [][Next]_vars

TypeOk   == s.pos \in 0..s.cap /\ s.cap \in 0..MaxCap
\* every call of the alphabet, from every reachable state, keeps the property
AllSteps == \A call \in Alphabet(s.cap) : StepOk(s, MethodF(s, call))
=============================================================================
