------------------------------ MODULE FlowRecv -----------------------------
(* Receive-side limits of one endpoint facing a key-holding peer - property C07.
   (aioquic: _handle_stream_frame, _handle_reset_stream_frame, _get_or_create_stream,
   _write_connection_limits / _write_stream_limits, _handle_crypto_frame,
   _handle_path_challenge_frame, _handle_new_connection_id_frame.)

   Per peer-writable stream s: hi (highest offset received), final (fixed final size or
   None).  total = sum of hi.  sl[s], cl, ms are the largest stream / connection / stream-count
   limits this endpoint has ever put on the wire.  A frame is *beyond* when it needs more than
   those limits allow or contradicts a fixed final size; then the connection closes with the
   matching code.  A frame *within* them is never accused. *)
EXTENDS Naturals, Integers, FiniteSets, Sequences

CONSTANTS NS, MaxOff, Top
None == -1
FLOW_CONTROL_ERROR == 3
STREAM_LIMIT_ERROR == 4
FINAL_SIZE_ERROR == 6
Accusing == {FLOW_CONTROL_ERROR, STREAM_LIMIT_ERROR, FINAL_SIZE_ERROR}

VARIABLES hi, final, total, sl, cl, ms, closed
vars == <<hi, final, total, sl, cl, ms, closed>>

(* which matching codes a STREAM frame / RESET_STREAM (len = 0, fin = TRUE, end = final size) calls for:
   index = ordinal of the stream among the peer-initiated streams of its type (or -1 for a stream
   the endpoint itself opened), end = off + len *)
Codes(h, f, tot, slim, clim, mstreams, index, end, fin) ==
  (IF index >= mstreams THEN {STREAM_LIMIT_ERROR} ELSE {})
  \cup (IF end > slim THEN {FLOW_CONTROL_ERROR} ELSE {})
  \cup (IF end > h /\ tot + (end - h) > clim THEN {FLOW_CONTROL_ERROR} ELSE {})
  \cup (IF f # None /\ (end > f \/ (fin /\ end # f)) THEN {FINAL_SIZE_ERROR} ELSE {})
\* a final size below data already received, with no final size fixed yet: the statement does not rule on it
Unruled(h, f, end, fin) == fin /\ f = None /\ end < h
(* the statement's two directions *)
BeyondOk(codes, close) == codes # {} => close \in codes
WithinOk(codes, close) == codes = {} => close \notin Accusing

Init == /\ hi = [s \in 0..NS-1 |-> 0] /\ final = [s \in 0..NS-1 |-> None] /\ total = 0
        /\ sl \in {1, 2} /\ cl \in {2, 3} /\ ms \in 1..NS /\ closed = None

Max(a, b) == IF a > b THEN a ELSE b
Recv(s, off, len, fin) ==
  /\ closed = None /\ off + len <= Top
  /\ LET end == off + len
         cs == Codes(hi[s], final[s], total, sl, cl, ms, s, end, fin) IN
     IF cs # {} \/ Unruled(hi[s], final[s], end, fin)
     THEN /\ closed' \in (IF cs # {} THEN cs ELSE {FINAL_SIZE_ERROR}) /\ UNCHANGED <<hi, final, total, sl, cl, ms>>
     ELSE /\ hi' = [hi EXCEPT ![s] = Max(@, end)]
          /\ total' = total + (Max(hi[s], end) - hi[s])
          /\ final' = [final EXCEPT ![s] = IF fin THEN end ELSE @]
          /\ UNCHANGED <<sl, cl, ms, closed>>
\* the application consumed data: larger limits are advertised
Raise == /\ closed = None /\ sl' \in sl .. MaxOff /\ cl' \in cl .. (2 * MaxOff) /\ ms' \in ms .. NS
         /\ UNCHANGED <<hi, final, total, closed>>

Next == \/ \E s \in 0..NS-1, off \in 0..Top, len \in 0..2, fin \in BOOLEAN : Recv(s, off, len, fin)
        \/ Raise
Spec == Init /\ [][Next]_vars

TypeOk == closed \in {None} \cup Accusing
\* bytes held for reassembly never exceed the credit advertised
Bounded == closed = None => (total <= cl /\ \A s \in 0..NS-1 : hi[s] <= sl /\ (hi[s] > 0 => s < ms))
FinalFixed == [][\A s \in 0..NS-1 : final[s] # None => final'[s] = final[s]]_vars
=============================================================================
