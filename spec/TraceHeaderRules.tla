------------------------- MODULE TraceHeaderRules -------------------------
(* Judges scenarios replayed into a real H3Connection.  One line = one stream:

     role, chan, frames, fin   what the peer sent (see HeaderRulesCases)
     ok                        the driver could deliver it: every header block
                               decodes, with an independent QPACK decoder, to
                               the list in `frames` (a block the decoder itself
                               refuses never reaches the rules of this property)
     events                    every event the application got for this stream,
                               in order: [t |-> "H" | "P" | "D", hs, n, end]
     close                     error code of QuicConnection.close, 0 = not closed
     raised                    exception that escaped handle_event, "" = none

   The statement's clauses come first; clauses named model:... compare with
   the additional rules of the implementation (HeaderRules part 3) and are
   reported as SPEC-DRIFT only. *)
EXTENDS HeaderRules, TraceBase

Min(S) == CHOOSE x \in S : \A y \in S : x <= y
IsHP(x) == x.t \in {"H", "P"}

RECURSIVE StateAt(_, _, _)
StateAt(role, frames, k) ==
  IF k = 0 THEN InitStream ELSE AcceptF(role, StateAt(role, frames, k - 1), frames[k])
RECURSIVE LegalFrom(_, _, _, _)
LegalFrom(role, s, frames, i) ==
  IF i > Len(frames) THEN TRUE
  ELSE FrameLegal(role, s, frames[i]) /\ LegalFrom(role, AcceptF(role, s, frames[i]), frames, i + 1)
RECURSIVE SumN(_)
SumN(q) == IF q = <<>> THEN 0 ELSE q[1].n + SumN(Tail(q))

Guard(e) ==
  /\ e.role \in Roles /\ e.chan \in {"request", "push"} /\ (e.chan = "push" => e.role = "client")
  /\ e.fin \in {"none", "last", "lone"}
  /\ e.ok
  /\ Len(e.frames) > 0
  /\ LegalFrom(e.role, InitStream, e.frames, 1)
  \* a push stream carries no PUSH_PROMISE
  /\ (e.chan = "push" => \A i \in DOMAIN e.frames : e.frames[i].t # "P")

\* --- the statement ---
\* index of the first frame that breaks a rule (Len+1: the end of the stream
\* arriving on its own does), 0 = the peer's message breaks no rule
FinAt(e, i) == i = Len(e.frames) /\ e.fin = "last"
FirstBroken(e) ==
  LET n == Len(e.frames)
      bad == {i \in 1..n : MustRefuse(e.role, StateAt(e.role, e.frames, i - 1), e.frames[i], FinAt(e, i))} IN
  IF bad # {} THEN Min(bad)
  ELSE IF e.fin = "lone" /\ EndBroken(StateAt(e.role, e.frames, n)) THEN n + 1 ELSE 0
BrokenHow(e, b) ==
  IF b <= Len(e.frames) /\ HeadersBroken(e.role, StateAt(e.role, e.frames, b - 1), e.frames[b])
  THEN LET k == KindOf(e.role, StateAt(e.role, e.frames, b - 1), e.frames[b]) IN k \o ":" \o BrokenRule(k, e.frames[b].hs)
  ELSE LET s == StateAt(e.role, e.frames, Len(e.frames)) IN
       "cl-mismatch:" \o (IF \A d \in s.declared : s.body > d THEN "body-longer"
                          ELSE IF \A d \in s.declared : s.body < d THEN "body-shorter" ELSE "body-between")

HPEvents(e) == SelectSeq(e.events, IsHP)
\* kind of the j-th header event: what the application takes it for
EventKind(e, j) ==
  LET q == HPEvents(e) IN
  IF q[j].t = "P" THEN "push"
  ELSE IF \E i \in 1..(j - 1) : q[i].t = "H" THEN "trailers"
  ELSE IF e.role = "server" THEN "request" ELSE "response"
BadEvents(e) == {j \in DOMAIN HPEvents(e) : ~WellFormed(EventKind(e, j), HPEvents(e)[j].hs)}

DEvents(e) == SelectSeq(e.events, LAMBDA x : x.t = "D")
Delivered(e) == SumN(DEvents(e))
EndSeen(e) == \E i \in DOMAIN e.events : e.events[i].end
\* what the application saw declared: the content-length of the first block
FirstSeen(e) ==
  LET H == {j \in DOMAIN HPEvents(e) : HPEvents(e)[j].t = "H"} IN
  IF H = {} THEN <<>> ELSE HPEvents(e)[Min(H)].hs

\* --- the implementation's additional rules (model: clauses only) ---
ImplExpectedAt(e, k) ==       \* after k frames accepted
  LET H == {i \in 1..k : e.frames[i].t = "H"} IN
  IF H = {} THEN -1 ELSE ImplExpected(e.frames[Min(H)].hs)
ImplBodyAt(e, k) == SumN(SelectSeq(SubSeq(e.frames, 1, k), LAMBDA f : f.t = "D"))
ImplEndBad(e, k) == ImplExpectedAt(e, k) # -1 /\ ImplExpectedAt(e, k) # ImplBodyAt(e, k)
ImplRefuses(e, i) ==
  LET f == e.frames[i] IN
  \/ IsHP(f) /\ ~ImplHeadersOk(KindOf(e.role, StateAt(e.role, e.frames, i - 1), f), f.hs)
  \/ FinAt(e, i) /\ ImplEndBad(e, i)
ImplFirstRefused(e) ==
  LET n == Len(e.frames)
      bad == {i \in 1..n : ImplRefuses(e, i)} IN
  IF bad # {} THEN Min(bad)
  ELSE IF e.fin = "lone" /\ ImplEndBad(e, n) THEN n + 1 ELSE 0
IsPrefix(p, q) == Len(p) <= Len(q) /\ \A i \in DOMAIN p : p[i] = q[i]
Blocks(q) == [i \in DOMAIN q |-> <<q[i].t, q[i].hs>>]
ModelOutcome(e) ==
  LET r == ImplFirstRefused(e)
      n == Len(e.frames) IN
  IF r = 0
  THEN /\ e.close = 0
       /\ Blocks(HPEvents(e)) = Blocks(SelectSeq(e.frames, IsHP))
       /\ Delivered(e) = ImplBodyAt(e, n)
       /\ EndSeen(e) = (e.fin # "none")
  ELSE /\ e.close = H3_MESSAGE_ERROR
       /\ IsPrefix(Blocks(HPEvents(e)), Blocks(SelectSeq(SubSeq(e.frames, 1, r - 1), IsHP)))
       \* (bytes of a DATA frame may be delivered before the end of the stream arrives)
       /\ Delivered(e) <= ImplBodyAt(e, IF r > n THEN n ELSE r)
       /\ ~EndSeen(e)

\* TLC's PrintT wraps a tuple that does not fit in 80 columns and the harness
\* reads verdicts line by line: a clause name must stay short.  A name that
\* would wrap is turned into a machinery failure rather than a lost verdict.
Name(s) == IF Len(s) <= 44 THEN s ELSE "harness-guard"

Clauses(e) ==
  IF ~Guard(e) THEN << <<"harness-guard", FALSE>> >> ELSE
  LET b == FirstBroken(e)
      how == IF b = 0 THEN "" ELSE BrokenHow(e, b)
      bad == BadEvents(e)
      isHdr == b # 0 /\ b <= Len(e.frames) /\ HeadersBroken(e.role, StateAt(e.role, e.frames, b - 1), e.frames[b]) IN
  << \* every header block handed to the application is well-formed
     <<IF bad = {} THEN "bad-event" ELSE
         Name("bad-event:" \o EventKind(e, Min(bad)) \o ":" \o BrokenRule(EventKind(e, Min(bad)), HPEvents(e)[Min(bad)].hs)),
       bad = {}>>,
     \* a message breaking a rule produces no event for the offending block ...
     <<Name("event-for:" \o how),
       isHdr => Len(HPEvents(e)) <= Len(SelectSeq(SubSeq(e.frames, 1, b - 1), IsHP))>>,
     \* ... and no end of stream when it is the content-length that disagrees
     <<Name("ended-despite:" \o how), (b # 0 /\ ~isHdr) => ~EndSeen(e)>>,
     \* ... and closes the connection with the HTTP/3 message error
     <<Name("no-msg-error:" \o how), b # 0 => e.close = H3_MESSAGE_ERROR>>,
     \* when a stream ends, a declared content-length equals the body delivered
     <<"ended-cl-mismatch:" \o (IF \A d \in Declared(FirstSeen(e)) : Delivered(e) > d THEN "body-longer" ELSE "body-shorter"),
       EndSeen(e) => ~CertainMismatch(Declared(FirstSeen(e)), LooseDeclared(FirstSeen(e)), Delivered(e))>>,
     \* not part of the statement
     <<"model:raised", e.raised = "">>,
     <<"model:outcome", ModelOutcome(e)>> >>

TInit == l = 1
TNext == Judge(Clauses)
TSpec == TInit /\ [][TNext]_l
============================================================================
