----------------------------- MODULE Lifecycle -----------------------------
(* Life cycle of one QUIC endpoint (aioquic QuicConnection.close, _close_begin,
   _close_end, get_timer, handle_timer, idle timeout) - property C09.

   Time is an integer.  The endpoint is "idle" (created, nothing happened),
   "live", "closing" (sent CONNECTION_CLOSE), "draining" (received one) or
   "terminated" (ConnectionTerminated reported).  timer is the deadline
   get_timer() names (NoTimer = None).  The environment promises to call
   handle_timer at or after the deadline (fair timer). *)
EXTENDS Naturals, Integers, Sequences, FiniteSets

CONSTANTS MaxTime, Idle, Pto
NoTimer == -1

VARIABLES ph, now, closeAt, lossAt, closeStart, terms, evAfter, sentAfter, pendingClose
vars == <<ph, now, closeAt, lossAt, closeStart, terms, evAfter, sentAfter, pendingClose>>

Live == ph \in {"live", "closing", "draining"}
Min(a, b) == IF a < b THEN a ELSE b
\* what get_timer() returns
TimerOf(p, ca, la) == IF p \in {"idle", "terminated"} THEN (IF p = "idle" THEN NoTimer ELSE NoTimer)
                      ELSE IF p = "live" /\ la # NoTimer THEN Min(ca, la) ELSE ca
Timer == TimerOf(ph, closeAt, lossAt)

Init == /\ ph = "idle" /\ now = 0 /\ closeAt = NoTimer /\ lossAt = NoTimer /\ closeStart = NoTimer
        /\ terms = 0 /\ evAfter = 0 /\ sentAfter = 0 /\ pendingClose = FALSE

Tick == now < MaxTime /\ now' = now + 1
        \* the environment fires the timer at or after its deadline: time may not run past it
        /\ (Timer = NoTimer \/ now < Timer)
        /\ UNCHANGED <<ph, closeAt, lossAt, closeStart, terms, evAfter, sentAfter, pendingClose>>

\* connect() on a client, or the first datagram on a server: the idle deadline is armed
Start == /\ ph = "idle" /\ ph' = "live" /\ closeAt' = now + Idle
         /\ lossAt' \in {NoTimer, now + Pto}
         /\ UNCHANGED <<now, closeStart, terms, evAfter, sentAfter, pendingClose>>
\* a packet is processed: idle deadline re-armed
Receive == /\ ph = "live" /\ closeAt' = now + Idle /\ lossAt' \in {NoTimer, now + Pto}
           /\ UNCHANGED <<ph, now, closeStart, terms, evAfter, sentAfter, pendingClose>>
\* application close() or a fatal error while processing input: close is pending until transmit
LocalClose == /\ ph = "live" /\ ~pendingClose /\ pendingClose' = TRUE
              /\ UNCHANGED <<ph, now, closeAt, lossAt, closeStart, terms, evAfter, sentAfter>>
\* transmit: emits the closing flight and starts the closing period
Transmit == /\ ph = "live" /\ pendingClose
            /\ ph' = "closing" /\ pendingClose' = FALSE
            /\ closeStart' = now /\ closeAt' = now + 3 * Pto
            /\ UNCHANGED <<now, lossAt, terms, evAfter, sentAfter>>
\* CONNECTION_CLOSE received
PeerClose == /\ ph = "live"
             /\ ph' = "draining" /\ closeStart' = now /\ closeAt' = now + 3 * Pto
             /\ UNCHANGED <<now, lossAt, terms, evAfter, sentAfter, pendingClose>>
\* handle_timer
Fire == /\ Live /\ Timer # NoTimer /\ now >= Timer
        /\ IF now >= closeAt
           THEN /\ ph' = "terminated" /\ terms' = terms + 1
                /\ UNCHANGED <<closeAt, lossAt>>
           ELSE /\ lossAt' \in {NoTimer, now + Pto}      \* loss detection / probe: a new deadline or none
                /\ UNCHANGED <<ph, closeAt, terms>>
        /\ UNCHANGED <<now, closeStart, evAfter, sentAfter, pendingClose>>

Next == Tick \/ Start \/ Receive \/ LocalClose \/ Transmit \/ PeerClose \/ Fire
Spec == Init /\ [][Next]_vars
FairSpec == Spec /\ WF_vars(Fire) /\ WF_vars(Transmit) /\ WF_vars(Tick)

-----------------------------------------------------------------------------
TypeOk == ph \in {"idle", "live", "closing", "draining", "terminated"} /\ terms \in 0..2
\* "from the first datagram or connect call until termination is reported, the connection
\*  always names a finite next timer deadline"
TimerAlways == Live => Timer # NoTimer
\* "reports termination exactly once"
TerminatesOnce == terms <= 1 /\ (ph = "terminated" <=> terms = 1)
\* "within three probe timeouts of starting to close"
Deadline == ph \in {"closing", "draining"} => closeAt <= closeStart + 3 * Pto
\* time never runs past a deadline without the timer having fired
NotOverdue == Live => now <= Timer
\* closing always terminates (the clock must be able to reach the deadline)
Terminates == (ph \in {"closing", "draining"} /\ closeAt <= MaxTime) ~> (ph = "terminated")
=============================================================================
