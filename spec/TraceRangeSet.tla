--------------------------- MODULE TraceRangeSet ---------------------------
EXTENDS RangeSet, TraceBase
SetOf(L) == UNION {(L[i][1] .. L[i][2]-1) : i \in DOMAIN L}
Expected(e, s) == CASE e.op = "add"      -> AddF(s, e.a, e.b)
                    [] e.op = "subtract" -> SubtractF(s, e.a, e.b)
                    [] e.op = "shift"    -> ShiftF(s)
Clauses(e) ==
  LET s == SetOf(e.pre) IN
  << <<"pre-canonical", Canonical(e.pre, s)>>,
     <<"post-canonical", Canonical(e.post, Expected(e, s))>>,
     <<"shift-result", e.op = "shift" => <<e.out[1], e.out[2]>> = FirstRun(s)>>,
     <<"bounds", e.post # <<>> => <<e.bounds[1], e.bounds[2]>> =
                   <<FirstRun(SetOf(e.post))[1], e.post[Len(e.post)][2]>> >>,
     <<"contains", \A x \in 0..M : (x \in SetOf(e.post)) <=> (x \in ToSet(e.members))>> >>
TInit == l = 1 /\ Init
TNext == Judge(Clauses) /\ UNCHANGED S
TSpec == TInit /\ [][TNext]_<<l, S>>
============================================================================
