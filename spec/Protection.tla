----------------------------- MODULE Protection ----------------------------
(* Packet protection as seen by a receiving endpoint - clauses (a) and (c) of property C02.
   (aioquic: receive_datagram drop paths, crypto.py CryptoPair/CryptoContext.)

   obs is the observable projection the statement names: events emitted, handshake
   progress (TLS state, keys installed, completion), stream data delivered, closure.
   A genuine packet whose keys are installed is processed; a packet altered in any bit
   after protection fails authentication and leaves obs unchanged, and the genuine packet
   is still accepted afterwards. *)
EXTENDS Naturals, FiniteSets, Sequences

CONSTANTS Epochs, MaxPn
VARIABLES keys, seen, obs, phase, lastForged
vars == <<keys, seen, obs, phase, lastForged>>

(* clauses shared with the trace module *)
Inert(before, after, nEvents) == before = after /\ nEvents = 0
Recovered(opened) == opened

Init == /\ keys = {"initial"} /\ seen = {} /\ obs = [events |-> 0, progress |-> 0, closed |-> FALSE]
        /\ phase = 0 /\ lastForged = FALSE

\* a genuine packet <<epoch, pn>>: processed iff its keys are installed and it is not a duplicate
RecvGenuine(ep, pn) ==
  /\ ~obs.closed
  /\ IF ep \in keys /\ <<ep, pn>> \notin seen
     THEN /\ seen' = seen \cup {<<ep, pn>>}
          /\ \E more \in SUBSET (Epochs \ keys) :          \* handshake progress may install further keys
               /\ keys' = keys \cup more
               /\ obs' = [obs EXCEPT !.events = @ + 1, !.progress = @ + Cardinality(more)]
     ELSE UNCHANGED <<keys, seen, obs>>
  /\ lastForged' = FALSE /\ UNCHANGED phase
\* any alteration of a protected packet: the AEAD tag (or the Retry integrity tag) no longer verifies
RecvForged(ep, pn) == /\ lastForged' = TRUE /\ UNCHANGED <<keys, seen, obs, phase>>
KeyUpdate == phase < 2 /\ "1rtt" \in keys /\ phase' = phase + 1 /\ lastForged' = FALSE /\ UNCHANGED <<keys, seen, obs>>
Close == ~obs.closed /\ obs' = [obs EXCEPT !.closed = TRUE] /\ lastForged' = FALSE /\ UNCHANGED <<keys, seen, phase>>

Next == \/ \E ep \in Epochs, pn \in 0..MaxPn : RecvGenuine(ep, pn) \/ RecvForged(ep, pn)
        \/ KeyUpdate \/ Close
Spec == Init /\ [][Next]_vars

TypeOk == keys \subseteq Epochs
ForgedInert == [][lastForged' => Inert(obs, obs', 0)]_vars
\* after any number of forgeries the genuine packet is still processed
GenuineStillAccepted == \A ep \in Epochs, pn \in 0..MaxPn :
   (ep \in keys /\ <<ep, pn>> \notin seen /\ ~obs.closed) => ENABLED (RecvGenuine(ep, pn) /\ seen' # seen)
=============================================================================
