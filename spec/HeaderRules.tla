---------------------------- MODULE HeaderRules ----------------------------
(* Well-formedness of HTTP/3 messages handed to the application:
   aioquic/h3/connection.py validate_header_name / validate_header_value /
   validate_headers (+ the four wrappers) / _check_content_length, observed
   through H3Connection.handle_event.

   Part 1 is the STATEMENT of the property, written from its text and not from
   the code: WellFormed(kind, headers), Declared, CertainMismatch, and the
   outcome relation Outs: a rule-breaking message MUST close the connection
   with H3_MESSAGE_ERROR and produce no event; anything else MAY be accepted
   or refused (what the statement does not say is nondeterminism).

   Part 2 is one pure operator per entry point of a request / push stream
   (a HEADERS frame, a PUSH_PROMISE frame, a DATA frame, the end of the
   stream); the actions built from them and the invariants TLC checks (M)
   are in HeaderRulesMC (this module declares no variables, so that the case
   generator and the trace module can extend it).

   Part 3 ("Impl...") are the additional rules the implementation applies on
   top of the statement (non-initial colon, allow / required lists per kind,
   content-length must parse with Python's int(), transfer-encoding).  They
   are used only for model: clauses (SPEC-DRIFT), never for a verdict.

   A header is <<name, value>>, both Seq(0..255).  A header list is a sequence
   of headers. *)
EXTENDS Naturals, Integers, Sequences, FiniteSets

NUL == 0   HT == 9   LF == 10   CR == 13   SP == 32   COLON == 58
H3_MESSAGE_ERROR == 270                      \* 0x10E
H3_GENERAL_PROTOCOL_ERROR == 257             \* 0x101

Kinds == {"request", "response", "trailers", "push"}

\* names as bytes
PMethod    == <<58, 109, 101, 116, 104, 111, 100>>                 \* :method
PScheme    == <<58, 115, 99, 104, 101, 109, 101>>                  \* :scheme
PAuthority == <<58, 97, 117, 116, 104, 111, 114, 105, 116, 121>>   \* :authority
PPath      == <<58, 112, 97, 116, 104>>                            \* :path
PProtocol  == <<58, 112, 114, 111, 116, 111, 99, 111, 108>>        \* :protocol
PStatus    == <<58, 115, 116, 97, 116, 117, 115>>                  \* :status
ContentLength    == <<99, 111, 110, 116, 101, 110, 116, 45, 108, 101, 110, 103, 116, 104>>
TransferEncoding == <<116, 114, 97, 110, 115, 102, 101, 114, 45, 101, 110, 99, 111, 100, 105, 110, 103>>
VTrailers == <<116, 114, 97, 105, 108, 101, 114, 115>>             \* "trailers"
VHttp     == <<104, 116, 116, 112>>
VHttps    == <<104, 116, 116, 112, 115>>

---------------------------------------------------------------------------
(* Part 1: the statement *)

IsPseudo(n) == Len(n) > 0 /\ n[1] = COLON

\* "lower-case names free of control, space and non-ASCII characters"
NameCharOk(c) == c > SP /\ c < 127 /\ ~(c >= 65 /\ c <= 90)
NameOk(n) == \A i \in DOMAIN n : NameCharOk(n[i])

\* "values free of NUL, CR and LF and of leading or trailing whitespace"
ValueOk(v) == /\ \A i \in DOMAIN v : v[i] \notin {NUL, LF, CR}
              /\ Len(v) > 0 => (v[1] \notin {SP, HT} /\ v[Len(v)] \notin {SP, HT})

\* pseudo-headers that exist for a kind of message (RFC 9114 4.3, RFC 9220);
\* a promised request is a request
RequestPseudo == {PMethod, PScheme, PAuthority, PPath, PProtocol}
Known(kind) == CASE kind = "request"  -> RequestPseudo
                 [] kind = "push"     -> RequestPseudo
                 [] kind = "response" -> {PStatus}
                 [] kind = "trailers" -> {}
\* "a :method on requests, a :status on responses and none on trailers"
Required(kind) == CASE kind = "request"  -> {PMethod}
                    [] kind = "push"     -> {PMethod}
                    [] kind = "response" -> {PStatus}
                    [] kind = "trailers" -> {}

NamesOk(hs)  == \A i \in DOMAIN hs : NameOk(hs[i][1])
ValuesOk(hs) == \A i \in DOMAIN hs : ValueOk(hs[i][2])
PseudoFirst(hs)  == \A i, j \in DOMAIN hs : (i < j /\ IsPseudo(hs[j][1])) => IsPseudo(hs[i][1])
PseudoUnique(hs) == \A i, j \in DOMAIN hs : (i < j /\ IsPseudo(hs[i][1])) => hs[i][1] # hs[j][1]
PseudoKnown(kind, hs) == \A i \in DOMAIN hs : IsPseudo(hs[i][1]) => hs[i][1] \in Known(kind)
RequiredPresent(kind, hs) == \A p \in Required(kind) : \E i \in DOMAIN hs : hs[i][1] = p

WellFormed(kind, hs) ==
  /\ NamesOk(hs) /\ ValuesOk(hs)
  /\ PseudoFirst(hs) /\ PseudoUnique(hs) /\ PseudoKnown(kind, hs)
  /\ RequiredPresent(kind, hs)

\* the first rule a list breaks, as a label for signatures
NameBreak(n) ==
  LET b == CHOOSE i \in DOMAIN n : ~NameCharOk(n[i]) /\ \A j \in DOMAIN n : ~NameCharOk(n[j]) => i <= j
      c == n[b] IN
  IF c >= 65 /\ c <= 90 THEN "name-uppercase"
  ELSE IF c = SP THEN "name-space"
  ELSE IF c < SP \/ c = 127 THEN "name-control"
  ELSE "name-non-ascii"
ValueBreak(v) ==
  IF \E i \in DOMAIN v : v[i] \in {NUL, LF, CR} THEN "value-nul-cr-lf"
  ELSE IF v[1] \in {SP, HT} THEN (IF Len(v) = 1 THEN "value-only-ws" ELSE "value-leading-ws")
  ELSE "value-trailing-ws"
BrokenRule(kind, hs) ==
  IF ~NamesOk(hs) THEN NameBreak(hs[CHOOSE i \in DOMAIN hs : ~NameOk(hs[i][1])][1])
  ELSE IF ~ValuesOk(hs) THEN ValueBreak(hs[CHOOSE i \in DOMAIN hs : ~ValueOk(hs[i][2])][2])
  ELSE IF ~PseudoFirst(hs) THEN "pseudo-after-regular"
  ELSE IF ~PseudoKnown(kind, hs) THEN "pseudo-unknown"
  ELSE IF ~PseudoUnique(hs) THEN "pseudo-repeated"
  ELSE IF ~RequiredPresent(kind, hs) THEN "pseudo-missing"
  ELSE "none"

\* content-length: a value "declares" a length when it is 1*DIGIT; any other
\* spelling declares nothing as far as the statement goes.  TLC integers are
\* 32 bit: a number of more than 9 significant digits is Huge, which no body
\* of a judged scenario reaches.
IsDigit(c) == c >= 48 /\ c <= 57
IsDigits(v) == Len(v) > 0 /\ \A i \in DOMAIN v : IsDigit(v[i])
Huge == 2147483647
RECURSIVE NoLeadingZeros(_)
NoLeadingZeros(v) == IF v # <<>> /\ v[1] = 48 THEN NoLeadingZeros(Tail(v)) ELSE v
RECURSIVE DecValSmall(_)
DecValSmall(v) == IF v = <<>> THEN 0 ELSE 10 * DecValSmall(SubSeq(v, 1, Len(v) - 1)) + (v[Len(v)] - 48)
DecVal(v) == LET w == NoLeadingZeros(v) IN IF Len(w) > 9 THEN Huge ELSE DecValSmall(w)
Declared(hs) == {DecVal(hs[i][2]) : i \in {j \in DOMAIN hs : hs[j][1] = ContentLength /\ IsDigits(hs[j][2])}}

\* The most liberal reading of a value as a number (it is the one of Python's
\* int()): optional surrounding whitespace, optional sign, digits grouped by
\* single underscores.
NumWs == {9, 10, 11, 12, 13, 32}
RECURSIVE LStrip(_)
LStrip(v) == IF v # <<>> /\ v[1] \in NumWs THEN LStrip(Tail(v)) ELSE v
RECURSIVE RStrip(_)
RStrip(v) == IF v # <<>> /\ v[Len(v)] \in NumWs THEN RStrip(SubSeq(v, 1, Len(v) - 1)) ELSE v
NumBody(v) == LET w == RStrip(LStrip(v)) IN IF w # <<>> /\ w[1] \in {43, 45} THEN Tail(w) ELSE w
NumNeg(v) == LET w == LStrip(v) IN w # <<>> /\ w[1] = 45
NumDigitsOf(u) == SelectSeq(u, IsDigit)
LooseOk(v) ==
  LET u == NumBody(v) IN
  /\ Len(u) > 0 /\ IsDigit(u[1]) /\ IsDigit(u[Len(u)])
  /\ \A i \in DOMAIN u : IsDigit(u[i]) \/ (u[i] = 95 /\ IsDigit(u[i - 1]) /\ IsDigit(u[i + 1]))
LooseVal(v) == LET x == DecVal(NumDigitsOf(NumBody(v))) IN IF NumNeg(v) THEN 0 - x ELSE x
LooseDeclared(hs) == {LooseVal(hs[i][2]) : i \in {j \in DOMAIN hs : hs[j][1] = ContentLength /\ LooseOk(hs[j][2])}}

\* "a declared content-length equals the number of body bytes delivered"
\* The strict reading: every declared value equals the body.
ContentLengthOk(hs, body) == \A d \in Declared(hs) : d = body
\* What is judged: broken under every reading of the statement - a length is
\* declared and the body equals no content-length field of the block however
\* liberally read.  (A block with several content-length fields that differ,
\* one of which matches, is where the statement is not explicit: the
\* implementation keeps the last field; it is reported in the evidence, not
\* judged.  Judge with ContentLengthOk instead to take the strict reading.)
CertainMismatch(declared, loose, body) == declared # {} /\ body \notin (declared \cup loose)

---------------------------------------------------------------------------
(* Part 2: a request / push stream, one operator per entry point *)

Roles == {"server", "client"}        \* server: receives requests; client: responses and push promises
InitStream == [phase |-> "initial", declared |-> {}, loose |-> {}, body |-> 0, ended |-> FALSE, closed |-> 0]

HF(hs) == [t |-> "H", hs |-> hs, n |-> 0]
PF(hs) == [t |-> "P", hs |-> hs, n |-> 0]
DF(n)  == [t |-> "D", hs |-> <<>>, n |-> n]

KindOf(role, s, f) ==
  IF f.t = "P" THEN "push"
  ELSE IF s.phase = "initial" THEN (IF role = "server" THEN "request" ELSE "response")
  ELSE "trailers"

\* frames a peer that respects the frame sequencing rules can send (other
\* sequences are refused with H3_FRAME_UNEXPECTED, which is not this property)
FrameLegal(role, s, f) ==
  CASE f.t = "H" -> s.phase # "trailers"
    [] f.t = "D" -> s.phase = "headers"
    [] f.t = "P" -> role = "client"
    [] OTHER     -> FALSE

\* state after the frame has been accepted
AcceptF(role, s, f) ==
  CASE f.t = "H" /\ s.phase = "initial" -> [s EXCEPT !.phase = "headers", !.declared = Declared(f.hs),
                                                      !.loose = LooseDeclared(f.hs)]
    [] f.t = "H" /\ s.phase # "initial" -> [s EXCEPT !.phase = "trailers"]
    [] f.t = "D" -> [s EXCEPT !.body = s.body + f.n]
    [] OTHER     -> s

\* the statement: this frame (with the end of the stream when fin) breaks a rule
HeadersBroken(role, s, f) == f.t \in {"H", "P"} /\ ~WellFormed(KindOf(role, s, f), f.hs)
EndBroken(s) == CertainMismatch(s.declared, s.loose, s.body)
MustRefuse(role, s, f, fin) ==
  \/ HeadersBroken(role, s, f)
  \/ fin /\ EndBroken(AcceptF(role, s, f))

Accepted == [k |-> "Accept", code |-> 0]
Closed(c) == [k |-> "Close", code |-> c]
\* allowed outcomes of handing one frame to the connection
FrameF(role, s, f, fin) ==
  IF MustRefuse(role, s, f, fin)
  THEN {[st |-> [s EXCEPT !.closed = H3_MESSAGE_ERROR], out |-> Closed(H3_MESSAGE_ERROR)]}
  ELSE {[st |-> [AcceptF(role, s, f) EXCEPT !.ended = fin], out |-> Accepted]}
       \cup {[st |-> [s EXCEPT !.closed = c], out |-> Closed(c)] : c \in {H3_MESSAGE_ERROR, H3_GENERAL_PROTOCOL_ERROR}}
\* allowed outcomes of the end of the stream arriving on its own
FinF(s) ==
  IF EndBroken(s)
  THEN {[st |-> [s EXCEPT !.closed = H3_MESSAGE_ERROR], out |-> Closed(H3_MESSAGE_ERROR)]}
  ELSE {[st |-> [s EXCEPT !.ended = TRUE], out |-> Accepted]}
       \cup {[st |-> [s EXCEPT !.closed = c], out |-> Closed(c)] : c \in {H3_MESSAGE_ERROR, H3_GENERAL_PROTOCOL_ERROR}}

---------------------------------------------------------------------------
(* Part 3: what the implementation does on top of the statement (model: only) *)

ImplAllowed(kind) == CASE kind = "request"  -> RequestPseudo
                       [] kind = "push"     -> {PMethod, PScheme, PAuthority, PPath}
                       [] kind = "response" -> {PStatus}
                       [] kind = "trailers" -> {}
ImplRequired(kind) == CASE kind = "request"  -> {PMethod, PAuthority}
                        [] kind = "push"     -> {PMethod, PScheme, PAuthority, PPath}
                        [] kind = "response" -> {PStatus}
                        [] kind = "trailers" -> {}

\* content-length must parse with Python's int() and not be negative
ImplContentLengthOk(v) == LooseOk(v) /\ LooseVal(v) >= 0

ValueOf(hs, name, default) ==
  IF \E i \in DOMAIN hs : hs[i][1] = name THEN hs[CHOOSE i \in DOMAIN hs : hs[i][1] = name][2] ELSE default

ImplHeadersOk(kind, hs) ==
  /\ NamesOk(hs) /\ ValuesOk(hs)
  /\ \A i \in DOMAIN hs : \A k \in DOMAIN hs[i][1] : k > 1 => hs[i][1][k] # COLON
  /\ PseudoFirst(hs) /\ PseudoUnique(hs)
  /\ \A i \in DOMAIN hs : IsPseudo(hs[i][1]) => hs[i][1] \in ImplAllowed(kind)
  /\ \A p \in ImplRequired(kind) : \E i \in DOMAIN hs : hs[i][1] = p
  /\ \A i \in DOMAIN hs : hs[i][1] = ContentLength => ImplContentLengthOk(hs[i][2])
  /\ \A i \in DOMAIN hs : hs[i][1] = TransferEncoding => hs[i][2] = VTrailers
  /\ ValueOf(hs, PScheme, <<>>) \in {VHttp, VHttps} =>
       (ValueOf(hs, PAuthority, <<>>) # <<>> /\ ValueOf(hs, PPath, <<>>) # <<>>)

\* the length the implementation expects: the last content-length of the
\* request / response block (-1: none); trailers and push promises declare nothing
ImplExpected(hs) ==
  LET I == {i \in DOMAIN hs : hs[i][1] = ContentLength} IN
  IF I = {} THEN -1 ELSE LooseVal(hs[CHOOSE i \in I : \A j \in I : j <= i][2])
============================================================================
