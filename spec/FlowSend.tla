------------------------------ MODULE FlowSend -----------------------------
(* Send-side flow control of one endpoint (aioquic: _write_application's
   max_offset computation, _write_stream_frame, _remote_max_data_used,
   _handle_max_data_frame, _handle_max_stream_data_frame,
   _handle_max_streams_*_frame, _get_or_create_stream_for_send) - property C06.

   Per stream s: written (by the application), highest (highest offset ever
   put on the wire), limit (latest MAX_STREAM_DATA processed), lost (offsets
   declared lost and not yet retransmitted).  connLimit is the latest MAX_DATA
   processed, connUsed the credit consumed.  maxStreams the peer's stream-count
   limit, streams are opened in index order. *)
EXTENDS Naturals, Integers, FiniteSets, Sequences

CONSTANTS NS, MaxLen, MaxLimit
Streams == 0 .. NS - 1
VARIABLES written, highest, limit, lost, connLimit, connUsed, maxStreams, opened
vars == <<written, highest, limit, lost, connLimit, connUsed, maxStreams, opened>>

Sum(f) == LET RECURSIVE S(_) S(k) == IF k = 0 THEN 0 ELSE f[k - 1] + S(k - 1) IN S(NS)
Min(a, b) == IF a < b THEN a ELSE b

(* clauses of the statement, shared with the trace module *)
StreamWithin(h, lim) == h <= lim
ConnWithin(total, lim) == total <= lim
CountWithin(index, maxS) == index < maxS

Init == /\ written = [s \in Streams |-> 0] /\ highest = [s \in Streams |-> 0]
        /\ limit \in [Streams -> 0..1] /\ lost = [s \in Streams |-> {}]
        /\ connLimit \in 0..2 /\ connUsed = 0 /\ maxStreams \in 0..NS /\ opened = 0

AppWrite(s, n) == /\ s <= opened /\ written[s] + n <= MaxLen /\ n > 0
                  /\ written' = [written EXCEPT ![s] = @ + n]
                  /\ opened' = IF s = opened THEN opened + 1 ELSE opened
                  /\ UNCHANGED <<highest, limit, lost, connLimit, connUsed, maxStreams>>
RecvMaxData(v) == /\ v \in 0..MaxLimit /\ connLimit' = IF v > connLimit THEN v ELSE connLimit
                  /\ UNCHANGED <<written, highest, limit, lost, connUsed, maxStreams, opened>>
RecvMaxStreamData(s, v) == /\ v \in 0..MaxLimit /\ limit' = [limit EXCEPT ![s] = IF v > @ THEN v ELSE @]
                           /\ UNCHANGED <<written, highest, lost, connLimit, connUsed, maxStreams, opened>>
RecvMaxStreams(v) == /\ v \in 0..NS /\ maxStreams' = IF v > maxStreams THEN v ELSE maxStreams
                     /\ UNCHANGED <<written, highest, limit, lost, connLimit, connUsed, opened>>
\* the peer's transport parameters, processed during the handshake.  In a resumed session data may have been sent
\* before (0-RTT) under the limits remembered from the previous connection (the values of Init); the peer must not
\* have reduced them (RFC 9000 7.4.1), so the new values can only raise what is in force - for every stream at once
RecvTransportParams(sl, cl, ms) ==
  /\ sl \in 0..MaxLimit /\ cl \in 0..MaxLimit /\ ms \in 0..NS
  /\ limit' = [s \in Streams |-> IF sl > limit[s] THEN sl ELSE limit[s]]
  /\ connLimit' = IF cl > connLimit THEN cl ELSE connLimit
  /\ maxStreams' = IF ms > maxStreams THEN ms ELSE maxStreams
  /\ UNCHANGED <<written, highest, lost, connUsed, opened>>
\* a STREAM frame with new data: up to the smaller of the stream limit and the remaining connection credit
EmitNew(s) ==
  LET maxOff == Min(highest[s] + connLimit - connUsed, limit[s])
      stop == Min(written[s], maxOff) IN
  /\ s < opened /\ CountWithin(s, maxStreams) /\ stop > highest[s]
  /\ connUsed' = connUsed + (stop - highest[s])
  /\ highest' = [highest EXCEPT ![s] = stop]
  /\ UNCHANGED <<written, limit, lost, connLimit, maxStreams, opened>>
Lose(s, o) == /\ o \in 0 .. highest[s] - 1 /\ o \notin lost[s]
              /\ lost' = [lost EXCEPT ![s] = @ \cup {o}]
              /\ UNCHANGED <<written, highest, limit, connLimit, connUsed, maxStreams, opened>>
\* retransmission of lost data: below highest, consumes no credit
Retransmit(s) == /\ lost[s] # {} /\ lost' = [lost EXCEPT ![s] = {}]
                 /\ UNCHANGED <<written, highest, limit, connLimit, connUsed, maxStreams, opened>>

Next == \/ \E s \in Streams, n \in 1..MaxLen : AppWrite(s, n)
        \/ \E v \in 0..MaxLimit : RecvMaxData(v)
        \/ \E s \in Streams, v \in 0..MaxLimit : RecvMaxStreamData(s, v)
        \/ \E v \in 0..NS : RecvMaxStreams(v)
        \/ \E sl \in 0..MaxLimit, cl \in 0..MaxLimit, ms \in 0..NS : RecvTransportParams(sl, cl, ms)
        \/ \E s \in Streams : EmitNew(s) \/ Retransmit(s) \/ \E o \in 0..MaxLen : Lose(s, o)
Spec == Init /\ [][Next]_vars
FairSpec == Spec /\ \A s \in Streams : WF_vars(EmitNew(s))

TypeOk == \A s \in Streams : highest[s] <= written[s]
\* "the highest stream offset sent on each stream is within the latest per-stream limit received"
StreamWithinLimit == \A s \in Streams : StreamWithin(highest[s], limit[s])
\* "the sum of highest offsets over all streams is within the peer's connection limit"
ConnWithinLimit == ConnWithin(Sum(highest), connLimit) /\ connUsed = Sum(highest)
\* "no stream is opened beyond the peer's stream-count limits"
StreamCount == \A s \in Streams : highest[s] > 0 => CountWithin(s, maxStreams)
\* "retransmissions consume no additional credit"
RetransmitFree == [][\A s \in Streams : highest'[s] = highest[s] => connUsed' - connUsed = Sum(highest') - Sum(highest)]_vars
\* "data blocked by a limit is sent once the limit is raised": nothing sendable stays unsent for ever
Sendable(s) == s < opened /\ s < maxStreams /\ highest[s] < written[s] /\ highest[s] < limit[s] /\ connUsed < connLimit
Unblocked == \A s \in Streams : Sendable(s) ~> ~Sendable(s)
=============================================================================
