----------------------------- MODULE AckTracker ----------------------------
(* Acknowledgement generation of one endpoint in one packet number space
   (aioquic: the tail of receive_datagram, _write_ack_frame, _on_ack_delivery) -
   property C12.

   recv      packet numbers received and authenticated
   queue     packet numbers that the next ACK frame will list (space.ack_queue)
   owed      the ack-eliciting packets that were the largest received so far when they
             arrived and that no ACK sent since covers, with their arrival time
   armed     whether the endpoint has asked for a timer for the delayed ACK (space.ack_at)
   flight    ACK frames in flight towards the peer: <<set listed, largest received when sent>>
   Time is an integer; an ACK is due MaxAckDelay after the arrival. *)
EXTENDS Naturals, Integers, FiniteSets, Sequences

CONSTANTS P,            \* packet numbers 0..P-1
          MaxAckDelay, MaxTime
VARIABLES recv, queue, owed, armedAt, flight, now, largest, sentAcks
vars == <<recv, queue, owed, armedAt, flight, now, largest, sentAcks>>
None == -1

Init == /\ recv = {} /\ queue = {} /\ owed = {} /\ armedAt = None /\ flight = {} /\ now = 0
        /\ largest = None /\ sentAcks = {}

(* pure operators shared with the trace module *)
IsOwed(pn, ackel, seenMax) == ackel /\ pn > seenMax
Covered(pn, ackSet) == pn \in ackSet
SoundAck(ackSet, received) == ackSet \subseteq received

Receive(pn, ackel) ==
  /\ pn \notin recv                           \* duplicates are discarded before this point
  /\ recv' = recv \cup {pn} /\ queue' = queue \cup {pn}
  /\ largest' = IF pn > largest THEN pn ELSE largest
  /\ owed' = IF IsOwed(pn, ackel, largest) THEN owed \cup {<<pn, now>>} ELSE owed
  /\ armedAt' = IF ackel /\ armedAt = None THEN now + 1 ELSE armedAt   \* aioquic delays by its granularity
  /\ UNCHANGED <<flight, now, sentAcks>>

\* transmit: an ACK frame listing the whole queue is written when the delayed-ack timer is due
EmitAck ==
  /\ armedAt # None /\ now >= armedAt /\ queue # {}
  /\ flight' = flight \cup {<<queue, largest>>}
  /\ sentAcks' = sentAcks \cup {queue}
  /\ owed' = {o \in owed : o[1] \notin queue}
  /\ armedAt' = None
  /\ UNCHANGED <<recv, queue, now, largest>>

\* the peer acknowledged a packet that carried one of our ACK frames: prune the queue
AckOfAck(f) == /\ f \in flight /\ flight' = flight \ {f}
               /\ queue' = {q \in queue : q > f[2]}
               /\ UNCHANGED <<recv, owed, armedAt, now, largest, sentAcks>>
LoseAck(f) == f \in flight /\ flight' = flight \ {f}
              /\ UNCHANGED <<recv, queue, owed, armedAt, now, largest, sentAcks>>

\* the caller fires the timer when asked: time does not pass a requested deadline
Tick == /\ now < MaxTime /\ (armedAt = None \/ now < armedAt)
        /\ now' = now + 1 /\ UNCHANGED <<recv, queue, owed, armedAt, flight, largest, sentAcks>>

Next == \/ \E pn \in 0..P-1, a \in BOOLEAN : Receive(pn, a)
        \/ EmitAck \/ Tick
        \/ \E f \in flight : AckOfAck(f) \/ LoseAck(f)
Spec == Init /\ [][Next]_vars

TypeOk == recv \subseteq 0..P-1 /\ queue \subseteq recv
\* "every ACK frame lists only packet numbers of packets it actually received and authenticated"
Sound == \A a \in sentAcks : SoundAck(a, recv)
\* "acknowledged no later than the acknowledgement delay the endpoint advertised"
Timely == \A o \in owed : now <= o[2] + MaxAckDelay
\* an owed packet is always still in the queue and a timer is armed for it (pruning never forgets it)
OwedQueued == \A o \in owed : o[1] \in queue /\ armedAt # None
=============================================================================
