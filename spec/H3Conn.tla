------------------------------ MODULE H3Conn ------------------------------
(* Connection-level state of aioquic.h3.connection.H3Connection (and of
   aioquic.h0.connection.H0Connection, layer = "h0") crossed with the input
   classes a peer can place on streams and in datagrams (DESIGN.md appendix
   B.4), for property C16:

     feeding any transport event to the HTTP layer RETURNS NORMALLY: it yields
     events or closes the connection with an HTTP/3 error code, and after such
     a close the transport can still emit its closing packet.

   Style of the corpus: every implementation entry point is a pure operator
   XxxF(s, args) == [st |-> successor, out |-> ...].  Here the entry point is
   handle_event; its argument is an input class c = [t |-> target stream kind,
   k |-> shape]; `out` is the SET of outcomes the specification allows for the
   class in that state.  An outcome is "events" or "close" with a code.  There
   is no operator that produces the outcome kind "raised": an exception is no
   outcome.  TransmitF is datagrams_to_send after a close.

   The reachable states are the valid prefixes: each prefix action feeds one
   well-formed piece of input and moves exactly one dimension of the state.
   In every reachable state every enabled class is tried (invariant Total);
   TLC prints the class table and every (state, enabled target) pair ("EDGE")
   and the harness concretises each (state, class) into bytes and chunkings
   and replays it on real objects (TraceH3Conn judges).

   The statement of C16 is the first three clauses of TraceH3Conn.  Which
   class closes and with which code (Expected) is model detail. *)
EXTENDS Naturals, Sequences, FiniteSets, TLC

CONSTANTS Layers,        \* subset of {"h3", "h0"}
          Roles,         \* subset of {"client", "server"}: the role of the endpoint under test
          TpValues,      \* subset of BOOLEAN: peer sent the max_datagram_frame_size transport parameter
          CtrlPhases,    \* bound on the phases of the peer's control stream
          EncPhases,     \* ... of the peer's QPACK encoder stream
          DecPhases,     \* subset of BOOLEAN
          ReqPhases,     \* ... of the request stream in focus (stream 0)
          PushPhases,    \* ... of the push stream in focus (client role only)
          PrintEdges     \* BOOLEAN: print <<"EDGE", ...>> for every enabled (state, class)

VARIABLE s
vars == <<s>>

--------------------------------------------------------------------------
(* Error codes: RFC 9114 8.1 (0x100-0x110), RFC 9204 6 (0x200-0x202),
   RFC 9297 5.2 H3_DATAGRAM_ERROR (0x33). *)
H3Codes == {51} \cup (256..272) \cup (512..514)
DGE == 51   GPE == 257   SCE == 259   CCS == 260   FU == 261   FE == 262   IDE == 264
SE == 265   MS == 266    ME == 270    QDF == 512   QES == 513  QDS == 514

Ev == [kind |-> "events", code |-> 0]
Close(c) == [kind |-> "close", code |-> c]
Closes(S) == {Close(c) : c \in S}
LegalOutcomes == {Ev} \cup Closes(H3Codes)          \* "raised" is not among them
AnyLegal == LegalOutcomes

--------------------------------------------------------------------------
(* The input-class alphabet. *)
UniShapes == {"CONTROL_TYPE", "CONTROL_FIN", "CONTROL_SETTINGS", "ENC_TYPE", "ENC_FIN", "DEC_TYPE", "DEC_FIN",
              "PUSH_TYPEONLY", "PUSH_TRUNC", "PUSH_ID", "PUSH_ID_FIN", "PUSH_HEADERS", "WT_UNI", "WT_UNI_TRUNC",
              "WT_UNI_FIN", "GREASE", "HUGE_TYPE", "TRUNC_TYPE", "TRUNC_TYPE_FIN", "EMPTY_FIN", "RANDOM"}
SettingsOk == {"SETTINGS_EMPTY", "SETTINGS_VALID", "SETTINGS_HUGE_VALS"}
SettingsUnparsable == {"SETTINGS_ODD", "SETTINGS_TRUNC_ID", "SETTINGS_TRUNC_VAL"}
SettingsRejected == {"SETTINGS_RESERVED", "SETTINGS_DUP", "SETTINGS_BOOL_BAD", "SETTINGS_WT_NO_DGRAM"}
MaxPushBad == {"MAXPUSH_EMPTY", "MAXPUSH_TRAIL", "MAXPUSH_TRUNC"}
CtrlIgnored == {"GOAWAY_VALID", "GOAWAY_EMPTY", "GOAWAY_OVERSIZE", "CANCEL_VALID", "CANCEL_EMPTY",
                "CANCEL_OVERSIZE", "PRIORITY_ON_CTRL", "UNKNOWN_ON_CTRL", "WT_ON_CTRL"}
CtrlForbidden == {"DATA_ON_CTRL", "HEADERS_ON_CTRL", "PP_ON_CTRL", "DUPPUSH_ON_CTRL"}
CtrlIncomplete == {"LEN_HUGE", "TRUNC_TYPE", "TRUNC_LEN"}
CtrlShapes == {"FIN", "SETTINGS_DGRAM", "SETTINGS_TWICE", "MAXPUSH_VALID", "MAXPUSH_DECREASE", "RANDOM"}
              \cup SettingsOk \cup SettingsUnparsable \cup SettingsRejected \cup MaxPushBad
              \cup CtrlIgnored \cup CtrlForbidden \cup CtrlIncomplete

HdrUndecodable == {"HEADERS_EMPTY", "HEADERS_GARBAGE", "HEADERS_RIC_HUGE", "NAME_70000"}
HdrDynamic == {"HEADERS_BLOCKED", "HEADERS_BLOCKED_FIN", "HEADERS_DYN_TRAILERS", "HEADERS_BADREF"}
HdrInvalid == {"NAME_UPPER", "NAME_2000", "VALUE_BAD", "PSEUDO_BAD", "CL_TE_BAD", "HEADERS_CL_MISMATCH"}
HdrShapes == {"HEADERS_VALID", "HEADERS_VALID_FIN", "TRAILERS_VALID", "VALUE_NONUTF8"}
             \cup HdrUndecodable \cup HdrDynamic \cup HdrInvalid
DataShapes == {"DATA", "DATA_FIN", "DATA_EMPTY", "DATA_PARTIAL", "DATA_LEN_HUGE"}
PPShapes == {"PP_VALID", "PP_EMPTY", "PP_TRUNC_ID", "PP_ID_ONLY", "PP_BADHDRS"}
ReqForbidden == {"CTRLFRAME_ON_REQ", "CTRLFRAME_ZEROLEN"}
ReqPassive == {"UNKNOWN_SMALL", "UNKNOWN_LEN_HUGE", "WT_FRAME", "WT_TRUNC", "FIN", "TRUNC_TYPE", "TRUNC_LEN"}
ReqShapes == HdrShapes \cup DataShapes \cup PPShapes \cup ReqForbidden \cup ReqPassive \cup {"RANDOM"}

EncShapes == {"SETCAP_OK", "SETCAP_OVER", "INSERT_OK", "INSERT_NO_CAP", "INSERT_BADREF", "DUP_NONEXIST",
              "TRUNC_INT", "INT_OVERFLOW", "STR_LEN_HUGE", "HUFFMAN_BAD", "FIN", "RANDOM"}
DecShapes == {"SECTION_ACK_UNKNOWN", "STREAM_CANCEL", "ICI_ZERO", "ICI_BEYOND", "INT_OVERFLOW", "TRUNC_INT",
              "FIN", "RANDOM"}
DgramShapes == {"EMPTY", "TRUNC_QSID", "VALID", "QSID_HUGE", "RANDOM"}
H0Shapes == {"LINE_OK", "LINE_NOSPACE", "LINE_BLANK", "NOCRLF", "NOCRLF_FIN", "EMPTY_FIN", "BINARY", "LONG", "RANDOM"}

ReqTargets == {"req", "newreq", "push"}
H3Classes == [t : {"newuni"}, k : UniShapes] \cup [t : {"ctrl"}, k : CtrlShapes]
             \cup [t : ReqTargets, k : ReqShapes] \cup [t : {"enc"}, k : EncShapes]
             \cup [t : {"dec"}, k : DecShapes] \cup [t : {"dgram"}, k : DgramShapes]
H0Targets == {"h0req", "h0new", "h0other"}
H0Classes == [t : H0Targets, k : H0Shapes]
Classes == H3Classes \cup H0Classes

--------------------------------------------------------------------------
(* State.  req / push phases are strings "<headers state>[.<parser phase>]":
   init | hdrs | trl, then optionally .mid (a partial frame header is
   buffered) .data (inside a DATA frame) .blocked (QPACK-blocked) .bfin
   (QPACK-blocked and the peer's FIN already delivered) .wt (WebTransport
   stream mode); "fin" = the peer's FIN was delivered, nothing pending. *)
AllCtrl == {"none", "open", "openMid", "set", "setMid"}
AllEnc == {"none", "open", "ins"}
AllReq == {"init", "init.mid", "init.blocked", "init.bfin", "init.wt", "hdrs", "hdrs.mid", "hdrs.data",
           "hdrs.blocked", "hdrs.bfin", "trl", "trl.mid", "fin"}
AllPush == {"none", "type", "open", "hdrs"}
ReqBlocked(r) == r \in {"init.blocked", "hdrs.blocked", "init.bfin", "hdrs.bfin"}
ReqFinished(r) == r \in {"fin", "init.bfin", "hdrs.bfin"}     \* nothing can follow on the stream
ReqH(r) == CASE r \in {"init", "init.mid", "init.blocked", "init.bfin", "init.wt"} -> "init"
             [] r \in {"hdrs", "hdrs.mid", "hdrs.data", "hdrs.blocked", "hdrs.bfin"} -> "hdrs"
             [] r \in {"trl", "trl.mid"} -> "trl"
             [] OTHER -> "fin"
ReqP(r) == CASE r \in {"init", "hdrs", "trl"} -> "idle"
             [] r \in {"init.mid", "hdrs.mid", "trl.mid"} -> "mid"
             [] r = "hdrs.data" -> "data"
             [] ReqBlocked(r) -> "blocked"
             [] r = "init.wt" -> "wt"
             [] OTHER -> "fin"

InitState(layer, role, tp) ==
  [layer |-> layer, role |-> role, tp |-> tp, ctrl |-> "none", enc |-> "none", dec |-> FALSE,
   req |-> "init", push |-> "none", mpi |-> FALSE, done |-> FALSE]
\* all closes collapse: what matters afterwards is only that the layer is done
DoneState(st) == [InitState(st.layer, st.role, st.tp) EXCEPT !.done = TRUE]

StateOk(st) ==
  /\ st.layer \in {"h3", "h0"} /\ st.role \in {"client", "server"} /\ st.tp \in BOOLEAN
  /\ st.ctrl \in AllCtrl /\ st.enc \in AllEnc /\ st.dec \in BOOLEAN /\ st.req \in AllReq
  /\ st.push \in AllPush /\ st.mpi \in BOOLEAN /\ st.done \in BOOLEAN
  /\ (st.push # "none" => st.role = "client")            \* only a client accepts pushes here
  /\ (st.mpi => st.role = "server" /\ st.ctrl \in {"set", "setMid"})
  /\ (ReqBlocked(st.req) => st.enc # "ins")              \* the section waits for entry 0
  /\ (st.layer = "h0" => st.ctrl = "none" /\ st.enc = "none" /\ ~st.dec /\ st.push = "none" /\ ~st.mpi
                         /\ ~st.done /\ st.req \in {"init", "init.mid", "hdrs", "fin"})

--------------------------------------------------------------------------
(* Which classes the peer can send in a state (a stream must exist to be
   continued; nothing follows a FIN). *)
TargetEnabled(st, t) ==
  IF st.layer = "h0"
  THEN t \in H0Targets /\ (t = "h0req" => st.req # "fin")
  ELSE /\ t \notin H0Targets
       /\ CASE t = "ctrl" -> st.ctrl # "none"
            [] t = "enc"  -> st.enc # "none"
            [] t = "dec"  -> st.dec
            [] t = "req"  -> ~ReqFinished(st.req)
            [] t = "push" -> st.role = "client" /\ st.push # "none"
            [] OTHER -> TRUE
Enabled(st, c) == c \in Classes /\ TargetEnabled(st, c.t)
Targets == {c.t : c \in Classes}
ShapesOf(t) == {c.k : c \in {x \in Classes : x.t = t}}

--------------------------------------------------------------------------
(* Expected outcomes (model detail).  Written from h3/connection.py; where
   RFC 9114 asks for more than the code does, both are allowed. *)
ExpUni(st, k) ==
  CASE k \in {"CONTROL_TYPE", "CONTROL_SETTINGS"} -> IF st.ctrl = "none" THEN {Ev} ELSE Closes({SCE})
    [] k = "CONTROL_FIN" -> IF st.ctrl = "none" THEN Closes({CCS}) ELSE Closes({SCE})
    [] k = "ENC_TYPE" -> IF st.enc = "none" THEN {Ev} ELSE Closes({SCE})
    [] k = "ENC_FIN"  -> IF st.enc = "none" THEN {Ev} \cup Closes({CCS}) ELSE Closes({SCE})
    [] k = "DEC_TYPE" -> IF ~st.dec THEN {Ev} ELSE Closes({SCE})
    [] k = "DEC_FIN"  -> IF ~st.dec THEN {Ev} \cup Closes({CCS}) ELSE Closes({SCE})
    [] k \in {"PUSH_TYPEONLY", "PUSH_TRUNC", "PUSH_ID", "PUSH_ID_FIN", "PUSH_HEADERS"} ->
         IF st.role = "client" THEN {Ev} \cup Closes({IDE}) ELSE {Ev} \cup Closes({SCE})
    [] k = "RANDOM" -> AnyLegal
    [] OTHER -> {Ev}                     \* WebTransport, reserved and unknown types, truncated type

ExpCtrl(st, k) ==
  IF st.ctrl \in {"openMid", "setMid"} THEN AnyLegal          \* continues a partial frame
  ELSE LET have == st.ctrl = "set" IN
  CASE k = "FIN" -> Closes({CCS})
    [] k \in CtrlIncomplete -> {Ev}
    [] k = "RANDOM" -> AnyLegal
    [] k \in SettingsOk -> IF have THEN Closes({FU}) ELSE {Ev}
    [] k = "SETTINGS_DGRAM" -> IF have THEN Closes({FU}) ELSE IF st.tp THEN {Ev} ELSE Closes({SE})
    [] k \in SettingsUnparsable -> IF have THEN Closes({FU}) ELSE Closes({FE, SE})
    [] k \in SettingsRejected -> IF have THEN Closes({FU}) ELSE Closes({SE})
    [] k = "SETTINGS_TWICE" -> Closes({FU})
    [] ~have -> Closes({MS})                             \* any other complete frame before SETTINGS
    [] k \in CtrlForbidden -> Closes({FU})
    [] k \in CtrlIgnored -> {Ev} \cup Closes({FE, IDE})
    [] k \in {"MAXPUSH_VALID", "MAXPUSH_DECREASE"} ->
         IF st.role = "client" THEN Closes({FU}) ELSE {Ev} \cup Closes({IDE})
    [] k \in MaxPushBad -> IF st.role = "client" THEN Closes({FU}) ELSE Closes({FE})

\* phase of the stream a request-like class is aimed at
TargetPhase(st, t) ==
  CASE t = "req" -> st.req
    [] t = "newreq" -> "init"
    [] t = "push" -> CASE st.push = "open" -> "init" [] st.push = "hdrs" -> "hdrs" [] OTHER -> "init.mid"

ExpPP(st, t, k) ==
  IF st.role = "server" \/ t = "push" THEN Closes({FU})
  ELSE CASE k = "PP_VALID" -> {Ev}
         [] k \in {"PP_EMPTY", "PP_TRUNC_ID"} -> Closes({FE, GPE, IDE})
         [] k = "PP_ID_ONLY" -> Closes({QDF})
         [] OTHER -> {Ev} \cup Closes({ME, QDF})

(* Shapes that leave a frame incomplete: harmless while the stream stays open; when
   the concretisation also carries the FIN the stream ends in the middle of a frame,
   which is H3_FRAME_ERROR since the repair 91a942d (property C14). *)
ReqCut == {"UNKNOWN_LEN_HUGE", "WT_TRUNC", "TRUNC_TYPE", "TRUNC_LEN", "DATA_PARTIAL", "DATA_LEN_HUGE"}

ExpReq(st, t, k) ==
  LET ph == TargetPhase(st, t)  h == ReqH(ph)  p == ReqP(ph) IN
  CASE p \in {"blocked", "wt"} -> {Ev}                   \* buffered / passed through
    [] p \in {"mid", "data"} -> AnyLegal                      \* continues a partial frame
    [] k \in ReqPassive -> IF k \in ReqCut THEN {Ev} \cup Closes({FE}) ELSE {Ev}
    [] k = "RANDOM" -> AnyLegal
    [] k \in PPShapes -> ExpPP(st, t, k)
    [] k \in ReqForbidden -> Closes({FU})
    [] h = "trl" -> Closes({FU})                         \* nothing but passive input after trailers
    [] k \in DataShapes -> IF h # "hdrs" THEN Closes({FU})
                            ELSE IF k \in ReqCut THEN {Ev} \cup Closes({FE}) ELSE {Ev}
    [] k \in {"HEADERS_VALID", "HEADERS_VALID_FIN"} -> IF h = "init" THEN {Ev} ELSE Closes({ME})
    [] k = "TRAILERS_VALID" -> IF h = "hdrs" THEN {Ev} ELSE Closes({ME})
    [] k = "VALUE_NONUTF8" -> IF h = "init" THEN {Ev} ELSE Closes({ME})
    [] k \in HdrUndecodable -> Closes({QDF})
    [] k \in HdrDynamic -> {Ev} \cup Closes({ME, QDF})
    [] k \in HdrInvalid -> IF h = "init" THEN Closes({ME, QDF}) ELSE {Ev} \cup Closes({ME, QDF})

ExpEnc(st, k) ==
  IF ReqBlocked(st.req) THEN AnyLegal                         \* may release the blocked section
  ELSE CASE k \in {"SETCAP_OK", "INSERT_OK", "TRUNC_INT"} -> {Ev}
         [] k \in {"INSERT_NO_CAP", "DUP_NONEXIST"} -> {Ev} \cup Closes({QES})
         [] k = "FIN" -> {Ev} \cup Closes({CCS})
         [] k = "RANDOM" -> AnyLegal
         [] OTHER -> Closes({QES})

ExpDec(st, k) ==
  CASE k \in {"STREAM_CANCEL", "TRUNC_INT"} -> {Ev}
    [] k = "FIN" -> {Ev} \cup Closes({CCS})
    [] k = "RANDOM" -> AnyLegal
    [] OTHER -> Closes({QDS})

ExpDgram(st, k) ==
  CASE k \in {"EMPTY", "TRUNC_QSID"} -> Closes({DGE})
    [] k = "RANDOM" -> AnyLegal
    [] OTHER -> {Ev}

Expected(st, c) ==
  IF st.layer = "h0" \/ st.done THEN {Ev}                \* HTTP/0.9 never closes; a done layer ignores input
  ELSE CASE c.t = "newuni" -> ExpUni(st, c.k)
         [] c.t = "ctrl" -> ExpCtrl(st, c.k)
         [] c.t \in ReqTargets -> ExpReq(st, c.t, c.k)
         [] c.t = "enc" -> ExpEnc(st, c.k)
         [] c.t = "dec" -> ExpDec(st, c.k)
         [] c.t = "dgram" -> ExpDgram(st, c.k)

(* handle_event on the events of class c.  The successor is only tracked as
   far as the exploration needs it: a class that certainly closes leads to the
   done state, everything else leaves the prefix state (prefix actions below
   are the ones that move it). *)
HandleEventF(st, c) ==
  LET out == Expected(st, c) IN
  [st |-> IF Ev \notin out THEN DoneState(st) ELSE st, out |-> out]

\* datagrams_to_send after the layer closed the connection: returns normally
\* and carries the CONNECTION_CLOSE, whatever the reason text was
TransmitF(st) == [st |-> st, out |-> [raised |-> FALSE, closing |-> st.done]]

--------------------------------------------------------------------------
(* Valid prefixes: one well-formed piece of input per action. *)
Set(f, v) == s' = [s EXCEPT ![f] = v]
H3 == s.layer = "h3" /\ ~s.done
Full == s.tp                \* with ~tp only the control stream is explored (SETTINGS_DGRAM)

OpenControl   == H3 /\ s.ctrl = "none" /\ "open" \in CtrlPhases /\ Set("ctrl", "open")
Settings      == H3 /\ s.ctrl = "open" /\ "set" \in CtrlPhases /\ Set("ctrl", "set")
CtrlPartial   == H3 /\ \/ s.ctrl = "open" /\ "openMid" \in CtrlPhases /\ Set("ctrl", "openMid")
                       \/ s.ctrl = "set" /\ "setMid" \in CtrlPhases /\ Set("ctrl", "setMid")
MaxPushId     == H3 /\ Full /\ s.role = "server" /\ s.ctrl = "set" /\ ~s.mpi /\ Set("mpi", TRUE)
OpenEncoder   == H3 /\ Full /\ s.enc = "none" /\ "open" \in EncPhases /\ Set("enc", "open")
\* inserting entry 0 releases a blocked field section, which is valid in its position
EncoderInsert == H3 /\ Full /\ s.enc = "open" /\ "ins" \in EncPhases
                 /\ s' = [s EXCEPT !.enc = "ins",
                                   !.req = CASE s.req = "init.blocked" -> "hdrs"
                                             [] s.req = "hdrs.blocked" -> "trl"
                                             [] s.req \in {"init.bfin", "hdrs.bfin"} -> "fin"
                                             [] OTHER -> s.req]
                 /\ s'.req \in ReqPhases
OpenDecoder   == H3 /\ Full /\ ~s.dec /\ TRUE \in DecPhases /\ Set("dec", TRUE)
ReqStep(from, to) == H3 /\ Full /\ s.req = from /\ to \in ReqPhases /\ Set("req", to)
ReqPrefix == \/ ReqStep("init", "hdrs") \/ ReqStep("hdrs", "trl") \/ ReqStep("init", "fin")
             \/ ReqStep("init", "init.mid") \/ ReqStep("hdrs", "hdrs.mid") \/ ReqStep("trl", "trl.mid")
             \/ ReqStep("hdrs", "hdrs.data") \/ ReqStep("init", "init.wt")
             \/ (s.enc # "ins" /\ (\/ ReqStep("init", "init.blocked") \/ ReqStep("hdrs", "hdrs.blocked")
                                   \/ ReqStep("init", "init.bfin") \/ ReqStep("hdrs", "hdrs.bfin")))
PushStep(to) == H3 /\ Full /\ s.role = "client" /\ s.push = "none" /\ to \in PushPhases /\ Set("push", to)
PushPrefix == PushStep("type") \/ PushStep("open") \/ PushStep("hdrs")
H0Step(from, to) == s.layer = "h0" /\ s.req = from /\ to \in ReqPhases /\ Set("req", to)
H0Prefix == \/ (s.role = "server" /\ H0Step("init", "init.mid")) \/ H0Step("init", "hdrs") \/ H0Step("init", "fin")

Prefix == OpenControl \/ Settings \/ CtrlPartial \/ MaxPushId \/ OpenEncoder \/ EncoderInsert \/ OpenDecoder
          \/ ReqPrefix \/ PushPrefix \/ H0Prefix

\* What TLC prints for the harness (strings: TLC wraps long tuples over several
\* lines): the class table once, and for every reachable state the targets whose
\* classes are enabled there; the pairs to replay are state x ShapesOf(target).
B(b) == IF b THEN "T" ELSE "F"
Edge(st, t) == "EDGE|" \o st.layer \o "|" \o st.role \o "|" \o B(st.tp) \o "|" \o st.ctrl \o "|" \o st.enc
               \o "|" \o B(st.dec) \o "|" \o st.req \o "|" \o st.push \o "|" \o B(st.mpi) \o "|" \o B(st.done)
               \o "|" \o t
ASSUME PrintEdges => \A c \in Classes : PrintT("CLASS|" \o c.t \o "|" \o c.k)

\* some input closes the layer in every HTTP/3 state (an empty datagram does), so the
\* done state is reachable from every prefix; which classes close is Expected's business
CloseStep == H3 /\ s' = DoneState(s)

Init == \E layer \in Layers, role \in Roles, tp \in TpValues :
          (layer = "h0" => tp) /\ s = InitState(layer, role, tp)
Next == Prefix \/ CloseStep
Spec == Init /\ [][Next]_vars

--------------------------------------------------------------------------
(* Properties checked on the design (M). *)
TypeOk == StateOk(s)
Tried(st, t) == TargetEnabled(st, t) /\ (~st.tp => t = "ctrl")   \* with ~tp only the control stream is tried
\* The specification is total and never allows an exception or a foreign code:
\* every class enabled in a reachable state has a non-empty set of outcomes, all of
\* them "events" or a close with an HTTP/3 code.  Evaluated once per reachable
\* state; it also prints the (state, target) pairs the harness replays.
Total == \A t \in Targets : Tried(s, t) =>
           /\ (PrintEdges => PrintT(Edge(s, t)))
           /\ \A k \in ShapesOf(t) :
                 LET out == Expected(s, [t |-> t, k |-> k]) IN out # {} /\ out \subseteq LegalOutcomes
SomeClassCloses == (s.layer = "h3" /\ ~s.done) => HandleEventF(s, [t |-> "dgram", k |-> "EMPTY"]).st = DoneState(s)
\* a done layer ignores whatever follows, and the transport can still emit the close
DoneAbsorbs == s.done => /\ \A c \in Classes : Enabled(s, c) => Expected(s, c) = {Ev}
                         /\ TransmitF(s).out = [raised |-> FALSE, closing |-> TRUE]
DoneStays == [][s.done => s'.done]_vars
============================================================================
