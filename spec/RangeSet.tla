----------------------------- MODULE RangeSet -----------------------------
(* aioquic/quic/rangeset.py: a set of naturals kept as a sorted list of
   disjoint, non-touching half-open ranges.  The abstract value is the set;
   the canonical form of the representation is part of the contract because
   ACK frames and stream reassembly read the list directly. *)
EXTENDS Naturals, Integers, Sequences, FiniteSets
CONSTANT M                       \* universe 0..M-1

VARIABLE S
Init == S = {}
AddF(s, a, b)      == s \cup (a .. b-1)
SubtractF(s, a, b) == s \ (a .. b-1)
\* maximal runs of s as <<start, stop>> pairs
Runs(s) == {<<a, b>> \in (0..M) \X (0..M) :
              /\ a < b /\ (a .. b-1) \subseteq s /\ (a - 1) \notin s /\ b \notin s}
FirstRun(s) == CHOOSE r \in Runs(s) : \A q \in Runs(s) : r[1] <= q[1]
ShiftF(s) == s \ (FirstRun(s)[1] .. FirstRun(s)[2] - 1)
\* a list of pairs is the canonical representation of s
Canonical(L, s) == /\ {<<L[i][1], L[i][2]>> : i \in DOMAIN L} = Runs(s)
                   /\ \A i \in 1..Len(L)-1 : L[i][2] < L[i+1][1]

Next == \/ \E a \in 0..M-1, b \in 1..M : a < b /\ S' = AddF(S, a, b)
        \/ \E a \in 0..M-1, b \in 1..M : a < b /\ S' = SubtractF(S, a, b)
        \/ S # {} /\ S' = ShiftF(S)
Spec == Init /\ [][Next]_S
\* the runs partition the set
RunsCover == S = UNION {(r[1] .. r[2]-1) : r \in Runs(S)}
============================================================================
