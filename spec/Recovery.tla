------------------------------ MODULE Recovery ------------------------------
(* Loss recovery and congestion accounting: aioquic/quic/recovery.py
   QuicPacketRecovery with congestion/reno.py and congestion/cubic.py.

   One pure operator per entry point (on_packet_sent, on_ack_received,
   on_loss_detection_timeout, discard_space).  Floating-point RTT arithmetic is
   deliberately not modelled: *which* packets the time threshold declares lost
   is a parameter (`lost`) constrained by LostOk -- everything at or below
   largest_acked - 3 MUST be lost, anything at or below largest_acked MAY be,
   and the choice is downward closed because send times grow with packet
   numbers.  Reno's window arithmetic is modelled exactly (integer time in
   ms); CUBIC's window is taken from the observation and only constrained by
   the floor.  HyStart (leaving slow start on an RTT increase) is a boolean
   choice `hy`. *)
EXTENDS Naturals, Integers, Sequences, FiniteSets

CONSTANTS NS,          \* number of packet number spaces
          MDS,         \* max datagram size
          P,           \* model checking only: packet numbers 0..P-1 per space
          Sizes,       \* model checking only: packet sizes
          MaxNow,      \* model checking only: clock ticks
          MaxPto       \* model checking only: consecutive probe timeouts
NONE == -1
KInitialWindow == 10
KMinimumWindow == 2
KPacketThreshold == 3

VARIABLES st, out
vars == <<st, out>>

Spaces == 1..NS
EmptySpace == [sent |-> <<>>, la |-> 0, lts |-> FALSE, aeif |-> 0]
InitState(cc) ==
  [cc |-> cc, sp |-> [s \in Spaces |-> EmptySpace],
   bif |-> 0, cwnd |-> KInitialWindow * MDS, ssthresh |-> NONE, stash |-> 0,
   recStart |-> 0, pto |-> 0, reported |-> {}]

Max(a, b) == IF a > b THEN a ELSE b
Pns(space) == DOMAIN space.sent          \* sent is a function pn -> packet record
SetMax(S) == CHOOSE x \in S : \A y \in S : y <= x
SetMin(S) == CHOOSE x \in S : \A y \in S : x <= y
RECURSIVE SumSize(_, _)
SumSize(f, S) == IF S = {} THEN 0
                 ELSE LET x == CHOOSE y \in S : TRUE IN
                      (IF f[x].inflight THEN f[x].size ELSE 0) + SumSize(f, S \ {x})
Restrict(f, S) == [x \in S |-> f[x]]

---------------------------------------------------------------------------
(* congestion controller *)

\* Reno on_packet_acked applied to the in-flight packets of A in pn order
RECURSIVE RenoAcked(_, _, _)
RenoAcked(c, f, A) ==       \* c = [cwnd, ssthresh, stash, recStart]
  IF A = {} THEN c
  ELSE LET x == SetMin(A)
           p == f[x]
           c2 == IF ~p.inflight \/ p.t <= c.recStart THEN c
                 ELSE IF c.ssthresh = NONE \/ c.cwnd < c.ssthresh
                 THEN [c EXCEPT !.cwnd = c.cwnd + p.size]
                 ELSE LET stash2 == c.stash + p.size
                          count  == stash2 \div c.cwnd
                      IN [c EXCEPT !.stash = stash2 - count * c.cwnd,
                                   !.cwnd = c.cwnd + count * MDS]
       IN RenoAcked(c2, f, A \ {x})

\* Reno on_packets_lost for the in-flight packets of L (non-empty)
RenoLost(c, f, L, now) ==
  LET lastT == f[SetMax(L)].t IN
  IF lastT > c.recStart
  THEN LET w == Max(c.cwnd \div 2, KMinimumWindow * MDS) IN
       [c EXCEPT !.recStart = now, !.cwnd = w, !.ssthresh = w]
  ELSE c

CC(s) == [cwnd |-> s.cwnd, ssthresh |-> s.ssthresh, stash |-> s.stash, recStart |-> s.recStart]
WithCC(s, c) == [s EXCEPT !.cwnd = c.cwnd, !.ssthresh = c.ssthresh, !.stash = c.stash, !.recStart = c.recStart]

---------------------------------------------------------------------------
(* loss detection *)

\* candidates: tracked packets at or below the largest acknowledged number
Cand(space) == {pn \in Pns(space) : pn <= space.la}
LostOk(space, lost) ==
  /\ lost \subseteq Cand(space)
  /\ \A pn \in Cand(space) : pn <= space.la - KPacketThreshold => pn \in lost
  /\ \A p \in lost, q \in Cand(space) : q < p => q \in lost

\* remove `lost` from space k of s, adjust counters, record the reports,
\* inform the congestion controller (obsCwnd is used for CUBIC only)
ApplyLost(s, k, lost, now, obsCwnd) ==
  LET space == s.sp[k]
      f == space.sent
      inflightLost == {pn \in lost : f[pn].inflight}
      s1 == [s EXCEPT !.sp[k].sent = Restrict(f, Pns(space) \ lost),
                      !.sp[k].aeif = space.aeif - Cardinality({pn \in lost : f[pn].ackel}),
                      !.bif = s.bif - SumSize(f, lost),
                      !.reported = s.reported \cup {<<k, pn>> : pn \in lost}]
  IN IF inflightLost = {} THEN s1
     ELSE IF s.cc = "reno" THEN WithCC(s1, RenoLost(CC(s1), f, inflightLost, now))
     ELSE [s1 EXCEPT !.cwnd = obsCwnd]

---------------------------------------------------------------------------
(* entry points *)

\* on_packet_sent(packet, space); p = [pn, size, inflight, ackel, crypto, t]
SendOk(s, k, p) == \A q \in Pns(s.sp[k]) : q < p.pn
SendF(s, k, p, obsCwnd) ==
  LET space == s.sp[k]
      rec == [size |-> p.size, inflight |-> p.inflight, ackel |-> p.ackel,
              crypto |-> p.crypto, t |-> p.t]
      f2 == [x \in Pns(space) \cup {p.pn} |-> IF x = p.pn THEN rec ELSE space.sent[x]]
  IN [st |-> [s EXCEPT !.sp[k].sent = f2,
                       !.sp[k].aeif = space.aeif + (IF p.ackel THEN 1 ELSE 0),
                       !.bif = s.bif + (IF p.inflight THEN p.size ELSE 0),
                       \* CUBIC may fall back to the initial window after idling
                       !.cwnd = IF s.cc = "cubic" /\ p.inflight THEN obsCwnd ELSE s.cwnd],
      out |-> [acked |-> {}, lost |-> {}, probe |-> FALSE]]

\* on_ack_received(ack_rangeset = R, now, space k)
AckF(s, k, R, now, lost, hy, obsCwnd) ==
  LET space == s.sp[k]
      f == space.sent
      largest == SetMax(R)
      newly == Pns(space) \cap R
      la2 == Max(space.la, largest)
      s0 == [s EXCEPT !.sp[k].la = la2]
  IN IF newly = {} THEN [st |-> s0, out |-> [acked |-> {}, lost |-> {}, probe |-> FALSE]]
     ELSE
     LET s1 == [s0 EXCEPT !.sp[k].sent = Restrict(f, Pns(space) \ newly),
                          !.sp[k].aeif = space.aeif - Cardinality({pn \in newly : f[pn].ackel}),
                          !.bif = s.bif - SumSize(f, newly),
                          !.reported = s.reported \cup {<<k, pn>> : pn \in newly}]
         c1 == IF s.cc = "reno" THEN RenoAcked(CC(s1), f, newly) ELSE CC(s1)
         sample == largest = SetMax(newly) /\ \E pn \in newly : f[pn].ackel
         c2 == IF hy /\ sample /\ c1.ssthresh = NONE THEN [c1 EXCEPT !.ssthresh = c1.cwnd] ELSE c1
         s2 == [WithCC(s1, c2) EXCEPT !.cwnd = IF s.cc = "reno" THEN c2.cwnd ELSE obsCwnd]
         s3 == ApplyLost(s2, k, lost, now, obsCwnd)
         cand3 == Cand(s3.sp[k])
     IN [st |-> [s3 EXCEPT !.pto = 0, !.sp[k].lts = (cand3 # {})],
         out |-> [acked |-> {<<k, pn>> : pn \in newly}, lost |-> {<<k, pn>> : pn \in lost},
                  probe |-> FALSE]]
AckGuard(s, k, R, lost, hy) ==
  LET s0 == [s EXCEPT !.sp[k].la = Max(s.sp[k].la, SetMax(R)),
                      !.sp[k].sent = Restrict(s.sp[k].sent, Pns(s.sp[k]) \ R)]
  IN IF Pns(s.sp[k]) \cap R = {} THEN lost = {} ELSE LostOk(s0.sp[k], lost)

\* on_loss_detection_timeout(now): a space with a loss time armed -> loss
\* detection there (k # 0); otherwise PTO (k = 0): all CRYPTO packets are
\* rescheduled and a probe is requested
TimeoutGuard(s, k, lostBy) ==
  IF k # 0 THEN s.sp[k].lts /\ LostOk(s.sp[k], lostBy[k]) /\ \A j \in Spaces \ {k} : lostBy[j] = {}
  ELSE /\ \A j \in Spaces : ~s.sp[j].lts
       /\ \A j \in Spaces : lostBy[j] = {pn \in Pns(s.sp[j]) : s.sp[j].sent[pn].crypto}
RECURSIVE LoseAll(_, _, _, _, _)
LoseAll(s, ks, lostBy, now, obsCwnd) ==
  IF ks = {} THEN s
  ELSE LET k == SetMin(ks) IN
       LoseAll(IF lostBy[k] = {} THEN s ELSE ApplyLost(s, k, lostBy[k], now, obsCwnd),
               ks \ {k}, lostBy, now, obsCwnd)
TimeoutF(s, k, lostBy, now, obsCwnd) ==
  LET allLost == UNION {{<<j, pn>> : pn \in lostBy[j]} : j \in Spaces} IN
  IF k # 0
  THEN LET s1 == ApplyLost(s, k, lostBy[k], now, obsCwnd) IN
       [st |-> [s1 EXCEPT !.sp[k].lts = (Cand(s1.sp[k]) # {})],
        out |-> [acked |-> {}, lost |-> allLost, probe |-> FALSE]]
  ELSE [st |-> [LoseAll(s, Spaces, lostBy, now, obsCwnd) EXCEPT !.pto = s.pto + 1],
        out |-> [acked |-> {}, lost |-> allLost, probe |-> TRUE]]

\* discard_space(space k)
DiscardF(s, k) ==
  [st |-> [s EXCEPT !.sp[k] = [EmptySpace EXCEPT !.la = s.sp[k].la],
                    !.bif = s.bif - SumSize(s.sp[k].sent, Pns(s.sp[k])),
                    !.pto = 0],
   out |-> [acked |-> {}, lost |-> {}, probe |-> FALSE]]

---------------------------------------------------------------------------
(* Properties (C08) *)
RECURSIVE SumSpaces(_, _)
SumSpaces(s, ks) == IF ks = {} THEN 0
                    ELSE LET k == SetMin(ks) IN
                         SumSize(s.sp[k].sent, Pns(s.sp[k])) + SumSpaces(s, ks \ {k})
\* the bytes counted as in flight equal the total size of the in-flight
\* packets still being tracked
Ledger(s)     == s.bif = SumSpaces(s, Spaces)
NonNegative(s) == s.bif >= 0 /\ \A k \in Spaces : s.sp[k].aeif >= 0
AckElCount(s) == \A k \in Spaces :
                   s.sp[k].aeif = Cardinality({pn \in Pns(s.sp[k]) : s.sp[k].sent[pn].ackel})
(* Wire clause of C08: "apart from acknowledgement-only packets and one probe datagram per
   timeout, an endpoint never puts more in-flight bytes on the wire than its congestion
   window allows".  cwnd/bif are the values before a transmit call, probe whether a probe
   timeout is being answered, emitted the in-flight bytes (ack-eliciting packets, padding)
   the call put on the wire, mds the maximum datagram size. *)
WireBudget(cwnd, bif, probe, mds) ==
  LET room == IF cwnd > bif THEN cwnd - bif ELSE 0 IN
  IF probe /\ room < mds THEN mds ELSE room
WireOk(cwnd, bif, probe, mds, emitted) == emitted <= WireBudget(cwnd, bif, probe, mds)

CwndFloor(s)  == s.cwnd >= KMinimumWindow * MDS
\* a tracked packet has not been reported yet
Untold(s)     == \A k \in Spaces : \A pn \in Pns(s.sp[k]) : <<k, pn>> \notin s.reported
StateOk(s)    == Ledger(s) /\ NonNegative(s) /\ AckElCount(s) /\ CwndFloor(s) /\ Untold(s)

---------------------------------------------------------------------------
(* design-level exploration *)
VARIABLES now,     \* clock
          nextPn   \* next packet number per space (packet numbers are never reused)
Kinds == {[inflight |-> FALSE, ackel |-> FALSE, crypto |-> FALSE],    \* ACK only
          [inflight |-> TRUE,  ackel |-> FALSE, crypto |-> FALSE],    \* padding only
          [inflight |-> TRUE,  ackel |-> TRUE,  crypto |-> FALSE],    \* data
          [inflight |-> TRUE,  ackel |-> TRUE,  crypto |-> TRUE]}     \* handshake data
Apply(r) == st' = r.st /\ out' = r.out
NextPn(space, k) == IF Pns(space) = {} THEN 0 ELSE SetMax(Pns(space)) + 1
Init == /\ st = InitState("reno") /\ out = [acked |-> {}, lost |-> {}, probe |-> FALSE]
        /\ now = 1 /\ nextPn = [k \in Spaces |-> 0]
Next ==
  \/ now' = now + 1 /\ now < MaxNow /\ UNCHANGED <<st, out, nextPn>>
  \/ /\ UNCHANGED now
     /\ \/ \E k \in Spaces, kind \in Kinds, size \in Sizes :
             LET pn == nextPn[k] IN
             pn < P /\ nextPn' = [nextPn EXCEPT ![k] = pn + 1] /\ Apply(SendF(st, k, [pn |-> pn, size |-> size, inflight |-> kind.inflight,
                                           ackel |-> kind.ackel, crypto |-> kind.crypto, t |-> now], st.cwnd))
        \* ack ranges: any set of tracked numbers plus any largest number
        \* (range sets that differ only in never-sent numbers below the largest
        \* have the same effect); LostOk makes every allowed loss choice a
        \* downward-closed cut of the remaining packets
        \/ UNCHANGED nextPn /\ \E k \in Spaces :
             \E R \in UNION {{A \cup {top} : top \in {t \in 0..P : \A a \in A : a <= t}} :
                                A \in SUBSET Pns(st.sp[k])} :
             \E lost \in {{pn \in Pns(st.sp[k]) \ R : pn <= cut} : cut \in -1..P},
                hy \in {FALSE} \cup {h \in {TRUE} : st.ssthresh = NONE} :
               AckGuard(st, k, R, lost, hy) /\ Apply(AckF(st, k, R, now, lost, hy, st.cwnd))
        \/ UNCHANGED nextPn /\ \E k \in Spaces :
             \E lost \in {{pn \in Pns(st.sp[k]) : pn <= cut} : cut \in -1..P} :
             LET lb == [j \in Spaces |-> IF j = k THEN lost ELSE {}] IN
             TimeoutGuard(st, k, lb) /\ Apply(TimeoutF(st, k, lb, now, st.cwnd))
        \/ UNCHANGED nextPn /\ LET lb == [j \in Spaces |-> {pn \in Pns(st.sp[j]) : st.sp[j].sent[pn].crypto}] IN
             st.pto < MaxPto /\ TimeoutGuard(st, 0, lb) /\ Apply(TimeoutF(st, 0, lb, now, st.cwnd))
        \/ UNCHANGED nextPn /\ \E k \in Spaces : Apply(DiscardF(st, k))
Spec == Init /\ [][Next]_<<vars, now, nextPn>>
TypeOk == StateOk(st)
View == <<st, nextPn, now>>
\* each packet's frames are reported acknowledged or lost at most once
AtMostOnce == [][(out'.acked \cup out'.lost) \cap st.reported = {} /\ out'.acked \cap out'.lost = {}]_vars
============================================================================
