--------------------------- MODULE TraceFlowRecv ---------------------------
(* Judges how a real endpoint X reacts to frames from a key-holding peer (C07).  Lines:
     init   sl cl ms client          limits X advertised in its transport parameters; whether X is the client
     adv    kind sid value           X put MAX_STREAM_DATA ("stream") / MAX_DATA ("conn") / MAX_STREAMS ("bidi"/"uni") on the wire
     opened sid                      X itself opened stream sid (frames on it are legal for the peer)
     frame  sid off len fin reset close live   a STREAM (reset = FALSE) or RESET_STREAM (reset = TRUE, off = final size,
                                     len = 0) frame was processed by X; close = error code of the CONNECTION_CLOSE X
                                     emitted right afterwards, or -1.  Offsets of 2^62-1-len are carried as 2^30.
     xclose close                    X closed the connection on a CRYPTO / PATH_CHALLENGE / NEW_CONNECTION_ID packet
     ncid   seq rpt                  a NEW_CONNECTION_ID frame of the peer (genuine ones of the handshake included) reached X
     rcid   seq                      X put RETIRE_CONNECTION_ID seq on the wire (the peer has seen that ID retired)
     buf    reasm crypto chal retire pcids   measured peer-driven state after a hostile packet *)
EXTENDS FlowRecv, TraceBase

VARIABLE s
S0(e) == [sl |-> e.sl, cl |-> e.cl, ms |-> e.ms, client |-> e.client, lim |-> <<>>, hi |-> <<>>, fin |-> <<>>,
          total |-> 0, mb |-> e.ms, mu |-> e.ms, opened |-> {}, closed |-> FALSE,
          ann |-> {0}, ret |-> {}, rpt |-> 0, cidOver |-> FALSE]
(* Connection IDs the peer has announced and not seen retired: RFC 9000 5.1.1 lets the peer keep at most
   active_connection_id_limit (8, what aioquic advertises) of them, except transiently when the same frame retires the
   excess through Retire Prior To.  cidOver remembers that the peer went beyond that at some point. *)
CidLimit == 8
ActiveIds(st) == {q \in st.ann : q >= st.rpt} \ st.ret
(* IDs the peer asked X to retire and has not seen retired yet: RFC 9000 5.1.2 lets X treat more than it is willing to track
   (it should allow for at least twice the limit) as CONNECTION_ID_LIMIT_ERROR, so a peer that piles these up is not "within". *)
ToRetire(st) == {q \in st.ann : q < st.rpt} \ st.ret
At(f, k, d) == IF k \in DOMAIN f THEN f[k] ELSE d
Put(f, k, v) == [x \in (DOMAIN f) \cup {k} |-> IF x = k THEN v ELSE f[x]]
MaxOf(a, b) == IF a > b THEN a ELSE b
MinePeer(st, sid) == (sid % 2 = 0) # st.client           \* initiated by the peer of X
Uni(sid) == (sid \div 2) % 2 = 1
Index(st, sid) == IF MinePeer(st, sid) THEN sid \div 4 ELSE -1
CodesOf(st, e) ==
  LET end == e.off + e.len IN
  Codes(At(st.hi, e.sid, 0), At(st.fin, e.sid, -1), st.total, MaxOf(st.sl, At(st.lim, e.sid, 0)), st.cl,
        IF Uni(e.sid) THEN st.mu ELSE st.mb, Index(st, e.sid), end, e.fin \/ e.reset)

StepS(st, e) ==
  CASE e.ev = "init" -> S0(e)
    [] e.ev = "adv" -> (CASE e.kind = "stream" -> [st EXCEPT !.lim = Put(@, e.sid, MaxOf(At(@, e.sid, 0), e.value))]
                          [] e.kind = "conn"   -> [st EXCEPT !.cl = MaxOf(@, e.value)]
                          [] e.kind = "bidi"   -> [st EXCEPT !.mb = MaxOf(@, e.value)]
                          [] e.kind = "uni"    -> [st EXCEPT !.mu = MaxOf(@, e.value)])
    [] e.ev = "opened" -> [st EXCEPT !.opened = @ \cup {e.sid}]
    [] e.ev = "xclose" -> [st EXCEPT !.closed = TRUE]
    [] e.ev = "ncid" -> LET st1 == [st EXCEPT !.ann = @ \cup {e.seq}, !.rpt = MaxOf(@, e.rpt)] IN
                        [st1 EXCEPT !.cidOver = @ \/ Cardinality(ActiveIds(st1)) > CidLimit
                                                   \/ Cardinality(ToRetire(st1)) > 2 * CidLimit]
    [] e.ev = "rcid" -> [st EXCEPT !.ret = @ \cup {e.seq}]
    [] e.ev = "frame" ->
         IF st.closed \/ (~e.live /\ e.close = -1) THEN st
         ELSE IF e.close # -1 THEN [st EXCEPT !.closed = TRUE]
         ELSE LET end == e.off + e.len  h == At(st.hi, e.sid, 0) IN
              [st EXCEPT !.hi = Put(@, e.sid, MaxOf(h, end)), !.total = @ + (MaxOf(h, end) - h),
                         !.fin = IF e.fin \/ e.reset THEN Put(@, e.sid, end) ELSE @]
    [] OTHER -> st

Cl(st, e) ==
  CASE e.ev = "frame" ->
         IF st.closed \/ ~e.live \/ Unruled(At(st.hi, e.sid, 0), At(st.fin, e.sid, -1), e.off + e.len, e.fin \/ e.reset) THEN << >> ELSE
         << <<"frame-beyond-a-limit-closes-with-the-matching-error", BeyondOk(CodesOf(st, e), e.close)>>,
            <<"peer-within-advertised-limits-is-never-accused", WithinOk(CodesOf(st, e), e.close)>> >>
    [] e.ev = "xclose" ->
         << <<"peer-within-connection-id-limit-is-never-accused", (e.close = 9 /\ ~st.closed) => st.cidOver>> >>
    [] e.ev = "buf" ->
         << <<"reassembly-bytes-within-advertised-connection-credit", st.closed \/ e.reasm <= st.cl>>,
            <<"pending-handshake-data-bounded", e.crypto <= 524288>>,
            <<"queued-path-challenges-bounded", e.chal <= 32>>,
            <<"pending-retirements-bounded", e.retire <= 100>>,
            <<"stored-peer-connection-ids-bounded", st.closed \/ e.pcids <= 8>>,
            <<"model:pending-retirements-within-4x-limit", e.retire <= 33>> >>
    [] OTHER -> << >>

TInit == l = 1 /\ s = S0([sl |-> 0, cl |-> 0, ms |-> 0, client |-> FALSE]) /\ Init
TNext == /\ \/ /\ l <= Len(Lines)
               /\ LET f == FirstFailing(Cl(s, Lines[l])) IN
                    IF f = "" THEN TRUE ELSE PrintT(<<"TRACE-FAIL", l, f>>)
               /\ s' = StepS(s, Lines[l])
               /\ l' = l + 1
            \/ /\ l = Len(Lines) + 1
               /\ PrintT(<<"TRACE-END", Len(Lines)>>)
               /\ l' = l + 1 /\ UNCHANGED s
         /\ UNCHANGED vars
TSpec == TInit /\ [][TNext]_<<l, s, vars>>
============================================================================
