------------------------------ MODULE TraceCid -----------------------------
(* Judges the connection-ID behaviour of real connections, as seen on the wire by the
   observer, against the clauses of Cid (C18).  Lines:
     init   cid0_c cid0_s        the connection ID each endpoint chose for itself in the handshake (sequence 0)
     ncid   ep seq rpt cid       a NEW_CONNECTION_ID frame arrived at ep in a packet it could authenticate
     rcid   ep seq               a RETIRE_CONNECTION_ID frame arrived at ep likewise
     pkt    ep dg dcid retire ncids   a packet left ep in datagram dg: destination CID, RETIRE_CONNECTION_ID sequence
                                 numbers and <<seq, cid>> of NEW_CONNECTION_ID frames it carries
     deliv  dg                   datagram dg was delivered to the peer
     closed ep                   ep started closing / terminated
     end    quiescent *)
EXTENDS Cid, TraceBase

VARIABLE s
\* limits: init carries lim_c / lim_s, the active_connection_id_limit each endpoint advertises (aioquic: 8 unless the harness set
\* another one on the fresh object); an endpoint issues at most what its PEER advertised and stores at most what IT advertised
Peer(p) == IF p = "c" THEN "s" ELSE "c"
MinOf(a, b) == IF a < b THEN a ELSE b
E0(cid0peer) == [map |-> (cid0peer :> 0), rpt |-> 0, used |-> {}, sentRetire |-> {}, closed |-> FALSE,
                 issued |-> {0}, retiredByPeer |-> {}, everUsed |-> {}, cur |-> -1]
S0(e) == [c |-> E0(e.cid0_s), s |-> E0(e.cid0_c), delivered |-> {}, lim |-> [c |-> e.lim_c, s |-> e.lim_s]]
SeqOf(x, cid) == IF cid \in DOMAIN x.map THEN x.map[cid] ELSE -1
Known(x) == {x.map[c] : c \in DOMAIN x.map}
\* IDs ep no longer may use: below the retire-prior-to it processed, or used earlier and left for another one
AbandonedIn(x) == {q \in Known(x) : q < x.rpt} \cup (x.everUsed \ {x.cur})

StepE(x, e) ==
  CASE e.ev = "ncid" -> [x EXCEPT !.map = IF e.cid \in DOMAIN @ THEN @ ELSE (e.cid :> e.seq) @@ @,
                                  !.rpt = IF e.rpt > @ THEN e.rpt ELSE @]
    [] e.ev = "rcid" -> [x EXCEPT !.retiredByPeer = @ \cup {e.seq}]
    [] e.ev = "pkt"  -> [x EXCEPT !.sentRetire = @ \cup {<<q, e.dg>> : q \in ToSet(e.retire)},
                                  !.issued = @ \cup {n[1] : n \in ToSet(e.ncids)},
                                  !.everUsed = IF SeqOf(x, e.dcid) >= 0 THEN @ \cup {SeqOf(x, e.dcid)} ELSE @,
                                  !.cur = IF SeqOf(x, e.dcid) >= 0 THEN SeqOf(x, e.dcid) ELSE @]
    [] e.ev = "closed" -> [x EXCEPT !.closed = TRUE]
    [] OTHER -> x
StepS(st, e) == IF e.ev = "init" THEN S0(e)
                ELSE IF e.ev = "deliv" THEN [st EXCEPT !.delivered = @ \cup {e.dg}]
                ELSE IF e.ev = "end" THEN st
                ELSE [st EXCEPT ![e.ep] = StepE(st[e.ep], e)]

Cl(st, e) ==
  CASE e.ev = "pkt" ->
         LET x == st[e.ep]  q == SeqOf(x, e.dcid)
             issued2 == x.issued \cup {n[1] : n \in ToSet(e.ncids)} IN
         << <<"packet-addressed-at-or-above-retire-prior-to", (q >= 0 /\ ~x.closed) => UseOk(q, x.rpt)>>,
            <<"packet-never-addressed-to-an-id-announced-as-retired",
               (q >= 0 /\ ~x.closed) => ~\E sr \in x.sentRetire : sr[1] = q /\ sr[2] # e.dg>>,
            <<"active-issued-ids-within-peer-limit", IssueOk(Cardinality(issued2 \ x.retiredByPeer), st.lim[Peer(e.ep)])>> >>
    [] e.ev = "end" ->
         << <<"retirement-announced-for-every-abandoned-id",
               \A p \in {"c", "s"} : (st[p].closed \/ ~e.quiescent) \/
                  \A q \in AbandonedIn(st[p]) : \E sr \in st[p].sentRetire : sr[1] = q /\ sr[2] \in st.delivered>>,
            <<"stored-ids-within-advertised-limit",
               \A p \in {"c", "s"} : st[p].closed \/
                  StoredOk(Cardinality({q \in Known(st[p]) : q >= st[p].rpt /\ ~\E sr \in st[p].sentRetire : sr[1] = q}), st.lim[p])>>,
            <<"retired-ids-are-replaced",
               \* (an endpoint that ever had as many IDs outstanding as it is willing to issue - the peer's limit, at most
               \* aioquic's own 8 - has that many again once everything settled)
               \A p \in {"c", "s"} : LET want == MinOf(8, st.lim[Peer(p)]) IN
                  (st[p].closed \/ ~e.quiescent \/ Cardinality(st[p].issued) < want) \/
                  Cardinality(st[p].issued \ st[p].retiredByPeer) >= want>> >>
    [] OTHER -> << >>

TInit == l = 1 /\ s = S0([cid0_c |-> 0, cid0_s |-> 0, lim_c |-> 8, lim_s |-> 8]) /\ Init
TNext == /\ \/ /\ l <= Len(Lines)
               /\ LET f == FirstFailing(Cl(s, Lines[l])) IN
                    IF f = "" THEN TRUE ELSE PrintT(<<"TRACE-FAIL", l, f>>)
               /\ s' = StepS(s, Lines[l])
               /\ l' = l + 1
            \/ /\ l = Len(Lines) + 1
               /\ PrintT(<<"TRACE-END", Len(Lines)>>)
               /\ l' = l + 1 /\ UNCHANGED s
         /\ UNCHANGED vars
TSpec == TInit /\ [][TNext]_<<l, s, vars>>
============================================================================
