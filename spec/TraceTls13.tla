---------------------------- MODULE TraceTls13 ----------------------------
(* Judges what real aioquic.tls.Context objects did when a key-holding
   adversary fed them handshake messages (harness/drivers/c11.py) with the
   operators of Tls13.

   A case is a run of lines: "init" (configuration of a fresh Context), for a
   client "start" (handle_message(b"")), then one "recv" line per message fed
   on its own or one "batch" line for several messages fed in one buffer; or
   "init" and one "quic" line (the flight sent to a real QuicConnection).
   Recorded per call: state before, message name, raised alert class ("none",
   the AlertDescription name, or "exception:<type>"), state after, the
   update_traffic_key_cb calls, Context._session_resumed.

   ms is the abstract state threaded through a case.  Its history part
   (transcript of accepted messages, verified-flags, keys) follows what the
   implementation ACCEPTED, its state component is the implementation's, so
   that after a first disagreement the rest of the case is still judged on
   the true history (a skipped CertificateVerify shows at the Finished). *)
EXTENDS Tls13, TraceBase, Integers

VARIABLE ms

KeySeq(e) == [i \in DOMAIN e.keys |-> K(e.keys[i][1], e.keys[i][2])]
KeySet(e) == ToSet(KeySeq(e))
Accepted(e) == e.alert = "none"
Res(e) == [acc |-> Accepted(e), sel |-> e.resumed]

\* history after the line: flags follow the accepted message, state and keys the code
After(s, e, n) ==
  LET h == IF Accepted(e) THEN Flags(s, Msg(n), e.resumed) ELSE s IN
  [h EXCEPT !.state = e.post, !.keys = @ \cup KeySet(e),
            !.alert = IF Accepted(e) THEN "none" ELSE "dead"]

\* a context completes the handshake in this call
Completes(e) == e.post # e.pre /\ e.post \in {"CLIENT_POST_HANDSHAKE", "SERVER_POST_HANDSHAKE"}

RecvClauses(e) ==
  LET n == e.name  m == Msg(n)
      allowed == m.type \in Allowed(ms.state)
      x == RecvF(ms, n, Res(e))
      h == After(ms, e, n) IN
  IF ~(Alive(ms) /\ e.pre = ms.state /\ n \in Alphabet(ms.role)
       /\ ms.state # "CLIENT_HANDSHAKE_START")
  THEN << <<"harness-guard", FALSE>> >> ELSE
  << \* "only the message types TLS 1.3 permits next are processed and any other
     \*  type is refused with an unexpected-message alert without changing state
     \*  or installing keys"
     <<"not-permitted:processed", allowed \/ (e.post = e.pre /\ Len(e.keys) = 0 /\ ~Accepted(e))>>,
     <<"not-permitted:refusal", allowed \/ e.alert = "unexpected_message">>,
     \* "a client never accepts Finished without a verified CertificateVerify
     \*  unless it offered, and the server selected, a pre-shared key"
     <<"finished-without-verified-cv",
         (ms.role = "client" /\ m.type = "FINISHED" /\ Accepted(e)) => Authenticated(ms)>>,
     \* a message whose signature / MAC does not verify authenticates nothing
     <<"unverified:accepted-or-keys-released",
         (m.type \in {"CERTIFICATE_VERIFY", "FINISHED"} /\ ~m.ok)
            => (~Accepted(e) /\ e.post = e.pre /\ Len(e.keys) = 0)>>,
     \* "no ordering, omission or repetition ... other than the legal one lets a
     \*  client finish" (and the same for the client's flight at a server)
     <<"complete:illegal-history", Completes(e) => NoSkipOf(h)>>,
     \* "traffic keys for an epoch are released only after the messages that
     \*  authenticate them were verified"
     <<"keys-before-auth", \A k \in KeySet(e) : Authorised(k, h)>>,
     \* the rest of the specification (not prescribed by the statement)
     <<"model:refused-but-changed", Accepted(e) \/ (e.post = e.pre /\ Len(e.keys) = 0)>>,
     <<"model:valid-refused", (allowed /\ Valid(ms, m)) => Accepted(e)>>,
     <<"model:invalid-accepted", (allowed /\ ~Valid(ms, m)) => ~Accepted(e)>>,
     <<"model:post-state", e.post = x.st.state>>,
     <<"model:keys", KeySet(e) \ ZeroRtt = x.out.keys
                     /\ Cardinality(KeySet(e)) = Len(e.keys)
                     /\ KeySet(e) \cap ms.keys = {}>>,
     <<"model:resumed-flag", Accepted(e) => (e.resumed = x.st.pskSelected)>> >>

StartClauses(e) ==
  IF ~(Alive(ms) /\ ms.state = "CLIENT_HANDSHAKE_START" /\ e.pre = ms.state)
  THEN << <<"harness-guard", FALSE>> >> ELSE
  LET x == StartF(ms)  h == [ms EXCEPT !.state = e.post, !.keys = KeySet(e)] IN
  << <<"keys-before-auth", \A k \in KeySet(e) : Authorised(k, h)>>,
     <<"model:start", Accepted(e) /\ e.post = x.st.state
                      /\ KeySet(e) \subseteq {K("ENCRYPT", "ZERO_RTT")}>> >>

(* Several messages in one input buffer (handle_message loops over them):
   only the end of the call is observable.  The statement is judged
   angelically: the observation must be explained by SOME number j of accepted
   messages -- the first j are admissible and valid in turn, and message j+1,
   if any, was refused: with unexpected_message when its type is not permitted
   in the state reached, with anything else otherwise (a valid message may be
   refused, that is left open).  The deterministic run of the model (every
   valid message accepted) is compared exactly by the last, model: clause. *)
Explains(e, j) ==
  LET x == Run(ms, SubSeq(e.names, 1, j), {}, e.resumed) IN
  /\ Alive(x.st) /\ e.post = x.st.state
  /\ \A k \in KeySet(e) : Authorised(k, [x.st EXCEPT !.keys = @ \cup KeySet(e)])
  /\ IF j = Len(e.names) THEN Accepted(e)
     ELSE /\ ~Accepted(e)
          /\ (Msg(e.names[j + 1]).type \notin Allowed(x.st.state)) <=> (e.alert = "unexpected_message")
BatchClauses(e) ==
  IF ~(Alive(ms) /\ e.pre = ms.state /\ ms.state # "CLIENT_HANDSHAKE_START"
       /\ \A i \in DOMAIN e.names : e.names[i] \in Alphabet(ms.role))
  THEN << <<"harness-guard", FALSE>> >> ELSE
  LET x == Run(ms, e.names, {}, e.resumed) IN
  << <<"batch:outcome-not-explained", \E j \in 0..Len(e.names) : Explains(e, j)>>,
     <<"model:batch-outcome", /\ e.post = x.st.state /\ KeySet(e) \ ZeroRtt = x.keys
                              /\ (Accepted(e) <=> Alive(x.st))
                              /\ (x.st.alert = "unexpected_message" <=> e.alert = "unexpected_message")>> >>

(* One layer down (connection.py): a real QuicConnection client was sent a
   genuine ServerHello and then e.names as the Handshake-level flight by a
   server holding the keys.  Observed: HandshakeCompleted emitted, the error
   code the client closed with (-1: none), its final TLS state, 1-RTT receive
   keys installed.  CRYPTO_ERROR + unexpected_message = 0x100 + 10. *)
QuicClauses(e) ==
  IF ~(Alive(ms) /\ ms.state = "CLIENT_HANDSHAKE_START" /\ e.fed
       /\ \A i \in DOMAIN e.names : e.names[i] \in ClientAlphabet)
  THEN << <<"harness-guard", FALSE>> >> ELSE
  LET x == Run(StartF(ms).st, <<"SH">> \o e.names, {}, FALSE) IN
  << <<"quic:completed-illegally", e.completed => x.st.state = "CLIENT_POST_HANDSHAKE">>,
     <<"quic:1rtt-keys-before-auth", e.onertt => (x.st.finVerified /\ Authenticated(x.st))>>,
     <<"quic:not-permitted-close-code",
         (x.st.alert = "unexpected_message" /\ e.post = x.st.state) => e.code = 266>>,
     <<"model:quic-outcome", /\ e.post = x.st.state
                             /\ (x.st.state = "CLIENT_POST_HANDSHAKE" /\ Alive(x.st)) => e.completed
                             /\ e.onertt <=> x.st.finVerified
                             /\ (e.code = -1) <=> Alive(x.st)>> >>

Clauses(e) ==
  CASE e.op = "init"  -> << <<"harness-guard", e.role \in {"client", "server"}>> >>
    [] e.op = "quic"  -> QuicClauses(e)
    [] e.op = "start" -> StartClauses(e)
    [] e.op = "recv"  -> RecvClauses(e)
    [] e.op = "batch" -> BatchClauses(e)

NextMs(e) ==
  CASE e.op = "init"  -> InitState(e.role, e.pskOffered, e.certReq, e.tickets)
    [] e.op = "start" -> [ms EXCEPT !.state = e.post, !.keys = @ \cup KeySet(e),
                                    !.alert = IF Accepted(e) THEN "none" ELSE "dead"]
    [] e.op = "recv"  -> IF e.name \in Names THEN After(ms, e, e.name)
                         ELSE [ms EXCEPT !.alert = "dead"]
    [] e.op = "batch" -> [ms EXCEPT !.state = e.post, !.alert = "dead"]   \* a batch ends its case
    [] e.op = "quic"  -> [ms EXCEPT !.state = e.post, !.alert = "dead"]

TInit == /\ l = 1 /\ ms = InitState("client", FALSE, FALSE, FALSE)
         /\ st = ms /\ out = NoOut /\ script = <<>> /\ pos = 0
TNext == /\ UNCHANGED vars
         /\ \/ /\ l <= Len(Lines)
               /\ LET e == Lines[l]  f == FirstFailing(Clauses(e)) IN
                    /\ IF f = "" THEN TRUE ELSE PrintT(<<"TRACE-FAIL", l, f>>)
                    /\ ms' = NextMs(e)
               /\ l' = l + 1
            \/ /\ l = Len(Lines) + 1
               /\ PrintT(<<"TRACE-END", Len(Lines)>>)
               /\ l' = l + 1 /\ UNCHANGED ms
TSpec == TInit /\ [][TNext]_<<l, ms, vars>>
============================================================================
