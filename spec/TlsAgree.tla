------------------------------ MODULE TlsAgree ------------------------------
(* The TLS 1.3 handshake inside QUIC as run by aioquic (src/aioquic/tls.py
   Context, quic/connection.py), for BOTH endpoints at once, with abstract
   cryptography -- property C03:

     "A client reports handshake completion only after the server has proved
      possession of the private key of a certificate that validates for the
      requested name (or of a resumption secret the client offered), and
      changing any byte of any handshake message in either direction prevents
      completion on the endpoint that received it.  Whenever both endpoints
      complete, they hold identical traffic secrets and report the same QUIC
      version, cipher suite, ALPN protocol and resumption status, for every
      combination of supported configuration options; when the configurations
      share no common option, neither endpoint ever reports completion."

   Abstract cryptography.  A transcript is the sequence of the message records
   an endpoint sent / accepted.  MAC(key, transcript), Sig(sk, transcript) and
   the key derivations are injective constructors (tuples): two of them are
   equal only when all their arguments are.  A message altered in flight is a
   DISTINCT record (field t = 1) -- whatever byte was changed, what the receiver
   hashes differs from what the sender hashed.  What an altered message makes
   its receiver DO is left open: it may refuse it, and an altered ClientHello
   may make the server pick any of its own options.

   The CRYPTO streams of QUIC deliver each direction's messages reliably and in
   order, so datagram loss, duplication and reordering are stuttering at this
   level; the network is one FIFO queue per direction.  Every queue entry
   carries the packet-protection key it was sent under; a receiver that holds a
   different key for that epoch cannot open the packet (entry discarded).

   House style: a pure operator XxxF(k, st, m, r) == successor record per entry
   point (k: configuration pair, r: resolution of what the statement leaves
   open), one action per operator; TraceTlsAgree judges what two real
   QuicConnections did with the operators HasCommon / CertOk / SameResult. *)
EXTENDS Naturals, Sequences, FiniteSets, TLC

CONSTANTS SuiteListsC, SuiteListsS,   \* sets of cipher-suite lists (client / server)
          AlpnListsC, AlpnListsS,     \* sets of ALPN lists; <<>> = no ALPN configured
          VersionsC,                  \* set of [list, orig]: supported_versions, original_version ("none")
          VersionsS,                  \* set of version lists
          PskOpts,                    \* set of [cpsk, spsk, zrtt]: client holds a ticket, server can look it up, early data sent
          RetryOpts,                  \* subset of BOOLEAN: server application demands a Retry first
          CreqOpts,                   \* subset of {"no", "cert", "nocert"}: client-certificate request / client has one
          CertKinds,                  \* subset of AllCertKinds: what the server presents
          TamperKinds,                \* subset of AllTamperKinds: the message a man in the middle alters ("none")
          PrintCases                  \* BOOLEAN: print every initial configuration (replayed into the real code)

VARIABLES k,        \* configuration pair (constant through a behaviour)
          tam,      \* message kind still to be altered, "none" afterwards
          c, s,     \* the endpoints
          c2s, s2c, \* messages in flight
          wire,     \* QUIC version of the client's Initial packets
          pre       \* what the server application did before the handshake: [vn, retry]
vars == <<k, tam, c, s, c2s, s2c, wire, pre>>

---------------------------------------------------------------------------
(* Alphabets *)
Suites == {"AES_128_GCM_SHA256", "AES_256_GCM_SHA384", "CHACHA20_POLY1305_SHA256"}
AlpnNames == {"hq", "h3"}
Versions == {"v1", "v2"}
AllCertKinds == {"valid", "wrongname", "expired", "selfsigned", "untrustedchain", "wrongkey"}
ClientMsgs == {"CH", "CCERT", "CCV", "CFIN"}
ServerMsgs == {"SH", "EE", "CR", "CERT", "CV", "FIN"}
AllTamperKinds == {"none"} \cup ClientMsgs \cup ServerMsgs

ToSet(q) == {q[i] : i \in DOMAIN q}
ListsOver(S) == {<<x>> : x \in S} \cup {p \in S \X S : p[1] # p[2]}   \* non-empty, length <= 2, no repetition
AllSuiteLists == ListsOver(Suites)                                     \* 9
AllAlpnLists == {<<>>} \cup ListsOver(AlpnNames)                       \* 5 (<<>>: none)
AllVersionsS == ListsOver(Versions)                                    \* 4
AllVersionsC == {x \in [list : ListsOver(Versions), orig : {"none"} \cup Versions] :
                    x.orig = "none" \/ x.orig \in ToSet(x.list)}        \* 10
AllPskOpts == {[cpsk |-> FALSE, spsk |-> FALSE, zrtt |-> FALSE], [cpsk |-> FALSE, spsk |-> TRUE, zrtt |-> FALSE],
               [cpsk |-> TRUE, spsk |-> FALSE, zrtt |-> FALSE], [cpsk |-> TRUE, spsk |-> TRUE, zrtt |-> FALSE],
               [cpsk |-> TRUE, spsk |-> TRUE, zrtt |-> TRUE]}
\* small alphabets for the runs that vary something else
OneSuiteList == {<<"AES_128_GCM_SHA256", "CHACHA20_POLY1305_SHA256">>}
TwoSuiteListsS == {<<"CHACHA20_POLY1305_SHA256", "AES_256_GCM_SHA384">>, <<"AES_256_GCM_SHA384">>}
OneSuiteListS == {<<"CHACHA20_POLY1305_SHA256", "AES_256_GCM_SHA384">>}
OneAlpnListS == {<<"h3">>}
OneAlpnList == {<<"hq", "h3">>}
TwoAlpnListsS == {<<"h3">>, <<>>}
OneVersionC == {[list |-> <<"v1", "v2">>, orig |-> "none"]}
OneVersionS == {<<"v1", "v2">>}
NoPsk == {[cpsk |-> FALSE, spsk |-> FALSE, zrtt |-> FALSE]}
No == {FALSE}
NoCreq == {"no"}
AllCreq == {"no", "cert", "nocert"}
ValidCert == {"valid"}
NoTamper == {"none"}

Configs ==
  {[cs |-> a, ss |-> b, ca |-> d, sa |-> e, cv |-> f.list, co |-> f.orig, sv |-> g,
    cpsk |-> p.cpsk, spsk |-> p.spsk, zrtt |-> p.zrtt, retry |-> r, creq |-> q, cert |-> x] :
      a \in SuiteListsC, b \in SuiteListsS, d \in AlpnListsC, e \in AlpnListsS, f \in VersionsC,
      g \in VersionsS, p \in PskOpts, r \in RetryOpts, q \in CreqOpts, x \in CertKinds}

---------------------------------------------------------------------------
(* "when the configurations share no common option": what both sides can
   agree on.  A server without an ALPN list does not negotiate ALPN (both
   report none); a server WITH a list needs a protocol the client offers. *)
CommonOf(a, b) == {x \in ToSet(a) : x \in ToSet(b)}
HasCommonSuite(cs, ss) == CommonOf(cs, ss) # {}
HasCommonAlpn(ca, sa) == sa = <<>> \/ CommonOf(ca, sa) # {}
HasCommonVersion(cv, sv) == CommonOf(cv, sv) # {}
HasCommon(cf) == /\ HasCommonSuite(cf.cs, cf.ss) /\ HasCommonAlpn(cf.ca, cf.sa)
                 /\ HasCommonVersion(cf.cv, cf.sv)
(* "a certificate that validates for the requested name" whose private key
   the server holds *)
CertOk(kind) == kind = "valid"
(* the observable part of `Authentic' *)
\* (a resumption proves something only when the server holds the secret the client offered: cf.spsk)
AuthenticObs(cf, resumed) == CertOk(cf.cert) \/ (cf.cpsk /\ cf.spsk /\ resumed)
(* "report the same QUIC version, cipher suite, ALPN protocol and resumption status" *)
SameResult(rc, rs) == /\ rc.version = rs.version /\ rc.cipher = rs.cipher
                      /\ rc.alpn = rs.alpn /\ rc.resumed = rs.resumed
(* outside the statement, used by model: clauses: the agreed value is a common one *)
ChosenIsCommon(cf, r) == /\ r.cipher \in CommonOf(cf.cs, cf.ss)
                         /\ IF cf.sa = <<>> THEN r.alpn = "" ELSE r.alpn \in CommonOf(cf.ca, cf.sa)
                         /\ r.version \in CommonOf(cf.cv, cf.sv)

---------------------------------------------------------------------------
(* Abstract cryptography *)
NoAuth == <<>>
MAC(key, tr) == <<"mac", key, tr>>
Sig(sk, tr) == <<"sig", sk, tr>>
Sk(id) == <<"sk", id>>                            \* the private key matching certificate `id'
PskKey == <<"psk", "ticket">>                     \* the resumption secret of the ticket both sides hold
HsKey(resumed, tr) == <<"hs", IF resumed THEN "psk" ELSE "nopsk", tr>>   \* tr = <<ClientHello, ServerHello>>
ApKey(hk, tr) == <<"ap", hk, tr>>                 \* tr = transcript through the server's Finished
InitKey == <<"initial">>                          \* Initial packets: readable by anyone

Msg(kind, suites, alpn, vers, flags, auth) ==
  [kind |-> kind, t |-> 0, suites |-> suites, alpn |-> alpn, vers |-> vers, flags |-> flags, auth |-> auth]
Altered(m) == [m EXCEPT !.t = 1]
Pkt(m, key) == [m |-> m, key |-> key]

\* certificate the server presents / key it signs with
CertId(kind) == IF kind = "wrongkey" THEN "valid" ELSE kind    \* somebody else's genuine certificate
SignKey(kind) == IF kind = "wrongkey" THEN Sk("other") ELSE Sk(kind)

ClientHelloOf(cf, w) ==
  LET bare == Msg("CH", cf.cs, cf.ca, <<w>> \o cf.cv,
                  IF cf.cpsk THEN <<"psk", "early">> ELSE <<>>, NoAuth) IN
  IF cf.cpsk THEN [bare EXCEPT !.auth = MAC(PskKey, <<bare>>)] ELSE bare      \* binder over the hello without it
BinderOk(m) == m.auth = MAC(PskKey, <<[m EXCEPT !.auth = NoAuth]>>)

---------------------------------------------------------------------------
(* Endpoints *)
NoRes == [version |-> "", cipher |-> "", alpn |-> "", resumed |-> FALSE, early |-> FALSE, secrets |-> <<>>]
C0 == [st |-> "start", tr |-> <<>>, hk |-> <<>>, completed |-> FALSE, tampered |-> FALSE, res |-> NoRes,
       cert |-> "", creq |-> FALSE]
S0 == [st |-> "start", tr |-> <<>>, hk |-> <<>>, completed |-> FALSE, tampered |-> FALSE, res |-> NoRes,
       cert |-> "", creq |-> FALSE]
Dead(e, m) == [e EXCEPT !.st = "dead", !.tampered = @ \/ m.t = 1]
Took(e, m) == [e EXCEPT !.tr = Append(@, m), !.tampered = @ \/ m.t = 1]

WireVersion0(cf) == IF cf.co = "none" THEN cf.cv[1] ELSE cf.co

(* The server's whole flight in answer to a ClientHello m (Context._server_handle_hello).
   r: cipher, alpn, version chosen; sel: the offered PSK is used. *)
ServerFlightF(cf, m, r) ==
  LET resumed == r.sel
      sh == Msg("SH", <<r.cipher>>, <<>>, <<>>, IF resumed THEN <<"psk">> ELSE <<>>, NoAuth)
      hk == HsKey(resumed, <<m, sh>>)
      ee == Msg("EE", <<>>, IF r.alpn = "" THEN <<>> ELSE <<r.alpn>>, <<r.version>> \o cf.sv,
                IF resumed /\ "early" \in ToSet(m.flags) THEN <<"early">> ELSE <<>>, NoAuth)
      t2 == <<m, sh, ee>>
      t3 == IF cf.creq # "no" /\ ~resumed THEN Append(t2, Msg("CR", <<>>, <<>>, <<>>, <<>>, NoAuth)) ELSE t2
      t4 == IF resumed THEN t3 ELSE Append(t3, Msg("CERT", <<>>, <<>>, <<>>, <<CertId(cf.cert)>>, NoAuth))
      t5 == IF resumed THEN t4 ELSE Append(t4, Msg("CV", <<>>, <<>>, <<>>, <<>>, Sig(SignKey(cf.cert), t4)))
      t6 == Append(t5, Msg("FIN", <<>>, <<>>, <<>>, <<>>, MAC(<<"s", hk>>, t5)))
  IN [st |-> [S0 EXCEPT !.st = IF cf.creq # "no" /\ ~resumed THEN "wait_ccert" ELSE "wait_cfin",
                        !.tr = t6, !.hk = hk, !.tampered = m.t = 1, !.creq = cf.creq # "no" /\ ~resumed,
                        !.res = [version |-> r.version, cipher |-> r.cipher, alpn |-> r.alpn,
                                 resumed |-> resumed, early |-> resumed /\ "early" \in ToSet(m.flags),
                                 secrets |-> <<hk, ApKey(hk, t6)>>]],
      out |-> <<Pkt(sh, InitKey)>> \o [i \in 1..(Len(t6) - 2) |-> Pkt(t6[i + 2], hk)]]

(* What a server may choose on a ClientHello: among the common options; on an
   altered hello (whose lists may have been changed) any of its own. *)
ServerChoices(cf, m) ==
  LET offS == IF m.t = 1 THEN ToSet(cf.ss) ELSE CommonOf(cf.ss, m.suites)
      offA == IF cf.sa = <<>> THEN {""} ELSE IF m.t = 1 THEN ToSet(cf.sa) ELSE CommonOf(cf.sa, m.alpn)
      offV == IF m.t = 1 THEN ToSet(cf.sv) ELSE CommonOf(cf.sv, Tail(m.vers))
      offP == IF "psk" \in ToSet(m.flags) /\ cf.spsk /\ BinderOk(m) THEN BOOLEAN ELSE {FALSE}
  IN {[cipher |-> a, alpn |-> b, version |-> v, sel |-> p] : a \in offS, b \in offA, v \in offV, p \in offP}

(* Client: one message of the server's flight (the Context._client_handle_xxx methods). *)
ClientRecvF(cf, e, m) ==
  LET bad == Dead(e, m)  x == Took(e, m) IN
  CASE e.st = "wait_sh" /\ m.kind = "SH" ->
         IF m.suites[1] \notin ToSet(cf.cs) \/ ("psk" \in ToSet(m.flags) /\ ~cf.cpsk) THEN bad
         ELSE LET resumed == "psk" \in ToSet(m.flags) IN
              [x EXCEPT !.st = "wait_ee", !.hk = HsKey(resumed, x.tr),
                        !.res = [e.res EXCEPT !.cipher = m.suites[1], !.resumed = resumed]]
    [] e.st = "wait_ee" /\ m.kind = "EE" ->
         IF m.vers[1] \notin ToSet(cf.cv) THEN bad
         ELSE [x EXCEPT !.st = IF e.res.resumed THEN "wait_fin" ELSE "wait_cr_cert",
                        !.res = [e.res EXCEPT !.alpn = IF m.alpn = <<>> THEN "" ELSE m.alpn[1],
                                              !.version = m.vers[1],
                                              !.early = "early" \in ToSet(m.flags)]]
    [] e.st = "wait_cr_cert" /\ m.kind = "CR" -> [x EXCEPT !.st = "wait_cert", !.creq = TRUE]
    [] e.st \in {"wait_cr_cert", "wait_cert"} /\ m.kind = "CERT" ->
         [x EXCEPT !.st = "wait_cv", !.cert = m.flags[1]]
    [] e.st = "wait_cv" /\ m.kind = "CV" ->
         \* signature over the client's OWN transcript under the presented certificate; then the certificate
         IF m = Msg("CV", <<>>, <<>>, <<>>, <<>>, Sig(Sk(e.cert), e.tr)) /\ CertOk(e.cert)
         THEN [x EXCEPT !.st = "wait_fin"] ELSE bad
    [] e.st = "wait_fin" /\ m.kind = "FIN" ->
         IF m = Msg("FIN", <<>>, <<>>, <<>>, <<>>, MAC(<<"s", e.hk>>, e.tr))
         THEN [x EXCEPT !.st = "done", !.completed = TRUE,
                        !.res = [e.res EXCEPT !.secrets = <<e.hk, ApKey(e.hk, x.tr)>>]]
         ELSE bad
    [] OTHER -> bad
(* the client's answer once it completed *)
ClientFlightF(cf, e) ==
  LET t1 == IF e.creq THEN Append(e.tr, Msg("CCERT", <<>>, <<>>, <<>>,
                                            IF cf.creq = "cert" THEN <<"client">> ELSE <<>>, NoAuth)) ELSE e.tr
      t2 == IF e.creq /\ cf.creq = "cert"
            THEN Append(t1, Msg("CCV", <<>>, <<>>, <<>>, <<>>, Sig(Sk("client"), t1))) ELSE t1
      t3 == Append(t2, Msg("CFIN", <<>>, <<>>, <<>>, <<>>, MAC(<<"c", e.hk>>, t2)))
  IN [st |-> [e EXCEPT !.tr = t3],
      out |-> [i \in 1..(Len(t3) - Len(e.tr)) |-> Pkt(t3[Len(e.tr) + i], e.hk)]]

(* Server: one message of the client's second flight (the Context._server_handle_xxx methods). *)
ServerRecvF(cf, e, m) ==
  LET bad == Dead(e, m)  x == Took(e, m) IN
  CASE e.st = "wait_ccert" /\ m.kind = "CCERT" ->
         [x EXCEPT !.st = IF m.flags = <<>> THEN "wait_cfin" ELSE "wait_ccv"]
    [] e.st = "wait_ccv" /\ m.kind = "CCV" ->
         IF m = Msg("CCV", <<>>, <<>>, <<>>, <<>>, Sig(Sk("client"), e.tr)) THEN [x EXCEPT !.st = "wait_cfin"] ELSE bad
    [] e.st = "wait_cfin" /\ m.kind = "CFIN" ->
         IF m = Msg("CFIN", <<>>, <<>>, <<>>, <<>>, MAC(<<"c", e.hk>>, e.tr))
         THEN [x EXCEPT !.st = "done", !.completed = TRUE] ELSE bad
    [] OTHER -> bad

---------------------------------------------------------------------------
(* Actions *)
B(b) == IF b THEN "1" ELSE "0"
RECURSIVE Join(_)
Join(q) == IF q = <<>> THEN "-" ELSE IF Len(q) = 1 THEN q[1] ELSE q[1] \o "," \o Join(Tail(q))
CaseString(cf, tk) ==
  "CASE|" \o Join(cf.cs) \o "|" \o Join(cf.ss) \o "|" \o Join(cf.ca) \o "|" \o Join(cf.sa) \o "|" \o Join(cf.cv)
    \o "|" \o cf.co \o "|" \o Join(cf.sv) \o "|" \o B(cf.cpsk) \o B(cf.spsk) \o B(cf.zrtt) \o B(cf.retry)
    \o "|" \o cf.creq \o "|" \o cf.cert \o "|" \o tk

Init == /\ k \in Configs /\ tam \in TamperKinds
        /\ c = C0 /\ s = S0 /\ c2s = <<>> /\ s2c = <<>>
        /\ wire = WireVersion0(k) /\ pre = [vn |-> FALSE, retry |-> FALSE]
        /\ (PrintCases => PrintT(CaseString(k, tam)))

\* QuicConnection.connect(): the ClientHello goes out in an Initial packet of version `wire'
ClientStart ==
  /\ c.st = "start"
  /\ LET ch == ClientHelloOf(k, wire) IN
       /\ c' = [c EXCEPT !.st = "wait_sh", !.tr = <<ch>>]
       /\ c2s' = <<Pkt(ch, InitKey)>>
  /\ UNCHANGED <<k, tam, s, s2c, wire, pre>>

(* The man in the middle alters the head message of a direction (it holds the
   packet keys of the key logs: the altered packet is protected as before). *)
Tamper ==
  /\ tam # "none"
  /\ \/ /\ c2s # <<>> /\ Head(c2s).m.kind = tam
        /\ c2s' = <<[Head(c2s) EXCEPT !.m = Altered(@)]>> \o Tail(c2s) /\ UNCHANGED s2c
     \/ /\ s2c # <<>> /\ Head(s2c).m.kind = tam
        /\ s2c' = <<[Head(s2c) EXCEPT !.m = Altered(@)]>> \o Tail(s2c) /\ UNCHANGED c2s
  /\ tam' = "none"
  /\ UNCHANGED <<k, c, s, wire, pre>>

(* The server APPLICATION (asyncio/server.py) before a connection exists:
   Version Negotiation when it does not support the Initial's version (the
   client restarts with a common version or gives up), a Retry when asked to. *)
ServerApp ==
  /\ s.st = "start" /\ c2s # <<>> /\ Head(c2s).m.kind = "CH"
  /\ \/ /\ wire \notin ToSet(k.sv) /\ ~pre.vn
        /\ IF CommonOf(k.cv, k.sv) = {}
           THEN c' = [c EXCEPT !.st = "dead"] /\ UNCHANGED wire
           ELSE /\ wire' \in CommonOf(k.cv, k.sv) /\ c' = C0
        /\ pre' = [pre EXCEPT !.vn = TRUE]
     \/ /\ wire \in ToSet(k.sv) /\ k.retry /\ ~pre.retry
        /\ c' = C0 /\ pre' = [pre EXCEPT !.retry = TRUE] /\ UNCHANGED wire
  /\ c2s' = <<>>
  /\ UNCHANGED <<k, tam, s, s2c>>

ServerHello ==
  /\ s.st = "start" /\ c2s # <<>> /\ Head(c2s).m.kind = "CH"
  /\ wire \in ToSet(k.sv) /\ (k.retry => pre.retry)
  /\ LET m == Head(c2s).m IN
       \/ \E r \in ServerChoices(k, m) :
             LET x == ServerFlightF(k, m, r) IN s' = x.st /\ s2c' = s2c \o x.out
       \/ \* nothing in common, a PSK binder that does not verify, or an altered hello it cannot parse: alert
          /\ (ServerChoices(k, m) = {} \/ m.t = 1 \/ ("psk" \in ToSet(m.flags) /\ k.spsk /\ ~BinderOk(m)))
          /\ s' = Dead(s, m) /\ UNCHANGED s2c
  /\ c2s' = Tail(c2s)
  /\ UNCHANGED <<k, tam, c, wire, pre>>

ClientRecv ==
  /\ s2c # <<>> /\ c.st \notin {"start", "dead"}
  /\ LET p == Head(s2c)
         mine == IF p.m.kind = "SH" THEN InitKey ELSE c.hk IN
       IF p.key # mine THEN UNCHANGED <<c, c2s>>                      \* cannot open the packet
       ELSE \/ LET x == ClientRecvF(k, c, p.m) IN
                 IF x.completed /\ ~c.completed
                 THEN LET y == ClientFlightF(k, x) IN c' = y.st /\ c2s' = c2s \o y.out
                 ELSE c' = x /\ UNCHANGED c2s
            \/ p.m.t = 1 /\ c' = Dead(c, p.m) /\ UNCHANGED c2s        \* an altered message may be refused
  /\ s2c' = Tail(s2c)
  /\ UNCHANGED <<k, tam, s, wire, pre>>

ServerRecv ==
  /\ c2s # <<>> /\ s.st \notin {"start", "dead"}
  /\ LET p == Head(c2s) IN
       IF p.key # s.hk THEN UNCHANGED s
       ELSE \/ s' = ServerRecvF(k, s, p.m)
            \/ p.m.t = 1 /\ s' = Dead(s, p.m)
  /\ c2s' = Tail(c2s)
  /\ UNCHANGED <<k, tam, c, s2c, wire, pre>>

Next == ClientStart \/ Tamper \/ ServerApp \/ ServerHello \/ ClientRecv \/ ServerRecv
Spec == Init /\ [][Next]_vars

---------------------------------------------------------------------------
(* Properties *)
TypeOk == /\ c.st \in {"start", "wait_sh", "wait_ee", "wait_cr_cert", "wait_cert", "wait_cv", "wait_fin", "done", "dead"}
          /\ s.st \in {"start", "wait_ccert", "wait_ccv", "wait_cfin", "done", "dead"}
          /\ tam \in AllTamperKinds /\ wire \in Versions

(* "A client reports handshake completion only after the server has proved
   possession of the private key of a certificate that validates for the
   requested name (or of a resumption secret the client offered)": stated on
   the client's own transcript. *)
ProvedCertificate(tr) ==
  \E i \in DOMAIN tr, j \in DOMAIN tr :
     /\ i < j /\ tr[i].kind = "CERT" /\ tr[j].kind = "CV"
     /\ CertOk(tr[i].flags[1])
     /\ tr[j].auth = Sig(Sk(tr[i].flags[1]), SubSeq(tr, 1, j - 1))
ProvedResumption(cf, tr) ==
  /\ cf.cpsk /\ Len(tr) >= 2 /\ tr[2].kind = "SH" /\ "psk" \in ToSet(tr[2].flags)
  /\ \E j \in DOMAIN tr : tr[j].kind = "FIN" /\ tr[j].auth = MAC(<<"s", HsKey(TRUE, SubSeq(tr, 1, 2))>>, SubSeq(tr, 1, j - 1))
Authentic == c.completed => (ProvedCertificate(c.tr) \/ ProvedResumption(k, c.tr))
AuthenticObservable == c.completed => AuthenticObs(k, c.res.resumed)

(* "changing any byte of any handshake message in either direction prevents
   completion on the endpoint that received it" *)
TamperStops == /\ c.tampered => ~c.completed
               /\ s.tampered => ~s.completed

(* "Whenever both endpoints complete, they hold identical traffic secrets and
   report the same QUIC version, cipher suite, ALPN protocol and resumption
   status" *)
Agreement == (c.completed /\ s.completed) => (SameResult(c.res, s.res) /\ c.res.secrets = s.res.secrets)

(* "when the configurations share no common option, neither endpoint ever
   reports completion" *)
NoCommonNoCompletion == ~HasCommon(k) => (~c.completed /\ ~s.completed)

\* outside the statement
ChosenCommon == /\ (c.completed => ChosenIsCommon(k, c.res))
                /\ (s.completed => ChosenIsCommon(k, s.res))
EarlyOnlyResumed == /\ (c.completed /\ c.res.early => c.res.resumed)
                    /\ (s.completed /\ s.res.early => s.res.resumed)
ServerAfterClient == s.completed => c.completed

(* The model is not vacuous: with common options, the authentic certificate
   and no interference both endpoints can complete (checked as a property that
   TLC must VIOLATE: driver run "reach"). *)
NeverBothComplete == ~(c.completed /\ s.completed)
============================================================================
