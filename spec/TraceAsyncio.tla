---------------------------- MODULE TraceAsyncio ----------------------------
(* Judges event traces recorded from the REAL aioquic.asyncio QuicServer /
   QuicConnectionProtocol / QuicConnection objects running on the harness's
   virtual-time event loop (harness/c19_sim.py), line by line, with the
   definitions of Asyncio: the waiter ledger (NewWaiterF / SetF and
   WaiterOnceOk), StreamOk, the routing-table operators of QuicServer
   (CreateConnF / CidIssuedF / CidRetiredF / TerminatedF) and ReachableOk /
   NoStaleRouteOk / TokenBoundOk.

   The observation t is accumulated from the lines of one run (an "init" line
   starts a new run).  Clauses of the statement of C19 come first; clauses named
   "model:..." compare the code with the rest of the specification and are
   reported as SPEC-DRIFT; "harness-guard" means the driver left its alphabet. *)
EXTENDS Asyncio, TraceBase

VARIABLE t

BLOCK == 32
Salt(cl, sid, down) == (53 * cl + 7 * sid + (IF down THEN 101 ELSE 0)) % 256
Byte(salt, o) == ((o \div BLOCK) + salt) % 256          \* the byte the writers put at offset o
Key(e) == 1000 * e.cl + 2 * e.sid + (IF e.down THEN 1 ELSE 0)

NoStream == [w |-> 0, weof |-> FALSE, r |-> 0, reof |-> FALSE]
T0 == [retry |-> FALSE, expect |-> FALSE, srvp |-> {}, term |-> {},
       issued |-> <<>>, retired |-> <<>>, route |-> {}, pred |-> {},
       tokens |-> {}, created |-> {}, W |-> <<>>, str |-> <<>>,
       badterm |-> FALSE]      \* some connection ended with a transport error of the core's own making

Get(f, k, default) == IF k \in DOMAIN f THEN f[k] ELSE default
Put(f, k, v) == (k :> v) @@ f
Pairs(sq) == {<<x[1], x[2]>> : x \in ToSet(sq)}

\* a run-length encoded chunk [[value, count], ...] starting at offset pos is
\* exactly Byte(salt, pos), Byte(salt, pos + 1), ...
RECURSIVE RunsOk(_, _, _, _)
RunsOk(runs, i, pos, salt) ==
  IF i > Len(runs) THEN TRUE
  ELSE LET v == runs[i][1]
           n == runs[i][2] IN
       /\ n >= 1
       /\ pos \div BLOCK = (pos + n - 1) \div BLOCK
       /\ v = Byte(salt, pos)
       /\ RunsOk(runs, i + 1, pos + n, salt)
RECURSIVE RunsLen(_, _)
RunsLen(runs, i) == IF i > Len(runs) THEN 0 ELSE runs[i][2] + RunsLen(runs, i + 1)

---------------------------------------------------------------------------
(* the observation after line e *)
Adv(s, e) ==
  CASE e.op = "init" -> [T0 EXCEPT !.retry = e.retry, !.expect = e.expect]
    [] e.op = "proto" -> IF e.side = "s" THEN [s EXCEPT !.srvp = @ \cup {e.p}] ELSE s
    [] e.op = "retry-sent" -> [s EXCEPT !.tokens = @ \cup {<<e.tok, e.addr>>}]
    [] e.op = "conn-created" ->
         [s EXCEPT !.created = @ \cup {[p |-> e.p, addr |-> e.addr, tok |-> e.tok]},
                   !.issued = Put(@, e.p, {e.hostcid}), !.retired = Put(@, e.p, {}),
                   !.pred = CreateConnF(@, e.dcid, e.hostcid, e.p)]
    [] e.op = "cid-issued" ->
         IF e.p \in s.srvp THEN [s EXCEPT !.issued = Put(@, e.p, Get(@, e.p, {}) \cup {e.cid}),
                                          !.pred = CidIssuedF(@, e.cid, e.p)]
         ELSE s
    [] e.op = "cid-retired" ->
         IF e.p \in s.srvp THEN [s EXCEPT !.retired = Put(@, e.p, Get(@, e.p, {}) \cup {e.cid}),
                                          !.pred = CidRetiredF(@, e.cid, e.p)]
         ELSE s
    \* codes: 0 NO_ERROR (close), 1 (idle timeout), 7193 (the scenario's own error close)
    [] e.op = "term" -> [s EXCEPT !.term = @ \cup {e.p},
                                  !.pred = IF e.p \in s.srvp THEN TerminatedF(@, e.p) ELSE @,
                                  !.badterm = @ \/ e.code \notin {0, 1, 7193}]
    [] e.op = "route" -> [s EXCEPT !.route = Pairs(e.route)]
    [] e.op = "wcreate" ->
         [s EXCEPT !.W = NewWaiterF(Put(@, e.w, NoWaiter), e.w, e.kind, e.p, e.p \in s.term)]
    [] e.op = "wdone" ->
         IF e.w \in DOMAIN s.W THEN [s EXCEPT !.W = SetF(@, e.w, e.res)] ELSE s
    [] e.op = "write" ->
         LET x == Get(s.str, Key(e), NoStream) IN [s EXCEPT !.str = Put(@, Key(e), [x EXCEPT !.w = @ + e.len])]
    [] e.op = "weof" ->
         LET x == Get(s.str, Key(e), NoStream) IN [s EXCEPT !.str = Put(@, Key(e), [x EXCEPT !.weof = TRUE])]
    [] e.op = "read" ->
         LET x == Get(s.str, Key(e), NoStream) IN [s EXCEPT !.str = Put(@, Key(e), [x EXCEPT !.r = @ + e.len])]
    [] e.op = "reof" ->
         LET x == Get(s.str, Key(e), NoStream) IN [s EXCEPT !.str = Put(@, Key(e), [x EXCEPT !.reof = TRUE])]
    [] OTHER -> s

---------------------------------------------------------------------------
(* the verdict on line e in observation s *)
Clauses(s, e) ==
  CASE e.op = "conn-created" ->
         << <<"token-bound", TokenBoundOk(s.retry, {[p |-> e.p, addr |-> e.addr, tok |-> e.tok]}, s.tokens)>>,
            <<"harness-guard", e.p \in s.srvp>> >>
    [] e.op = "wcreate" -> << <<"harness-guard", e.w \notin DOMAIN s.W>> >>
    [] e.op = "wdone" ->
         IF e.w \notin DOMAIN s.W THEN << <<"harness-guard", FALSE>> >>
         ELSE LET w2 == SetF(s.W, e.w, e.res) IN
              << <<"waiter-once", w2[e.w].sets <= 1>>,
                 <<"waiter-result", WaiterOnceOk(w2)>> >>
    \* a future of the loop completed for the n-th time
    [] e.op = "futset" -> << <<"future-once", e.n = 1>> >>
    [] e.op = "write" -> << <<"harness-guard", ~Get(s.str, Key(e), NoStream).weof>> >>
    [] e.op = "read" ->
         LET x == Get(s.str, Key(e), NoStream) IN
         << <<"stream-bytes", RunsLen(e.runs, 1) = e.len /\ RunsOk(e.runs, 1, x.r, Salt(e.cl, e.sid, e.down))>>,
            <<"stream-order", StreamOk(x.r + e.len, TRUE, FALSE, FALSE, x.w, x.weof)>>,
            <<"stream-after-eof", ~x.reof>> >>
    [] e.op = "reof" ->
         LET x == Get(s.str, Key(e), NoStream) IN
         << <<"stream-eof", StreamOk(x.r, TRUE, TRUE, e.p \in s.term, x.w, x.weof)>>,
            <<"stream-after-eof", ~x.reof>> >>
    [] e.op = "route" ->
         LET R == Pairs(e.route) IN
         << <<"reachable", ReachableOk(R, s.srvp \ s.term, s.issued, s.retired)>>,
            <<"no-stale-route", NoStaleRouteOk(R, s.term)>>,
            <<"model:route-prediction", R = s.pred>> >>
    [] e.op = "exc" -> << <<"model:callback-raised", FALSE>> >>
    \* nothing can happen any more: a waiter of this class still pending never finishes
    [] e.op = "finalw" ->
         << <<"waiter-never-finishes",
              \A i \in DOMAIN s.W : (s.W[i].kind = e.kind /\ s.W[i].late = e.late) => s.W[i].res # "pending">> >>
    [] e.op = "final" ->
         << <<"no-stale-route", NoStaleRouteOk(s.route, s.term)>>,
            <<"reachable", ReachableOk(s.route, s.srvp \ s.term, s.issued, s.retired)>>,
            \* demanded when nothing was dropped, nobody closes before the echoes were read and the
            \* core did not end a connection with a protocol error of its own
            <<"stream-complete", (s.expect /\ e.lossless /\ ~s.badterm) =>
                 \A k \in DOMAIN s.str : s.str[k].weof => (s.str[k].reof /\ s.str[k].r = s.str[k].w)>>,
            <<"model:all-terminated", e.allterm>> >>
    \* the run was cut at the virtual-time horizon with the endpoints still busy
    [] e.op = "nofinal" -> << <<"model:run-quiesces", FALSE>> >>
    [] OTHER -> << <<"ok", TRUE>> >>

Cl(e) == Clauses(t, e)
TInit == l = 1 /\ t = T0 /\ Init
TNext == /\ Judge(Cl)
         /\ t' = IF l <= Len(Lines) THEN Adv(t, Lines[l]) ELSE t
         /\ UNCHANGED vars
TSpec == TInit /\ [][TNext]_<<l, t, vars>>
============================================================================
