------------------------------ MODULE Emission -----------------------------
(* Datagram emission rules of one (server) endpoint - property C13:
   size limit, padding of datagrams that carry Initial packets, and the
   anti-amplification limit per peer address (aioquic: QuicNetworkPath
   bytes_received / bytes_sent / is_validated, datagrams_to_send,
   QuicPacketBuilder padding).  Sizes are in abstract units; Unit(1200 bytes) = Pad. *)
EXTENDS Naturals, Integers, FiniteSets, Sequences

CONSTANTS Addrs, MaxDg, Pad, MaxRecv
VARIABLES rcvd, sent, validated, chal, cur, last
vars == <<rcvd, sent, validated, chal, cur, last>>

(* pure clauses, shared with the trace module *)
WithinSize(len, mds) == len <= mds
PaddedOk(isClient, hasInitial, initialAckEl, len, pad) ==
  ((isClient /\ hasInitial) \/ (~isClient /\ initialAckEl)) => len >= pad
AmplificationOk(isValidated, sentBefore, len, received) == isValidated \/ sentBefore + len <= 3 * received

Init == /\ rcvd = [a \in Addrs |-> 0] /\ sent = [a \in Addrs |-> 0]
        /\ validated = [a \in Addrs |-> FALSE] /\ chal = [a \in Addrs |-> FALSE]
        /\ cur \in Addrs /\ last = [to |-> cur, len |-> 0, ok |-> TRUE]

\* a datagram arrives from address a; kind decides what it proves
RecvFrom(a, len, kind) ==
  /\ rcvd[a] + len <= MaxRecv
  /\ rcvd' = [rcvd EXCEPT ![a] = @ + len]
  /\ validated' = CASE kind = "handshake"     -> [validated EXCEPT ![a] = TRUE]     \* authenticated Handshake packet
                    [] kind = "token"         -> [validated EXCEPT ![a] = TRUE]     \* Initial with the Retry token issued to a (RFC 9000 8.1.2)
                    [] kind = "response"      -> [b \in Addrs |-> validated[b] \/ chal[b]]  \* PATH_RESPONSE for our challenge
                    [] OTHER                  -> validated
  /\ cur' = IF kind \in {"handshake", "onertt", "token"} THEN a ELSE cur       \* the peer's packets move the current path
  /\ UNCHANGED <<sent, chal, last>>

\* the endpoint emits a datagram to its current path, within the budget of that path
Emit(len, withChallenge) ==
  /\ len \in 1..MaxDg /\ sent[cur] + len <= 3 * MaxRecv + MaxDg      \* (bound for model checking only)
  /\ AmplificationOk(validated[cur], sent[cur], len, rcvd[cur])
  /\ sent' = [sent EXCEPT ![cur] = @ + len]
  /\ chal' = IF withChallenge THEN [chal EXCEPT ![cur] = TRUE] ELSE chal
  /\ last' = [to |-> cur, len |-> len, ok |-> AmplificationOk(validated[cur], sent[cur], len, rcvd[cur])]
  /\ UNCHANGED <<rcvd, validated, cur>>

\* before a connection exists the server (application) may answer an Initial from a with a Retry packet: stateless,
\* sent to the address the Initial came from; it counts towards the bytes sent to that unvalidated address
Retry(a, len) ==
  /\ len \in 1..MaxDg /\ rcvd[a] > 0 /\ ~validated[a] /\ sent[a] + len <= 3 * MaxRecv + MaxDg
  /\ AmplificationOk(validated[a], sent[a], len, rcvd[a])
  /\ sent' = [sent EXCEPT ![a] = @ + len]
  /\ last' = [to |-> a, len |-> len, ok |-> AmplificationOk(validated[a], sent[a], len, rcvd[a])]
  /\ UNCHANGED <<rcvd, validated, chal, cur>>

Next == \/ \E a \in Addrs, len \in 1..MaxDg, k \in {"garbage", "initial", "handshake", "onertt", "response", "token"} : RecvFrom(a, len, k)
        \/ \E a \in Addrs, len \in 1..MaxDg : Retry(a, len)
        \/ \E len \in 1..MaxDg, c \in BOOLEAN : Emit(len, c)
Spec == Init /\ [][Next]_vars

TypeOk == \A a \in Addrs : rcvd[a] \in 0..MaxRecv
\* "until a peer address has been validated, the total bytes sent to it never exceed three times the
\*  total bytes received from it" - for the handshake address and for every address the peer migrates to
AntiAmplification == \A a \in Addrs : validated[a] \/ sent[a] <= 3 * rcvd[a]
\* validation never happens without proof
ValidatedByProof == [][\A a \in Addrs : (validated'[a] /\ ~validated[a]) => (chal[a] \/ rcvd'[a] > rcvd[a])]_vars
=============================================================================
