------------------------------ MODULE Asyncio ------------------------------
(* The asyncio adapter of aioquic: aioquic/asyncio/protocol.py
   (QuicConnectionProtocol, QuicStreamAdapter), aioquic/asyncio/server.py
   (QuicServer) and the token check of aioquic/quic/retry.py, under an
   arbitrary event-loop schedule.

   Shape: one pure operator XxxF(s, args) per callback / coroutine step of the
   implementation (s is the record of all variables), one action per operator.
   The QUIC core (QuicConnection) is abstracted to what the adapter can see of
   it: the events next_event() yields, whether get_timer() wants a timer, and
   abstract datagrams.  The network delivers datagrams in any order, may drop,
   duplicate, delay them and may change the source address of a client Initial
   (NAT rebinding).  Retransmission is not modelled: a retransmitted datagram
   that arrives is indistinguishable, for the adapter, from a delayed one, and
   one that never arrives from a dropped one.

   Property C19 (the statement is quoted clause by clause in the section
   "Properties"). *)
EXTENDS Naturals, Integers, Sequences, FiniteSets, TLC

CONSTANTS NC,          \* number of clients
          UseRetry,    \* QuicServer(retry=...)
          MaxPing,     \* ping() calls per endpoint
          MaxWC,       \* explicit wait_connected() calls per endpoint (beyond the one connect() makes)
          MaxWClosed,  \* wait_closed() calls per endpoint
          NChunk,      \* chunks the client writes on its stream before write_eof (0: no stream)
          MaxCid,      \* connection IDs a server connection issues beyond its first
          MaxDrop, MaxDup, MaxRebind,   \* network fates
          MaxFault,    \* ... and their total
          ServerApp,   \* the server application also pings / closes / waits on its connections
          Late,        \* waiters are also created after the connection has terminated
          Fixed        \* FALSE: the code as it is (deviation DevLateWaiter); TRUE: late waiters fail with ConnectionError

VARIABLES P,      \* [Eps -> adapter record]: the attributes of QuicConnectionProtocol
          K,      \* [Eps -> core record]: the abstract QuicConnection behind each protocol
          srv,    \* QuicServer: route (= _protocols), and history: tokens issued, connections created, CIDs issued/retired
          net,    \* datagrams in flight
          ready,  \* [Eps -> Nat]: transmit handles in the loop's ready list (from _transmit_soon)
          W,      \* ledger of every waiter ever created (history): waiter id -> record
          bud,    \* fates / calls used so far (bounds the exploration)
          act     \* label of the last action (read by the replay driver; not part of the VIEW)
vars == <<P, K, srv, net, ready, W, bud, act>>

---------------------------------------------------------------------------
(* naming *)
Clients == 1..NC
Eps == 1..(2 * NC)                  \* c: the client's protocol; NC + c: the server's protocol for client c
IsClient(e) == e <= NC
SrvEp(c) == NC + c
ClientOf(e) == IF e <= NC THEN e ELSE e - NC
\* addresses: client c sends from address c, after a NAT rebinding from NC + c
AddrOf(c) == c
AliasOf(c) == NC + c
Owner(a) == IF a <= NC THEN a ELSE a - NC
\* connection IDs
Odcid(c) == c                                   \* chosen by the client for its first Initial
RetryCid(c) == NC + c                           \* source CID of the server's Retry
HostCid(c, n) == 2 * NC + (c - 1) * (MaxCid + 1) + n + 1     \* n-th CID of the server connection
\* retry tokens (opaque to everybody but the server): the address and the
\* original destination CID they were made for, packed into one integer
NoTok == 0
Tok(addr, odcid) == 100 * addr + odcid
TokAddr(t) == t \div 100
FinChunk == NChunk + 1                          \* write_eof travels as a last, empty chunk

---------------------------------------------------------------------------
(* The routing table of QuicServer (server.py), as a set of <<cid, protocol>>
   pairs.  These operators are also what TraceAsyncio predicts the observed
   table with. *)
RegisterF(route, cid, p) == {x \in route : x[1] # cid} \cup {<<cid, p>>}     \* self._protocols[cid] = protocol
CreateConnF(route, dcid, hostcid, p) == RegisterF(RegisterF(route, dcid, p), hostcid, p)
CidIssuedF(route, cid, p) == RegisterF(route, cid, p)                        \* _connection_id_issued
CidRetiredF(route, cid, p) == {x \in route : x[1] # cid}                     \* _connection_id_retired
TerminatedF(route, p) == {x \in route : x[2] # p}                            \* _connection_terminated
RouteGet(route, cid) == IF \E x \in route : x[1] = cid
                        THEN (CHOOSE x \in route : x[1] = cid)[2] ELSE 0

\* retry.py validate_token: the token decrypts to the address it was made for
TokenValidFor(tok, addr) == tok # NoTok /\ TokAddr(tok) = addr

---------------------------------------------------------------------------
(* The waiter ledger (history).  A waiter is one call of wait_connected(),
   ping() or wait_closed(); `sets` counts how often its future was completed.
   A waiter is named by an integer (kind, endpoint, ordinal of the call), so
   that the order in which different endpoints create waiters does not
   distinguish states; TraceAsyncio names them by the driver's counter. *)
KindNo(kind) == CASE kind = "connected" -> 1 [] kind = "ping" -> 2 [] kind = "closed" -> 3
Wid(kind, e, n) == 100 * KindNo(kind) + 10 * e + n
NoWaiter == [kind |-> "", ep |-> 0, late |-> FALSE, res |-> "none", sets |-> 0]
NewWaiterF(w, id, kind, e, late) ==
  [w EXCEPT ![id] = [kind |-> kind, ep |-> e, late |-> late, res |-> "pending", sets |-> 0]]
SetF(w, id, res) == [w EXCEPT ![id].sets = @ + 1,
                              ![id].res = IF @ = "pending" THEN res ELSE @]
RECURSIVE SetAllF(_, _, _)
SetAllF(w, ids, res) == IF ids = {} THEN w
                        ELSE LET i == CHOOSE x \in ids : TRUE IN SetAllF(SetF(w, i, res), ids \ {i}, res)
CountOf(w, kind, e) == Cardinality({i \in DOMAIN w : w[i].kind = kind /\ w[i].ep = e})

---------------------------------------------------------------------------
(* Properties (C19), as predicates over observations, so that the design-level
   invariants below and TraceAsyncio evaluate the same definitions. *)

\* "every connect, ping and close waiter finishes exactly once, with success or
\*  a connection error"
WaiterOnceOk(w) == \A i \in DOMAIN w : w[i].sets <= 1 /\ w[i].res \in {"none", "pending", "ok", "ConnectionError"}
NonePending(w)  == \A i \in DOMAIN w : w[i].res # "pending"

\* "bytes written to a stream writer are read unchanged and in order from the
\*  peer's reader followed by end-of-file": what was read is a prefix of what
\* was written; an end-of-file seen while the reader's connection is alive
\* comes after everything written, and after write_eof
StreamOk(nRead, contentOk, eof, readerTerminated, nWritten, writerEof) ==
  /\ nRead <= nWritten /\ contentOk
  /\ (eof /\ ~readerTerminated) => (writerEof /\ nRead = nWritten)

\* "a server keeps every live connection reachable through each connection ID
\*  it has issued and not seen retired"
ReachableOk(route, live, issued, retired) ==
  \A p \in live : \A c \in issued[p] \ retired[p] : <<c, p>> \in route
\* "holds no routing entry for a connection after it terminates"
NoStaleRouteOk(route, terminated) == \A x \in route : x[2] \notin terminated
\* "creates connection state under address validation only for tokens it issued
\*  to that address";  created: set of [p, addr, tok], tokens: set of <<tok, addr>>
TokenBoundOk(retry, created, tokens) ==
  retry => \A x \in created : <<x.tok, x.addr>> \in tokens

---------------------------------------------------------------------------
(* records *)
NewProtocol == [exists |-> FALSE,
                connected |-> FALSE,        \* _connected
                connWaiter |-> 0,           \* _connected_waiter (0 = None, else ledger index)
                pingWaiters |-> {},         \* _ping_waiters (uid = ledger index)
                closed |-> FALSE,           \* _closed.is_set()
                closedWaiters |-> {},       \* futures waiting in _closed
                timer |-> FALSE,            \* _timer is not None
                txTask |-> FALSE,           \* _transmit_task is not None
                rdCreated |-> FALSE, rdBuf |-> <<>>, rdEof |-> FALSE]   \* _stream_readers[0]
NewCore == [st |-> "init",                  \* init, hs, open, closing, draining, term
            ev |-> <<>>,                    \* events not yet fetched with next_event()
            q |-> {},                       \* <<kind, arg>> waiting for datagrams_to_send
            pinged |-> {},                  \* uids whose PING is not yet acknowledged
            rxGot |-> {}, rxDel |-> 0, rxEnd |-> FALSE,
            txN |-> 0,                      \* chunks written (FinChunk = write_eof done)
            dcid |-> 0, spare |-> {},       \* client: CID used towards the server, unused server CIDs
            active |-> {}, nextCid |-> 0,   \* server connection: its CIDs in use, next to issue
            addr |-> 0,                     \* client: own address; server connection: the peer's address
            tok |-> NoTok]

Msg(to, from, dcid, cl, kind, arg) ==
  [to |-> to, from |-> from, dcid |-> dcid, cl |-> cl, kind |-> kind, arg |-> arg]

---------------------------------------------------------------------------
(* The abstract core: what QuicConnection does that the adapter can observe. *)

\* datagrams_to_send: before the handshake completes only handshake datagrams
\* leave; in an end state only the close
Sendable(k, x) ==
  CASE k.st \in {"init", "term", "draining"} -> FALSE
    [] k.st = "closing" -> x[1] = "close"
    [] k.st = "hs"      -> x[1] \in {"initial", "hs"}
    [] OTHER            -> TRUE
Wire(k, e, x) ==
  IF IsClient(e) THEN Msg(0, k.addr, k.dcid, e, x[1], x[2])
  ELSE Msg(Owner(k.addr), 0, 0, ClientOf(e), x[1], x[2])

Contig(got) == IF got = {} THEN 0
               ELSE CHOOSE n \in 0..FinChunk : (1..n) \subseteq got /\ (n + 1) \notin got
Seg(a, b) == [i \in 1..(b - a) |-> a + i]       \* <<a+1, ..., b>>

\* receive_datagram(m) on the core k of endpoint e
CoreRecvF(k, e, m) ==
  LET c == ClientOf(e) IN
  IF k.st \in {"init", "closing", "draining", "term"} THEN k      \* END_STATES ignore input
  ELSE IF m.kind = "close" THEN [k EXCEPT !.st = "draining", !.q = {}]
  ELSE IF IsClient(e) THEN
    CASE m.kind = "retry" /\ k.st = "hs" /\ k.tok = NoTok ->
           [k EXCEPT !.tok = m.arg, !.dcid = RetryCid(c), !.q = @ \cup {<<"initial", m.arg>>}]
      [] m.kind = "hs" /\ k.st = "hs" ->
           [k EXCEPT !.st = "open", !.dcid = HostCid(c, 0), !.ev = Append(@, <<"HandshakeCompleted">>),
                     !.q = (@ \ {x \in @ : x[1] = "initial"}) \cup {<<"fin", 0>>}]
      [] m.kind = "ping" /\ k.st = "open" -> [k EXCEPT !.q = @ \cup {<<"pong", m.arg>>}]
      [] m.kind = "pong" /\ m.arg \in k.pinged ->
           [k EXCEPT !.pinged = @ \ {m.arg}, !.ev = Append(@, <<"PingAcknowledged", m.arg>>)]
      [] m.kind = "newcid" /\ k.st = "open" -> [k EXCEPT !.spare = @ \cup {m.arg}]
      [] OTHER -> k
  ELSE
    CASE m.kind = "initial" /\ k.st = "hs" -> [k EXCEPT !.q = @ \cup {<<"hs", 0>>}]
      [] m.kind = "fin" /\ k.st = "hs" ->
           LET k1 == [k EXCEPT !.st = "open", !.ev = Append(@, <<"HandshakeCompleted">>)] IN
           IF MaxCid >= 1
           THEN [k1 EXCEPT !.ev = Append(@, <<"ConnectionIdIssued", HostCid(c, 1)>>),
                           !.active = @ \cup {HostCid(c, 1)}, !.nextCid = 2,
                           !.q = @ \cup {<<"newcid", HostCid(c, 1)>>}]
           ELSE k1
      [] m.kind = "ping" /\ k.st = "open" -> [k EXCEPT !.q = @ \cup {<<"pong", m.arg>>}]
      [] m.kind = "pong" /\ m.arg \in k.pinged ->
           [k EXCEPT !.pinged = @ \ {m.arg}, !.ev = Append(@, <<"PingAcknowledged", m.arg>>)]
      [] m.kind = "data" /\ k.st = "open" /\ ~k.rxEnd ->
           LET got == k.rxGot \cup {m.arg}
               d == Contig(got)
               dataTo == IF d = FinChunk THEN NChunk ELSE d IN
           IF d > k.rxDel
           THEN [k EXCEPT !.rxGot = got, !.rxDel = d, !.rxEnd = (d = FinChunk),
                          !.ev = Append(@, <<"StreamDataReceived",
                                             Seg(k.rxDel, dataTo),
                                             d = FinChunk>>)]
           ELSE [k EXCEPT !.rxGot = got]
      [] m.kind = "retire" /\ k.st = "open" /\ m.arg \in k.active ->
           LET k1 == [k EXCEPT !.active = @ \ {m.arg}, !.ev = Append(@, <<"ConnectionIdRetired", m.arg>>)] IN
           IF k.nextCid >= 1 /\ k.nextCid <= MaxCid
           THEN [k1 EXCEPT !.ev = Append(@, <<"ConnectionIdIssued", HostCid(c, k.nextCid)>>),
                           !.active = @ \cup {HostCid(c, k.nextCid)}, !.nextCid = @ + 1,
                           !.q = @ \cup {<<"newcid", HostCid(c, k.nextCid)>>}]
           ELSE k1
      [] OTHER -> k

\* handle_timer(now): which deadline fired is the core's business; the adapter
\* sees either nothing (ack / loss / pacing timers) or the end of the connection
\* (close timer after closing/draining; idle timeout otherwise)
CoreTimerF(k, expire) ==
  IF expire /\ k.st \in {"hs", "open", "closing", "draining"}
  THEN [k EXCEPT !.st = "term", !.q = {}, !.ev = Append(@, <<"ConnectionTerminated">>)]
  ELSE k

\* close()
CoreCloseF(k) == IF k.st \in {"hs", "open"} THEN [k EXCEPT !.st = "closing", !.q = {<<"close", 0>>}] ELSE k

---------------------------------------------------------------------------
(* protocol.py, one operator per method.  s = [P, K, srv, net, ready, W]. *)

\* transmit(): forget the deferred-transmit handle, send what the core has,
\* re-arm the timer according to get_timer()
TransmitF(s, e) ==
  LET k == s.K[e]
      go == {x \in k.q : Sendable(k, x)} IN
  [s EXCEPT !.P[e].txTask = FALSE,
            !.K[e].q = k.q \ go,
            !.net = @ \cup {Wire(k, e, x) : x \in go},
            !.P[e].timer = (k.st \notin {"init", "term"})]

\* _transmit_soon()
TransmitSoonF(s, e) ==
  IF s.P[e].txTask THEN s ELSE [s EXCEPT !.P[e].txTask = TRUE, !.ready[e] = @ + 1]

\* one iteration of the loop in _process_events, followed by quic_event_received
ProcessEventF(s, e, ev) ==
  LET p == s.P[e] IN
  CASE ev[1] = "ConnectionIdIssued" ->          \* server.py _connection_id_issued (clients: no-op handler)
         IF IsClient(e) THEN s
         ELSE [s EXCEPT !.srv.route = CidIssuedF(@, ev[2], e), !.srv.issued[e] = @ \cup {ev[2]}]
    [] ev[1] = "ConnectionIdRetired" ->         \* server.py _connection_id_retired
         IF IsClient(e) THEN s
         ELSE [s EXCEPT !.srv.route = CidRetiredF(@, ev[2], e), !.srv.retired[e] = @ \cup {ev[2]}]
    [] ev[1] = "ConnectionTerminated" ->
         LET s1 == IF IsClient(e) THEN s        \* server.py _connection_terminated
                   ELSE [s EXCEPT !.srv.route = TerminatedF(@, e), !.srv.terminated = @ \cup {e}]
             w1 == IF p.connWaiter # 0 THEN SetF(s1.W, p.connWaiter, "ConnectionError") ELSE s1.W
             w2 == SetAllF(w1, p.pingWaiters, "ConnectionError")
             w3 == SetAllF(w2, p.closedWaiters, "ok")          \* _closed.set()
         IN [s1 EXCEPT !.W = w3, !.P[e].connWaiter = 0, !.P[e].pingWaiters = {},
                       !.P[e].closed = TRUE, !.P[e].closedWaiters = {},
                       !.P[e].rdEof = IF p.rdCreated THEN TRUE ELSE @]      \* feed_eof on every reader
    [] ev[1] = "HandshakeCompleted" ->
         IF p.connWaiter # 0
         THEN [s EXCEPT !.W = SetF(@, p.connWaiter, "ok"), !.P[e].connected = TRUE, !.P[e].connWaiter = 0]
         ELSE s                                  \* (sic) _connected stays False when nobody waits
    [] ev[1] = "PingAcknowledged" ->             \* _ping_waiters.pop(uid, None)
         IF ev[2] \in p.pingWaiters
         THEN [s EXCEPT !.W = SetF(@, ev[2], "ok"), !.P[e].pingWaiters = @ \ {ev[2]}]
         ELSE s
    [] ev[1] = "StreamDataReceived" ->           \* reader created on first data; feed_data; feed_eof
         [s EXCEPT !.P[e].rdCreated = TRUE, !.P[e].rdBuf = @ \o ev[2], !.P[e].rdEof = @ \/ ev[3]]

RECURSIVE FoldEvents(_, _, _)
FoldEvents(s, e, evs) == IF evs = <<>> THEN s
                         ELSE FoldEvents(ProcessEventF(s, e, Head(evs)), e, Tail(evs))
\* _process_events()
ProcessEventsF(s, e) == FoldEvents([s EXCEPT !.K[e].ev = <<>>], e, s.K[e].ev)

\* datagram_received(data, addr)
DatagramReceivedF(s, e, m) ==
  TransmitF(ProcessEventsF([s EXCEPT !.K[e] = CoreRecvF(@, e, m)], e), e)

\* _handle_timer()
HandleTimerF(s, e, expire) ==
  TransmitF(ProcessEventsF([s EXCEPT !.P[e].timer = FALSE, !.K[e] = CoreTimerF(@, expire)], e), e)

\* connect(addr, transmit) as client.connect() calls it, then wait_connected()
\* or (wait_connected=False) the application's own transmit()
WaitConnectedF(s, e) ==
  LET late == s.P[e].closed
      id == Wid("connected", e, CountOf(s.W, "connected", e) + 1)
      w == NewWaiterF(s.W, id, "connected", e, late) IN
  IF s.P[e].connected THEN [s EXCEPT !.W = SetF(w, id, "ok")]             \* returns at once
  ELSE IF late /\ Fixed THEN [s EXCEPT !.W = SetF(w, id, "ConnectionError")]
  ELSE [s EXCEPT !.W = w, !.P[e].connWaiter = id]      \* DevLateWaiter when late: nobody will complete it
ConnectF(s, c, wait) ==
  LET s1 == [s EXCEPT !.P[c].exists = TRUE, !.K[c].st = "hs", !.K[c].dcid = Odcid(c),
                      !.K[c].addr = AddrOf(c), !.K[c].q = {<<"initial", NoTok>>}]
      s2 == TransmitF(s1, c) IN
  IF wait THEN WaitConnectedF(s2, c) ELSE s2

\* ping()
PingF(s, e) ==
  LET late == s.P[e].closed
      id == Wid("ping", e, CountOf(s.W, "ping", e) + 1)
      w == NewWaiterF(s.W, id, "ping", e, late) IN
  IF late /\ Fixed THEN [s EXCEPT !.W = SetF(w, id, "ConnectionError")]
  ELSE TransmitF([s EXCEPT !.W = w, !.P[e].pingWaiters = @ \cup {id},        \* DevLateWaiter when late
                           !.K[e].pinged = @ \cup {id}, !.K[e].q = @ \cup {<<"ping", id>>}], e)

\* wait_closed()
WaitClosedF(s, e) ==
  LET id == Wid("closed", e, CountOf(s.W, "closed", e) + 1)
      w == NewWaiterF(s.W, id, "closed", e, s.P[e].closed) IN
  IF s.P[e].closed THEN [s EXCEPT !.W = SetF(w, id, "ok")]
  ELSE [s EXCEPT !.W = w, !.P[e].closedWaiters = @ \cup {id}]

\* close()
CloseF(s, e) == TransmitF([s EXCEPT !.K[e] = CoreCloseF(@)], e)

\* QuicStreamAdapter.write / write_eof: hand the bytes to the core, transmit soon
WriteF(s, c) ==
  TransmitSoonF([s EXCEPT !.K[c].txN = @ + 1, !.K[c].q = @ \cup {<<"data", s.K[c].txN + 1>>}], c)

\* change_connection_id()
ChangeCidF(s, c) ==
  LET k == s.K[c] IN
  IF k.spare = {} \/ k.st # "open" THEN TransmitF(s, c)
  ELSE LET n == CHOOSE x \in k.spare : \A y \in k.spare : x <= y IN
       TransmitF([s EXCEPT !.K[c].q = @ \cup {<<"retire", k.dcid>>}, !.K[c].dcid = n,
                           !.K[c].spare = @ \ {n}], c)

---------------------------------------------------------------------------
(* server.py QuicServer.datagram_received: Route / Retry / CreateConn *)
ServerRecvF(s, m) ==
  LET p == RouteGet(s.srv.route, m.dcid)
      c == m.cl
      e == SrvEp(c) IN
  IF p # 0 THEN DatagramReceivedF(s, p, m)                                   \* Route
  ELSE IF m.kind # "initial" THEN s
  ELSE IF UseRetry /\ m.arg = NoTok THEN                                     \* Retry
    LET t == Tok(m.from, m.dcid) IN
    [s EXCEPT !.srv.tokens = @ \cup {<<t, m.from>>},
              !.net = @ \cup {Msg(Owner(m.from), 0, 0, c, "retry", t)}]
  ELSE IF UseRetry /\ ~TokenValidFor(m.arg, m.from) THEN s                   \* validate_token raises ValueError
  ELSE IF s.P[e].exists THEN s     \* a replayed Initial after the connection ended: a second, orphan connection (not modelled)
  ELSE                                                                       \* CreateConn
    LET s1 == [s EXCEPT !.P[e].exists = TRUE,
                        !.K[e].st = "hs", !.K[e].addr = m.from, !.K[e].active = {HostCid(c, 0)},
                        !.K[e].q = {<<"hs", 0>>},
                        !.srv.route = CreateConnF(@, m.dcid, HostCid(c, 0), e),
                        !.srv.issued[e] = {HostCid(c, 0)},
                        !.srv.created = @ \cup {[p |-> e, addr |-> m.from, tok |-> m.arg]}]
    IN DatagramReceivedF(s1, e, m)

---------------------------------------------------------------------------
(* design-level exploration *)
S == [P |-> P, K |-> K, srv |-> srv, net |-> net, ready |-> ready, W |-> W]
Apply(s, label) == /\ P' = s.P /\ K' = s.K /\ srv' = s.srv /\ net' = s.net
                   /\ ready' = s.ready /\ W' = s.W /\ act' = label

Init == /\ P = [e \in Eps |-> NewProtocol]
        /\ K = [e \in Eps |-> NewCore]
        /\ srv = [route |-> {}, tokens |-> {}, created |-> {}, terminated |-> {},
                  issued |-> [e \in Eps |-> {}], retired |-> [e \in Eps |-> {}]]
        /\ net = {} /\ ready = [e \in Eps |-> 0]
        /\ W = [i \in {Wid(k, e, n) : k \in {"connected", "ping", "closed"}, e \in Eps, n \in 1..9} |-> NoWaiter]
        /\ bud = [drop |-> 0, dup |-> 0, rebind |-> 0]
        /\ act = <<"init">>

Count(kind, e) == CountOf(W, kind, e)
MayCall(e) == /\ P[e].exists
              /\ (IsClient(e) \/ ServerApp)
              /\ (Late \/ ~P[e].closed)

\* application coroutine steps
Connect(c, wait) == /\ ~P[c].exists /\ UNCHANGED bud
                    /\ Apply(ConnectF(S, c, wait), <<"Connect", c, wait>>)
WaitConnected(e) == /\ MayCall(e) /\ P[e].connWaiter = 0 /\ Count("connected", e) < MaxWC + 1
                    /\ UNCHANGED bud /\ Apply(WaitConnectedF(S, e), <<"WaitConnected", e>>)
Ping(e) == /\ MayCall(e) /\ Count("ping", e) < MaxPing /\ UNCHANGED bud
           /\ Apply(PingF(S, e), <<"Ping", e>>)
WaitClosed(e) == /\ MayCall(e) /\ Count("closed", e) < MaxWClosed /\ UNCHANGED bud
                 /\ Apply(WaitClosedF(S, e), <<"WaitClosed", e>>)
Close(e) == /\ P[e].exists /\ (IsClient(e) \/ ServerApp) /\ K[e].st \in {"hs", "open"} /\ UNCHANGED bud
            /\ Apply(CloseF(S, e), <<"Close", e>>)
Write(c) == /\ P[c].exists /\ NChunk > 0 /\ K[c].txN < FinChunk /\ (Late \/ ~P[c].closed) /\ UNCHANGED bud
            /\ Apply(WriteF(S, c), <<"Write", c>>)
ChangeCid(c) == /\ P[c].exists /\ K[c].st = "open" /\ K[c].spare # {} /\ UNCHANGED bud
                /\ Apply(ChangeCidF(S, c), <<"ChangeCid", c>>)
\* loop callbacks
Transmit(e) == /\ ready[e] > 0 /\ UNCHANGED bud
               /\ Apply(TransmitF([S EXCEPT !.ready[e] = @ - 1], e), <<"Transmit", e>>)
HandleTimer(e, expire) == /\ P[e].timer /\ UNCHANGED bud
                          /\ Apply(HandleTimerF(S, e, expire), <<"HandleTimer", e, expire>>)
\* the network
Arrive(s, m) == IF m.to = 0 THEN ServerRecvF(s, m)
                ELSE IF s.P[m.to].exists /\ m.cl = m.to THEN DatagramReceivedF(s, m.to, m) ELSE s
Deliver(m) == /\ UNCHANGED bud
              /\ Apply(Arrive([S EXCEPT !.net = @ \ {m}], m), <<"Deliver", m.kind, m.cl, m.to>>)
Faults == bud.drop + bud.dup + bud.rebind
Duplicate(m) == /\ bud.dup < MaxDup /\ Faults < MaxFault /\ bud' = [bud EXCEPT !.dup = @ + 1]
                /\ Apply(Arrive(S, m), <<"Duplicate", m.kind, m.cl, m.to>>)
Drop(m) == /\ bud.drop < MaxDrop /\ Faults < MaxFault /\ bud' = [bud EXCEPT !.drop = @ + 1]
           /\ Apply([S EXCEPT !.net = @ \ {m}], <<"Drop", m.kind, m.cl, m.to>>)
Rebind(m) == /\ bud.rebind < MaxRebind /\ Faults < MaxFault /\ m.to = 0 /\ m.kind = "initial" /\ m.from = AddrOf(m.cl)
             /\ bud' = [bud EXCEPT !.rebind = @ + 1]
             /\ Apply([S EXCEPT !.net = (@ \ {m}) \cup {[m EXCEPT !.from = AliasOf(m.cl)]}],
                      <<"Rebind", m.kind, m.cl, m.to>>)

Next ==
  \/ \E c \in Clients, wait \in BOOLEAN : Connect(c, wait)
  \/ \E e \in Eps : WaitConnected(e) \/ Ping(e) \/ WaitClosed(e) \/ Close(e) \/ Transmit(e)
  \/ \E e \in Eps, expire \in BOOLEAN : HandleTimer(e, expire)
  \/ \E c \in Clients : Write(c) \/ ChangeCid(c)
  \/ \E m \in net : Deliver(m) \/ Duplicate(m) \/ Drop(m) \/ Rebind(m)
Spec == Init /\ [][Next]_vars
View == <<P, K, srv, net, ready, W, bud>>

---------------------------------------------------------------------------
(* invariants *)
Terminated(e) == P[e].closed
ServerConns == {e \in Eps : ~IsClient(e) /\ P[e].exists}
Live == {e \in ServerConns : ~Terminated(e)}
\* nothing can happen any more: every connection has reported termination,
\* no datagram is in flight, no callback is ready, no timer is armed
Final == /\ \A e \in Eps : P[e].exists => (K[e].st = "term" /\ ~P[e].timer)
         /\ net = {} /\ \A e \in Eps : ready[e] = 0
         /\ \E e \in Eps : P[e].exists

WaiterOnce     == WaiterOnceOk(W)
NoPendingFinal == Final => NonePending(W)
StreamIntegrity ==
  \A c \in Clients :
    LET e == SrvEp(c)
        n == IF K[c].txN >= FinChunk THEN NChunk ELSE K[c].txN IN
    StreamOk(Len(P[e].rdBuf), P[e].rdBuf = Seg(0, Len(P[e].rdBuf)), P[e].rdEof, Terminated(e), n, K[c].txN = FinChunk)
Reachable    == ReachableOk(srv.route, Live, srv.issued, srv.retired)
NoStaleRoute == NoStaleRouteOk(srv.route, {e \in ServerConns : Terminated(e)})
TokenBound   == TokenBoundOk(UseRetry, srv.created, srv.tokens)

\* model-level sanity (not clauses of the statement): a connection that has not
\* terminated always has a wake-up pending, written data always has a transmit
\* pending, a terminated protocol holds no waiter unless DevLateWaiter put it there
TimerLive == \A e \in Eps : (P[e].exists /\ K[e].st \notin {"init", "term"}) => P[e].timer
Flushed   == \A e \in Eps : ({x \in K[e].q : Sendable(K[e], x)} # {}) => (P[e].txTask /\ ready[e] >= 1)
EventsDrained == \A e \in Eps : K[e].ev = <<>>
NoWaiterHeldAfterTermination ==
  \A e \in Eps : P[e].closed =>
     /\ P[e].closedWaiters = {}
     /\ \A i \in P[e].pingWaiters \cup (IF P[e].connWaiter = 0 THEN {} ELSE {P[e].connWaiter}) : W[i].late
TypeOk == /\ \A e \in Eps : K[e].st \in {"init", "hs", "open", "closing", "draining", "term"}
          /\ \A e \in Eps : ready[e] \in 0..(NChunk + 1)
============================================================================
