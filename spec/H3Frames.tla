------------------------------ MODULE H3Frames ------------------------------
(* HTTP/3 framing of a complete QUIC stream byte string (RFC 9114 section 7,
   aioquic/h3/connection.py): QUIC variable-length integers, the frames of a
   request or push stream, the prefixes of unidirectional streams, and the
   *declarative* meaning of a stream: the sequence of observable tokens
   (headers, push promises, body bytes, WebTransport bytes, end of stream) that
   its bytes denote.  Nothing here knows about deliveries: this is the
   reference the incremental parser of H3Stream is compared with (C14).

   Header blocks are opaque: a block is the byte slice that carries it (QPACK is
   pylsqpack, outside the corpus).  The only fact used about a block is its
   first byte, the encoded Required Insert Count: 0 <=> the block refers to no
   dynamic-table entry and can never wait for the encoder stream.

   Offsets are 0-based (byte at offset i of bs is bs[i+1]). *)
EXTENDS Naturals, Integers, Sequences, FiniteSets

None == -1
Min(a, b) == IF a < b THEN a ELSE b

\* ---------------------------------------------------------------- varints
Big == 1073741824      \* 2^30: every value >= 2^30 is represented by Big
                       \* (TLC integers are 32 bit; no stream here is that long)
VLen(b) == CASE b < 64 -> 1 [] b < 128 -> 2 [] b < 192 -> 4 [] OTHER -> 8

\* _buffer.c Buffer_pull_uint_var at offset i; ok = FALSE <=> BufferReadError
VarintAt(bs, i) ==
  IF i >= Len(bs) THEN [ok |-> FALSE, val |-> 0, next |-> i]
  ELSE LET b == bs[i + 1]
           n == VLen(b) IN
    IF i + n > Len(bs) THEN [ok |-> FALSE, val |-> 0, next |-> i]
    ELSE [ok |-> TRUE, next |-> i + n, val |->
           CASE n = 1 -> b
             [] n = 2 -> (b % 64) * 256 + bs[i + 2]
             [] n = 4 -> (b % 64) * 16777216 + bs[i + 2] * 65536 + bs[i + 3] * 256 + bs[i + 4]
             [] OTHER -> IF b % 64 # 0 \/ bs[i + 2] # 0 \/ bs[i + 3] # 0 \/ bs[i + 4] # 0 \/ bs[i + 5] >= 64
                         THEN Big
                         ELSE bs[i + 5] * 16777216 + bs[i + 6] * 65536 + bs[i + 7] * 256 + bs[i + 8]]

\* _buffer.c Buffer_push_uint_var (shortest form) and the 2-byte form of a small value
EncVar(v) == IF v < 64 THEN <<v>>
             ELSE IF v < 16384 THEN <<64 + v \div 256, v % 256>>
             ELSE <<128 + v \div 16777216, (v \div 65536) % 256, (v \div 256) % 256, v % 256>>
EncVar2(v) == <<64 + v \div 256, v % 256>>

Slice(bs, a, b) == SubSeq(bs, a + 1, b)           \* bytes at offsets a .. b-1

\* ------------------------------------------------------------ frame types
DATA == 0  HEADERS == 1  PRIORITY == 2  CANCEL_PUSH == 3  SETTINGS == 4
PUSH_PROMISE == 5  GOAWAY == 7  MAX_PUSH_ID == 13  DUPLICATE_PUSH == 14
WT_STREAM == 65                                   \* 0x41 WEBTRANSPORT_STREAM
\* frame types that are an error on a request or push stream
Reserved == {PRIORITY, CANCEL_PUSH, SETTINGS, PUSH_PROMISE, GOAWAY, MAX_PUSH_ID, DUPLICATE_PUSH}
\* unidirectional stream types
ST_CONTROL == 0  ST_PUSH == 1  ST_QENC == 2  ST_QDEC == 3  ST_WT == 84   \* 0x54

IsUni(sid) == sid % 4 \in {2, 3}

(* Frames of a request/push stream from offset i.  A frame is
   [type, len, start (offset of payload), avail (payload bytes present)];
   the last frame may be incomplete (avail < len).  A WEBTRANSPORT_STREAM
   "frame" has len = session id and lasts until the end of the stream.  rest =
   offset of an incomplete frame header, or Len(bs). *)
RECURSIVE FramesFrom(_, _)
FramesFrom(bs, i) ==
  LET t == VarintAt(bs, i) IN
  IF ~t.ok THEN [frames |-> <<>>, rest |-> i]
  ELSE LET n == VarintAt(bs, t.next) IN
    IF ~n.ok THEN [frames |-> <<>>, rest |-> i]
    ELSE IF t.val = WT_STREAM
    THEN [frames |-> <<[type |-> WT_STREAM, len |-> n.val, start |-> n.next, avail |-> Len(bs) - n.next]>>,
          rest |-> Len(bs)]
    ELSE LET avail == Min(n.val, Len(bs) - n.next)
             f == [type |-> t.val, len |-> n.val, start |-> n.next, avail |-> avail] IN
         IF avail < n.val THEN [frames |-> <<f>>, rest |-> Len(bs)]
         ELSE LET r == FramesFrom(bs, n.next + n.val) IN
              [frames |-> <<f>> \o r.frames, rest |-> r.rest]

Payload(bs, f) == Slice(bs, f.start, f.start + f.avail)

\* ------------------------------------------------------------------ tokens
(* The observable content of a stream, independent of how events are cut:
   one token per header block / push promise, one token per body byte, one per
   WebTransport byte, and an end-of-stream token. *)
HTok(blk, push)  == [k |-> "H", blk |-> blk, push |-> push]
PTok(blk, pid)   == [k |-> "P", blk |-> blk, pid |-> pid]
DTok(b, push)    == [k |-> "D", b |-> b, push |-> push]
WTok(b, ses)     == [k |-> "W", b |-> b, ses |-> ses]
ETok             == [k |-> "E"]
DToks(bytes, push) == [i \in 1..Len(bytes) |-> DTok(bytes[i], push)]
WToks(bytes, ses)  == [i \in 1..Len(bytes) |-> WTok(bytes[i], ses)]

IsPrefix(a, b) == Len(a) <= Len(b) /\ SubSeq(b, 1, Len(a)) = a

\* Required Insert Count of a header block is zero
NoDynRef(blk) == blk = <<>> \/ blk[1] = 0
\* the block can be decoded: it needs no insertion, or the encoder stream has
\* delivered the insertions (encOk)
Avail(blk, encOk) == NoDynRef(blk) \/ encOk

(* Meaning of the frames fs[j..] of a request (push = None) or push stream.
   hs = 0 before the headers, 1 after them, 2 after the trailers.
     toks  tokens denoted so far
     err   the stream is a protocol error (the connection is closed)
     open  a frame other than DATA is incomplete: nothing more is denoted
           (and the end of the stream there is an error, see FramedMeaning)
   The walk stops at the first header block that is not available: a block
   waiting for the encoder stream hides everything behind it. *)
RECURSIVE Walk(_, _, _, _, _, _, _)
Walk(bs, fs, j, hs, push, client, encOk) ==
  IF j > Len(fs) THEN [toks |-> <<>>, err |-> FALSE, open |-> FALSE, hidden |-> FALSE]
  ELSE
  LET f == fs[j]
      pl == Payload(bs, f)
      full == f.avail = f.len
      Stop(e, o, h) == [toks |-> <<>>, err |-> e, open |-> o, hidden |-> h]
      Then(ts, hs2) == LET r == Walk(bs, fs, j + 1, hs2, push, client, encOk) IN
                       [r EXCEPT !.toks = ts \o @] IN
  CASE f.type = WT_STREAM -> [toks |-> WToks(pl, f.len), err |-> FALSE, open |-> FALSE, hidden |-> FALSE]
    [] f.type = DATA ->
         IF hs # 1 THEN Stop(TRUE, FALSE, FALSE)          \* judged as soon as the frame header is complete
         ELSE Then(DToks(pl, push), hs)
    [] f.type # DATA /\ f.type # WT_STREAM /\ ~full -> Stop(FALSE, TRUE, FALSE)
    [] f.type = HEADERS /\ full ->
         IF hs = 2 THEN Stop(TRUE, FALSE, FALSE)
         ELSE IF ~Avail(pl, encOk) THEN Stop(FALSE, FALSE, TRUE)
         ELSE Then(<<HTok(pl, push)>>, hs + 1)
    [] f.type = PUSH_PROMISE /\ full /\ push = None ->
         LET v == VarintAt(pl, 0) IN
         IF ~client \/ ~v.ok THEN Stop(TRUE, FALSE, FALSE)
         ELSE LET blk == Slice(pl, v.next, Len(pl)) IN
              IF ~Avail(blk, encOk) THEN Stop(FALSE, FALSE, TRUE)
              ELSE Then(<<PTok(blk, v.val)>>, hs)
    [] f.type \in Reserved /\ full /\ ~(f.type = PUSH_PROMISE /\ push = None) -> Stop(TRUE, FALSE, FALSE)
    [] OTHER -> Then(<<>>, hs)                             \* unknown frame types are ignored

(* The bytes end at a frame boundary, so a FIN after them does not cut a frame
   (or a frame header) in two.  RFC 9114 section 7.1: a frame truncated by the
   end of the stream is a connection error (H3_FRAME_ERROR). *)
FramedFrom(bs, i) ==
  LET p == FramesFrom(bs, i) IN
  p.rest = Len(bs) /\ \A j \in {Len(p.frames)} \ {0} :
                        p.frames[j].type = WT_STREAM \/ p.frames[j].avail = p.frames[j].len
WellFramed(sid, bs) ==
  IF ~IsUni(sid) THEN FramedFrom(bs, 0)
  ELSE LET t == VarintAt(bs, 0)
           v == VarintAt(bs, t.next) IN
       IF t.ok /\ t.val = ST_PUSH /\ v.ok THEN FramedFrom(bs, v.next) ELSE TRUE

\* a request or push stream whose frames start at offset i.  The stream is an
\* error when a frame is one, or when its end cuts a frame in two -- unless a
\* block still waiting for the encoder stream hides that end.
FramedMeaning(bs, i, fin, push, client, encOk) ==
  LET p == FramesFrom(bs, i)
      w == Walk(bs, p.frames, 1, 0, push, client, encOk)
      cut == fin /\ ~w.err /\ ~w.hidden /\ ~FramedFrom(bs, i)
      ended == fin /\ ~w.err /\ ~w.hidden /\ ~cut IN
  [toks |-> IF ended THEN w.toks \o <<ETok>> ELSE w.toks, err |-> w.err \/ cut]

(* Frames of the control stream are taken whole; they produce no event.  The
   statement of C14 is about events, so only "is it an error" is described:
   SETTINGS first and once, no request-stream frames, MAX_PUSH_ID only towards
   a server, and the stream must not end.  (The contents of SETTINGS and
   MAX_PUSH_ID are C16's business; the domains used here keep them valid.) *)
RECURSIVE ControlErr(_, _, _, _)
ControlErr(bs, i, seen, client) ==
  LET t == VarintAt(bs, i) IN
  IF ~t.ok THEN FALSE ELSE
  LET n == VarintAt(bs, t.next) IN
  IF ~n.ok \/ n.next + n.val > Len(bs) THEN FALSE
  ELSE \/ t.val # SETTINGS /\ ~seen
       \/ t.val = SETTINGS /\ seen
       \/ t.val = MAX_PUSH_ID /\ client
       \/ t.val \in {DATA, HEADERS, PUSH_PROMISE, DUPLICATE_PUSH}
       \/ ControlErr(bs, n.next + n.val, TRUE, client)

(* Meaning of the bytes bs (followed by the end of the stream iff fin) of
   stream sid for an endpoint that is a client or not; encOk: the insertions
   the header blocks refer to have arrived on the encoder stream. *)
Meaning(sid, bs, fin, client, encOk) ==
  LET nothing == [toks |-> <<>>, err |-> FALSE] IN
  IF ~IsUni(sid) THEN FramedMeaning(bs, 0, fin, None, client, encOk)
  ELSE LET t == VarintAt(bs, 0) IN
    IF ~t.ok THEN nothing
    ELSE CASE t.val = ST_CONTROL -> [toks |-> <<>>, err |-> fin \/ ControlErr(bs, t.next, FALSE, client)]
           [] t.val = ST_PUSH ->
                LET v == VarintAt(bs, t.next) IN
                IF ~v.ok THEN nothing ELSE FramedMeaning(bs, v.next, fin, v.val, client, encOk)
           [] t.val = ST_WT ->
                LET v == VarintAt(bs, t.next) IN
                IF ~v.ok THEN nothing
                ELSE [toks |-> WToks(Slice(bs, v.next, Len(bs)), v.val) \o (IF fin THEN <<ETok>> ELSE <<>>),
                      err |-> FALSE]
           [] OTHER -> nothing      \* QPACK streams and unknown types: no events
=============================================================================
