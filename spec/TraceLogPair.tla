--------------------------- MODULE TraceLogPair ----------------------------
(* Judges zipped logs of real paired runs (netsim: two real QuicConnections,
   optionally with H3Connections on top) with the relations of LogPair (C20).
   One scenario (configuration, script, seed) is executed four times:
   Modes[1] logging off, Modes[2] qlog on, Modes[3] secrets log on, Modes[4]
   both.  The runs are zipped line by line; every line carries the four results
   of the same step (a run that is shorter is padded with k = "none").

     init
     step  k  tab  r = <<r1, r2, r3, r4>>
              tab  = the strings of the line (lossless dictionary coding: obs and mdl hold indices
                     into it; Dec decodes before anything is compared)
              r[i] = [k, raised, obs, mdl]
                 k       kind of step: api / ev / tx / pkt / gt / rx / timer / h3
                 raised  "" or "ExceptionType@innermost aioquic function"
                 obs     what the caller and the wire saw, as a sequence of "field=value" strings:
                           api   endpoint, call, arguments
                           ev    endpoint, event class, its fields (data as length + digest)
                           tx    endpoint, number of datagrams, their lengths and destinations
                           pkt   endpoint, the packet as the independent observer decoded it:
                                 type, space, version, CIDs (small ids), packet number and its
                                 encoded length, key phase, length, then every frame with all its
                                 fields (STREAM / DATAGRAM payload as digest; CRYPTO as offset and
                                 length: the TLS key shares differ from run to run)
                           gt    endpoint, value of get_timer() in microseconds
                           rx    endpoint, datagram length, source address
                           timer endpoint, deadline that fired
                 mdl     internal fields read next to it (congestion window, bytes in
                         flight, state name, handshake flags ...): outside the statement
     end   tab  f = <<f1, f2, f3, f4>>   (indices into tab) final state projection of both endpoints (explicit fields, then
                                    one digest per instance attribute of a walk over vars(connection))
           q = accounts, one per (mode with qlog on, endpoint):
               [who, jsonOk, strictJson, countable, sentRecords, sent, recvRecords, processed,
                sentRecordLens, sentLens]
                 sentRecords    "type:pn" of every transport:packet_sent record of the endpoint's trace
                 sent           "type:pn" of every packet the observer saw leaving the endpoint
                 countable      the observer could open every packet the endpoint emitted
                 recvRecords    packet_received records per packet type <<initial, handshake, 0rtt, 1rtt>>
                 processed      packets the endpoint handed to _payload_received, per epoch (harness wrapper)

           kl = one per (mode with the secrets log on, endpoint): [who, written, installed]: "label secret" of
                every line the endpoint wrote / of every secret the harness saw it install (C03 judges the
                secrets log; here it only shows that the log under test was really written)

   Statement clauses come first; "model:" clauses compare what the statement does
   not speak about. *)
EXTENDS LogPair, TraceBase

Modes == <<"off", "qlog", "keys", "both">>

Dec(tab, ix) == [i \in DOMAIN ix |-> tab[ix[i]]]
Rec(e, i) == [k |-> e.r[i].k, raised |-> e.r[i].raised, obs |-> Dec(e.tab, e.r[i].obs), mdl |-> Dec(e.tab, e.r[i].mdl)]

ClStep(e) ==
  LET off == Rec(e, 1) IN
  [i \in 1..3 |-> <<"logging-raises:" \o Modes[i + 1], TotalStep(off, Rec(e, i + 1))>>] \o
  [i \in 1..3 |-> <<"different-" \o e.k \o ":" \o Modes[i + 1], SameStep(off, Rec(e, i + 1))>>] \o
  [i \in 1..3 |-> <<"model:different-internal-state:" \o Modes[i + 1], off.mdl = Rec(e, i + 1).mdl>>]

ClEnd(e) ==
  [i \in 1..3 |-> <<"different-final-state:" \o Modes[i + 1], SameFinal(Dec(e.tab, e.f[1]), Dec(e.tab, e.f[i + 1]))>>] \o
  [j \in DOMAIN e.q |-> <<"qlog-not-serialisable:" \o e.q[j].who, e.q[j].jsonOk>>] \o
  [j \in DOMAIN e.q |-> <<"packet-sent-record-count:" \o e.q[j].who, e.q[j].countable => SentCount(e.q[j])>>] \o
  [j \in DOMAIN e.q |-> <<"packet-received-record-count:" \o e.q[j].who, RecvCount(e.q[j])>>] \o
  [j \in DOMAIN e.q |-> <<"packet-sent-record-per-packet:" \o e.q[j].who, e.q[j].countable => SentMatch(e.q[j])>>] \o
  [j \in DOMAIN e.q |-> <<"accounting:" \o e.q[j].who, e.q[j].countable => Accounting(e.q[j])>>] \o
  [j \in DOMAIN e.q |-> <<"model:qlog-not-strict-json:" \o e.q[j].who, e.q[j].strictJson>>] \o
  [j \in DOMAIN e.q |-> <<"model:packet-sent-record-length:" \o e.q[j].who,
                            e.q[j].countable => e.q[j].sentRecordLens = e.q[j].sentLens>>] \o
  [j \in DOMAIN e.kl |-> <<"model:secrets-log-is-not-the-installed-secrets:" \o e.kl[j].who, e.kl[j].written = e.kl[j].installed>>]

Cl(e) == CASE e.ev = "step" -> ClStep(e)
           [] e.ev = "end"  -> ClEnd(e)
           [] OTHER         -> << >>

TInit == l = 1 /\ Init
TNext == Judge(Cl) /\ UNCHANGED vars
TSpec == TInit /\ [][TNext]_<<l, vars>>
============================================================================
