---------------------------- MODULE PnDecodeOps ----------------------------
(* Pure operators of PnDecode (see there): the transcription Dec of
   packet.decode_packet_number and the declarative requirement Good. *)
EXTENDS Integers

Dec(t, w, e, S) ==
  LET c == (e - (e % w)) + t IN
  IF c <= e - (w \div 2) /\ c < S - w THEN c + w
  ELSE IF c > e + (w \div 2) /\ c >= w THEN c - w
  ELSE c

Dist(a, b) == IF a > b THEN a - b ELSE b - a
Good(r, t, w, e, S) ==
  /\ r % w = t /\ 0 <= r /\ r < S
  /\ (r - w >= 0) => Dist(r - w, e) >= Dist(r, e)
  /\ (r + w < S) => Dist(r + w, e) >= Dist(r, e)
Row(r, t, w, e, S) == r = Dec(t, w, e, S) /\ Good(r, t, w, e, S)

=============================================================================
