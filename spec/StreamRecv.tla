---------------------------- MODULE StreamRecv ----------------------------
(* Receive half of a QUIC stream (aioquic/quic/stream.py QuicStreamReceiver)
   as the "simple offset-to-byte map" of property C10.

   Style used by the whole corpus: every implementation entry point is a pure
   operator  XxxF(s, args) == [st |-> successor, out |-> output]  over the
   abstract state record s, and an action Xxx(args) that applies it to the
   single state variable.  The design configuration explores Next; the trace
   module evaluates the same operators on states recorded from the code. *)
EXTENDS Naturals, Integers, Sequences, FiniteSets

CONSTANTS N,                   \* longest stream considered
          Codes,               \* error codes the application may pass to stop()
          F                    \* most STOP_SENDING frames in flight at once (bound)
NONE == -1
Byte(o) == (31 * o + 7) % 251  \* payload convention of the drivers

VARIABLES st, out
vars == <<st, out>>
View == st

InitState == [got |-> {}, delivered |-> 0, final |-> NONE, highest |-> 0,
              finished |-> FALSE, endSig |-> FALSE, resetAcc |-> FALSE,
              stopPending |-> FALSE, stopCode |-> NONE, stopInFlight |-> 0]

\* length of the contiguous prefix of S starting at 0
Prefix(S) == CHOOSE k \in 0..(Cardinality(S)) :
                (\A i \in 0..k-1 : i \in S) /\ k \notin S

Max(a, b) == IF a > b THEN a ELSE b

\* "data lies beyond, or a FIN disagrees with, an already fixed final size"
FrameConflicts(s, e, fin) == s.final # NONE /\ (e > s.final \/ (fin /\ e # s.final))

HandleFrameF(s, o, n, fin) ==
  LET e == o + n IN
  IF FrameConflicts(s, e, fin)
  THEN [st |-> s, out |-> [k |-> "FinalSizeError"]]
  ELSE LET final2 == IF fin THEN e ELSE s.final
           got2   == s.got \cup (o .. e-1)
           d2     == Prefix(got2)
           \* the end marker of the reference map: it accompanies every frame
           \* processed when everything up to the final size has been delivered
           \* (tests/test_stream.py test_receiver_fin_twice pins the repetition
           \* at this level; "at most once" is a connection-level clause, C01).
           \* It is not judged after a reset.
           endNow == d2 = final2 /\ ~s.resetAcc
       IN [st |-> [s EXCEPT !.got = got2, !.delivered = d2, !.final = final2,
                            !.highest = Max(s.highest, e),
                            !.finished = s.finished \/ d2 = final2,
                            !.endSig = s.endSig \/ endNow],
           out |-> IF d2 > s.delivered \/ endNow
                   THEN [k |-> "Data",
                         bytes |-> [i \in 1..(d2 - s.delivered) |-> Byte(s.delivered + i - 1)],
                         end |-> endNow]
                   ELSE [k |-> "None"]]

\* "a reset disagrees with an already fixed final size"
HandleResetF(s, fs) ==
  IF s.final # NONE /\ fs # s.final
  THEN [st |-> s, out |-> [k |-> "FinalSizeError"]]
  ELSE [st |-> [s EXCEPT !.final = fs, !.finished = TRUE, !.resetAcc = TRUE,
                         !.highest = Max(s.highest, fs)],      \* the reset consumes the credit up to the final size
        out |-> [k |-> "Reset"]]

(* STOP_SENDING bookkeeping.  The environment (the connection) asks for a
   frame only while one is pending and reports the fate of a frame only for a
   frame that was emitted (connection.py registers on_stop_sending_delivery as
   the delivery handler of the packet that carries the frame); stopInFlight is
   that environment's count of emitted frames whose fate is still unknown. *)
StopF(s, c) == [st |-> [s EXCEPT !.stopPending = TRUE, !.stopCode = c], out |-> [k |-> "None"]]
GetStopFrameOk(s) == s.stopPending /\ s.stopInFlight < F
GetStopFrameF(s) == [st |-> [s EXCEPT !.stopPending = FALSE, !.stopInFlight = @ + 1],
                     out |-> [k |-> "StopFrame", code |-> s.stopCode]]
StopDeliveryOk(s) == s.stopInFlight > 0
StopDeliveryF(s, acked) ==
  [st |-> [s EXCEPT !.stopInFlight = @ - 1,
                    !.stopPending = IF acked THEN @ ELSE TRUE],
   out |-> [k |-> "None"]]

Apply(r) == st' = r.st /\ out' = r.out

Init == st = InitState /\ out = [k |-> "None"]
Next == \/ \E o \in 0..N, n \in 0..N, fin \in BOOLEAN :
             o + n <= N /\ Apply(HandleFrameF(st, o, n, fin))
        \/ \E fs \in 0..N : Apply(HandleResetF(st, fs))
        \/ \E c \in Codes : Apply(StopF(st, c))
        \/ GetStopFrameOk(st) /\ Apply(GetStopFrameF(st))
        \/ \E a \in BOOLEAN : StopDeliveryOk(st) /\ Apply(StopDeliveryF(st, a))
Spec == Init /\ [][Next]_vars

---------------------------------------------------------------------------
(* Properties (C10, receive half) *)

\* state well-formedness, evaluated on model states and on implementation states
StateOk(s) == /\ s.delivered = Prefix(s.got)
              /\ s.delivered <= s.highest
              /\ \A o \in s.got : o < s.highest
              /\ (s.endSig => s.delivered = s.final)
              /\ (s.finished <=> (s.resetAcc \/ (s.final # NONE /\ s.delivered = s.final)))
\* STOP_SENDING bookkeeping (beyond the statement of C10): a frame is pending or
\* in flight only after a stop() request, whose code it will carry
StopOk(s) == (s.stopPending \/ s.stopInFlight > 0) => s.stopCode # NONE
TypeOk == StateOk(st) /\ StopOk(st)

\* the end marker is delivered only when all bytes up to the final size were
EndOnlyAtFinal == [][(out'.k = "Data" /\ out'.end) =>
                        (st'.final # NONE /\ st'.delivered = st'.final /\ st'.endSig)]_vars
\* delivered bytes are exactly the newly contiguous ones (no gap, no repeat)
NoRepeat == [][out'.k = "Data" => Len(out'.bytes) = st'.delivered - st.delivered]_vars
\* delivery never goes backwards; the final size never changes once fixed
Monotone == [][st'.delivered >= st.delivered /\ (st.final # NONE => st'.final = st.final)]_vars
\* a STOP_SENDING frame carries the code of the latest stop() request
StopCarriesCode == [][out'.k = "StopFrame" => (out'.code = st.stopCode /\ out'.code \in Codes)]_vars
============================================================================
