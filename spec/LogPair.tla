------------------------------ MODULE LogPair ------------------------------
(* Logging is observationally transparent (property C20).

   A self-composition.  Two copies of one deterministic endpoint run the same
   script of inputs; copy `a` has logging off, copy `b` has logging on (qlog,
   secrets log or both - the model has one logger, the trace module judges the
   three "on" variants against the same "off" run).  The copies are stepped
   together, input by input (StepBoth); `last` keeps what each of them returned
   for the last input.  Finish closes the run: the final state projections are
   compared and the produced log is accounted against what an independent
   observer counted.

     SameObservation  the two copies return the same thing for every input:
                      same exception or none, same API events in the same
                      order, the same packets (number, length, frame sequence),
                      the same timer; and they end in the same state
     LoggingTotal     the "on" copy never raises where the "off" copy does not
     QlogAccounting   the log is serialisable; it holds exactly one
                      packet_sent record per packet the observer saw leaving and
                      one packet_received record per packet the endpoint
                      processed (a dropped duplicate has no such record)

   The endpoint is shaped like aioquic's QuicConnection as far as logging is
   concerned: a core transition (CoreF: what the code does with
   `_quic_logger is None`) and, guarded by "logging is on", an encoder that
   turns what the core just did into records (RecordsOf, the
   `if self._quic_logger is not None:` branches and the encode_xxx functions
   of logger.py).  The property holds because the logger reads the core's
   result and writes only the log.
   Fault # "none" puts a defective logger in its place, of one of the kinds the
   property is about; the driver checks with TLC that each of them breaks the
   invariant that is meant to catch it (the invariants are not vacuous).

   The relations SameStep / TotalStep / SameFinal / Accounting are the ones
   TraceLogPair applies to the zipped logs of real paired runs. *)
EXTENDS Naturals, Sequences, FiniteSets, TLC

CONSTANTS MaxSteps,      \* length of the scripts explored
          MaxPn,         \* the peer numbers its packets 0..MaxPn
          Fault          \* "none" | "mutates" | "raises" | "skips-sent" | "skips-recv" | "counts-dropped" | "unserialisable"

VARIABLES a, b,          \* the two copies: [core, log, ok]
          last,          \* [a |-> what copy a returned for the last input, b |-> ...]
          n,             \* inputs consumed
          seen,          \* what the independent observer counted on copy b: [sent, processed]
          done           \* Finish happened
vars == <<a, b, last, n, seen, done>>

-----------------------------------------------------------------------------
(* The relations of the property, over what a step returned / a final
   projection / an account.  A step result is a record with at least the fields
   k (which call it was), raised ("" = returned normally) and obs (everything
   else the caller and the wire can see). *)
Raised(x) == x.raised # ""
TotalStep(off, on) == Raised(on) => Raised(off)
SameStep(off, on)  == off.k = on.k /\ off.raised = on.raised /\ off.obs = on.obs
SameFinal(off, on) == off = on
SentCount(q)       == Len(q.sentRecords) = Len(q.sent)        \* as many packet_sent records as packets sent
RecvCount(q)       == q.recvRecords = q.processed             \* as many packet_received records as packets processed
SentMatch(q)       == q.sentRecords = q.sent                  \* record i describes packet i
Accounting(q)      == q.jsonOk /\ SentCount(q) /\ RecvCount(q) /\ SentMatch(q)

-----------------------------------------------------------------------------
(* The core: one deterministic endpoint.  st: "open" | "closing" | "done". *)
Core0 == [next |-> 0, pending |-> 0, ackdue |-> FALSE, got |-> {}, st |-> "open", closeSent |-> FALSE]

Inputs == {[op |-> "write"], [op |-> "send"], [op |-> "timer"], [op |-> "close"]}
          \cup {[op |-> "recv", pn |-> p, fatal |-> f] : p \in 0..MaxPn, f \in BOOLEAN}

Res(c, ev, pk, rx) == [st |-> c, ev |-> ev, pk |-> pk, rx |-> rx]

CoreF(c, in) ==
  CASE in.op = "write" ->
         IF c.st = "open" THEN Res([c EXCEPT !.pending = 1], <<>>, <<>>, "none") ELSE Res(c, <<>>, <<>>, "none")
    [] in.op = "close" ->
         IF c.st = "open" THEN Res([c EXCEPT !.st = "closing"], <<>>, <<>>, "none") ELSE Res(c, <<>>, <<>>, "none")
    [] in.op = "recv" ->
         IF c.st # "open" THEN Res(c, <<>>, <<>>, "ignored")
         ELSE IF in.pn \in c.got THEN Res(c, <<>>, <<>>, "duplicate")
         ELSE IF in.fatal                             \* a frame only seen in an error path
              THEN Res([c EXCEPT !.got = @ \cup {in.pn}, !.st = "closing"], <<"error">>, <<>>, "processed")
              ELSE Res([c EXCEPT !.got = @ \cup {in.pn}, !.ackdue = TRUE], <<"data">>, <<>>, "processed")
    [] in.op = "send" ->
         IF c.st = "closing" /\ ~c.closeSent
         THEN Res([c EXCEPT !.closeSent = TRUE, !.next = @ + 1], <<>>,
                  << [pn |-> c.next, frames |-> <<"connection_close">>] >>, "none")
         ELSE IF c.st = "open" /\ (c.pending > 0 \/ c.ackdue)
         THEN Res([c EXCEPT !.pending = 0, !.ackdue = FALSE, !.next = @ + 1], <<>>,
                  << [pn |-> c.next, frames |-> (IF c.ackdue THEN <<"ack">> ELSE <<>>) \o
                                                (IF c.pending > 0 THEN <<"stream">> ELSE <<>>)] >>, "none")
         ELSE Res(c, <<>>, <<>>, "none")
    [] in.op = "timer" ->
         IF c.st = "closing" /\ c.closeSent THEN Res([c EXCEPT !.st = "done"], <<"terminated">>, <<>>, "none")
         ELSE IF c.st = "open" /\ c.next > 0 THEN Res([c EXCEPT !.pending = 1], <<>>, <<>>, "none")   \* probe
         ELSE Res(c, <<>>, <<>>, "none")

TimerOf(c) == IF c.st = "done" THEN 0 ELSE IF c.st = "closing" THEN 3 ELSE IF c.ackdue THEN 1 ELSE 2

\* what the caller and the wire see of a step
Out(in, r, raised) == [k |-> in.op, raised |-> raised,
                       obs |-> [ev |-> r.ev, pk |-> r.pk, timer |-> TimerOf(r.st)]]

-----------------------------------------------------------------------------
(* The logger: records for what the core just did. *)
SeqMap(F(_), s) == [i \in DOMAIN s |-> F(s[i])]
SentRec(p) == [name |-> "packet_sent", pn |-> p.pn, frames |-> p.frames]
RecordsOf(in, r) ==
  SeqMap(SentRec, r.pk) \o
  (IF r.rx = "processed" THEN << [name |-> "packet_received", pn |-> in.pn] >>
   ELSE IF r.rx = "duplicate" THEN << [name |-> "packet_dropped", pn |-> in.pn] >>
   ELSE <<>>)

Closing(p) == p.frames = <<"connection_close">>
Select(s, P(_)) == SelectSeq(s, P)

\* one step of a copy.  x = [core, log, ok]; returns [st, out]
ConnF(x, in, logging) ==
  LET r == CoreF(x.core, in)
      good == [st |-> [x EXCEPT !.core = r.st, !.log = IF logging THEN @ \o RecordsOf(in, r) ELSE @],
               out |-> Out(in, r, "")]
      fatal == in.op = "recv" /\ r.rx = "processed" /\ in.fatal
  IN
  IF ~logging \/ Fault = "none" THEN good
  ELSE CASE Fault = "mutates" ->         \* a log branch that also updates connection state
              IF in.op = "recv" /\ r.rx = "processed"
              THEN [good EXCEPT !.st.core.ackdue = FALSE] ELSE good
         [] Fault = "raises" ->          \* the encoder cannot encode a value only seen in an error path
              IF fatal THEN [st |-> [x EXCEPT !.core.got = @ \cup {in.pn}],
                             out |-> Out(in, Res(x.core, <<>>, <<>>, "none"), "EncodeError")]
              ELSE good
         [] Fault = "skips-sent" ->      \* the closing flight is not logged
              [good EXCEPT !.st.log = x.log \o Select(RecordsOf(in, r), LAMBDA q : q.name # "packet_sent" \/ ~Closing(q))]
         [] Fault = "skips-recv" ->      \* a packet whose processing ends in an error is not logged
              IF fatal THEN [good EXCEPT !.st.log = x.log] ELSE good
         [] Fault = "counts-dropped" ->  \* a dropped duplicate is logged as received
              IF r.rx = "duplicate"
              THEN [good EXCEPT !.st.log = x.log \o << [name |-> "packet_received", pn |-> in.pn] >>] ELSE good
         [] Fault = "unserialisable" ->  \* a record holds a value json cannot write
              IF fatal THEN [good EXCEPT !.st.ok = FALSE] ELSE good
         [] OTHER -> good

-----------------------------------------------------------------------------
Copy0 == [core |-> Core0, log |-> <<>>, ok |-> TRUE]
Out0  == [k |-> "init", raised |-> "", obs |-> [ev |-> <<>>, pk |-> <<>>, timer |-> 2]]

Init == /\ a = Copy0 /\ b = Copy0 /\ last = [a |-> Out0, b |-> Out0] /\ n = 0
        /\ seen = [sent |-> <<>>, processed |-> 0] /\ done = FALSE

StepBoth(in) ==
  /\ ~done /\ n < MaxSteps
  /\ LET ra == ConnF(a, in, FALSE)
         rb == ConnF(b, in, TRUE) IN
     /\ a' = ra.st /\ b' = rb.st
     /\ last' = [a |-> ra.out, b |-> rb.out]
     \* the observer: packets leaving copy b, and (a trusted count of) packets copy b processed
     /\ seen' = [sent |-> seen.sent \o SeqMap(LAMBDA p : p.pn, rb.out.obs.pk),
                 processed |-> seen.processed +
                               (IF in.op = "recv" /\ in.pn \notin b.core.got /\ b.core.st = "open" THEN 1 ELSE 0)]
  /\ n' = n + 1 /\ UNCHANGED done

Finish == /\ ~done /\ done' = TRUE /\ UNCHANGED <<a, b, last, n, seen>>

Next == (\E in \in Inputs : StepBoth(in)) \/ Finish
Spec == Init /\ [][Next]_vars

-----------------------------------------------------------------------------
FinalProj(x) == x.core
Account == [jsonOk |-> b.ok,
            sentRecords |-> SeqMap(LAMBDA q : q.pn, Select(b.log, LAMBDA q : q.name = "packet_sent")),
            sent |-> seen.sent,
            recvRecords |-> Len(Select(b.log, LAMBDA q : q.name = "packet_received")),
            processed |-> seen.processed]

TypeOk == /\ n \in 0..MaxSteps /\ done \in BOOLEAN
          /\ a.core.st \in {"open", "closing", "done"} /\ b.core.st \in {"open", "closing", "done"}
          /\ a.log = <<>>
SameObservation == SameStep(last.a, last.b) /\ (done => SameFinal(FinalProj(a), FinalProj(b)))
LoggingTotal    == TotalStep(last.a, last.b)
QlogAccounting  == done => Accounting(Account)
\* the observation is not trivial: some behaviour sends packets, processes packets, and terminates
Reach == ~(done /\ Len(seen.sent) >= 2 /\ seen.processed >= 2 /\ a.core.st = "done")
=============================================================================
