---------------------------- MODULE MC_PnDecode ----------------------------
(* Apalache wrapper: the lemma of PnDecode over unbounded integers for the four real
   window sizes and every expected number below 2^62 (checked with --length=0). *)
EXTENDS Integers, PnDecodeOps

VARIABLES
  \* @type: Int;
  t,
  \* @type: Int;
  w,
  \* @type: Int;
  e

S62 == 4611686018427387904

Init == /\ w \in {256, 65536, 16777216, 4294967296}
        /\ e \in Int /\ e >= 0 /\ e < S62
        /\ t \in Int /\ t >= 0 /\ t < w
Next == UNCHANGED <<t, w, e>>
Inv == Good(Dec(t, w, e, S62), t, w, e, S62)
=============================================================================
