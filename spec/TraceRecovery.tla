--------------------------- MODULE TraceRecovery ---------------------------
(* Validates edges recorded from the real QuicPacketRecovery (both congestion
   controllers) against the operators of Recovery. *)
EXTENDS Recovery, TraceBase

PktFun(sq) == LET S == ToSet(sq) IN
  [pn \in {p[1] : p \in S} |->
     LET p == CHOOSE q \in S : q[1] = pn IN
     [size |-> p[2], inflight |-> p[3], ackel |-> p[4], crypto |-> p[5], t |-> p[6]]]
Pairs(sq) == {<<x[1], x[2]>> : x \in ToSet(sq)}
Abs(j) == [cc |-> j.cc,
           sp |-> [k \in Spaces |-> [sent |-> PktFun(j.sp[k].sent), la |-> j.sp[k].la,
                                      lts |-> j.sp[k].lts, aeif |-> j.sp[k].aeif]],
           bif |-> j.bif, cwnd |-> j.cwnd, ssthresh |-> j.ssthresh, stash |-> j.stash,
           recStart |-> j.recStart, pto |-> j.pto, reported |-> Pairs(j.reported)]
OutOf(j) == [acked |-> Pairs(j.acked), lost |-> Pairs(j.lost), probe |-> j.probe]
LostIn(o, k) == {x[2] : x \in {y \in o.lost : y[1] = k}}
LostBy(o) == [k \in Spaces |-> LostIn(o, k)]

Guard(e, pre, o) ==
  CASE e.op = "send"    -> SendOk(pre, e.k, e.p)
    [] e.op = "ack"     -> AckGuard(pre, e.k, ToSet(e.ranges), LostIn(o, e.k), FALSE)
                             /\ \A x \in o.lost : x[1] = e.k
    [] e.op = "timeout" -> \E k \in 0..NS : TimeoutGuard(pre, k, LostBy(o))
    [] e.op = "discard" -> TRUE

\* the set of results the specification allows for this call
Allowed(e, pre, o, obs) ==
  CASE e.op = "send"    -> {SendF(pre, e.k, e.p, obs)}
    [] e.op = "ack"     -> {AckF(pre, e.k, ToSet(e.ranges), e.now, LostIn(o, e.k), hy, obs) : hy \in BOOLEAN}
    [] e.op = "timeout" -> {TimeoutF(pre, k, LostBy(o), e.now, obs) :
                              k \in {k \in 0..NS : TimeoutGuard(pre, k, LostBy(o))}}
    [] e.op = "discard" -> {DiscardF(pre, e.k)}

(* The first four clauses are the statement of C08 evaluated on what the code
   did (ledger, never negative, at most once, two-datagram floor).  The clauses
   named "model:..." compare the code with the rest of the specification --
   exact Reno arithmetic, the loss choice, timer flags, counters -- which the
   statement does not prescribe; the driver reports them as SPEC-DRIFT.  They
   come last because the first failing clause is the one reported. *)
Clauses(e) ==
  LET pre == Abs(e.pre)  post == Abs(e.post)  o == OutOf(e.out)
      ok == StateOk(pre) /\ Guard(e, pre, o)
      A == Allowed(e, pre, o, post.cwnd) IN
  << <<"at-most-once", (o.acked \cup o.lost) \cap pre.reported = {}
                         /\ o.acked \cap o.lost = {}
                         /\ (e.out.ncallbacks = -1 \/
                             e.out.ncallbacks = Cardinality(o.acked) + Cardinality(o.lost))>>,
     <<"untold", Untold(post)>>,
     <<"ledger", Ledger(post) /\ post.bif >= 0>>,
     <<"cwnd-floor", CwndFloor(post)>>,
     <<"model:raised", e.out.ncallbacks # -1>>,
     <<"model:pre-state", StateOk(pre)>>,
     <<"model:loss-choice-or-guard", StateOk(pre) => Guard(e, pre, o)>>,
     <<"model:output", ok => \E x \in A : x.out = o>>,
     <<"model:post-state", ok => \E x \in A : x.st = post>>,
     <<"model:ack-eliciting-count", AckElCount(post) /\ NonNegative(post)>> >>

TInit == l = 1 /\ Init
TNext == Judge(Clauses) /\ UNCHANGED <<vars, now, nextPn>>
TSpec == TInit /\ [][TNext]_<<l, vars, now, nextPn>>
============================================================================
