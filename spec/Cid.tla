-------------------------------- MODULE Cid --------------------------------
(* Connection-ID life cycle - property C18.  (aioquic: _handle_new_connection_id_frame,
   _handle_retire_connection_id_frame, change_connection_id, _consume_peer_cid,
   _retire_peer_cid, _on_retire_connection_id_delivery, _replenish_connection_ids.)

   Peer-issued side of an endpoint: cur (sequence number of the destination CID in use),
   avail (announced and unused), seen (all sequence numbers ever announced), rpt (largest
   retire-prior-to processed), toRetire (RETIRE_CONNECTION_ID to be sent), inFlight (sent,
   fate unknown), retired (acknowledged).  Host side: issued, retiredByPeer, nextSeq. *)
EXTENDS Naturals, Integers, FiniteSets, Sequences

CONSTANTS MaxSeq, Limit           \* sequence numbers 0..MaxSeq, active_connection_id_limit
VARIABLES cur, avail, seen, rpt, toRetire, inFlight, retired, closed,
          issued, retiredByPeer, nextSeq
pvars == <<cur, avail, seen, rpt, toRetire, inFlight, retired, closed>>
hvars == <<issued, retiredByPeer, nextSeq>>
vars == <<pvars, hvars>>

Min(S) == CHOOSE x \in S : \A y \in S : x <= y

(* clauses shared with the trace module *)
UseOk(seq, r) == seq >= r                                   \* "addresses every later packet to an ID at or above it"
StoredOk(n, limit) == n <= limit                            \* "never keeps more peer-issued IDs than it advertised"
IssueOk(active, limit) == active <= limit                   \* "never issues more simultaneously active IDs than the peer allows"

Init == /\ cur = 0 /\ avail = {} /\ seen = {0} /\ rpt = 0 /\ toRetire = {} /\ inFlight = {} /\ retired = {}
        /\ closed = FALSE
        /\ issued = 0 .. (Limit - 1) /\ retiredByPeer = {} /\ nextSeq = Limit

\* NEW_CONNECTION_ID(seq, r): any order, duplicates, any retire-prior-to <= seq
RecvNewCid(seq, r) ==
  /\ ~closed /\ r <= seq
  /\ LET rpt2   == IF r > rpt THEN r ELSE rpt
         \* (an ID announced below the retire-prior-to already processed is retired at once, RFC 9000 5.1.2)
         gone   == {a \in avail : a < rpt2} \cup (IF cur < rpt2 THEN {cur} ELSE {})
                     \cup (IF seq < rpt2 /\ seq \notin seen THEN {seq} ELSE {})
         avail2 == {a \in avail : a >= rpt2} \cup (IF seq >= rpt2 /\ seq \notin seen THEN {seq} ELSE {})
     IN /\ rpt' = rpt2 /\ seen' = seen \cup {seq}
        /\ toRetire' = toRetire \cup gone
        /\ IF cur < rpt2
           THEN IF avail2 = {} THEN closed' = TRUE /\ cur' = cur /\ avail' = avail2       \* nothing left to switch to
                ELSE closed' = (Cardinality(avail2) > Limit) /\ cur' = Min(avail2) /\ avail' = avail2 \ {Min(avail2)}
           ELSE /\ cur' = cur /\ avail' = avail2
                /\ closed' = (1 + Cardinality(avail2) > Limit)                              \* CONNECTION_ID_LIMIT_ERROR
  /\ UNCHANGED <<inFlight, retired, hvars>>
\* change_connection_id()
LocalChange == /\ ~closed /\ avail # {}
               /\ toRetire' = toRetire \cup {cur} /\ cur' = Min(avail) /\ avail' = avail \ {Min(avail)}
               /\ UNCHANGED <<seen, rpt, inFlight, retired, closed, hvars>>
\* a packet leaves: its destination CID is cur; pending retirements ride along
Emit == /\ ~closed /\ toRetire # {}
        /\ inFlight' = inFlight \cup toRetire /\ toRetire' = {}
        /\ UNCHANGED <<cur, avail, seen, rpt, retired, closed, hvars>>
RetireAcked(q) == q \in inFlight /\ inFlight' = inFlight \ {q} /\ retired' = retired \cup {q}
                  /\ UNCHANGED <<cur, avail, seen, rpt, toRetire, closed, hvars>>
RetireLost(q) == q \in inFlight /\ inFlight' = inFlight \ {q} /\ toRetire' = toRetire \cup {q}
                 /\ UNCHANGED <<cur, avail, seen, rpt, retired, closed, hvars>>
\* host side: the peer retires one of our IDs; we replace it
RecvRetire(q) == /\ q \in issued \ retiredByPeer /\ Cardinality(issued \ retiredByPeer) > 1
                 /\ retiredByPeer' = retiredByPeer \cup {q}
                 /\ nextSeq <= MaxSeq /\ issued' = issued \cup {nextSeq} /\ nextSeq' = nextSeq + 1
                 /\ UNCHANGED pvars

Next == \/ \E seq \in 0..MaxSeq, r \in 0..MaxSeq : RecvNewCid(seq, r)
        \/ LocalChange \/ Emit
        \/ \E q \in 0..MaxSeq : RetireAcked(q) \/ RetireLost(q) \/ RecvRetire(q)
Spec == Init /\ [][Next]_vars
FairSpec == Spec /\ WF_vars(Emit) /\ \A q \in 0..MaxSeq : WF_vars(RetireAcked(q))

TypeOk == cur \in 0..MaxSeq /\ avail \subseteq 0..MaxSeq
\* every packet is addressed to an ID at or above the retire-prior-to processed before it
NeverUseRetired == closed \/ UseOk(cur, rpt)      \* cur is the destination of every packet that leaves in this state
Cap == closed \/ StoredOk(1 + Cardinality(avail), Limit)
\* each abandoned ID is announced as retired, again after loss: nothing abandoned is forgotten
Abandoned == {q \in seen : q # cur /\ q \notin avail /\ (q < rpt \/ q < cur)}
AnnounceRetirement == closed \/ \A q \in Abandoned : q \in toRetire \cup inFlight \cup retired \/ q \notin seen
Eventually == closed \/ (\A q \in 0..MaxSeq : (q \in toRetire) ~> (q \in inFlight \cup retired \/ closed))
\* an ID whose retirement is being or has been announced is never the destination again
NoReuse == closed \/ cur \notin (toRetire \cup inFlight \cup retired)
IssueWithinLimit == IssueOk(Cardinality(issued \ retiredByPeer), Limit)
=============================================================================
