----------------------------- MODULE TraceBase -----------------------------
(* Shared plumbing of the trace modules: the recorded lines, the cursor, the
   total verdict.  A trace module defines Clauses(e) -- a sequence of
   <<name, BOOLEAN>> pairs for line e -- and uses Judge(Clauses) as its step.
   A failing line prints <<"TRACE-FAIL", line, clause>> and the cursor moves
   on, so one disagreement never hides the lines after it. *)
EXTENDS Naturals, Sequences, FiniteSets, Json, IOUtils, TLC

Lines == ndJsonDeserialize(IOEnv.TRACE_FILE)     \* ("Trace" is owned by TLCExt)
VARIABLE l

ToSet(seq) == {seq[i] : i \in DOMAIN seq}

FirstFailing(cs) ==
  LET bad == {i \in DOMAIN cs : ~cs[i][2]} IN
  IF bad = {} THEN "" ELSE cs[CHOOSE i \in bad : \A j \in bad : i <= j][1]

Judge(Cl(_)) ==
  \/ /\ l <= Len(Lines)
     /\ LET f == FirstFailing(Cl(Lines[l])) IN
          IF f = "" THEN TRUE ELSE PrintT(<<"TRACE-FAIL", l, f>>)
     /\ l' = l + 1
  \/ /\ l = Len(Lines) + 1
     /\ PrintT(<<"TRACE-END", Len(Lines)>>)
     /\ l' = l + 1
============================================================================
