--------------------------- MODULE TraceTlsAgree ---------------------------
(* Judges what two real QuicConnections did in the netsim (harness/drivers/
   c03.py, harness/c03_mitm.py) against the clauses of C03 with the operators
   of TlsAgree (HasCommon, AuthenticObs / CertOk, SameResult, ChosenIsCommon).

   A run is a sequence of lines:
     init        the configuration pair (fields of TlsAgree's k; an ALPN list
                 <<"-">> stands for "no ALPN configured"), tam = the message kind
                 the man in the middle was told to alter, fair = no datagram was
                 lost, duplicated or reordered by the script
     tamper      ep msg pos mask    a datagram carrying the altered byte of
                                    message msg was handed to endpoint ep
     completed   ep version iversion cipher alpn resumed early
                                    ep's HandshakeCompleted event; version = the
                                    version field of the long-header (Handshake)
                                    packets ep emitted, iversion = its _version
     secrets     ep pairs           ep's key log: <<label, value>> pairs
     terminated  ep code            ep's ConnectionTerminated event
     end         quiescent          end of the run *)
EXTENDS TlsAgree, TraceBase

VARIABLE ts

Al(x) == IF x = <<"-">> THEN <<>> ELSE x
CfgOf(e) == [cs |-> e.cs, ss |-> e.ss, ca |-> Al(e.ca), sa |-> Al(e.sa), cv |-> e.cv, co |-> e.co, sv |-> e.sv,
             cpsk |-> e.cpsk, spsk |-> e.spsk, zrtt |-> e.zrtt, retry |-> e.retry, creq |-> e.creq, cert |-> e.cert]
\* the driver only runs configurations of the model's alphabet
InAlphabet(cf) ==
  /\ cf.cs \in AllSuiteLists /\ cf.ss \in AllSuiteLists /\ cf.ca \in AllAlpnLists /\ cf.sa \in AllAlpnLists
  /\ [list |-> cf.cv, orig |-> cf.co] \in AllVersionsC /\ cf.sv \in AllVersionsS
  /\ [cpsk |-> cf.cpsk, spsk |-> cf.spsk, zrtt |-> cf.zrtt] \in AllPskOpts
  /\ cf.retry \in BOOLEAN /\ cf.creq \in AllCreq /\ cf.cert \in AllCertKinds

Eps == {"c", "s"}
Cfg0 == CHOOSE x \in Configs : TRUE
T0(cf, tk, fair) == [cfg |-> cf, tam |-> tk, fair |-> fair,
                     tampered |-> [p \in Eps |-> FALSE], done |-> [p \in Eps |-> FALSE],
                     res |-> [p \in Eps |-> NoRes], sec |-> [p \in Eps |-> {}]]
ResOf(e) == [version |-> e.version, cipher |-> e.cipher, alpn |-> e.alpn, resumed |-> e.resumed,
             early |-> e.early, secrets |-> <<>>]

StepT(st, e) ==
  CASE e.ev = "init"      -> T0(CfgOf(e), e.tam, e.fair)
    [] e.ev = "tamper"    -> [st EXCEPT !.tampered[e.ep] = TRUE]
    [] e.ev = "completed" -> [st EXCEPT !.done[e.ep] = TRUE, !.res[e.ep] = ResOf(e)]
    [] e.ev = "secrets"   -> [st EXCEPT !.sec[e.ep] = @ \cup {<<e.pairs[i][1], e.pairs[i][2]>> : i \in DOMAIN e.pairs}]
    [] OTHER              -> st

FourSecrets == {"CLIENT_HANDSHAKE_TRAFFIC_SECRET", "SERVER_HANDSHAKE_TRAFFIC_SECRET",
                "CLIENT_TRAFFIC_SECRET_0", "SERVER_TRAFFIC_SECRET_0"}
Four(S) == {p \in S : p[1] \in FourSecrets}
Both(st) == st.done["c"] /\ st.done["s"]

Cl(st, e) ==
  CASE e.ev = "init" ->
         << <<"harness-guard", InAlphabet(CfgOf(e)) /\ e.tam \in AllTamperKinds>> >>
    [] e.ev = "tamper" ->
         \* the man in the middle alters the one message it was told to, on its way to its receiver
         << <<"harness-guard", /\ e.msg = st.tam
                               /\ e.ep = (IF e.msg \in ClientMsgs THEN "s" ELSE "c")
                               /\ e.mask \in 1..255>> >>
    [] e.ev = "completed" ->
         << \* "changing any byte of any handshake message in either direction prevents completion on
            \*  the endpoint that received it"
            <<"altered-message:receiver-completed", ~st.tampered[e.ep]>>,
            \* "when the configurations share no common option, neither endpoint ever reports completion"
            <<"no-common-option:completed", HasCommon(st.cfg)>>,
            \* "A client reports handshake completion only after the server has proved possession of the
            \*  private key of a certificate that validates for the requested name (or of a resumption
            \*  secret the client offered)"
            <<"unauthentic-server:client-completed", e.ep = "c" => AuthenticObs(st.cfg, e.resumed)>>,
            \* outside the statement
            <<"model:completed-twice", ~st.done[e.ep]>>,
            <<"model:resumed-without-ticket", e.resumed => (st.cfg.cpsk /\ st.cfg.spsk)>>,
            <<"model:chosen-option-not-common", HasCommon(st.cfg) => ChosenIsCommon(st.cfg, ResOf(e))>>,
            <<"model:observed-version-differs-from-internal", e.version = e.iversion>>,
            <<"model:early-data-without-resumption", e.early => e.resumed>> >>
    [] e.ev = "end" ->
         << \* "Whenever both endpoints complete, they hold identical traffic secrets and report the same
            \*  QUIC version, cipher suite, ALPN protocol and resumption status"
            <<"agreement:version", Both(st) => st.res["c"].version = st.res["s"].version>>,
            <<"agreement:cipher-suite", Both(st) => st.res["c"].cipher = st.res["s"].cipher>>,
            <<"agreement:alpn", Both(st) => st.res["c"].alpn = st.res["s"].alpn>>,
            <<"agreement:resumption", Both(st) => st.res["c"].resumed = st.res["s"].resumed>>,
            <<"agreement:all", Both(st) => SameResult(st.res["c"], st.res["s"])>>,
            <<"agreement:traffic-secrets",
                Both(st) => /\ Four(st.sec["c"]) = Four(st.sec["s"])
                            /\ {p[1] : p \in Four(st.sec["c"])} = FourSecrets
                            /\ Cardinality(Four(st.sec["c"])) = 4>>,
            \* outside the statement: the run is not vacuous / the rest of the model
            <<"model:server-completed-without-client", st.done["s"] => st.done["c"]>>,
            <<"model:no-completion-with-common-options-and-authentic-server",
                (st.fair /\ e.quiescent /\ HasCommon(st.cfg) /\ CertOk(st.cfg.cert)
                   /\ ~st.tampered["c"] /\ ~st.tampered["s"]) => Both(st)>>,
            <<"model:resumption-not-used", (Both(st) /\ st.fair /\ st.cfg.cpsk /\ st.cfg.spsk) => st.res["c"].resumed>> >>
    [] OTHER -> << >>

TInit == l = 1 /\ ts = T0(Cfg0, "none", TRUE) /\ Init
TNext == /\ \/ /\ l <= Len(Lines)
               /\ LET f == FirstFailing(Cl(ts, Lines[l])) IN
                    IF f = "" THEN TRUE ELSE PrintT(<<"TRACE-FAIL", l, f>>)
               /\ ts' = StepT(ts, Lines[l])
               /\ l' = l + 1
            \/ /\ l = Len(Lines) + 1
               /\ PrintT(<<"TRACE-END", Len(Lines)>>)
               /\ l' = l + 1 /\ UNCHANGED ts
         /\ UNCHANGED vars
TSpec == TInit /\ [][TNext]_<<l, ts, vars>>
============================================================================
