--------------------------- MODULE TraceEmission ---------------------------
(* Judges the wire-level emission trace of real connections against Emission
   (C13).  Lines:
     init mds_c mds_s
     rx   ep addr len                        a datagram was handed to ep from address addr
     auth ep addr kind ids                   ... and contained a packet the endpoint could authenticate:
                                             kind = "handshake" | "onertt" | ...; ids = PATH_RESPONSE ids in it;
                                             kind = "token": an Initial carrying the Retry token the server application
                                             had issued to addr (Retry runs; the Retry packets are dg lines of ep "s")
     dg   ep to len hasInitial initialAckEl chal   a datagram left ep for address `to`
                                             (chal = PATH_CHALLENGE ids it carries) *)
EXTENDS Emission, TraceBase

VARIABLE s
PadBytes == 1200
Z == [rcvd |-> <<>>, sent |-> <<>>, val |-> {}, chal |-> <<>>]
S0(e) == [c |-> Z, s |-> Z, mds |-> [c |-> e.mds_c, s |-> e.mds_s]]
At(f, k) == IF k \in DOMAIN f THEN f[k] ELSE 0
Put(f, k, v) == [x \in (DOMAIN f) \cup {k} |-> IF x = k THEN v ELSE f[x]]

StepE(x, e) ==
  CASE e.ev = "rx"   -> [x EXCEPT !.rcvd = Put(@, e.addr, At(@, e.addr) + e.len)]
    [] e.ev = "auth" ->
         LET byResp == {a \in DOMAIN x.chal : x.chal[a] \cap ToSet(e.ids) # {}} IN
         [x EXCEPT !.val = @ \cup byResp \cup (IF e.kind \in {"handshake", "token"} THEN {e.addr} ELSE {})]
    [] e.ev = "dg"   -> [x EXCEPT !.sent = Put(@, e.to, At(@, e.to) + e.len),
                                  !.chal = Put(@, e.to, (IF e.to \in DOMAIN x.chal THEN x.chal[e.to] ELSE {}) \cup ToSet(e.chal))]
    [] OTHER -> x
StepS(st, e) == IF e.ev = "init" THEN S0(e) ELSE [st EXCEPT ![e.ep] = StepE(st[e.ep], e)]

Cl(st, e) ==
  IF e.ev # "dg" THEN << >> ELSE
  LET x == st[e.ep] IN
  << <<"datagram-within-max-datagram-size", WithinSize(e.len, st.mds[e.ep])>>,
     <<"datagram-with-initial-padded-to-1200", PaddedOk(e.ep = "c", e.hasInitial, e.initialAckEl, e.len, PadBytes)>>,
     <<"anti-amplification-limit",
        e.ep = "s" => AmplificationOk(e.to \in x.val, At(x.sent, e.to), e.len, At(x.rcvd, e.to))>> >>

TInit == l = 1 /\ s = S0([mds_c |-> 0, mds_s |-> 0]) /\ Init
TNext == /\ \/ /\ l <= Len(Lines)
               /\ LET f == FirstFailing(Cl(s, Lines[l])) IN
                    IF f = "" THEN TRUE ELSE PrintT(<<"TRACE-FAIL", l, f>>)
               /\ s' = StepS(s, Lines[l])
               /\ l' = l + 1
            \/ /\ l = Len(Lines) + 1
               /\ PrintT(<<"TRACE-END", Len(Lines)>>)
               /\ l' = l + 1 /\ UNCHANGED s
         /\ UNCHANGED vars
TSpec == TInit /\ [][TNext]_<<l, s, vars>>
============================================================================
