--------------------------- MODULE TraceLifecycle --------------------------
(* Judges per-endpoint life-cycle traces of real QuicConnections (netsim)
   against the clauses of Lifecycle (C09).  Lines:
     init   idle_c idle_s        the idle timeouts the two endpoints were configured with (and advertise), microseconds
     start  ep t                 connect() / first datagram handed to a server
     recv   ep t                 a datagram was handed to ep (it may have restarted the idle period)
     peerclose ep t              a packet carrying the peer's CONNECTION_CLOSE reached ep, which holds the keys to open it
     apiclose ep                 the application called close()
     tx     ep t ndg ftypes unopened st0 st pto0 pto1   return of datagrams_to_send (st0/st: state name before/after)
     gt     ep t value idle      get_timer() after a call (value -1 = None; idle = internal _close_at, -1 = None)
     timer  ep t due             handle_timer fired (due = the deadline get_timer() had named)
     event  ep cls               a QuicEvent was returned by next_event()
     end                         end of the run (after the driver fired timers until closing endpoints terminated) *)
EXTENDS Lifecycle, TraceBase

VARIABLE s
END == {"CLOSING", "DRAINING", "TERMINATED"}
E0 == [started |-> FALSE, closing |-> FALSE, closeStart |-> 0, pto |-> 0, lastPto |-> 0, terms |-> 0,
       apiClose |-> FALSE, mustTerm |-> FALSE, idle |-> -1, sentAfterClose |-> 0,
       peerClose |-> FALSE, lastAct |-> 0, sentSince |-> FALSE, tpKnown |-> FALSE, maxPto |-> 0]
S0 == [c |-> E0, s |-> E0, idle |-> [c |-> 0, s |-> 0]]
MaxOf(a, b) == IF a > b THEN a ELSE b
MinOf(a, b) == IF a < b THEN a ELSE b
Peer(p) == IF p = "c" THEN "s" ELSE "c"
(* The idle timeout in force at endpoint p (RFC 9000 10.1): its own value until it has the peer's transport parameters
   (reported together with ProtocolNegotiated), the minimum of both afterwards, and never less than three probe timeouts
   (the largest base probe timeout observed so far is used: the most lenient reading). *)
NegIdle(st, p) == MaxOf(IF st[p].tpKnown THEN MinOf(st.idle[p], st.idle[Peer(p)]) ELSE st.idle[p], 3 * st[p].maxPto)

StepE(x, e) ==
  CASE e.ev = "start"    -> [x EXCEPT !.started = TRUE, !.lastAct = e.t]
    [] e.ev = "recv"     -> [x EXCEPT !.lastAct = e.t, !.sentSince = FALSE]
    [] e.ev = "peerclose" -> [x EXCEPT !.peerClose = ~x.closing /\ x.terms = 0]
    [] e.ev = "apiclose" -> [x EXCEPT !.apiClose = ~x.closing]
    [] e.ev = "tx"       ->
         LET begins == ~x.closing /\ (e.st0 \in END \/ e.st \in END \/ x.peerClose) IN
         [x EXCEPT !.peerClose = FALSE, !.maxPto = MaxOf(x.maxPto, MaxOf(e.pto0, e.pto1)),
                   \* sending after having received may restart the idle period once (RFC 9000 10.1)
                   !.lastAct = IF e.ndg > 0 /\ ~x.sentSince THEN e.t ELSE x.lastAct,
                   !.sentSince = x.sentSince \/ e.ndg > 0,
                   !.closing = x.closing \/ begins,
                   !.closeStart = IF begins THEN e.t ELSE x.closeStart,
                   !.pto = IF begins THEN MaxOf(e.pto0, x.lastPto) ELSE x.pto,
                   !.lastPto = e.pto1, !.apiClose = FALSE, !.mustTerm = FALSE,
                   !.sentAfterClose = IF x.closing THEN x.sentAfterClose + e.ndg ELSE 0]
    [] e.ev = "gt"       -> [x EXCEPT !.idle = e.idle]
    [] e.ev = "timer"    -> [x EXCEPT !.mustTerm = x.idle # -1 /\ e.t >= x.idle]
    [] e.ev = "event"    -> IF e.cls = "ConnectionTerminated" THEN [x EXCEPT !.terms = @ + 1, !.mustTerm = FALSE]
                            ELSE IF e.cls = "ProtocolNegotiated" THEN [x EXCEPT !.tpKnown = TRUE] ELSE x
    [] OTHER             -> x
StepS(st, e) == IF e.ev = "init" THEN [S0 EXCEPT !.idle = [c |-> e.idle_c, s |-> e.idle_s]]
                ELSE IF e.ev = "end" THEN st
                ELSE [st EXCEPT ![e.ep] = StepE(st[e.ep], e)]

Cl(st, e) ==
  IF e.ev \in {"init"} THEN << >> ELSE
  IF e.ev = "end" THEN
     << <<"closing-always-terminates", \A p \in {"c", "s"} : st[p].closing => st[p].terms = 1>> >>
  ELSE
  LET x == st[e.ep] IN
  CASE e.ev = "gt" ->
         << <<"live-connection-always-has-a-timer", (x.started /\ x.terms = 0) => e.value # -1>>,
            <<"terminates-within-three-pto-of-starting-to-close",
                (x.closing /\ x.terms = 0 /\ e.value # -1) => e.value <= x.closeStart + 3 * x.pto + 3>>,
            <<"timer-never-beyond-the-negotiated-idle-deadline",
                (x.started /\ x.terms = 0 /\ ~x.closing /\ e.value # -1) => e.value <= x.lastAct + NegIdle(st, e.ep) + 3>> >>
    [] e.ev = "tx" ->
         << <<"close-begins-when-transmitting-after-close", x.apiClose => e.st \in END>>,
            <<"only-closing-packets-after-close", (x.closing \/ x.peerClose \/ e.st0 \in END \/ e.st \in END) =>
                   (e.unopened = 0 /\ ToSet(e.ftypes) \subseteq {"connection_close", "padding"})>>,
            <<"termination-reported-by-the-timer-at-the-deadline", ~x.mustTerm>>,
            <<"model:nothing-sent-while-draining-or-after-the-closing-flight", (e.st0 \in END) => e.ndg = 0>> >>
    [] e.ev = "event" ->
         << <<"terminates-exactly-once", e.cls = "ConnectionTerminated" => x.terms = 0>>,
            <<"no-events-after-termination", x.terms = 0>> >>
    [] OTHER -> << >>

TInit == l = 1 /\ s = S0 /\ Init
TNext == /\ \/ /\ l <= Len(Lines)
               /\ LET f == FirstFailing(Cl(s, Lines[l])) IN
                    IF f = "" THEN TRUE ELSE PrintT(<<"TRACE-FAIL", l, f>>)
               /\ s' = StepS(s, Lines[l])
               /\ l' = l + 1
            \/ /\ l = Len(Lines) + 1
               /\ PrintT(<<"TRACE-END", Len(Lines)>>)
               /\ l' = l + 1 /\ UNCHANGED s
         /\ UNCHANGED vars
TSpec == TInit /\ [][TNext]_<<l, s, vars>>
============================================================================
