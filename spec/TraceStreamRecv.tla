-------------------------- MODULE TraceStreamRecv --------------------------
(* Validates edges (pre, call, output, post) recorded from the real
   QuicStreamReceiver against the operators of StreamRecv.  Every line is
   judged on its own; a failing line is reported with the name of the first
   failing clause and validation continues with the next line. *)
EXTENDS StreamRecv, TraceBase

Abs(j) == [got |-> ToSet(j.got), delivered |-> j.delivered, final |-> j.final,
           highest |-> j.highest, finished |-> j.finished, endSig |-> j.endSig,
           resetAcc |-> j.resetAcc, stopPending |-> j.stopPending]

Expected(e, pre) ==
  CASE e.op = "frame"    -> HandleFrameF(pre, e.o, e.n, e.fin)
    [] e.op = "reset"    -> HandleResetF(pre, e.fs)
    [] e.op = "stop"     -> StopF(pre)
    [] e.op = "stopframe"-> GetStopFrameF(pre)
    [] e.op = "stopdeliv"-> StopDeliveryF(pre, e.acked)

\* until a reset is accepted the output must be equal, end marker included;
\* afterwards only the delivered bytes are judged
Bytes(o) == IF o.k = "Data" THEN o.bytes ELSE <<>>
OutEq(exp, obs, pre) ==
  IF pre.resetAcc /\ exp.k \in {"Data", "None"} /\ obs.k \in {"Data", "None"}
  THEN Bytes(exp) = Bytes(obs)
  ELSE exp = obs

\* bytes held for reassembly are the bytes of the map at their offsets
HeldOk(j, s) == /\ {p[1] : p \in ToSet(j.held)} = {o \in s.got : o >= s.delivered}
                /\ \A p \in ToSet(j.held) : p[2] = Byte(p[1])

Clauses(e) ==
  LET pre == Abs(e.pre)  post == Abs(e.post)  x == Expected(e, pre) IN
  << <<"pre-state-wellformed", StateOk(pre)>>,
     <<"output", OutEq(x.out, e.out, pre)>>,
     <<"post-state", x.st = post>>,
     <<"post-state-wellformed", StateOk(post)>>,
     <<"held-bytes", HeldOk(e.post, post)>> >>

TInit == l = 1 /\ Init
TNext == /\ Judge(Clauses)
         /\ UNCHANGED vars
TSpec == TInit /\ [][TNext]_<<l, vars>>
============================================================================
