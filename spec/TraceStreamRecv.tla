-------------------------- MODULE TraceStreamRecv --------------------------
(* Validates edges (pre, call, output, post) recorded from the real
   QuicStreamReceiver against the operators of StreamRecv.  Every line is
   judged on its own; a failing line is reported with the name of the first
   failing clause and validation continues with the next line. *)
EXTENDS StreamRecv, TraceBase

Abs(j) == [got |-> ToSet(j.got), delivered |-> j.delivered, final |-> j.final,
           highest |-> j.highest, finished |-> j.finished, endSig |-> j.endSig,
           resetAcc |-> j.resetAcc, stopPending |-> j.stopPending,
           stopCode |-> j.stopCode, stopInFlight |-> j.stopInFlight]

\* the driver may only make calls the environment of a receiver can make
Guard(e, pre) ==
  CASE e.op = "stop"      -> e.code \in Codes
    [] e.op = "stopframe" -> GetStopFrameOk(pre)
    [] e.op = "stopdeliv" -> StopDeliveryOk(pre)
    [] OTHER              -> TRUE

Expected(e, pre) ==
  CASE e.op = "frame"    -> HandleFrameF(pre, e.o, e.n, e.fin)
    [] e.op = "reset"    -> HandleResetF(pre, e.fs)
    [] e.op = "stop"     -> StopF(pre, e.code)
    [] e.op = "stopframe"-> GetStopFrameF(pre)
    [] e.op = "stopdeliv"-> StopDeliveryF(pre, e.acked)

\* until a reset is accepted the output must be equal, end marker included;
\* afterwards only the delivered bytes are judged
Bytes(o) == IF o.k = "Data" THEN o.bytes ELSE <<>>
OutEq(exp, obs, pre) ==
  IF pre.resetAcc /\ exp.k \in {"Data", "None"} /\ obs.k \in {"Data", "None"}
  THEN Bytes(exp) = Bytes(obs)
  ELSE exp = obs

\* bytes held for reassembly are the bytes of the map at their offsets
HeldOk(j, s) == /\ {p[1] : p \in ToSet(j.held)} = {o \in s.got : o >= s.delivered}
                /\ \A p \in ToSet(j.held) : p[2] = Byte(p[1])

(* The statement of C10 speaks about frames and resets; the STOP_SENDING
   bookkeeping is additional behaviour covered by the specification.  The two
   are judged by separate clauses so that the driver can tell a violation of
   the property from a drift of the code away from the rest of the model. *)
DataPart(s) == [got |-> s.got, delivered |-> s.delivered, final |-> s.final,
                highest |-> s.highest, finished |-> s.finished,
                endSig |-> s.endSig, resetAcc |-> s.resetAcc]
StopPart(s) == [stopPending |-> s.stopPending, stopCode |-> s.stopCode,
                stopInFlight |-> s.stopInFlight]

Clauses(e) ==
  LET pre == Abs(e.pre)  post == Abs(e.post) IN
  IF ~Guard(e, pre) THEN << <<"harness-guard", FALSE>> >> ELSE
  LET x == Expected(e, pre) IN
  << <<"pre-state-wellformed", StateOk(pre)>>,
     <<"output", OutEq(x.out, e.out, pre)>>,
     <<"post-state", DataPart(x.st) = DataPart(post)>>,
     <<"post-state-wellformed", StateOk(post)>>,
     <<"held-bytes", HeldOk(e.post, post)>>,
     \* last: the first failing clause is the one reported, and this one is not
     \* part of the property
     <<"stop-bookkeeping", StopPart(x.st) = StopPart(post) /\ StopOk(post)>> >>

TInit == l = 1 /\ Init
TNext == /\ Judge(Clauses)
         /\ UNCHANGED vars
TSpec == TInit /\ [][TNext]_<<l, vars>>
============================================================================
