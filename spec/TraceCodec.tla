----------------------------- MODULE TraceCodec -----------------------------
(* C17 binding.  Every line is one observation of aioquic's codecs, judged with
   the operators of Codec (the independent codec):

   op = "enc"   a value was given to an aioquic encoder; the line carries the
                value, what the encoder did (bytes / exception) and what
                aioquic's decoder made of those bytes.
   op = "dec"   a byte string (random, or a mutated valid encoding) was given to
                an aioquic decoder; the line carries the bytes, the outcome
                (projected value and bytes consumed / exception classes), and
                aioquic's own re-encoding of the value where it has an encoder.

   Fields (uniform): op, codec, arg (codec specific), val, dom (0: the value
   lies outside the value domain, e.g. a negative packet number; then val is
   <<>>), b, out ("ok"/"raise"), exc (class names along the MRO), used, dec,
   dout, re, reout ("ok"/"raise"/"na").

   The first clauses are the statement of C17; clauses named "model:..." are
   where Codec says more than the statement (semantic rules, strictness on
   input the statement leaves open) and are reported as drift; the
   harness-guard clause checks that the driver kept to calls the environment
   of the decoder can make (a handshake message is only ever handed to its
   pull_* function complete and with its own type byte). *)
EXTENDS Codec, TraceBase

HeaderCodecs == {"header", "builder_long", "builder_short", "retry", "vn"}
Documented(cd) ==
  IF cd \in IntCodecs \/ cd = "ack" THEN {"BufferReadError"}
  ELSE IF cd = "tp" \/ cd \in HeaderCodecs THEN {"ValueError"}
  ELSE {"BufferReadError", "Alert"}
IsDocumented(e) == \E k \in 1..Len(e.exc) : e.exc[k] \in Documented(e.codec)
ExcName(e) == IF Len(e.exc) = 0 THEN "" ELSE e.exc[1]

\* the independent decoder on the bytes of line e
DecB(cd, a, b) ==
  CASE cd \in IntCodecs -> IntDec(cd, b)
    [] cd = "ack" -> AckDec(b)
    [] cd = "tp" -> TPDec(b)
    [] cd \in HeaderCodecs -> HeaderDec(b, a.hcl)
    [] cd \in TlsCodecs -> TlsDec(cd, b)
\* bytes the decoder has consumed when it returns
UsedOf(cd, b, r) == IF cd = "tp" \/ cd \in TlsCodecs THEN Len(b) ELSE r.p - 1

\* the independent encoder on the value of line e: [ok, b]
Enc(bs) == [ok |-> TRUE, b |-> bs]
NoEnc == [ok |-> FALSE, b |-> <<>>]
EncV(cd, a, v) ==
  CASE cd \in IntCodecs -> IF IntEncodable(cd, v) THEN Enc(IntEnc(cd, v)) ELSE NoEnc
    [] cd = "ack" -> IF AckWellFormed(v.ranges) /\ VarintWidth(v.ranges[Len(v.ranges)][2]) # 0
                          /\ VarintWidth(v.delay) # 0
                     THEN Enc(AckEnc(v)) ELSE NoEnc
    [] cd = "tp" -> Enc(TPEnc(v))
    [] cd \in TlsCodecs -> Enc(TlsEnc(cd, v))
    [] cd = "builder_long" ->
         Enc(LongHeaderEnc([ver |-> v.ver, type |-> v.type, low4 |-> a.low4, dcid |-> v.dcid,
                            scid |-> v.scid, token |-> v.token, lenw |-> a.lenw,
                            length |-> a.length, pn |-> a.pn]))
    [] cd = "builder_short" -> Enc(ShortHeaderEnc(a.spin, a.kp, v.dcid, a.pn))
    [] cd = "retry" -> Enc(RetryEnc(v.ver, a.low4, v.dcid, v.scid, v.token, a.tag))
    [] cd = "vn" -> Enc(VNEnc(a.first, v.dcid, v.scid, v.versions))
\* what the encoder is responsible for in the recorded bytes
BytesMatch(e, bs) ==
  CASE e.codec \in {"builder_long", "builder_short"} -> SubSeq(e.b, 1, e.arg.hlen) = bs
    [] e.codec = "vn" -> e.b = bs /\ e.b[1] >= 128             \* header form bit; the other 7 bits are unused
    [] OTHER -> e.b = bs
\* the value a decoder must return for the encoder's own bytes
Expect(e) ==
  IF e.codec \in HeaderCodecs
  THEN [e.val EXCEPT !.plen = Len(e.b),
                     !.tag = IF e.codec = "retry" THEN e.arg.tag ELSE @]
  ELSE e.val

EncClauses(e) ==
  LET cd == e.codec
      enc == EncV(cd, e.arg, e.val)
      good == enc.ok /\ e.out = "ok"
      spec == IF good THEN DecB(cd, e.arg, e.b) ELSE Fail("", "") IN
  << <<"round-trip:out-of-range-silently-encoded", ~enc.ok => e.out # "ok">>,
     <<"round-trip:encoder-raised:" \o ExcName(e), enc.ok => e.out = "ok">>,
     <<"bytes-differ-from-independent-encoder", good => BytesMatch(e, enc.b)>>,
     <<"round-trip:decoder-raised", good => e.dout = "ok">>,
     <<"round-trip:value", good /\ e.dout = "ok" => e.dec = Expect(e)>>,
     <<"model:independent-decode", good /\ BytesMatch(e, enc.b) =>
          spec.ok /\ spec.v = Expect(e) /\ e.used = UsedOf(cd, e.b, spec)>> >>

HasReencoder(cd) == cd \in IntCodecs \/ cd \in {"ack", "tp"} \/ cd \in TlsCodecs
Guard(e) ==
  e.codec \in TlsCodecs =>
    /\ Len(e.b) >= 4
    /\ e.b[1] = MsgType(e.codec)
    /\ e.b[2] * 65536 + e.b[3] * 256 + e.b[4] = Len(e.b) - 4
DecClauses(e) ==
  LET cd == e.codec
      spec == IF Guard(e) THEN DecB(cd, e.arg, e.b) ELSE Fail("", "")
      implOk == e.out = "ok"
      agree == implOk /\ spec.ok /\ e.dom = 1 /\ e.val = spec.v
      re == IF agree /\ HasReencoder(cd) THEN EncV(cd, e.arg, e.val) ELSE NoEnc IN
  << <<"harness-guard", Guard(e)>>,
     <<"undocumented-exception:" \o ExcName(e), e.out = "raise" => IsDocumented(e)>>,
     <<"declared-length:" \o spec.at, ~(implOk /\ ~spec.ok /\ spec.why = "length")>>,
     <<"decode-value:accepts-truncated", ~(implOk /\ ~spec.ok /\ spec.why = "short")>>,
     <<"decode-value", implOk /\ spec.ok /\ e.dom = 1 => e.val = spec.v>>,
     <<"decode-consumed", agree => e.used = UsedOf(cd, e.b, spec)>>,
     <<"reencode:not-equivalent", agree /\ HasReencoder(cd) =>
          /\ re.ok
          /\ LET r2 == DecB(cd, e.arg, re.b) IN r2.ok /\ r2.v = e.val>>,
     <<"reencode:raised", agree /\ HasReencoder(cd) => e.reout # "raise">>,
     <<"reencode:bytes-differ-from-independent-encoder",
          agree /\ HasReencoder(cd) /\ e.reout = "ok" => re.ok /\ e.re = re.b>>,
     <<"model:lenient-accept:" \o spec.at, ~(implOk /\ ~spec.ok /\ spec.why = "value")>>,
     <<"model:out-of-domain-value", implOk => e.dom = 1>>,
     <<"model:strict-reject", ~(e.out = "raise" /\ spec.ok)>> >>

Clauses(e) == IF e.op = "enc" THEN EncClauses(e) ELSE DecClauses(e)

TInit == l = 1 /\ c = [kind |-> "trace"]
TNext == Judge(Clauses) /\ UNCHANGED c
TSpec == TInit /\ [][TNext]_<<l, c>>
=============================================================================
