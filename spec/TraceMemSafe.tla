--------------------------- MODULE TraceMemSafe ---------------------------
(* Judges every recorded call of the four _crypto.c entry points -- direct
   calls at the thresholds TLC printed (R), and calls the library itself made
   during handshakes / transfers / hostile datagrams (V) -- with the operators
   of MemSafe.  A line:
     [ep, x, y, pn, src, out, exc, san, sig, usable]
   out = "accepted" | "rejected" (Python exception exc) | "died" (the process
   ended inside the call: sanitizer report san and/or signal sig);
   src = "direct" (the harness made the call) | "session" | "hostile".      *)
EXTENDS MemSafe, TraceBase

CallOf(e) == Call(e.ep, e.x, e.y, e.pn)

(* The statement's clauses come first.  "bound:<range>": the code served (or
   died in) a call whose range <range> -- the first in code order -- leaves its
   object according to the access model.  "sanitizer" / "crash": the
   instrumented build reported an access the model considers in bounds, or the
   process died without a report.  "unusable": after a rejection the same
   object no longer gives the known answers.  The "model:" clauses compare
   with the rest of the specification and are reported as drift only. *)
Clauses(e) ==
  LET d == CallOf(e) IN
  << <<"harness-guard", e.src = "direct" => Reach(d)>>,
     <<"bound:" \o FirstBroken(d), ~(e.out \in {"accepted", "died"} /\ ~InBounds(d))>>,
     <<"sanitizer", e.san = "">>,
     <<"crash", e.out # "died">>,
     <<"unusable", e.usable # 0>>,
     <<"model:guard", e.out = "died" \/ e.out \in Outcomes(d, {}) \cup Outcomes(d, AllBounded)>>,
     <<"model:caller-layer", Reach(d)>> >>

TInit == l = 1 /\ c = Call("AEAD_decrypt", 0, -1, 0)
TNext == Judge(Clauses) /\ UNCHANGED c
TSpec == TInit /\ [][TNext]_<<l, c>>
============================================================================
