------------------------------- MODULE Codec -------------------------------
(* C17.  An independent codec for the wire formats of aioquic, written from
   the RFCs and from nothing else:

     RFC 9000  16 (variable-length integers), 17.2/17.3 (long and short
               headers), 17.2.1 (Version Negotiation), 17.2.5 (Retry),
               18 (transport parameters), 19.3 (ACK frames)
     RFC 9369  3.2 (long header packet type bits of QUIC version 2)
     RFC 9368  3 (version_information), RFC 9221 3 (max_datagram_frame_size)
     RFC 8446  3.4 (vectors), 4 (handshake messages), 4.2 (extensions)

   Everything is a pure operator over byte strings (Seq(0..255)).  TLC's
   integers are 32 bit, so an integer that may exceed 2^31 is carried as a
   "Big": its minimal big-endian sequence of base-256 limbs (<<>> is 0).  The
   decoders walk a buffer b with a 1-based cursor p and a limit lim, the index
   of the last byte of the innermost enclosing field; they are length-strict:
   a field may not extend past the declared length of a field that encloses
   it, and a length-prefixed field must be consumed exactly.

   A decoder returns Ok(v, p) (value and next cursor) or Fail(why, at):
     why = "short"   the buffer ends before the field does
     why = "length"  the declared length of an enclosing field is violated
                     (overrun or bytes left over); `at` names that field
     why = "value"   a well-framed field carries a value the RFC forbids
   The statement of C17 speaks about the first two; "value" errors are
   semantic rules (the statement leaves leniency there open).

   The second half of the module is the exhaustive part (M): TLC enumerates
   the small domains (all integers around every encoding boundary, all range
   sets over 0..7 at several offsets, all header shapes for both versions, all
   subsets of a pool of transport parameters), checks the codec against
   itself (decode after encode, non-minimal varints, the byte-limb codec against
   an arithmetic one) and prints each case for the harness to replay into
   aioquic (R). *)
EXTENDS Integers, Sequences, FiniteSets, TLC

Byte == 0..255
MinOf(S) == CHOOSE x \in S : \A y \in S : x <= y
MaxOf(S) == CHOOSE x \in S : \A y \in S : x >= y
Zeros(n) == [i \in 1..n |-> 0]
RECURSIVE CatFrom(_, _)
CatFrom(ss, i) == IF i > Len(ss) THEN <<>> ELSE ss[i] \o CatFrom(ss, i + 1)
Cat(ss) == CatFrom(ss, 1)
Slice(b, p, n) == SubSeq(b, p, p + n - 1)

(* ------------------------------------------------------------------------ *)
(* Big naturals: minimal big-endian base-256 limbs                           *)
(* ------------------------------------------------------------------------ *)
Strip(s) == LET nz == {i \in 1..Len(s) : s[i] # 0} IN
            IF nz = {} THEN <<>> ELSE SubSeq(s, MinOf(nz), Len(s))
PadTo(m, w) == Zeros(w - Len(m)) \o m                       \* needs Len(m) <= w
BigLt(a, b) == IF Len(a) # Len(b) THEN Len(a) < Len(b)
               ELSE LET d == {i \in 1..Len(a) : a[i] # b[i]} IN
                    d # {} /\ a[MinOf(d)] < b[MinOf(d)]
BigLe(a, b) == a = b \/ BigLt(a, b)
BigSub(a, b) ==                                             \* needs b <= a
  LET n == Len(a)
      B == PadTo(b, n)
      bor[i \in 1..n+1] == IF i = n + 1 THEN 0
                           ELSE IF a[i] < B[i] + bor[i+1] THEN 1 ELSE 0
  IN Strip([i \in 1..n |-> ((256 + a[i]) - (B[i] + bor[i+1])) % 256])
BigAdd(a, b) ==
  LET n == (IF Len(a) >= Len(b) THEN Len(a) ELSE Len(b)) + 1
      A == PadTo(a, n)
      B == PadTo(b, n)
      car[i \in 1..n+1] == IF i = n + 1 THEN 0
                           ELSE IF A[i] + B[i] + car[i+1] > 255 THEN 1 ELSE 0
  IN Strip([i \in 1..n |-> (A[i] + B[i] + car[i+1]) % 256])
RECURSIVE BigOfNat(_)
BigOfNat(x) == IF x = 0 THEN <<>> ELSE BigOfNat(x \div 256) \o <<x % 256>>
RECURSIVE NatFrom(_, _, _)
NatFrom(s, i, acc) == IF i > Len(s) THEN acc ELSE NatFrom(s, i + 1, acc * 256 + s[i])
BytesNat(s) == NatFrom(s, 1, 0)                              \* needs Len(s) <= 3
Pow256(k) == CASE k = 0 -> 1 [] k = 1 -> 256 [] k = 2 -> 65536 [] k = 3 -> 16777216
NatBytes(x, n) == [i \in 1..n |-> (x \div Pow256(n - i)) % 256]   \* n <= 3, x < 256^n
Two == <<2>>

(* ------------------------------------------------------------------------ *)
(* Decoder results                                                           *)
(* ------------------------------------------------------------------------ *)
Ok(v, p) == [ok |-> TRUE, why |-> "", at |-> "", v |-> v, p |-> p]
Fail(why, at) == [ok |-> FALSE, why |-> why, at |-> at, v |-> <<>>, p |-> 0]
\* n more bytes at p would cross lim
Over(p, n, lim) == p + n - 1 > lim
\* ... past the end of the buffer ("short") or only past an enclosing declared length
OverWhy(b, p, n) == IF p + n - 1 > Len(b) THEN Fail("short", "") ELSE Fail("length", "")

(* ------------------------------------------------------------------------ *)
(* RFC 9000 section 16: variable-length integers; fixed-width integers        *)
(* ------------------------------------------------------------------------ *)
VarintWidth(m) ==                       \* minimal width; 0 = not representable
  IF Len(m) = 0 \/ (Len(m) = 1 /\ m[1] < 64) THEN 1
  ELSE IF Len(m) = 1 \/ (Len(m) = 2 /\ m[1] < 64) THEN 2
  ELSE IF Len(m) <= 3 \/ (Len(m) = 4 /\ m[1] < 64) THEN 4
  ELSE IF Len(m) <= 7 \/ (Len(m) = 8 /\ m[1] < 64) THEN 8
  ELSE 0
VPrefix(w) == CASE w = 1 -> 0 [] w = 2 -> 64 [] w = 4 -> 128 [] w = 8 -> 192
VarintEncW(m, w) == LET q == PadTo(m, w) IN [q EXCEPT ![1] = @ + VPrefix(w)]
VarintEnc(m) == VarintEncW(m, VarintWidth(m))
VWidthOf(twobits) == CASE twobits = 0 -> 1 [] twobits = 1 -> 2 [] twobits = 2 -> 4 [] twobits = 3 -> 8
VarintAt(b, p, lim) ==
  IF Over(p, 1, lim) THEN OverWhy(b, p, 1) ELSE
  LET w == VWidthOf(b[p] \div 64) IN
  IF Over(p, w, lim) THEN OverWhy(b, p, w) ELSE
  Ok(Strip([i \in 1..w |-> IF i = 1 THEN b[p] % 64 ELSE b[p + i - 1]]), p + w)
UintAt(b, p, lim, n) ==
  IF Over(p, n, lim) THEN OverWhy(b, p, n) ELSE Ok(Strip(Slice(b, p, n)), p + n)

\* the same encoder by arithmetic, for naturals below 2^30 (cross-check of the limb codec)
VarintEncNat(x) ==
  IF x < 64 THEN <<x>>
  ELSE IF x < 16384 THEN <<64 + x \div 256, x % 256>>
  ELSE <<128 + x \div 16777216, (x \div 65536) % 256, (x \div 256) % 256, x % 256>>

IntCodecs == {"uint_var", "uint8", "uint16", "uint32", "uint64"}
IntWidth(c) == CASE c = "uint8" -> 1 [] c = "uint16" -> 2 [] c = "uint32" -> 4 [] c = "uint64" -> 8
\* an integer x = [neg, m]; encodable = inside the range of the type
IntEncodable(c, x) == x.neg = 0 /\ (IF c = "uint_var" THEN VarintWidth(x.m) # 0 ELSE Len(x.m) <= IntWidth(c))
IntEnc(c, x) == IF c = "uint_var" THEN VarintEnc(x.m) ELSE PadTo(x.m, IntWidth(c))
IntDecAt(c, b, p, lim) == IF c = "uint_var" THEN VarintAt(b, p, lim) ELSE UintAt(b, p, lim, IntWidth(c))
IntDec(c, b) == LET r == IntDecAt(c, b, 1, Len(b)) IN
                IF r.ok THEN [r EXCEPT !.v = [neg |-> 0, m |-> r.v]] ELSE r

(* ------------------------------------------------------------------------ *)
(* RFC 9000 section 19.3: ACK frame body (after the frame type)               *)
(*   value: [ranges |-> ascending <<lo, hi>> pairs of Bigs (inclusive,         *)
(*           pairwise separated by at least one number), delay |-> Big]       *)
(* ------------------------------------------------------------------------ *)
AckWellFormed(r) == /\ Len(r) >= 1
                    /\ \A i \in 1..Len(r) : BigLe(r[i][1], r[i][2])
                    /\ \A i \in 1..Len(r)-1 : BigLe(BigAdd(r[i][2], Two), r[i+1][1])
RECURSIVE AckTailEnc(_, _)
AckTailEnc(r, k) ==                      \* ranges k, k-1, ..., 1 following range k+1
  IF k = 0 THEN <<>> ELSE
  VarintEnc(BigSub(BigSub(r[k+1][1], r[k][2]), Two))        \* Gap
    \o VarintEnc(BigSub(r[k][2], r[k][1]))                  \* ACK Range Length
    \o AckTailEnc(r, k - 1)
AckEnc(v) == LET r == v.ranges  n == Len(r) IN
  VarintEnc(r[n][2]) \o VarintEnc(v.delay) \o VarintEnc(BigOfNat(n - 1))
    \o VarintEnc(BigSub(r[n][2], r[n][1])) \o AckTailEnc(r, n - 1)
RECURSIVE AckRanges(_, _, _, _, _, _)
AckRanges(b, p, lim, n, smallest, acc) ==
  IF n = 0 THEN Ok(acc, p) ELSE
  LET g == VarintAt(b, p, lim) IN IF ~g.ok THEN g ELSE
  LET ln == VarintAt(b, g.p, lim) IN IF ~ln.ok THEN ln ELSE
  LET gap2 == BigAdd(g.v, Two) IN
  IF BigLt(smallest, gap2) THEN Fail("value", "ack-negative") ELSE
  LET hi == BigSub(smallest, gap2) IN
  IF BigLt(hi, ln.v) THEN Fail("value", "ack-negative") ELSE
  LET lo == BigSub(hi, ln.v) IN
  AckRanges(b, ln.p, lim, n - 1, lo, <<<<lo, hi>>>> \o acc)
AckDecAt(b, p, lim) ==
  LET la == VarintAt(b, p, lim) IN IF ~la.ok THEN la ELSE
  LET de == VarintAt(b, la.p, lim) IN IF ~de.ok THEN de ELSE
  LET cn == VarintAt(b, de.p, lim) IN IF ~cn.ok THEN cn ELSE
  LET fi == VarintAt(b, cn.p, lim) IN IF ~fi.ok THEN fi ELSE
  \* every further range takes at least two bytes
  IF Len(cn.v) > 2 \/ 2 * BytesNat(cn.v) > lim - fi.p + 1 THEN Fail("short", "") ELSE
  IF BigLt(la.v, fi.v) THEN Fail("value", "ack-negative") ELSE
  LET lo == BigSub(la.v, fi.v)
      r == AckRanges(b, fi.p, lim, BytesNat(cn.v), lo, <<<<lo, la.v>>>>) IN
  IF ~r.ok THEN r ELSE Ok([ranges |-> r.v, delay |-> de.v], r.p)
AckDec(b) == AckDecAt(b, 1, Len(b))

(* ------------------------------------------------------------------------ *)
(* RFC 9000 section 17, RFC 9369 section 3.2: packet headers                 *)
(* ------------------------------------------------------------------------ *)
V1 == <<0, 0, 0, 1>>
V2 == <<107, 51, 67, 207>>                      \* 0x6b3343cf
VNeg == <<0, 0, 0, 0>>
MaxCid == 20
TagSize == 16
LongTypes == {"initial", "0rtt", "handshake", "retry"}
LongTypeBits(ver, t) ==
  IF ver = V2 THEN CASE t = "initial" -> 1 [] t = "0rtt" -> 2 [] t = "handshake" -> 3 [] t = "retry" -> 0
  ELSE CASE t = "initial" -> 0 [] t = "0rtt" -> 1 [] t = "handshake" -> 2 [] t = "retry" -> 3
LongTypeOf(ver, bits) == CHOOSE t \in LongTypes : LongTypeBits(ver, t) = bits
LongFirst(ver, t, low4) == 128 + 64 + 16 * LongTypeBits(ver, t) + low4
CidEnc(c) == <<Len(c)>> \o c
\* h: [ver, type, low4, dcid, scid, token, lenw, length, pn]; length (Nat) = bytes after the
\* Length field (packet number + payload); lenw = width chosen for the Length varint;
\* pn = the packet-number bytes.  type is not "retry".
LongHeaderEnc(h) ==
  <<LongFirst(h.ver, h.type, h.low4)>> \o h.ver \o CidEnc(h.dcid) \o CidEnc(h.scid)
    \o (IF h.type = "initial" THEN VarintEnc(BigOfNat(Len(h.token))) \o h.token ELSE <<>>)
    \o VarintEncW(BigOfNat(h.length), h.lenw) \o h.pn
RetryEnc(ver, low4, dcid, scid, token, tag) ==
  <<LongFirst(ver, "retry", low4)>> \o ver \o CidEnc(dcid) \o CidEnc(scid) \o token \o tag
VNEnc(first, dcid, scid, versions) ==
  <<first>> \o VNeg \o CidEnc(dcid) \o CidEnc(scid) \o Cat(versions)
ShortFirst(spin, keyphase, pnlen) == 64 + 32 * spin + 4 * keyphase + (pnlen - 1)
ShortHeaderEnc(spin, keyphase, dcid, pn) == <<ShortFirst(spin, keyphase, Len(pn))>> \o dcid \o pn

HeaderValue(ver, t, plen, dcid, scid, token, tag, versions) ==
  [ver |-> ver, type |-> t, plen |-> plen, dcid |-> dcid, scid |-> scid,
   token |-> token, tag |-> tag, versions |-> versions]
RECURSIVE VersionsAt(_, _, _)
VersionsAt(b, p, acc) ==
  IF p > Len(b) THEN Ok(acc, p)
  ELSE IF Over(p, 4, Len(b)) THEN Fail("short", "")
  ELSE VersionsAt(b, p + 4, Append(acc, Slice(b, p, 4)))
CidAt(b, p) ==
  IF Over(p, 1, Len(b)) THEN Fail("short", "")
  ELSE IF b[p] > MaxCid THEN Fail("value", "cid-too-long")
  ELSE IF Over(p + 1, b[p], Len(b)) THEN Fail("short", "")
  ELSE Ok(Slice(b, p + 1, b[p]), p + 1 + b[p])
\* a length (Big) as a natural if it can possibly fit a buffer, else -1
SmallNat(m) == IF Len(m) > 3 THEN -1 ELSE BytesNat(m)
\* the header of the first packet of datagram b; hcl = length of this endpoint's connection
\* IDs (short headers carry no length).  v.plen = length of the whole packet, p = cursor
\* after the header fields (at the packet number).
HeaderDec(b, hcl) ==
  LET n == Len(b) IN
  IF n < 1 THEN Fail("short", "") ELSE
  IF b[1] < 128 THEN
    \* 17.3 short header
    IF (b[1] \div 64) % 2 = 0 THEN Fail("value", "fixed-bit")
    ELSE IF Over(2, hcl, n) THEN Fail("short", "")
    ELSE Ok(HeaderValue(<<>>, "1rtt", n, Slice(b, 2, hcl), <<>>, <<>>, <<>>, <<>>), 2 + hcl)
  ELSE
    IF Over(2, 4, n) THEN Fail("short", "") ELSE
    LET ver == Slice(b, 2, 4)
        dc == CidAt(b, 6) IN IF ~dc.ok THEN dc ELSE
    LET sc == CidAt(b, dc.p) IN IF ~sc.ok THEN sc ELSE
    IF ver = VNeg THEN
      \* 17.2.1 Version Negotiation
      LET vs == VersionsAt(b, sc.p, <<>>) IN IF ~vs.ok THEN vs ELSE
      Ok(HeaderValue(ver, "vn", n, dc.v, sc.v, <<>>, <<>>, vs.v), vs.p)
    ELSE IF (b[1] \div 64) % 2 = 0 THEN Fail("value", "fixed-bit") ELSE
    LET t == LongTypeOf(ver, (b[1] \div 16) % 4) IN
    IF t = "retry" THEN
      \* 17.2.5: token = everything up to the 16-byte integrity tag
      IF n - sc.p + 1 < TagSize THEN Fail("short", "") ELSE
      Ok(HeaderValue(ver, t, n, dc.v, sc.v, SubSeq(b, sc.p, n - TagSize),
                     SubSeq(b, n - TagSize + 1, n), <<>>), n + 1)
    ELSE
      LET tl == IF t = "initial" THEN VarintAt(b, sc.p, n) ELSE Ok(<<>>, sc.p) IN
      IF ~tl.ok THEN tl ELSE
      IF SmallNat(tl.v) < 0 \/ Over(tl.p, SmallNat(tl.v), n) THEN Fail("short", "") ELSE
      LET tok == Slice(b, tl.p, SmallNat(tl.v))
          ln == VarintAt(b, tl.p + SmallNat(tl.v), n) IN
      IF ~ln.ok THEN ln ELSE
      IF SmallNat(ln.v) < 0 \/ Over(ln.p, SmallNat(ln.v), n) THEN Fail("short", "") ELSE
      Ok(HeaderValue(ver, t, ln.p - 1 + SmallNat(ln.v), dc.v, sc.v, tok, <<>>, <<>>), ln.p)

(* ------------------------------------------------------------------------ *)
(* RFC 9000 section 18: transport parameters                                 *)
(*   value: sequence of <<id, v>>; v by kind: "int" Big, "bytes" byte string, *)
(*   "flag" <<>>, "pa" <<ipv4, ipv6, cid, token>> (an address is 6 / 18 bytes *)
(*   or <<>> when its host part is all zero), "vi" <<chosen, <<avail..>>>>    *)
(* ------------------------------------------------------------------------ *)
TPOrder == <<0, 1, 2, 3, 4, 5, 6, 7, 8, 9, 10, 11, 12, 13, 14, 15, 16, 17, 32, 3127>>
TPIds == {TPOrder[i] : i \in 1..Len(TPOrder)}
TPKind(id) ==
  CASE id \in {1, 3, 4, 5, 6, 7, 8, 9, 10, 11, 14, 32} -> "int"
    [] id \in {0, 2, 15, 16, 3127} -> "bytes"          \* 3127 (0x0c37): implementation extension, opaque
    [] id = 12 -> "flag"
    [] id = 13 -> "pa"
    [] id = 17 -> "vi"
AddrEnc(a, n) == IF a = <<>> THEN Zeros(n) ELSE a
TPBodyEnc(id, v) ==
  LET k == TPKind(id) IN
  CASE k = "int" -> VarintEnc(v)
    [] k = "bytes" -> v
    [] k = "flag" -> <<>>
    [] k = "pa" -> AddrEnc(v[1], 6) \o AddrEnc(v[2], 18) \o CidEnc(v[3]) \o v[4]
    [] k = "vi" -> v[1] \o Cat(v[2])
RECURSIVE TPEncFrom(_, _)
TPEncFrom(s, i) ==
  IF i > Len(s) THEN <<>> ELSE
  LET body == TPBodyEnc(s[i][1], s[i][2]) IN
  VarintEnc(BigOfNat(s[i][1])) \o VarintEnc(BigOfNat(Len(body))) \o body \o TPEncFrom(s, i + 1)
TPEnc(s) == TPEncFrom(s, 1)
AddrDec(a, hostlen) == IF \A i \in 1..hostlen : a[i] = 0 THEN <<>> ELSE a
RECURSIVE FoursAt(_, _, _, _)
FoursAt(b, p, lim, acc) == IF p > lim THEN acc ELSE FoursAt(b, p + 4, lim, Append(acc, Slice(b, p, 4)))
\* body of parameter id in b[p..lim] (lim = last byte of the declared length), strict
TPBodyDec(id, b, p, lim) ==
  LET k == TPKind(id)  n == lim - p + 1 IN
  CASE k = "int" -> LET r == VarintAt(b, p, lim) IN
                    IF ~r.ok THEN r ELSE IF r.p # lim + 1 THEN Fail("length", "tp") ELSE r
    [] k = "bytes" -> Ok(Slice(b, p, n), lim + 1)
    [] k = "flag" -> IF n # 0 THEN Fail("length", "tp") ELSE Ok(<<>>, lim + 1)
    [] k = "pa" -> IF n < 41 THEN Fail("length", "tp")
                   ELSE IF 41 + b[p + 24] # n THEN Fail("length", "tp")
                   ELSE Ok(<<AddrDec(Slice(b, p, 6), 4), AddrDec(Slice(b, p + 6, 18), 16),
                             Slice(b, p + 25, b[p + 24]), Slice(b, p + 25 + b[p + 24], 16)>>, lim + 1)
    [] k = "vi" -> IF n < 4 \/ n % 4 # 0 THEN Fail("length", "tp") ELSE
                   LET vs == FoursAt(b, p, lim, <<>>) IN
                   IF \E i \in 1..Len(vs) : vs[i] = VNeg THEN Fail("value", "version-zero")
                   ELSE Ok(<<vs[1], Tail(vs)>>, lim + 1)
RECURSIVE TPDecFrom(_, _, _)
TPDecFrom(b, p, acc) ==
  LET n == Len(b) IN
  IF p > n THEN Ok(acc, p) ELSE
  LET id == VarintAt(b, p, n) IN IF ~id.ok THEN id ELSE
  LET ln == VarintAt(b, id.p, n) IN IF ~ln.ok THEN ln ELSE
  IF SmallNat(ln.v) < 0 \/ Over(ln.p, SmallNat(ln.v), n) THEN Fail("short", "") ELSE
  LET L == SmallNat(ln.v)
      idn == SmallNat(id.v) IN
  IF idn \in TPIds THEN
    LET r == TPBodyDec(idn, b, ln.p, ln.p + L - 1) IN
    IF ~r.ok THEN (IF r.why = "short" THEN Fail("length", "tp") ELSE r)
    ELSE TPDecFrom(b, ln.p + L, Append(acc, <<idn, r.v>>))
  ELSE TPDecFrom(b, ln.p + L, acc)               \* 7.4.2: unknown parameters are ignored
\* a repeated parameter: the last one counts (7.4 lets a receiver be lenient); listed in id order
TPCanon(s) ==
  LET has(id) == \E i \in 1..Len(s) : s[i][1] = id
      last(id) == s[MaxOf({i \in 1..Len(s) : s[i][1] = id})]
      F[k \in 0..Len(TPOrder)] == IF k = 0 THEN <<>>
                                  ELSE IF has(TPOrder[k]) THEN Append(F[k-1], last(TPOrder[k])) ELSE F[k-1]
  IN F[Len(TPOrder)]
TPDec(b) == LET r == TPDecFrom(b, 1, <<>>) IN IF r.ok THEN [r EXCEPT !.v = TPCanon(r.v)] ELSE r

(* ------------------------------------------------------------------------ *)
(* RFC 8446 section 3: a schema language for the presentation syntax and one *)
(* interpreter for all handshake messages                                    *)
(* ------------------------------------------------------------------------ *)
U(n)      == [k |-> "u", n |-> n]              \* uintN, N = 8n, n <= 3   value: Nat
F(n)      == [k |-> "f", n |-> n]              \* opaque x[n]             value: n bytes
Op(n)     == [k |-> "o", n |-> n]              \* opaque x<0..2^8n-1>     value: bytes
Vec(n, s) == [k |-> "v", n |-> n, s |-> s]     \* T x<0..2^8n-1>          value: sequence
St(ss)    == [k |-> "s", ss |-> ss]            \* struct                  value: tuple
Cn(bs)    == [k |-> "c", b |-> bs]             \* a constant              value: 0
Bl(n, s)  == [k |-> "b", n |-> n, s |-> s]     \* one T inside a length-prefixed block
Ex(tab)   == [k |-> "x", tab |-> tab]          \* Extension x<0..2^16-1>; tab: type -> schema of
                                               \* extension_data; value: sequence of <<type, v>>,
                                               \* v = raw bytes for a type outside tab
ExtName(t) == "ext" \o ToString(t)
\* a field that has been framed inside the buffer: whatever runs out of bytes inside it has
\* crossed its declared length
Confine(r) == IF ~r.ok /\ r.why = "short" THEN Fail("length", r.at) ELSE r
RECURSIVE SDec(_, _, _, _), SVecItems(_, _, _, _, _), SStruct(_, _, _, _, _, _), SExts(_, _, _, _, _)
SDec(s, b, p, lim) ==
  CASE s.k = "u" -> IF Over(p, s.n, lim) THEN OverWhy(b, p, s.n) ELSE Ok(BytesNat(Slice(b, p, s.n)), p + s.n)
    [] s.k = "f" -> IF Over(p, s.n, lim) THEN OverWhy(b, p, s.n) ELSE Ok(Slice(b, p, s.n), p + s.n)
    [] s.k = "c" -> IF Over(p, Len(s.b), lim) THEN OverWhy(b, p, Len(s.b))
                    ELSE IF Slice(b, p, Len(s.b)) = s.b THEN Ok(0, p + Len(s.b)) ELSE Fail("value", "constant")
    [] s.k = "s" -> SStruct(s.ss, 1, b, p, lim, <<>>)
    [] OTHER ->
       \* length-prefixed forms
       LET n == IF s.k = "x" THEN 2 ELSE s.n IN
       IF Over(p, n, lim) THEN OverWhy(b, p, n) ELSE
       LET L == BytesNat(Slice(b, p, n))  q == p + n  end == q + L - 1 IN
       IF Over(q, L, lim) THEN OverWhy(b, q, L) ELSE
       CASE s.k = "o" -> Ok(Slice(b, q, L), q + L)
         [] s.k = "v" -> Confine(SVecItems(s.s, b, q, end, <<>>))
         [] s.k = "x" -> Confine(SExts(s.tab, b, q, end, <<>>))
         [] s.k = "b" -> LET r == SDec(s.s, b, q, end) IN
                         IF ~r.ok THEN Confine(r) ELSE IF r.p # q + L THEN Fail("length", "") ELSE r
SVecItems(item, b, p, end, acc) ==
  IF p > end THEN Ok(acc, p) ELSE
  LET r == SDec(item, b, p, end) IN
  IF ~r.ok THEN r ELSE SVecItems(item, b, r.p, end, Append(acc, r.v))
SStruct(ss, i, b, p, lim, acc) ==
  IF i > Len(ss) THEN Ok(acc, p) ELSE
  LET r == SDec(ss[i], b, p, lim) IN
  IF ~r.ok THEN r ELSE SStruct(ss, i + 1, b, r.p, lim, Append(acc, r.v))
SExts(tab, b, p, end, acc) ==
  IF p > end THEN Ok(acc, p) ELSE
  IF Over(p, 4, end) THEN OverWhy(b, p, 4) ELSE
  LET t == BytesNat(Slice(b, p, 2))  L == BytesNat(Slice(b, p + 2, 2))  q == p + 4 IN
  IF Over(q, L, end) THEN (IF t \in DOMAIN tab THEN Fail("length", ExtName(t)) ELSE OverWhy(b, q, L)) ELSE
  IF t \in DOMAIN tab THEN
    LET r == SDec(tab[t], b, q, q + L - 1) IN
    IF ~r.ok THEN (IF r.why \in {"length", "short"} /\ r.at = "" THEN Fail("length", ExtName(t)) ELSE r)
    ELSE IF r.p # q + L THEN Fail("length", ExtName(t))
    ELSE SExts(tab, b, q + L, end, Append(acc, <<t, r.v>>))
  ELSE SExts(tab, b, q + L, end, Append(acc, <<t, Slice(b, q, L)>>))

RECURSIVE SEnc(_, _), EncItems(_, _, _), EncStruct(_, _, _), EncExts(_, _, _)
Prefixed(n, body) == NatBytes(Len(body), n) \o body
SEnc(s, v) ==
  CASE s.k = "u" -> NatBytes(v, s.n)
    [] s.k = "f" -> v
    [] s.k = "c" -> s.b
    [] s.k = "o" -> Prefixed(s.n, v)
    [] s.k = "v" -> Prefixed(s.n, EncItems(s.s, v, 1))
    [] s.k = "b" -> Prefixed(s.n, SEnc(s.s, v))
    [] s.k = "s" -> EncStruct(s.ss, v, 1)
    [] s.k = "x" -> Prefixed(2, EncExts(s.tab, v, 1))
EncItems(item, v, i) == IF i > Len(v) THEN <<>> ELSE SEnc(item, v[i]) \o EncItems(item, v, i + 1)
EncStruct(ss, v, i) == IF i > Len(ss) THEN <<>> ELSE SEnc(ss[i], v[i]) \o EncStruct(ss, v, i + 1)
EncExts(tab, v, i) ==
  IF i > Len(v) THEN <<>> ELSE
  LET t == v[i][1]
      body == IF t \in DOMAIN tab THEN SEnc(tab[t], v[i][2]) ELSE v[i][2] IN
  NatBytes(t, 2) \o Prefixed(2, body) \o EncExts(tab, v, i + 1)

(* RFC 8446 section 4 (and RFC 6066 3, RFC 7301 3.1, RFC 9001 8.2 for the extension bodies) *)
KeyShareEntry == St(<<U(2), Op(2)>>)
ServerNameList == Bl(2, St(<<Cn(<<0>>), Op(2)>>))         \* one host_name entry
ProtocolNameList == Vec(2, Op(1))
OfferedPsks == St(<<Vec(2, St(<<Op(2), F(4)>>)), Vec(2, Op(1))>>)
Empty == St(<<>>)
ClientHelloExts == (51 :> Vec(2, KeyShareEntry)) @@ (43 :> Vec(1, U(2))) @@ (13 :> Vec(2, U(2)))
                   @@ (10 :> Vec(2, U(2))) @@ (45 :> Vec(1, U(1))) @@ (0 :> ServerNameList)
                   @@ (16 :> ProtocolNameList) @@ (42 :> Empty) @@ (41 :> OfferedPsks)
ServerHelloExts == (43 :> U(2)) @@ (51 :> KeyShareEntry) @@ (41 :> U(2))
EncryptedExtensionsExts == (16 :> ProtocolNameList) @@ (42 :> Empty)
NewSessionTicketExts == (42 :> F(4))
CertificateRequestExts == (13 :> Vec(2, U(2)))
Msg(t, body) == St(<<Cn(<<t>>), Bl(3, body)>>)
LegacyVersion == Cn(<<3, 3>>)
TlsCodecs == {"client_hello", "server_hello", "new_session_ticket", "encrypted_extensions",
              "certificate", "certificate_request", "certificate_verify", "finished"}
Schema(c) ==
  CASE c = "client_hello" -> Msg(1, St(<<LegacyVersion, F(32), Op(1), Vec(2, U(2)), Vec(1, U(1)), Ex(ClientHelloExts)>>))
    [] c = "server_hello" -> Msg(2, St(<<LegacyVersion, F(32), Op(1), U(2), U(1), Ex(ServerHelloExts)>>))
    [] c = "new_session_ticket" -> Msg(4, St(<<F(4), F(4), Op(1), Op(2), Ex(NewSessionTicketExts)>>))
    [] c = "encrypted_extensions" -> Msg(8, St(<<Ex(EncryptedExtensionsExts)>>))
    [] c = "certificate" -> Msg(11, St(<<Op(1), Vec(3, St(<<Op(3), Op(2)>>))>>))
    [] c = "certificate_request" -> Msg(13, St(<<Op(1), Ex(CertificateRequestExts)>>))
    [] c = "certificate_verify" -> Msg(15, St(<<U(2), Op(2)>>))
    [] c = "finished" -> St(<<Cn(<<20>>), Op(3)>>)
MsgType(c) == Schema(c).ss[1].b[1]
\* where the extension list sits in the value of a message, and its table
ExtIndex(c) == CASE c = "client_hello" -> 6 [] c = "server_hello" -> 6 [] c = "new_session_ticket" -> 5
                 [] c = "encrypted_extensions" -> 1 [] c = "certificate_request" -> 2 [] OTHER -> 0
ExtTable(c) == Schema(c).ss[2].s.ss[ExtIndex(c)].tab

(* The value an endpoint keeps of an extension list is a record, not the wire
   order: one slot per extension type it understands (a repeated type
   overwrites: last one counts), the others kept in order.  Canonical order =
   the order a sender writes them; RFC 8446 4.2 fixes only that pre_shared_key
   is last.  Protocol names are text: names that are not ASCII are dropped
   (greased values, RFC 8701), and EncryptedExtensions carries the single
   selected protocol (RFC 7301 3.1), i.e. the first name. *)
Others == 100000
ExtOrder(c) ==
  CASE c = "client_hello" -> <<51, 43, 13, 10, 45, 0, 16, Others, 42, 41>>
    [] c = "server_hello" -> <<43, 51, 41, Others>>
    [] c = "new_session_ticket" -> <<42, Others>>
    [] c = "encrypted_extensions" -> <<16, 42, Others>>
    [] c = "certificate_request" -> <<13, Others>>
IsAscii(s) == \A i \in 1..Len(s) : s[i] < 128
NormExt(c, e) ==
  IF e[1] = 16 /\ c = "client_hello" THEN <<16, SelectSeq(e[2], IsAscii)>>
  ELSE IF e[1] = 16 /\ c = "encrypted_extensions" THEN LET a == SelectSeq(e[2], IsAscii) IN <<16, IF a = <<>> THEN <<>> ELSE <<a[1]>>>>
  ELSE e
CanonExts(c, E) ==
  LET tab == ExtTable(c)
      ord == ExtOrder(c)
      has(t) == \E i \in 1..Len(E) : E[i][1] = t
      last(t) == E[MaxOf({i \in 1..Len(E) : E[i][1] = t})]
      unknown(e) == e[1] \notin DOMAIN tab
      G[k \in 0..Len(ord)] ==
        IF k = 0 THEN <<>>
        ELSE IF ord[k] = Others THEN G[k-1] \o SelectSeq(E, unknown)
        ELSE IF has(ord[k]) THEN Append(G[k-1], NormExt(c, last(ord[k]))) ELSE G[k-1]
  IN G[Len(ord)]
\* pre_shared_key must be the last extension of a ClientHello (RFC 8446 4.2.11)
PskLast(E) == \A i \in 1..Len(E) : E[i][1] = 41 => i = Len(E)
TlsCanon(c, v) ==
  IF ExtIndex(c) = 0 THEN v ELSE [v EXCEPT ![2][ExtIndex(c)] = CanonExts(c, @)]
TlsEnc(c, v) == SEnc(Schema(c), v)
\* a whole handshake message: the decoder must end exactly at the end of the buffer
TlsDec(c, b) ==
  LET r == SDec(Schema(c), b, 1, Len(b)) IN
  IF ~r.ok THEN r
  ELSE IF r.p # Len(b) + 1 THEN Fail("length", "message")
  ELSE IF c = "client_hello" /\ ~PskLast(r.v[2][6]) THEN Fail("value", "psk-not-last")
  ELSE [r EXCEPT !.v = TlsCanon(c, r.v)]

(* ------------------------------------------------------------------------ *)
(* Worked examples from the RFCs, and the strictness of the decoders on       *)
(* hand-written inputs (evaluated once, when TLC starts)                      *)
(* ------------------------------------------------------------------------ *)
\* RFC 9000 A.1
ASSUME VarintAt(<<194, 25, 124, 94, 255, 20, 232, 140>>, 1, 8) = Ok(<<2, 25, 124, 94, 255, 20, 232, 140>>, 9)
ASSUME VarintAt(<<157, 127, 62, 125>>, 1, 4) = Ok(<<29, 127, 62, 125>>, 5)
ASSUME VarintAt(<<123, 189>>, 1, 2) = Ok(<<59, 189>>, 3) /\ VarintEnc(<<59, 189>>) = <<123, 189>>
ASSUME VarintAt(<<37>>, 1, 1) = Ok(<<37>>, 2) /\ VarintAt(<<64, 37>>, 1, 2) = Ok(<<37>>, 3)
ASSUME VarintEnc(<<2, 25, 124, 94, 255, 20, 232, 140>>) = <<194, 25, 124, 94, 255, 20, 232, 140>>
\* RFC 9000 17.2 table 5, RFC 9369 3.2: first byte of long headers (low four bits zero)
ASSUME <<LongFirst(V1, "initial", 0), LongFirst(V1, "0rtt", 0), LongFirst(V1, "handshake", 0), LongFirst(V1, "retry", 0)>>
         = <<192, 208, 224, 240>>
ASSUME <<LongFirst(V2, "initial", 0), LongFirst(V2, "0rtt", 0), LongFirst(V2, "handshake", 0), LongFirst(V2, "retry", 0)>>
         = <<208, 224, 240, 192>>
\* RFC 9000 19.3.1: largest 10, first range 2 (8..10), gap 1, length 1: next range ends at 8 - 1 - 2 = 5 (4..5)
ASSUME AckDec(<<10, 0, 1, 2, 1, 1>>) = Ok([ranges |-> <<<<<<4>>, <<5>>>>, <<<<8>>, <<10>>>>>>, delay |-> <<>>], 7)
ASSUME ~AckDec(<<1, 0, 0, 2>>).ok /\ ~AckDec(<<9, 0, 1, 0, 8, 0>>).ok         \* below packet number 0
\* transport parameters: a declared length that is not the length of the value
ASSUME TPDec(<<1, 1, 5>>) = Ok(<<<<1, <<5>>>>>>, 4)
ASSUME ~TPDec(<<1, 2, 5, 0>>).ok /\ ~TPDec(<<1, 1, 64, 5>>).ok /\ ~TPDec(<<12, 1, 0>>).ok /\ ~TPDec(<<1, 2, 5>>).ok
\* EncryptedExtensions with ALPN "h3": exact, the extension one byte short of its list, and
\* the extension swallowing the early_data extension that follows it
ASSUME TlsDec("encrypted_extensions", <<8, 0, 0, 11, 0, 9, 0, 16, 0, 5, 0, 3, 2, 104, 51>>)
         = Ok(<<0, <<<< <<16, <<<<104, 51>>>>>> >>>>>>, 16)
ASSUME LET r == TlsDec("encrypted_extensions", <<8, 0, 0, 11, 0, 9, 0, 16, 0, 4, 0, 3, 2, 104, 51>>) IN
         ~r.ok /\ r.why = "length" /\ r.at = "ext16"
ASSUME LET r == TlsDec("encrypted_extensions", <<8, 0, 0, 15, 0, 13, 0, 16, 0, 9, 0, 3, 2, 104, 51, 0, 42, 0, 0>>) IN
         ~r.ok /\ r.why = "length" /\ r.at = "ext16"
\* a vector whose length is not a multiple of its item size; a block with bytes left over
ASSUME ~TlsDec("certificate_verify", <<15, 0, 0, 5, 8, 4, 0, 2, 1>>).ok
ASSUME ~TlsDec("certificate_request", <<13, 0, 0, 10, 0, 0, 7, 0, 13, 0, 3, 0, 1, 8>>).ok
ASSUME TlsDec("finished", <<20, 0, 0, 2, 7, 9>>) = Ok(<<0, <<7, 9>>>>, 7) /\ ~TlsDec("finished", <<20, 0, 0, 3, 7, 9>>).ok

(* ======================================================================== *)
(* (M) exhaustive evaluation on small domains; cases printed for (R)          *)
(* ======================================================================== *)
CONSTANTS NatLo, NatMax,   \* the arithmetic cross-check runs over 0..NatLo and 16128..NatMax (NatLo <= NatMax)
          ScidLens,        \* source CID lengths enumerated (destination: all of 0..20)
          TokLens,         \* token lengths
          TPPool,          \* transport parameter ids whose subsets are enumerated
          Emit             \* print the cases for the harness
VARIABLE c

Pow2Small(k) == CASE k = 0 -> 1 [] k = 1 -> 2 [] k = 2 -> 4 [] k = 3 -> 8 [] k = 4 -> 16
                  [] k = 5 -> 32 [] k = 6 -> 64 [] k = 7 -> 128
Pow2Big(k) == <<Pow2Small(k % 8)>> \o Zeros(k \div 8)
Around(P) == {BigSub(P, <<2>>), BigSub(P, <<1>>), P, BigAdd(P, <<1>>)}
BoundaryBigs == UNION {Around(Pow2Big(k)) : k \in {6, 8, 14, 16, 30, 32, 62, 64}}
                  \cup {<<>>, <<1>>, <<2>>, <<37>>, <<1, 2, 3, 4, 5>>}

\* maximal runs of a set of naturals, ascending <<lo, hi>>
Runs(S) == {<<a, z>> \in S \X S : a <= z /\ (a..z) \subseteq S /\ (a - 1) \notin S /\ (z + 1) \notin S}
RECURSIVE SortRuns(_)
SortRuns(R) == IF R = {} THEN <<>> ELSE
               LET m == CHOOSE r \in R : \A q \in R : r[1] <= q[1] IN <<m>> \o SortRuns(R \ {m})
RangesOf(S, base) == LET r == SortRuns(Runs(S)) IN
  [i \in 1..Len(r) |-> <<BigAdd(base, BigOfNat(r[i][1])), BigAdd(base, BigOfNat(r[i][2]))>>]
AckBases == {<<>>, <<58>>, BigSub(Pow2Big(14), <<5>>), BigSub(Pow2Big(30), <<6>>), BigSub(Pow2Big(62), <<8>>)}
AckDelays == {<<>>, <<64, 0>>}

Fill(n, seed) == [i \in 1..n |-> (seed + 7 * i) % 256]
Versions == {V1, V2}

\* The cases are dealt into NB buckets: one initial state per bucket, its successors are
\* the cases, so that TLC's workers evaluate them in parallel.
NB == 32
Bit(x, S) == IF x \in S THEN 1 ELSE 0
IntCases(i) == IF i # 0 THEN {} ELSE
                 {[kind |-> "int", x |-> [neg |-> 0, m |-> m]] : m \in BoundaryBigs}
                   \cup {[kind |-> "int", x |-> [neg |-> 1, m |-> <<1>>]]}
NatCases(i) == {[kind |-> "nat", n |-> n] : n \in {k \in (0..NatLo) \cup (16128..NatMax) : k % NB = i}}
AckCases(i) == {[kind |-> "ack", v |-> [ranges |-> RangesOf(S, base), delay |-> d]] :
                  S \in {T \in (SUBSET (0..7)) \ {{}} :
                           Bit(0, T) + 2 * Bit(1, T) + 4 * Bit(2, T) + 8 * Bit(3, T) + 16 * Bit(4, T) = i},
                  base \in AckBases, d \in AckDelays}
HdrCases(i) == {[kind |-> "hdr", ver |-> ver, type |-> t, dl |-> dl, sl |-> sl, tl |-> tl] :
                  ver \in Versions, t \in LongTypes, dl \in {k \in 0..MaxCid : k % NB = i},
                  sl \in ScidLens, tl \in TokLens}
TPCases(i) == {[kind |-> "tp", ids |-> ids] : ids \in {T \in SUBSET TPPool : Cardinality(T) % NB = i}}

\* (records of different shapes are not put into one set)
Init == c \in {[kind |-> "bucket", i |-> i] : i \in 0..NB-1}
Next == /\ c.kind = "bucket"
        /\ \/ c' \in IntCases(c.i) \/ c' \in NatCases(c.i) \/ c' \in AckCases(c.i)
           \/ c' \in HdrCases(c.i) \/ c' \in TPCases(c.i)
Spec == Init /\ [][Next]_c

\* a fixed boundary value per transport parameter, for the self-check
TPSample(id) ==
  LET k == TPKind(id) IN
  CASE k = "int" -> BigSub(Pow2Big(CASE id % 4 = 0 -> 6 [] id % 4 = 1 -> 14 [] id % 4 = 2 -> 30 [] OTHER -> 62), <<id % 2>>)
    [] k = "bytes" -> Fill(id % 21, id)
    [] k = "flag" -> <<>>
    [] k = "pa" -> <<Fill(6, 1), <<>>, Fill(5, 9), Fill(16, 3)>>
    [] k = "vi" -> <<V1, <<V2, V1>>>>
TPSelect(ids) == SelectSeq(TPCanon([i \in 1..Len(TPOrder) |-> <<TPOrder[i], TPSample(TPOrder[i])>>]),
                           LAMBDA e : e[1] \in ids)

IntLemma(x) ==
  \A cd \in IntCodecs :
    IntEncodable(cd, x) =>
      /\ LET r == IntDec(cd, IntEnc(cd, x)) IN r.ok /\ r.v = x /\ r.p = Len(IntEnc(cd, x)) + 1
      /\ cd = "uint_var" =>
           \A w \in {1, 2, 4, 8} : w >= VarintWidth(x.m) =>
              LET r == VarintAt(VarintEncW(x.m, w), 1, w) IN r.ok /\ r.v = x.m /\ r.p = w + 1
NatLemma(n) ==
  /\ BytesNat(BigOfNat(n)) = n
  /\ VarintEncNat(n) = VarintEnc(BigOfNat(n))
  /\ BigAdd(BigOfNat(n), BigOfNat(NatMax - n)) = BigOfNat(NatMax)
  /\ BigSub(BigOfNat(NatMax), BigOfNat(n)) = BigOfNat(NatMax - n)
  /\ (n < 65536 => NatBytes(n, 2) = PadTo(BigOfNat(n), 2))
AckLemma(v) ==
  /\ AckWellFormed(v.ranges)
  /\ LET e == AckEnc(v)  r == AckDec(e) IN
       /\ r.ok /\ r.v = v /\ r.p = Len(e) + 1
       /\ ~AckDec(SubSeq(e, 1, Len(e) - 1)).ok                \* one byte short never decodes to a value
HdrOf(k) == [ver |-> k.ver, type |-> k.type, low4 |-> 1, dcid |-> Fill(k.dl, 1), scid |-> Fill(k.sl, 2),
             token |-> Fill(k.tl, 3), lenw |-> 2, length |-> 22, pn |-> <<18, 52>>]
HdrLemma(k) ==
  LET h == HdrOf(k)  pay == Fill(20, 5) IN
  IF k.type = "retry" THEN
    LET e == RetryEnc(h.ver, 0, h.dcid, h.scid, h.token, Fill(16, 4))  r == HeaderDec(e, 8) IN
    r.ok /\ r.v = HeaderValue(h.ver, "retry", Len(e), h.dcid, h.scid, h.token, Fill(16, 4), <<>>)
  ELSE
    LET e == LongHeaderEnc(h) \o pay  r == HeaderDec(e, 8)
        tok == IF k.type = "initial" THEN h.token ELSE <<>> IN
    /\ r.ok /\ r.v = HeaderValue(h.ver, k.type, Len(e), h.dcid, h.scid, tok, <<>>, <<>>)
    /\ r.p = Len(e) - 21
    /\ ~HeaderDec(SubSeq(e, 1, Len(e) - 1), 8).ok                 \* Length says more than there is
TPLemma(ids) ==
  LET v == TPSelect(ids)  e == TPEnc(v)  r == TPDec(e) IN r.ok /\ r.v = v /\ r.p = Len(e) + 1

Lemma ==
  /\ Emit /\ c.kind \notin {"nat", "bucket"} => PrintT("GEN " \o ToString(c))
  /\ CASE c.kind = "bucket" -> TRUE
       [] c.kind = "int" -> IntLemma(c.x)
       [] c.kind = "nat" -> NatLemma(c.n)
       [] c.kind = "ack" -> AckLemma(c.v)
       [] c.kind = "hdr" -> HdrLemma(c)
       [] c.kind = "tp" -> TPLemma(c.ids)
=============================================================================
