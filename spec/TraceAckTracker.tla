-------------------------- MODULE TraceAckTracker --------------------------
(* Judges acknowledgement traces of real connections (netsim + observer)
   against AckTracker (C12).  Lines:
     init
     arr  ep space pn ackel auth maybe t hc  a genuine packet was handed to ep (maybe: keys were installed during the
                                          call, by an earlier packet of the datagram; auth: the endpoint held the keys
                                          and the destination CID was one of its own; hc: handshake complete)
     tx   ep t acks spaces validated closing   return of datagrams_to_send: acks = <<space, lo, hi>> triples of all
                                          ACK ranges in the datagrams emitted, spaces = spaces of the packets emitted
     gt   ep t value                      get_timer() after a call
     discard ep space                     (derived from a Handshake packet sent/received: Initial space is gone) *)
EXTENDS AckTracker, TraceBase

VARIABLE s
MaxAckDelayUs == 25000
Sp0 == [recv |-> {}, seen |-> -1, owed |-> {}]
Ep0 == [i |-> Sp0, h |-> Sp0, a |-> Sp0, closing |-> FALSE, asked |-> -1]
S0 == [c |-> Ep0, s |-> Ep0]

AckSet(acks, sp) == UNION {x[2] .. x[3] : x \in {y \in ToSet(acks) : y[1] = sp}}

\* "provided the caller fires the timer when asked": a call that comes later than the deadline the endpoint
\* had named voids the obligations that existed before it
Slack == 5
Late(x, t) == x.asked # -1 /\ t > x.asked + Slack
Void(x, t) == IF Late(x, t)
              THEN [x EXCEPT !.i.owed = {o \in @ : o[2] >= t}, !.h.owed = {o \in @ : o[2] >= t},
                             !.a.owed = {o \in @ : o[2] >= t}]
              ELSE x
StepE(x0, e) ==
  LET x == IF e.ev \in {"arr", "tx"} THEN Void(x0, e.t) ELSE x0 IN
  CASE e.ev = "arr" ->
         LET sp == x[e.space] IN
         [x EXCEPT ![e.space] =
            [recv |-> sp.recv \cup {e.pn},
             seen |-> IF (e.auth \/ e.maybe) /\ e.pn > sp.seen THEN e.pn ELSE sp.seen,
             owed |-> IF e.auth /\ ~x.closing /\ IsOwed(e.pn, e.ackel, sp.seen) /\ (e.space = "a" => e.hc)
                      THEN sp.owed \cup {<<e.pn, e.t>>} ELSE sp.owed]]
    [] e.ev = "tx" ->
         LET upd(k) == [x[k] EXCEPT !.owed = IF e.closing THEN {}
                                             ELSE {o \in @ : ~Covered(o[1], AckSet(e.acks, k))}] IN
         [x EXCEPT !.i = upd("i"), !.h = upd("h"), !.a = upd("a"), !.closing = e.closing]
    [] e.ev = "gt" -> [x EXCEPT !.asked = e.value]
    [] OTHER -> x
StepS(st, e) == IF e.ev = "init" THEN S0 ELSE [st EXCEPT ![e.ep] = StepE(st[e.ep], e)]

Cl(st, e) ==
  IF e.ev = "init" THEN << >> ELSE
  LET x == IF e.ev = "tx" THEN Void(st[e.ep], e.t) ELSE st[e.ep] IN
  CASE e.ev = "tx" ->
         << <<"ack-lists-only-received-packets",
               \A k \in {"i", "h", "a"} : SoundAck(AckSet(e.acks, k), x[k].recv)>>,
            \* 1-RTT: due no later than arrival + max_ack_delay; this call is at or after the deadline
            <<"ack-sent-within-advertised-delay",
               (e.validated /\ ~e.closing) =>
                  \A o \in x.a.owed : (e.t >= o[2] + MaxAckDelayUs) => Covered(o[1], AckSet(e.acks, "a"))>>,
            \* Initial / Handshake: acknowledged by the next transmission in that space
            <<"handshake-spaces-acked-by-next-transmission",
               (e.validated /\ ~e.closing) =>
                  \A k \in {"i", "h"} : (k \in ToSet(e.spaces)) =>
                     \A o \in x[k].owed : Covered(o[1], AckSet(e.acks, k))>> >>
    [] e.ev = "gt" ->
         \* the endpoint asks to be called back in time for every ACK it owes
         << <<"timer-requested-before-ack-deadline",
               ~x.closing => \A o \in x.a.owed : e.value # -1 /\ e.value <= o[2] + MaxAckDelayUs>> >>
    [] OTHER -> << >>

TInit == l = 1 /\ s = S0 /\ Init
TNext == /\ \/ /\ l <= Len(Lines)
               /\ LET f == FirstFailing(Cl(s, Lines[l])) IN
                    IF f = "" THEN TRUE ELSE PrintT(<<"TRACE-FAIL", l, f>>)
               /\ s' = StepS(s, Lines[l])
               /\ l' = l + 1
            \/ /\ l = Len(Lines) + 1
               /\ PrintT(<<"TRACE-END", Len(Lines)>>)
               /\ l' = l + 1 /\ UNCHANGED s
         /\ UNCHANGED vars
TSpec == TInit /\ [][TNext]_<<l, s, vars>>
============================================================================
