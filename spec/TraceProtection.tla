-------------------------- MODULE TraceProtection --------------------------
(* Judges packet-protection records of real connections (C02).  Lines:
     emit    ep type opened               a protected packet left ep; opened = the independent RFC 9001/9369
                                          implementation (observer) recovered header, packet number and payload
     peer    ep type accepted haskeys dup a genuine packet was handed to ep: did it process it
     forge   ep type kind pos before after events   an altered copy of a genuine packet (one packet, alone in its
                                          datagram) was handed to ep: observable projection before/after, events emitted
     genuine ep type accepted             the genuine packet was handed over after the series of forgeries
     inbound ep pnlen size accepted       a packet built by the independent encryptor was handed to ep
     pn      t bits e r                   decode_packet_number(t, bits, e) returned r (values below 2^30) *)
EXTENDS Protection, PnDecodeOps, TraceBase

Pow2(n) == IF n = 8 THEN 256 ELSE IF n = 16 THEN 65536 ELSE 16777216

Clauses(e) ==
  CASE e.ev = "emit"    -> << <<"emitted-packet-recovered-by-independent-implementation", Recovered(e.opened)>> >>
    [] e.ev = "peer"    -> << <<"emitted-packet-recovered-by-peer", (e.haskeys /\ ~e.dup) => Recovered(e.accepted)>> >>
    [] e.ev = "forge"   -> << <<"altered-packet-changes-nothing", Inert(e.before, e.after, e.events)>> >>
    [] e.ev = "genuine" -> << <<"genuine-packet-still-accepted-after-forgeries", e.accepted>> >>
    [] e.ev = "inbound" -> << <<"independently-protected-packet-accepted", e.accepted>> >>
    [] e.ev = "pn"      -> << <<"packet-number-expanded-to-closest-candidate",
                                 Row(e.r, e.t, Pow2(e.bits), e.e, 1073741824)>> >>
    [] OTHER -> << >>

TInit == l = 1 /\ Init
TNext == Judge(Clauses) /\ UNCHANGED vars
TSpec == TInit /\ [][TNext]_<<l, vars>>
=============================================================================
