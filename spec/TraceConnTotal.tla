--------------------------- MODULE TraceConnTotal --------------------------
(* Judges recorded runs of real QuicConnections (netsim) against ConnTotal
   (property C05).  One trace = one (role, phase, class) edge replayed on a
   fresh pair of connections, or one random hostile session.  Lines:
     init  role phase lvl name ep sig  qs cp tls hc hcf   the edge, and the target's state right before the hostile input
     calls role calls raised term hostile cls             the API calls the driver made in one go on one endpoint, from the
                                                          hostile call on: receive_datagram or handle_timer, then next_event
                                                          (once per event), datagrams_to_send, get_timer - parallel lists
                                                          (raised[i] = "" or "Type@function"; term[i] = next_event returned
                                                          ConnectionTerminated)
     end   closed sent events accepted moved term code_hi code_lo has_code
   The statement's clause comes first: no call raises.  The outcome table is
   model detail (clause model:...), the phase guard is harness machinery. *)
EXTENDS ConnTotal, TraceBase

VARIABLE s
S0 == [role |-> "client", phase |-> "first", cls |-> [lvl |-> "v", name |-> "session", ep |-> "-", ft |-> "", asp |-> ""],
       rep |-> [client |-> FALSE, server |-> FALSE]]

ClassOf(e) == IF e.lvl = "v" THEN S0.cls
              ELSE CHOOSE c \in Classes : c.lvl = e.lvl /\ c.name = e.name /\ c.ep = e.ep
KnownClass(e) == e.lvl = "v" \/ \E c \in Classes : c.lvl = e.lvl /\ c.name = e.name /\ c.ep = e.ep

\* the phase the real connection is in, from its state fields
PhaseOf(r, o) ==
  IF o.qs = "TERMINATED" THEN "terminated"
  ELSE IF o.qs = "CLOSING" THEN (IF o.hcf THEN "closing" ELSE "hsclosing")
  ELSE IF o.qs = "DRAINING" THEN "draining"
  ELSE IF o.cp THEN (IF o.hcf THEN "closepending" ELSE "hsclosepending")
  ELSE IF r = "client" THEN
    CASE o.tls = "CLIENT_EXPECT_SERVER_HELLO" -> "first"
      [] o.tls = "CLIENT_EXPECT_ENCRYPTED_EXTENSIONS" -> "ee"
      [] o.tls = "CLIENT_EXPECT_CERTIFICATE_REQUEST_OR_CERTIFICATE" -> "cert"
      [] o.tls = "CLIENT_EXPECT_CERTIFICATE_VERIFY" -> "cv"
      [] o.tls = "CLIENT_EXPECT_FINISHED" -> "fin"
      [] o.tls = "CLIENT_POST_HANDSHAKE" -> (IF o.hcf THEN "confirmed" ELSE "complete")
      [] OTHER -> "?"
  ELSE
    CASE o.tls = "none" -> "first"
      [] o.tls = "SERVER_EXPECT_CLIENT_HELLO" -> (IF o.qs = "FIRSTFLIGHT" THEN "first" ELSE "ch")
      [] o.tls = "SERVER_EXPECT_FINISHED" -> "fin"
      [] o.tls = "SERVER_POST_HANDSHAKE" -> "confirmed"
      [] OTHER -> "?"

Code(e) == IF e.code_hi = 0 /\ e.code_lo <= 1024 THEN e.code_lo ELSE BigCode
Outcome(st, e) == IF e.closed THEN "Close"
                  ELSE IF e.accepted \/ e.moved \/ e.events > 0 THEN "Progress" ELSE "Ignored"

StepS(st, e) ==
  CASE e.ev = "init" -> [S0 EXCEPT !.role = e.role, !.phase = e.phase, !.cls = IF KnownClass(e) THEN ClassOf(e) ELSE S0.cls]
    [] e.ev = "calls" -> [st EXCEPT !.rep[e.role] = @ \/ \E i \in DOMAIN e.term : e.term[i]]
    [] OTHER -> st

Cl(st, e) ==
  CASE e.ev = "init" ->
         << <<"harness-guard:known-class", KnownClass(e)>>,
            <<"harness-guard:phase-reached", e.lvl = "v" \/ (e.phase \in Phases(e.role) /\ PhaseOf(e.role, e) = e.phase)>> >>
    [] e.ev = "calls" ->
         << <<"harness-guard:no-call-after-termination-reported", ~st.rep[e.role] \/ e.unlogged>>,
            <<"harness-guard:termination-ends-the-group", \A i \in DOMAIN e.term : e.term[i] => i = Len(e.term)>>,
            \* the property: the outcome of every call is one the model's action allows; Raised never is
            <<"never-raises", \A i \in DOMAIN e.calls :
                                 CallAllowed(st.rep[e.role] /\ ~e.unlogged, e.calls[i], IF e.raised[i] = "" THEN "Normal" ELSE "Raised")>> >>
    [] e.ev = "end" ->
         IF st.cls.lvl = "v" THEN << >> ELSE
         LET al == Allowed(st.role, st.phase, st.cls) o == Outcome(st, e) IN
         << <<"model:outcome-allowed", o \in al.kinds>>,
            <<"model:close-code-allowed", (o = "Close" /\ e.has_code) => Code(e) \in al.codes>> >>
    [] OTHER -> << >>

TInit == l = 1 /\ s = S0 /\ Init
TNext == /\ \/ /\ l <= Len(Lines)
               /\ LET f == FirstFailing(Cl(s, Lines[l])) IN
                    IF f = "" THEN TRUE ELSE PrintT(<<"TRACE-FAIL", l, f>>)
               /\ s' = StepS(s, Lines[l])
               /\ l' = l + 1
            \/ /\ l = Len(Lines) + 1
               /\ PrintT(<<"TRACE-END", Len(Lines)>>)
               /\ l' = l + 1 /\ UNCHANGED s
         /\ UNCHANGED vars
TSpec == TInit /\ [][TNext]_<<l, s, vars>>
============================================================================
