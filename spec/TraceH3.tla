------------------------------ MODULE TraceH3 ------------------------------
(* Judges runs recorded from real aioquic.h3.connection.H3Connection objects
   (harness/drivers/c14.py) for property C14.  A line is one run: the same
   per-stream byte strings as its canonical line (Lines[l - back]; the
   canonical run delivers every stream whole, in sender order), delivered in
   another way.

   op = "r"  a short stream built from a frame sequence TLC enumerated
             (H3Stream!RSeqs), the bytes are in the line; besides the
             statement, the run is replayed through the operators of H3Stream
             delivery by delivery and compared with H3Frames!Meaning.
   op = "v"  the streams one real endpoint produced through its sending API,
             delivered to the other; bodies are carried as lengths and running
             digests; Sent (from the API calls) is in the canonical line.

   Clauses of the statement come first:
     harness-guard                the schedule delivers exactly the streams
     independent:...              this run's events, per stream, normalised,
                                  equal the canonical run's
     round-trip:...               what arrived is what was submitted, in order
   then the clauses that compare the code with the rest of the specification
   (named model:...), which the driver reports as SPEC-DRIFT. *)
EXTENDS H3Stream, TraceBase

Canon(e) == Lines[l - e.back]

\* ------------------------------------------------ normalisation (digest form)
\* An event is [k, sid, n, dg, push, x, end, b]: k in H, P, D, W; for D and W n
\* is the length and dg the digest of all body bytes of the stream so far.
Item(e) == [k |-> e.k, n |-> e.n, dg |-> e.dg, push |-> e.push, x |-> e.x]
EndItem == [k |-> "E", n |-> 0, dg |-> "", push |-> -1, x |-> -1]
IsBody(k) == k \in {"D", "W"}
\* acc: items closed so far; cur: the body item still open for merging (or <<>>)
RECURSIVE NormFrom(_, _, _, _)
NormFrom(evs, i, acc, cur) ==
  IF i > Len(evs) THEN acc \o cur
  ELSE LET e == evs[i]
           fits == cur # <<>> /\ cur[1].k = e.k /\ cur[1].push = e.push /\ cur[1].x = e.x
           tail == IF e.end THEN <<EndItem>> ELSE <<>> IN
       IF IsBody(e.k)
       THEN IF e.n = 0                                             \* empty body event: nothing but a possible end
            THEN IF e.end THEN NormFrom(evs, i + 1, acc \o cur \o tail, <<>>) ELSE NormFrom(evs, i + 1, acc, cur)
            ELSE LET c2 == IF fits THEN <<[cur[1] EXCEPT !.n = @ + e.n, !.dg = e.dg]>>     \* merge adjacent
                           ELSE <<Item(e)>>
                     a2 == IF fits THEN acc ELSE acc \o cur IN
                 IF e.end THEN NormFrom(evs, i + 1, a2 \o c2 \o tail, <<>>) ELSE NormFrom(evs, i + 1, a2, c2)
       ELSE NormFrom(evs, i + 1, acc \o cur \o <<Item(e)>> \o tail, <<>>)
Norm(evs) == NormFrom(evs, 1, <<>>, <<>>)

\* [[sid, events], ...] from the events of each delivery (op "r" lines carry only those)
RECURSIVE FlatSteps(_, _)
FlatSteps(steps, i) == IF i > Len(steps) THEN <<>> ELSE steps[i] \o FlatSteps(steps, i + 1)
StepsObs(steps) == LET all == FlatSteps(steps, 1)
                       S == {all[i].sid : i \in DOMAIN all}
                       RECURSIVE Tab(_)
                       Tab(T) == IF T = {} THEN <<>>
                                 ELSE LET s == CHOOSE x \in T : TRUE IN
                                      <<<<s, SelectSeq(all, LAMBDA ev : ev.sid = s)>>>> \o Tab(T \ {s}) IN
                   Tab(S)
\* events of one stream out of [[sid, events], ...]
EvOf(tab, sid) == LET S == {i \in DOMAIN tab : tab[i][1] = sid} IN
                  IF S = {} THEN <<>> ELSE tab[CHOOSE i \in S : TRUE][2]
SidsOf(tab) == {tab[i][1] : i \in DOMAIN tab}
Heads(items) == SelectSeq(items, LAMBDA x : x.k \in {"H", "P"})
Bodies(items) == SelectSeq(items, LAMBDA x : IsBody(x.k))
Ends(items) == Len(SelectSeq(items, LAMBDA x : x.k = "E"))
NoEnd(items) == SelectSeq(items, LAMBDA x : x.k # "E")

\* streams whose FIN cuts a frame in two are compared without the end token
Trunc(e) == ToSet(Canon(e).trunc)
Cmp(e, sid, items) == IF sid \in Trunc(e) THEN NoEnd(items) ELSE items

\* ------------------------------------------------------------------ guard
\* per stream, in one scan of the schedule: bytes delivered, number of deliveries
\* carrying FIN, and whether the last delivery of the stream carries it
RECURSIVE Scan(_, _, _)
Scan(sched, sid, i) ==
  IF i = 0 THEN [sum |-> 0, fins |-> 0, finLast |-> FALSE]
  ELSE LET r == Scan(sched, sid, i - 1) IN
       IF sched[i][1] # sid THEN r
       ELSE [sum |-> r.sum + sched[i][2], fins |-> r.fins + (IF sched[i][3] THEN 1 ELSE 0), finLast |-> sched[i][3]]
Guard(e) ==
  LET st == Canon(e).streams IN       \* [[sid, length, fin], ...]
  /\ \A i \in DOMAIN e.sched : e.sched[i][2] > 0 \/ e.sched[i][3]          \* DeliveryOk
  /\ {e.sched[i][1] : i \in DOMAIN e.sched} \subseteq {st[i][1] : i \in DOMAIN st}
  /\ \A i \in DOMAIN st :
       LET r == Scan(e.sched, st[i][1], Len(e.sched)) IN
       /\ r.sum = st[i][2]                                  \* every byte, once
       /\ r.fins = (IF st[i][3] THEN 1 ELSE 0)              \* FIN iff the stream ends ...
       /\ st[i][3] => r.finLast                             \* ... and with its last delivery

\* ------------------------------------------------------- statement clauses
\* (the normalised events of every stream are computed once per line: NO for
\* this run, NC for the canonical run, NS for what was submitted)
ObsOf(e) == IF e.op = "r" THEN StepsObs(e.steps) ELSE e.obs
AllSids(e) == SidsOf(ObsOf(e)) \cup SidsOf(ObsOf(Canon(e))) \cup SidsOf(Canon(e).sent)
NormTab(tab, S) == TLCEval([s \in S |-> Norm(EvOf(tab, s))])     \* evaluated once, not at every use
Same(e, NO, NC, F(_)) == \A s \in DOMAIN NO : F(Cmp(e, s, NO[s])) = F(Cmp(e, s, NC[s]))
Arrived(NO, NS, F(_)) == \A s \in DOMAIN NO : F(NO[s]) = F(NS[s])
Open(e) == e.closed = "" /\ Canon(e).closed = ""
Id(x) == x

\* --------------------------------------------- replay through the model (op "r")
BytesOf(e, sid) == LET st == Canon(e).bytes IN st[CHOOSE i \in DOMAIN st : st[i][1] = sid][2]
\* name of a header block: digest of the header list the driver encoded into it
BlkName(e, blk) == LET T == Canon(e).blocks
                       S == {i \in DOMAIN T : T[i][1] = blk} IN
                   IF S = {} THEN "?" ELSE T[CHOOSE i \in S : TRUE][2]
\* tokens of the model / of H3Frames!Meaning with blocks named, and of observed events
NameTok(e, t) == IF t.k \in {"H", "P"} THEN [t EXCEPT !.blk = BlkName(e, t.blk)] ELSE t
NameToks(e, ts) == [i \in DOMAIN ts |-> NameTok(e, ts[i])]
ObsToks1(ev) == CASE ev.k = "H" -> <<HTok(ev.dg, ev.push)>> \o EndIf(ev.end)
                  [] ev.k = "P" -> <<PTok(ev.dg, ev.x)>>
                  [] ev.k = "D" -> DToks(ev.b, ev.push) \o EndIf(ev.end)
                  [] ev.k = "W" -> WToks(ev.b, ev.x) \o EndIf(ev.end)
RECURSIVE ObsToks(_)
ObsToks(evs) == IF evs = <<>> THEN <<>> ELSE ObsToks1(Head(evs)) \o ObsToks(Tail(evs))

RSids(e) == {Canon(e).bytes[i][1] : i \in DOMAIN Canon(e).bytes}
\* state after the first i deliveries: [c, pos, ok (every delivery so far produced the observed events)]
RECURSIVE Replay(_, _)
Replay(e, i) ==
  IF i = 0 THEN [c |-> NewConn(Canon(e).client, RSids(e), Canon(e).encNeed), pos |-> [s \in RSids(e) |-> 0], ok |-> TRUE]
  ELSE LET p == Replay(e, i - 1)
           d == e.sched[i]
           sid == d[1]
           data == Slice(BytesOf(e, sid), p.pos[sid], p.pos[sid] + d[2])
           r == HandleEventF(p.c, sid, data, d[3])
           same == \A s \in RSids(e) :
                     NameToks(e, Normalise(OfStream(r.evs, s))) = ObsToks(OfStream(e.steps[i], s)) IN
       [c |-> r.c, pos |-> [p.pos EXCEPT ![sid] = @ + d[2]], ok |-> p.ok /\ same]
\* "the insertions have arrived" for Meaning: the whole encoder stream was delivered
EncSid(e) == {s \in RSids(e) : IsUni(s) /\ BytesOf(e, s) # <<>> /\ BytesOf(e, s)[1] = ST_QENC}
MeaningOk(e) ==
  LET st == Canon(e).streams
      fin(s) == st[CHOOSE i \in DOMAIN st : st[i][1] = s][3]
      m(s) == Meaning(s, BytesOf(e, s), fin(s), Canon(e).client, TRUE)
      anyErr == \E s \in RSids(e) : m(s).err IN
  IF anyErr THEN e.closed # ""
  ELSE e.closed = "" /\ \A s \in RSids(e) : ObsToks(EvOf(ObsOf(e), s)) = NameToks(e, m(s).toks)

Clauses(e) ==
  IF ~Guard(e) THEN << <<"harness-guard", FALSE>> >> ELSE
  LET S  == AllSids(e)
      NO == NormTab(ObsOf(e), S)
      NC == NormTab(ObsOf(Canon(e)), S)
      stmt == << <<"independent:connection-closed", (e.closed = "") = (Canon(e).closed = "")>>,
                 <<"independent:headers", Open(e) => Same(e, NO, NC, Heads)>>,
                 <<"independent:data", Open(e) => Same(e, NO, NC, Bodies)>>,
                 <<"independent:end-of-stream", Open(e) => Same(e, NO, NC, Ends)>>,
                 <<"independent:order", Open(e) => Same(e, NO, NC, Id)>> >> IN
  IF e.op = "v" THEN
    LET NS == NormTab(Canon(e).sent, S) IN
    stmt \o << <<"round-trip:connection-closed", e.closed = "">>,
               <<"round-trip:headers", e.closed = "" => Arrived(NO, NS, Heads)>>,
               <<"round-trip:data", e.closed = "" => Arrived(NO, NS, Bodies)>>,
               <<"round-trip:end-of-stream", e.closed = "" => Arrived(NO, NS, Ends)>>,
               <<"round-trip:order", e.closed = "" => Arrived(NO, NS, Id)>> >>
  ELSE
    LET f == Replay(e, Len(e.sched)) IN
    \* (statement clauses first: only the first failing clause of a line is reported)
    stmt \o << \* the end of a stream whose last frame is cut by the FIN: the peer is in error (RFC 9114 7.1), but
               \* the statement makes no exception - the events still depend only on the bytes of the stream
               <<"independent:end-of-stream-cut-mid-frame", Open(e) => \A s \in Trunc(e) \cap S : Ends(NO[s]) = Ends(NC[s])>>,
               <<"model:closed", f.c.done = (e.closed # "") /\ (f.c.done => f.c.err = e.closed)>>,
               <<"model:events", f.ok>>,
               <<"model:meaning", MeaningOk(e)>> >>

TInit == l = 1 /\ Init
TNext == Judge(Clauses) /\ UNCHANGED vars
TSpec == TInit /\ [][TNext]_<<l, vars>>
=============================================================================
