---------------------------- MODULE StreamSend ----------------------------
(* Send half of a QUIC stream (aioquic/quic/stream.py QuicStreamSender).
   Frames that were emitted and whose fate (ACKED / LOST) has not yet been
   reported are kept in `outstanding` (a history component maintained by the
   environment, i.e. by the loss-recovery layer in the real system). *)
EXTENDS Naturals, Integers, Sequences, FiniteSets

CONSTANT N
NONE == -1
Byte(o) == (31 * o + 7) % 251

VARIABLES st, out
vars == <<st, out>>
View == st

InitState == [written |-> 0, finAt |-> NONE, pending |-> {}, pendingFin |-> FALSE,
              acked |-> {}, ackedFin |-> FALSE, highest |-> 0,
              reset |-> FALSE, resetPending |-> FALSE, resetInFlight |-> 0,
              resetAcked |-> FALSE, finished |-> FALSE, bufferEmpty |-> TRUE,
              outstanding |-> {}]

Prefix(S) == CHOOSE k \in 0..(Cardinality(S)) :
                (\A i \in 0..k-1 : i \in S) /\ k \notin S
Max(a, b) == IF a > b THEN a ELSE b
Min(a, b) == IF a < b THEN a ELSE b
SetMin(S) == CHOOSE x \in S : \A y \in S : x <= y
NoOut == [k |-> "None"]

\* write(data, end_stream): API precondition  finAt = NONE /\ ~reset
WriteOk(s) == s.finAt = NONE /\ ~s.reset
WriteF(s, n, fin) ==
  LET w2 == s.written + n IN
  [st |-> [s EXCEPT !.written = w2,
                    !.pending = s.pending \cup (s.written .. w2 - 1),
                    !.bufferEmpty = IF n > 0 \/ fin THEN FALSE ELSE s.bufferEmpty,
                    !.finAt = IF fin THEN w2 ELSE NONE,
                    !.pendingFin = fin],
   out |-> NoOut]

\* get_frame(max_size, max_offset): API precondition ~reset
GetFrameOk(s) == ~s.reset
GetFrameF(s, maxSize, maxOff) ==
  IF s.pending = {}
  THEN IF s.pendingFin
       THEN [st |-> [s EXCEPT !.pendingFin = FALSE,
                              !.outstanding = s.outstanding \cup {<<s.finAt, s.finAt, TRUE>>}],
             out |-> [k |-> "Frame", offset |-> s.finAt, bytes |-> <<>>, fin |-> TRUE]]
       ELSE [st |-> [s EXCEPT !.bufferEmpty = TRUE], out |-> NoOut]
  ELSE LET start == SetMin(s.pending)
           rstop == CHOOSE x \in (start + 1)..(s.written) :
                       x \notin s.pending /\ \A y \in start..x-1 : y \in s.pending
           stop0 == Min(rstop, start + maxSize)
           stop  == IF maxOff # NONE /\ stop0 > maxOff THEN maxOff ELSE stop0
           fin   == s.finAt = stop
       IN IF stop <= start
          THEN [st |-> s, out |-> NoOut]
          ELSE [st |-> [s EXCEPT !.pending = s.pending \ (start .. stop-1),
                                 !.highest = Max(s.highest, stop),
                                 !.pendingFin = IF fin THEN FALSE ELSE s.pendingFin,
                                 !.outstanding = s.outstanding \cup {<<start, stop, fin>>}],
                out |-> [k |-> "Frame", offset |-> start,
                         bytes |-> [i \in 1..(stop - start) |-> Byte(start + i - 1)],
                         fin |-> fin]]

\* on_data_delivery(state, start, stop, fin) for an outstanding frame f
OnDeliveryF(s, isAck, f) ==
  LET s1 == [s EXCEPT !.outstanding = s.outstanding \ {f}] IN
  IF s.reset THEN [st |-> s1, out |-> NoOut]
  ELSE IF isAck
  THEN LET acked2 == s.acked \cup (f[1] .. f[2]-1)
           afin2  == s.ackedFin \/ f[3]
       IN [st |-> [s1 EXCEPT !.acked = acked2, !.ackedFin = afin2,
                             !.finished = s.finished \/
                                  (s.finAt # NONE /\ Prefix(acked2) = s.finAt /\ afin2)],
           out |-> NoOut]
  ELSE [st |-> [s1 EXCEPT !.pending = s.pending \cup (f[1] .. f[2]-1),
                          !.pendingFin = s.pendingFin \/ f[3],
                          !.bufferEmpty = IF f[2] > f[1] \/ f[3] THEN FALSE ELSE s.bufferEmpty],
        out |-> NoOut]

ResetF(s) ==
  [st |-> IF s.reset THEN s
          ELSE [s EXCEPT !.reset = TRUE, !.resetPending = TRUE, !.bufferEmpty = TRUE],
   out |-> NoOut]

(* The environment (the connection) asks for a RESET_STREAM frame only while
   one is pending and reports the fate of a frame only for a frame that was
   emitted (on_reset_delivery is registered as the delivery handler of the
   packet that carries it); resetInFlight is the environment's count of
   emitted frames whose fate is still unknown. *)
GetResetFrameOk(s) == s.reset /\ s.resetPending
GetResetFrameF(s) ==
  [st |-> [s EXCEPT !.resetPending = FALSE, !.resetInFlight = @ + 1],
   out |-> [k |-> "ResetFrame", finalSize |-> s.highest]]

OnResetDeliveryOk(s) == s.resetInFlight > 0
OnResetDeliveryF(s, isAck) ==
  [st |-> IF isAck THEN [s EXCEPT !.resetInFlight = @ - 1, !.finished = TRUE, !.resetAcked = TRUE]
                   ELSE [s EXCEPT !.resetInFlight = @ - 1, !.resetPending = TRUE],
   out |-> NoOut]

Apply(r) == st' = r.st /\ out' = r.out
Init == st = InitState /\ out = NoOut
Next == \/ \E n \in 0..N, fin \in BOOLEAN :
             WriteOk(st) /\ st.written + n <= N /\ Apply(WriteF(st, n, fin))
        \/ \E ms \in 0..N+1, mo \in {NONE} \cup 0..N+1 :
             GetFrameOk(st) /\ Apply(GetFrameF(st, ms, mo))
        \/ \E f \in st.outstanding, a \in BOOLEAN : Apply(OnDeliveryF(st, a, f))
        \/ Apply(ResetF(st))
        \/ GetResetFrameOk(st) /\ Apply(GetResetFrameF(st))
        \/ \E a \in BOOLEAN : OnResetDeliveryOk(st) /\ Apply(OnResetDeliveryF(st, a))
Spec == Init /\ [][Next]_vars

---------------------------------------------------------------------------
(* Properties (C10, send half) *)
Covered(s, o) == \E f \in s.outstanding : f[1] <= o /\ o < f[2]

\* unacknowledged bytes and FIN are re-offered after loss: nothing written is
\* ever in none of {acknowledged, pending, in flight}, and pending data keeps
\* the stream marked as having something to send
NothingDropped(s) ==
  ~s.reset =>
     /\ \A o \in 0..s.written-1 : o \in s.acked \/ o \in s.pending \/ Covered(s, o)
     /\ (s.finAt # NONE => s.ackedFin \/ s.pendingFin \/ \E f \in s.outstanding : f[3])
     /\ ((s.pending # {} \/ s.pendingFin) => ~s.bufferEmpty)
\* nothing is offered after a reset
QuietAfterReset(s) == s.reset => s.bufferEmpty
\* completion exactly when all bytes and the FIN, or the reset, were acknowledged
Completion(s) ==
  s.finished <=> (s.resetAcked \/ (s.finAt # NONE /\ Prefix(s.acked) = s.finAt /\ s.ackedFin))
Shape(s) == /\ s.highest <= s.written
            /\ s.pending \subseteq 0..s.written-1
            /\ s.acked \subseteq 0..s.written-1
            /\ (s.finAt # NONE => s.finAt = s.written)
            /\ \A f \in s.outstanding : f[1] <= f[2] /\ f[2] <= s.highest
\* a reset is pending, in flight (once), or acknowledged: it is never dropped
\* and never in flight twice
ResetTracked(s) == /\ s.resetInFlight \in 0..1
                   /\ (s.reset <=> (s.resetPending \/ s.resetInFlight = 1 \/ s.resetAcked))
                   /\ ~(s.resetPending /\ s.resetInFlight = 1)
StateOk(s) == NothingDropped(s) /\ QuietAfterReset(s) /\ Completion(s) /\ Shape(s) /\ ResetTracked(s)
TypeOk == StateOk(st)
\* emitted frames carry exactly the written bytes for their offsets
FrameBytes == [][out'.k = "Frame" =>
                   /\ out'.offset + Len(out'.bytes) <= st.written
                   /\ \A i \in 1..Len(out'.bytes) : out'.bytes[i] = Byte(out'.offset + i - 1)]_vars
============================================================================
