------------------------------ MODULE H3Stream ------------------------------
(* The incremental HTTP/3 receive path of aioquic/h3/connection.py:
     ReqF          _receive_request_or_push_data   (request and push streams)
     UniLoop       _receive_stream_data_uni        (unidirectional streams)
     HandleF       _handle_request_or_push_frame
     ControlF      _handle_control_frame            (only "is it an error")
     Unblock       the unblocked_streams loop of _receive_stream_data_uni
     HandleEventF  handle_event                     (a protocol error closes the
                   connection, the events of that delivery are lost)
   with one delivery (StreamDataReceived: stream id, bytes, FIN) per step, and
   the theorem of property C14, checked by TLC for every byte string of a
   bounded domain and every way of cutting and interleaving deliveries:

       after any sequence of deliveries, the events handed out so far for a
       stream, normalised (adjacent DATA merged, empty non-final DATA dropped,
       the end-of-stream flag taken as a token of its own), are exactly the
       tokens H3Frames.Meaning assigns to the bytes delivered so far

   -- so they are a function of the bytes alone, and the run that delivers a
   string in one piece is just one of the runs.

   This is the *design*.  Three points of it were found missing in the code as
   first shipped and have been repaired there since (Shipped = TRUE gives the
   old behaviour, for the probe that the theorem tells the difference):
     - a blocked header block is resumed as the frame it came in
       (HEADERS or PUSH_PROMISE);
     - a stream whose last frame carries no end-of-stream flag of its own
       (PUSH_PROMISE, ignored frame types) still reports its end;
     - the end of a request or push stream in the middle of a frame header or
       payload closes the connection with H3_FRAME_ERROR (RFC 9114 7.1). *)
EXTENDS H3Frames, TLC

CONSTANT Shipped   \* FALSE: the design.  TRUE: the three points below as the code was first shipped -- used
                   \* only to show that the theorem tells the difference (TLC must then find a counterexample)

\* ------------------------------------------------------------------ events
Hev(sid, blk, push, end)   == [k |-> "H", sid |-> sid, blk |-> blk, push |-> push, end |-> end]
Pev(sid, blk, pid)         == [k |-> "P", sid |-> sid, blk |-> blk, pid |-> pid]
Dev(sid, bytes, push, end) == [k |-> "D", sid |-> sid, bytes |-> bytes, push |-> push, end |-> end]
Wev(sid, bytes, ses, end)  == [k |-> "W", sid |-> sid, bytes |-> bytes, ses |-> ses, end |-> end]

EndIf(b) == IF b THEN <<ETok>> ELSE <<>>
Toks(e) == CASE e.k = "H" -> <<HTok(e.blk, e.push)>> \o EndIf(e.end)
             [] e.k = "P" -> <<PTok(e.blk, e.pid)>>
             [] e.k = "D" -> DToks(e.bytes, e.push) \o EndIf(e.end)
             [] e.k = "W" -> WToks(e.bytes, e.ses) \o EndIf(e.end)
\* the events of one stream as tokens
RECURSIVE Normalise(_)
Normalise(evs) == IF evs = <<>> THEN <<>> ELSE Toks(Head(evs)) \o Normalise(Tail(evs))
OfStream(evs, sid) == SelectSeq(evs, LAMBDA e : e.sid = sid)

\* ------------------------------------------------------------------- state
NewStream(sid) ==
  [sid |-> sid, buf |-> <<>>, ended |-> FALSE,
   ftype |-> None, fsize |-> None,            \* frame being received: type, bytes left
   hs |-> 0,                                  \* HeadersState
   blocked |-> FALSE,                         \* waiting for the encoder stream ...
   bkind |-> None, bpid |-> None, bblk |-> <<>>,   \* ... with this frame (block held by the QPACK decoder)
   push |-> None, ses |-> None, stype |-> None]

NewConn(client, sids, encNeed) ==
  [client |-> client, done |-> FALSE, err |-> "",
   st |-> [s \in sids |-> NewStream(s)],
   encGot |-> 0, encNeed |-> encNeed,         \* encoder-stream bytes fed to the QPACK decoder / needed by dynamic blocks
   ctl |-> None, qenc |-> None, qdec |-> None, settings |-> FALSE]
EncOk(c) == c.encGot >= c.encNeed

\* ------------------------------------------------- _handle_request_or_push_frame
HandleF(c, s, ft, fd, resume, ended) ==
  LET Ok(s2, evs) == [s |-> s2, evs |-> evs, err |-> "", blocked |-> FALSE]
      Er(code)    == [s |-> s, evs |-> <<>>, err |-> code, blocked |-> FALSE]
      Bl(s2)      == [s |-> s2, evs |-> <<>>, err |-> "", blocked |-> TRUE]
      \* DESIGN: the end of the stream is reported with whatever frame comes last
      EndOnly     == IF ended /\ ~Shipped THEN <<Dev(s.sid, <<>>, s.push, TRUE)>> ELSE <<>> IN
  CASE ft = DATA ->
         IF s.hs # 1 THEN Er("H3_FRAME_UNEXPECTED")
         ELSE Ok(s, IF ended \/ fd # <<>> THEN <<Dev(s.sid, fd, s.push, ended)>> ELSE <<>>)
    [] ft = HEADERS ->
         IF s.hs = 2 THEN Er("H3_FRAME_UNEXPECTED")
         ELSE IF ~resume /\ ~Avail(fd, EncOk(c))
         THEN Bl([s EXCEPT !.blocked = TRUE, !.bkind = HEADERS, !.bblk = fd])
         ELSE Ok([s EXCEPT !.hs = @ + 1], <<Hev(s.sid, IF resume THEN s.bblk ELSE fd, s.push, ended)>>)
    [] ft = PUSH_PROMISE /\ s.push = None ->
         IF ~c.client THEN Er("H3_FRAME_UNEXPECTED")
         ELSE IF resume THEN Ok(s, <<Pev(s.sid, s.bblk, s.bpid)>> \o EndOnly)   \* DESIGN
         ELSE LET v == VarintAt(fd, 0) IN
           IF ~v.ok THEN Er("H3_FRAME_ERROR")          \* no push id in the frame
           ELSE LET blk == Slice(fd, v.next, Len(fd)) IN
             IF ~Avail(blk, EncOk(c))
             THEN Bl([s EXCEPT !.blocked = TRUE, !.bkind = PUSH_PROMISE, !.bpid = v.val, !.bblk = blk])
             ELSE Ok(s, <<Pev(s.sid, blk, v.val)>> \o EndOnly)
    [] ft \in Reserved /\ ~(ft = PUSH_PROMISE /\ s.push = None) -> Er("H3_FRAME_UNEXPECTED")
    [] OTHER -> Ok(s, EndOnly)

\* ------------------------------------------------- _receive_request_or_push_data
\* the while loop; pos = buf.tell(), consumed as in the code
RECURSIVE ReqLoop(_, _, _, _, _, _)
ReqLoop(c, s, pos, consumed, evs, fin) ==
  LET buf == s.buf
      \* after the loop: drop what was consumed; a frame cut short by the end of
      \* the stream is a connection error (not judged while the stream is blocked)
      Finish(s2, cons, evs2) ==
        LET s3 == [s2 EXCEPT !.buf = Slice(buf, cons, Len(buf))] IN
        IF ~Shipped /\ s3.ended /\ ~s3.blocked /\ (s3.buf # <<>> \/ s3.fsize # None)
        THEN [s |-> s3, evs |-> <<>>, err |-> "H3_FRAME_ERROR"]
        ELSE [s |-> s3, evs |-> evs2, err |-> ""] IN
  IF pos >= Len(buf) THEN Finish(s, consumed, evs)
  ELSE
  LET needHdr == s.fsize = None
      t == VarintAt(buf, pos)
      n == VarintAt(buf, t.next) IN
  IF needHdr /\ ~t.ok THEN Finish(s, consumed, evs)
  ELSE IF needHdr /\ ~n.ok THEN Finish([s EXCEPT !.ftype = t.val], consumed, evs)
  ELSE IF needHdr /\ t.val = WT_STREAM THEN
    \* WEBTRANSPORT_STREAM lasts until the end of the stream
    LET fd == Slice(buf, n.next, Len(buf)) IN
    [s |-> [s EXCEPT !.ftype = WT_STREAM, !.ses = n.val, !.fsize = None, !.buf = <<>>],
     evs |-> evs \o (IF fd # <<>> \/ fin THEN <<Wev(s.sid, fd, n.val, fin)>> ELSE <<>>), err |-> ""]
  ELSE
  LET s1 == IF needHdr THEN [s EXCEPT !.ftype = t.val, !.fsize = n.val] ELSE s
      p1 == IF needHdr THEN n.next ELSE pos
      c1 == IF needHdr THEN n.next ELSE consumed
      chunk == Min(s1.fsize, Len(buf) - c1) IN
  IF s1.ftype # DATA /\ chunk < s1.fsize THEN Finish(s1, c1, evs)
  ELSE
  LET fd == Slice(buf, p1, p1 + chunk)
      p2 == p1 + chunk
      left == s1.fsize - chunk
      s2 == IF left = 0 THEN [s1 EXCEPT !.fsize = None, !.ftype = None] ELSE [s1 EXCEPT !.fsize = left]
      h == HandleF(c, s2, s1.ftype, fd, FALSE, s2.ended /\ p2 >= Len(buf)) IN
  IF h.err # "" THEN [s |-> s2, evs |-> <<>>, err |-> h.err]
  ELSE IF h.blocked THEN Finish(h.s, p2, evs)
  ELSE ReqLoop(c, h.s, p2, p2, evs \o h.evs, fin)

ReqF(c, s0, data, fin) ==
  LET s == [s0 EXCEPT !.buf = @ \o data, !.ended = @ \/ fin]
      R(s2, evs) == [s |-> s2, evs |-> evs, err |-> ""] IN
  IF s.blocked THEN R(s, <<>>)
  ELSE IF s.ftype = WT_STREAM /\ s.ses # None                    \* WEBTRANSPORT_STREAM fragments
  THEN R([s EXCEPT !.buf = <<>>], <<Wev(s.sid, s.buf, s.ses, fin)>>)
  ELSE IF s.ftype = DATA /\ s.fsize # None /\ Len(s.buf) < s.fsize   \* DATA frame fragments
  THEN IF fin /\ ~Shipped THEN [s |-> s, evs |-> <<>>, err |-> "H3_FRAME_ERROR"]      \* ... cut by the end of the stream
       ELSE R([s EXCEPT !.fsize = @ - Len(s.buf), !.buf = <<>>], <<Dev(s.sid, s.buf, s.push, FALSE)>>)
  ELSE IF fin /\ s.buf = <<>>                                     \* lone FIN
  THEN IF s.fsize # None /\ ~Shipped THEN [s |-> s, evs |-> <<>>, err |-> "H3_FRAME_ERROR"]
       ELSE R(s, <<Dev(s.sid, <<>>, s.push, TRUE)>>)
  ELSE ReqLoop(c, s, 0, 0, <<>>, fin)

\* --------------------------------------------------------- _handle_control_frame
ControlF(c, ft) ==
  IF ft # SETTINGS /\ ~c.settings THEN [c |-> c, err |-> "H3_MISSING_SETTINGS"]
  ELSE IF ft = SETTINGS
  THEN IF c.settings THEN [c |-> c, err |-> "H3_FRAME_UNEXPECTED"] ELSE [c |-> [c EXCEPT !.settings = TRUE], err |-> ""]
  ELSE IF ft = MAX_PUSH_ID /\ c.client THEN [c |-> c, err |-> "H3_FRAME_UNEXPECTED"]
  ELSE IF ft \in {DATA, HEADERS, PUSH_PROMISE, DUPLICATE_PUSH} THEN [c |-> c, err |-> "H3_FRAME_UNEXPECTED"]
  ELSE [c |-> c, err |-> ""]

\* ------------------------------------------------------ _receive_stream_data_uni
\* the while loop up to "remove processed data from buffer" (or an early return)
RECURSIVE UniLoop(_, _, _, _, _)
UniLoop(c, s, pos, consumed, fin) ==
  LET buf == s.buf
      Out(c2, s2, evs, e) == [c |-> c2, s |-> s2, evs |-> evs, err |-> e]
      Break(c2, s2, cons) == Out(c2, [s2 EXCEPT !.buf = Slice(buf, cons, Len(buf))], <<>>, "") IN
  IF ~(s.stype \in {ST_PUSH, ST_CONTROL, ST_WT} \/ pos < Len(buf)) THEN Break(c, s, consumed)
  ELSE IF s.stype = None THEN
    LET t == VarintAt(buf, pos) IN
    IF ~t.ok THEN Break(c, s, consumed)
    ELSE IF \/ t.val = ST_CONTROL /\ c.ctl # None
            \/ t.val = ST_QDEC /\ c.qdec # None
            \/ t.val = ST_QENC /\ c.qenc # None
         THEN Out(c, s, <<>>, "H3_STREAM_CREATION_ERROR")
    ELSE UniLoop([c EXCEPT !.ctl  = IF t.val = ST_CONTROL THEN s.sid ELSE @,
                           !.qdec = IF t.val = ST_QDEC THEN s.sid ELSE @,
                           !.qenc = IF t.val = ST_QENC THEN s.sid ELSE @],
                 [s EXCEPT !.stype = t.val], t.next, t.next, fin)
  ELSE CASE s.stype = ST_CONTROL ->
         IF fin THEN Out(c, s, <<>>, "H3_CLOSED_CRITICAL_STREAM")
         ELSE LET t == VarintAt(buf, pos)
                  n == VarintAt(buf, t.next) IN
           IF ~t.ok \/ ~n.ok \/ n.next + n.val > Len(buf) THEN Break(c, s, consumed)
           ELSE LET r == ControlF(c, t.val) IN
             IF r.err # "" THEN Out(c, s, <<>>, r.err)
             ELSE UniLoop(r.c, s, n.next + n.val, n.next + n.val, fin)
    [] s.stype = ST_PUSH ->
         LET v == VarintAt(buf, pos) IN
         IF s.push = None /\ ~v.ok THEN Break(c, s, consumed)
         ELSE LET s1 == IF s.push = None THEN [s EXCEPT !.push = v.val] ELSE s
                  cons == IF s.push = None THEN v.next ELSE consumed
                  r == ReqF(c, [s1 EXCEPT !.buf = Slice(buf, cons, Len(buf))], <<>>, fin) IN
              Out(c, r.s, r.evs, r.err)
    [] s.stype = ST_WT ->
         LET v == VarintAt(buf, pos) IN
         IF s.ses = None /\ ~v.ok THEN Break(c, s, consumed)
         ELSE LET ses == IF s.ses = None THEN v.val ELSE s.ses
                  cons == IF s.ses = None THEN v.next ELSE consumed
                  fd == Slice(buf, cons, Len(buf)) IN
              Out(c, [s EXCEPT !.ses = ses, !.buf = <<>>],
                  IF fd # <<>> \/ fin THEN <<Wev(s.sid, fd, ses, s.ended)>> ELSE <<>>, "")
    [] s.stype = ST_QENC ->      \* unframed data to the QPACK decoder
         UniLoop([c EXCEPT !.encGot = @ + (Len(buf) - pos)], s, Len(buf), Len(buf), fin)
    [] OTHER ->                   \* QPACK decoder stream, unknown stream types: consumed
         UniLoop(c, s, Len(buf), Len(buf), fin)

\* "process unblocked streams": every stream waiting for the encoder stream
RECURSIVE Unblock(_, _, _)
Unblock(c, sids, evs) ==
  IF sids = {} THEN [c |-> c, evs |-> evs, err |-> ""]
  ELSE LET sid == CHOOSE x \in sids : \A y \in sids : x <= y
           s == c.st[sid]
           \* DESIGN: resumed as the frame that was blocked (the code resumes HEADERS)
           h == HandleF(c, s, IF Shipped THEN HEADERS ELSE s.bkind, <<>>, TRUE, s.ended /\ s.buf = <<>>) IN
    IF h.err # "" THEN [c |-> c, evs |-> <<>>, err |-> h.err]
    ELSE LET s1 == [h.s EXCEPT !.blocked = FALSE, !.bkind = None, !.bpid = None, !.bblk = <<>>]
             r == IF s1.buf # <<>> THEN ReqF(c, s1, <<>>, s1.ended)
                  ELSE [s |-> s1, evs |-> <<>>, err |-> ""] IN
      IF r.err # "" THEN [c |-> c, evs |-> <<>>, err |-> r.err]
      ELSE Unblock([c EXCEPT !.st[sid] = r.s], sids \ {sid}, evs \o h.evs \o r.evs)

\* ------------------------------------------------------------------ handle_event
HandleEventF(c, sid, data, fin) ==
  LET Closed(code) == [c |-> [c EXCEPT !.done = TRUE, !.err = code], evs |-> <<>>] IN
  IF c.done THEN [c |-> c, evs |-> <<>>]
  ELSE IF IsUni(sid) THEN
    LET s0 == [c.st[sid] EXCEPT !.buf = @ \o data, !.ended = @ \/ fin]
        r == UniLoop(c, s0, 0, 0, fin) IN
    IF r.err # "" THEN Closed(r.err)
    ELSE LET c1 == [r.c EXCEPT !.st[sid] = r.s]
             u == IF ~EncOk(c) /\ EncOk(c1)
                  THEN Unblock(c1, {x \in DOMAIN c1.st : c1.st[x].blocked}, r.evs)
                  ELSE [c |-> c1, evs |-> r.evs, err |-> ""] IN
         IF u.err # "" THEN Closed(u.err) ELSE [c |-> u.c, evs |-> u.evs]
  ELSE LET r == ReqF(c, c.st[sid], data, fin) IN
    IF r.err # "" THEN Closed(r.err) ELSE [c |-> [c EXCEPT !.st[sid] = r.s], evs |-> r.evs]

\* a delivery the QUIC layer can make (stream.py: data or FIN, never neither)
DeliveryOk(data, fin) == data # <<>> \/ fin

\* ====================================================== design configuration
(* The peer writes frames on its streams (Extend: the byte strings grow frame
   by frame, every frame sequence with 1- and 2-byte varints up to L bytes per
   stream), the QUIC layer delivers what has been written in pieces of any size
   (Feed), streams interleaved in any order, FIN with the last piece or on its
   own.  Every byte string of the domain cut in every way is one path. *)
CONSTANTS Plan,       \* set of configurations <<streams, L, client>> explored in one run:
                      \*   streams: "req", "reqenc", "push", "two", "uni"
                      \*   L: longest request/push stream considered (bytes of frames)
                      \*   client: the receiving endpoint is a client
          EnumSet     \* "enum-quick" / "enum-thorough": which RSeqs EnumSpec prints

VARIABLES plan,       \* the configuration of this behaviour (chosen by Init, never changes)
          inp,        \* sid -> bytes the peer has written on the stream so far
          pos,        \* sid -> bytes delivered so far
          finDone,    \* sid -> FIN delivered
          c,          \* the connection
          out         \* sid -> tokens of the events handed out so far
vars == <<plan, inp, pos, finDone, c, out>>
Cfg == plan[1]
L == plan[2]
Client == plan[3]
\* the plans of the two tiers of check C14 (cfg: Plan <- PlanQuick), and the one
\* a trace module needs (it only uses the operators)
PlanQuick == {<<"req", 7, TRUE>>, <<"req", 6, FALSE>>, <<"push", 5, TRUE>>, <<"reqenc", 5, TRUE>>,
              <<"two", 3, TRUE>>, <<"uni", 1, TRUE>>}
PlanThorough == {<<"req", 9, TRUE>>, <<"req", 8, FALSE>>, <<"push", 7, TRUE>>, <<"push", 5, FALSE>>,
                 <<"reqenc", 7, TRUE>>, <<"reqenc", 5, FALSE>>, <<"two", 4, TRUE>>, <<"uni", 3, TRUE>>, <<"uni", 2, FALSE>>}
PlanTrace == {<<"req", 1, TRUE>>}
PlanProbe == {<<"reqenc", 5, TRUE>>}          \* with Shipped = TRUE
PlanNone == {}

\* ---- the frames the peer may write
DescsWith(Dyn) ==
  {[k |-> k, l2 |-> l2, n |-> n, dyn |-> 0] : k \in {"D", "D2"}, l2 \in BOOLEAN, n \in 0..3}
  \cup {[k |-> k, l2 |-> l2, n |-> n, dyn |-> d] : k \in {"H", "H2"}, l2 \in BOOLEAN, n \in 1..2, d \in Dyn}
  \cup {[k |-> "P", l2 |-> l2, n |-> n, dyn |-> d] : l2 \in BOOLEAN, n \in 2..3, d \in Dyn}
  \cup {[k |-> "U", l2 |-> l2, n |-> n, dyn |-> 0] : l2 \in BOOLEAN, n \in 0..1}
  \cup {[k |-> "S", l2 |-> FALSE, n |-> 0, dyn |-> 0]}
  \cup {[k |-> "W", l2 |-> l2, n |-> n, dyn |-> 0] : l2 \in BOOLEAN, n \in 0..2}
\* the control stream: SETTINGS, ignored frames, and a frame that must not be there
CtlDescs == {[k |-> "S", l2 |-> FALSE, n |-> 0, dyn |-> 0], [k |-> "U", l2 |-> FALSE, n |-> 1, dyn |-> 0],
             [k |-> "U", l2 |-> TRUE, n |-> 0, dyn |-> 0], [k |-> "D", l2 |-> FALSE, n |-> 0, dyn |-> 0]}
TypeBytes(k) == CASE k = "D" -> <<0>> [] k = "D2" -> <<64, 0>> [] k = "H" -> <<1>> [] k = "H2" -> <<64, 1>>
                  [] k = "P" -> <<5>> [] k = "U" -> <<33>> [] k = "S" -> <<4>> [] k = "W" -> <<64, 65>>
Pat(base, n) == [j \in 1..n |-> base + j]
Body(d) == CASE d.k \in {"D", "D2"} -> Pat(160, d.n)
             [] d.k \in {"H", "H2"} -> <<d.dyn>> \o Pat(176, d.n - 1)  \* first byte: Required Insert Count
             [] d.k = "P" -> <<7, d.dyn>> \o Pat(192, d.n - 2)         \* push id 7
             [] d.k = "W" -> Pat(208, d.n)
             [] OTHER -> Pat(224, d.n)
FrameBytes(d) == TypeBytes(d.k)
                 \o (IF d.k = "W" THEN (IF d.l2 THEN EncVar2(9) ELSE <<9>>)        \* session id 9
                     ELSE IF d.l2 THEN EncVar2(d.n) ELSE EncVar(d.n))
                 \o Body(d)
FramesStatic == {FrameBytes(d) : d \in DescsWith({0})}        \* no block refers to the dynamic table
FramesDyn    == {FrameBytes(d) : d \in DescsWith({0, 1})}     \* some do (configurations with an encoder stream)
Frames       == IF Cfg \in {"reqenc", "two"} THEN FramesDyn ELSE FramesStatic
CtlFrames    == {FrameBytes(d) : d \in CtlDescs}

EncPayload == <<1, 2>>
ENC == 7                                       \* the peer's QPACK encoder stream in "reqenc" and "two"
\* what each stream starts with, and whether frames / raw bytes are appended to it
Starts ==
  CASE Cfg = "req"    -> {(0 :> <<>>)}
    [] Cfg = "reqenc" -> {(0 :> <<>>) @@ (ENC :> <<ST_QENC>> \o EncPayload)}
    [] Cfg = "two"    -> {(0 :> <<>>) @@ (4 :> <<>>) @@ (ENC :> <<ST_QENC>> \o EncPayload)}
    [] Cfg = "push"   -> {(15 :> <<ST_PUSH, 3>>), (15 :> <<ST_PUSH>> \o EncVar2(3))}
    [] Cfg = "uni"    -> {(3 :> <<ST_CONTROL>>) @@ (11 :> EncVar(ST_WT) \o <<9>>),
                          (3 :> <<ST_CONTROL>>) @@ (11 :> EncVar2(33)),
                          (3 :> EncVar2(ST_CONTROL)) @@ (11 :> EncVar(ST_WT) \o EncVar2(9)),
                          (3 :> EncVar2(ST_CONTROL)) @@ (11 :> <<ST_QDEC>>)}
\* bytes of the longest stream prefix (stream type, push / session id)
Base == CASE Cfg = "push" -> 3 [] Cfg = "uni" -> 4 [] OTHER -> 0
Growth(sid) ==
  CASE Cfg \in {"reqenc", "two"} /\ sid = ENC -> {}
    [] Cfg = "uni" /\ sid = 3  -> CtlFrames
    [] Cfg = "uni" /\ sid = 11 -> IF Len(inp[sid]) < Base + 2 THEN {<<208 + Len(inp[sid])>>} ELSE {}   \* raw bytes
    [] OTHER -> Frames

Sids == DOMAIN inp
Init == /\ plan \in Plan
        /\ inp \in Starts
        /\ pos = [s \in DOMAIN inp |-> 0]
        /\ finDone = [s \in DOMAIN inp |-> FALSE]
        /\ c = NewConn(Client, DOMAIN inp, IF ENC \in DOMAIN inp THEN Len(EncPayload) ELSE 0)
        /\ out = [s \in DOMAIN inp |-> <<>>]

Extend(sid, f) ==
  /\ pos[sid] = 0 /\ ~finDone[sid]           \* writing and delivering commute: write first
  /\ f \in Growth(sid)
  /\ Len(inp[sid]) + Len(f) <= L + Base
  /\ inp' = [inp EXCEPT ![sid] = @ \o f]
  /\ UNCHANGED <<plan, pos, finDone, c, out>>

Feed(sid, n, f) ==
  /\ n <= Len(inp[sid]) - pos[sid]
  /\ DeliveryOk(Slice(inp[sid], pos[sid], pos[sid] + n), f)
  \* the peer may end the stream after any byte it has written (also in the middle of a frame)
  /\ f => sid # ENC
  /\ ~finDone[sid]
  /\ LET r == HandleEventF(c, sid, Slice(inp[sid], pos[sid], pos[sid] + n), f) IN
       /\ c' = r.c
       /\ out' = [s \in Sids |-> out[s] \o Normalise(OfStream(r.evs, s))]
  /\ pos' = [pos EXCEPT ![sid] = @ + n]
  /\ finDone' = [finDone EXCEPT ![sid] = @ \/ f]
  /\ UNCHANGED <<plan, inp>>
Next == \E sid \in Sids :
          \/ \E f \in Growth(sid) : Extend(sid, f)
          \/ \E n \in 0..(L + Base), f \in BOOLEAN : Feed(sid, n, f)
Spec == Init /\ [][Next]_vars

\* ---- frame sequences replayed into the real code (binding R): TLC enumerates
\* them, the driver turns each into real frames with real QPACK blocks.  For H
\* and P n is the number of extra field lines, for the others the payload length.
Kinds == <<"D", "D2", "H", "H2", "P", "U", "S", "W">>
KindIx(k) == CHOOSE i \in DOMAIN Kinds : Kinds[i] = k
RFull ==
  {[k |-> "D", l2 |-> l2, n |-> n, dyn |-> 0] : l2 \in BOOLEAN, n \in 0..2}
  \cup {[k |-> "D2", l2 |-> FALSE, n |-> n, dyn |-> 0] : n \in 0..1}
  \cup {[k |-> "H", l2 |-> l2, n |-> 0, dyn |-> d] : l2 \in BOOLEAN, d \in {0, 1}}
  \cup {[k |-> "H2", l2 |-> FALSE, n |-> 1, dyn |-> 0]}
  \cup {[k |-> "P", l2 |-> l2, n |-> 0, dyn |-> d] : l2 \in BOOLEAN, d \in {0, 1}}
  \cup {[k |-> "U", l2 |-> l2, n |-> n, dyn |-> 0] : l2 \in BOOLEAN, n \in 0..1}
  \cup {[k |-> "S", l2 |-> FALSE, n |-> 0, dyn |-> 0]}
  \cup {[k |-> "W", l2 |-> l2, n |-> n, dyn |-> 0] : l2 \in BOOLEAN, n \in 0..2}
RCore ==
  {[k |-> "D", l2 |-> FALSE, n |-> n, dyn |-> 0] : n \in {0, 2}}
  \cup {[k |-> "D", l2 |-> TRUE, n |-> 1, dyn |-> 0]}
  \cup {[k |-> "H", l2 |-> FALSE, n |-> 0, dyn |-> d] : d \in {0, 1}}
  \cup {[k |-> "P", l2 |-> FALSE, n |-> 0, dyn |-> d] : d \in {0, 1}}
  \cup {[k |-> "U", l2 |-> FALSE, n |-> n, dyn |-> 0] : n \in 0..1}
  \cup {[k |-> "W", l2 |-> FALSE, n |-> 1, dyn |-> 0]}
Code(d) == KindIx(d.k) * 1000 + (IF d.l2 THEN 100 ELSE 0) + d.n * 10 + d.dyn
SeqsUpTo(D, K) == UNION {[1..k -> D] : k \in 1..K}
RSeqs == CASE EnumSet = "enum-quick"    -> SeqsUpTo(RFull, 2) \cup [1..3 -> RCore]
           [] EnumSet = "enum-thorough" -> SeqsUpTo(RFull, 3) \cup [1..4 -> RCore]
EnumInit == /\ plan = <<>> /\ inp = <<>> /\ pos = <<>> /\ finDone = <<>> /\ c = <<>> /\ out = <<>>
            /\ \A fs \in RSeqs : PrintT(<<"SEQ", [i \in DOMAIN fs |-> Code(fs[i])]>>)
EnumSpec == EnumInit /\ [][UNCHANGED vars]_vars

\* ---- the theorem
\* have the insertions arrived?  (told from the bytes delivered, not from c)
EncArrived == ENC \in Sids => pos[ENC] - 1 >= Len(EncPayload)
Denoted(s) == Meaning(s, Slice(inp[s], 0, pos[s]), finDone[s], Client, EncArrived)
ChunkingIndependent ==
  IF \E s \in Sids : Denoted(s).err
  THEN c.done /\ \A s \in Sids : IsPrefix(out[s], Denoted(s).toks)
  ELSE ~c.done /\ \A s \in Sids : out[s] = Denoted(s).toks
Sane == c.done => c.err # ""
=============================================================================
