------------------------------ MODULE Transfer ------------------------------
(* End-to-end stream transfer over a lossy, duplicating, reordering network
   (property C01).  A *flow* is one direction of one stream: the writer side is
   aioquic's QuicStreamSender + loss recovery (bytes written, FIN, reset, what
   has been acknowledged), the reader side is QuicStreamReceiver (offsets
   received, contiguous prefix delivered, final size, end marker, reset seen).
   The network is a bag of packets; the adversary drops, duplicates and
   reorders during the adversarial phase; in the fair phase every packet is
   eventually delivered and nothing is dropped.

   House style: one pure operator XxxF(state, args) per event, reused by the
   trace module TraceTransfer on events recorded from real connections.
   The byte at offset o of stream sid is Byte(sid, o) by the drivers' payload
   convention, so contents need not be stored. *)
EXTENDS Naturals, Integers, Sequences, FiniteSets

CONSTANTS Flows, MaxLen, MaxNet, MaxDrop, MaxDup
NONE == -1
Byte(sid, o) == (7 * sid + 31 * o) % 251

VARIABLES tx, rx, net, phase, drops, dups
vars == <<tx, rx, net, phase, drops, dups>>

TxInit == [written |-> 0, fin |-> FALSE, reset |-> FALSE,
           acked |-> {}, finAcked |-> FALSE, resetAcked |-> FALSE]
RxInit == [got |-> {}, delivered |-> 0, final |-> NONE, endSeen |-> FALSE, resetSeen |-> FALSE,
           ends |-> 0]

Prefix(S) == CHOOSE k \in 0..Cardinality(S) : (\A i \in 0..k-1 : i \in S) /\ k \notin S

-----------------------------------------------------------------------------
(* Reader side: the effect of one arriving STREAM frame / RESET_STREAM.        *)
RecvDataF(r, off, len, fin) ==
  IF r.resetSeen THEN r
  ELSE LET got2 == r.got \cup (off .. off + len - 1)
           fin2 == IF fin THEN off + len ELSE r.final
           d2   == Prefix(got2)
           endNow == fin2 # NONE /\ d2 = fin2 /\ ~r.endSeen
       IN [r EXCEPT !.got = got2, !.final = fin2, !.delivered = d2,
                    !.endSeen = r.endSeen \/ endNow,
                    !.ends = r.ends + (IF endNow THEN 1 ELSE 0)]
RecvResetF(r, final) ==
  IF r.endSeen THEN r ELSE [r EXCEPT !.resetSeen = TRUE, !.final = final]

Packet == [f : Flows, k : {"data"}, off : 0..MaxLen, len : 0..MaxLen, fin : BOOLEAN]
     \cup [f : Flows, k : {"reset"}, final : 0..MaxLen]
     \cup [f : Flows, k : {"ack"}, off : 0..MaxLen, len : 0..MaxLen, fin : BOOLEAN]
     \cup [f : Flows, k : {"rack"}]

Init == /\ tx = [f \in Flows |-> TxInit] /\ rx = [f \in Flows |-> RxInit]
        /\ net = {} /\ phase = "adv" /\ drops = 0 /\ dups = 0

Room == Cardinality(net) < MaxNet
Put(p) == IF \E c \in {1, 2} : <<p, c>> \notin net
          THEN net \cup {<<p, CHOOSE c \in {1, 2} : <<p, c>> \notin net>>} ELSE net

(* Application *)
Write(f, n, fin) ==
  /\ phase = "adv" /\ ~tx[f].fin /\ ~tx[f].reset /\ tx[f].written + n <= MaxLen /\ (n > 0 \/ fin)
  /\ tx' = [tx EXCEPT ![f].written = @ + n, ![f].fin = fin]
  /\ UNCHANGED <<rx, net, phase, drops, dups>>
Reset(f) ==
  /\ phase = "adv" /\ ~tx[f].reset
  /\ tx' = [tx EXCEPT ![f].reset = TRUE]
  /\ UNCHANGED <<rx, net, phase, drops, dups>>

(* Sender: (re)transmit anything written and not yet acknowledged *)
SendData(f, off, len, fin) ==
  /\ Room /\ (phase = "fair" => net = {}) /\ ~tx[f].reset /\ off + len <= tx[f].written
  /\ (fin => tx[f].fin /\ off + len = tx[f].written /\ ~tx[f].finAcked)
  /\ ((len > 0 /\ \E o \in off .. off + len - 1 : o \notin tx[f].acked) \/ (fin /\ ~tx[f].finAcked))
  /\ net' = Put([f |-> f, k |-> "data", off |-> off, len |-> len, fin |-> fin])
  /\ UNCHANGED <<tx, rx, phase, drops, dups>>
SendReset(f) ==
  /\ Room /\ (phase = "fair" => net = {}) /\ tx[f].reset /\ ~tx[f].resetAcked
  /\ net' = Put([f |-> f, k |-> "reset", final |-> tx[f].written])
  /\ UNCHANGED <<tx, rx, phase, drops, dups>>

(* Network *)
Drop(x) == /\ phase = "adv" /\ drops < MaxDrop /\ x \in net
           /\ net' = net \ {x} /\ drops' = drops + 1 /\ UNCHANGED <<tx, rx, phase, dups>>
Dup(x) == /\ phase = "adv" /\ dups < MaxDup /\ x \in net /\ Room /\ Put(x[1]) # net
          /\ net' = Put(x[1]) /\ dups' = dups + 1 /\ UNCHANGED <<tx, rx, phase, drops>>
Deliver(x) ==
  /\ x \in net
  /\ LET p == x[1] rest == net \ {x} IN
     CASE p.k = "data" ->
            /\ rx' = [rx EXCEPT ![p.f] = RecvDataF(@, p.off, p.len, p.fin)]
            /\ net' = rest \cup {<<[p EXCEPT !.k = "ack"], x[2]>>}     \* acknowledgement travels back
            /\ UNCHANGED tx
       [] p.k = "reset" ->
            /\ rx' = [rx EXCEPT ![p.f] = RecvResetF(@, p.final)]
            /\ net' = rest \cup {<<[f |-> p.f, k |-> "rack"], x[2]>>}
            /\ UNCHANGED tx
       [] p.k = "ack" ->
            /\ tx' = [tx EXCEPT ![p.f].acked = @ \cup (p.off .. p.off + p.len - 1),
                                ![p.f].finAcked = @ \/ p.fin]
            /\ net' = rest /\ UNCHANGED rx
       [] p.k = "rack" ->
            /\ tx' = [tx EXCEPT ![p.f].resetAcked = TRUE]
            /\ net' = rest /\ UNCHANGED rx
  /\ UNCHANGED <<phase, drops, dups>>
EnterFair == phase = "adv" /\ phase' = "fair" /\ UNCHANGED <<tx, rx, net, drops, dups>>

Sends == \E f \in Flows : \/ SendReset(f)
                          \/ \E off \in 0..MaxLen, len \in 0..MaxLen, fin \in BOOLEAN : SendData(f, off, len, fin)
Delivers == \E x \in net : Deliver(x)
Next == \/ \E f \in Flows, n \in 0..MaxLen, fin \in BOOLEAN : Write(f, n, fin)
        \/ \E f \in Flows : Reset(f)
        \/ Sends \/ Delivers
        \/ \E x \in net : Drop(x) \/ Dup(x)
        \/ EnterFair

Spec == Init /\ [][Next]_vars
\* Fair phase: the network delivers what is in flight; the sender retransmits
\* (probe timeout) once nothing is in flight while something is unacknowledged.
FairSpec == Spec /\ WF_vars(Sends) /\ WF_vars(Delivers) /\ WF_vars(EnterFair)

-----------------------------------------------------------------------------
(* Properties (C01) *)
TypeOk == /\ \A f \in Flows : tx[f].written \in 0..MaxLen /\ rx[f].delivered \in 0..MaxLen
          /\ net \subseteq (Packet \X {1, 2})
\* "the bytes delivered are, in order and without gaps or repeats, a prefix of the bytes written"
PrefixDelivery == \A f \in Flows : /\ rx[f].delivered <= tx[f].written
                                   /\ rx[f].got \subseteq 0 .. tx[f].written - 1
                                   /\ rx[f].delivered = Prefix(rx[f].got)
\* "end-of-stream is signalled at most once and only after all of them"
FinOnce == \A f \in Flows : /\ rx[f].ends <= 1
                            /\ rx[f].endSeen => tx[f].fin /\ rx[f].delivered = tx[f].written
Monotone == [][\A f \in Flows : rx'[f].delivered >= rx[f].delivered]_vars
\* "if the network eventually delivers datagrams, every written byte and every end-of-stream is delivered"
Done(f) == IF tx[f].reset THEN rx[f].resetSeen \/ rx[f].endSeen \/ tx[f].resetAcked
           ELSE rx[f].delivered = tx[f].written /\ (tx[f].fin => rx[f].endSeen)
AllDone == \A f \in Flows : Done(f)

(* The same clauses in the form an application observes them (one
   StreamDataReceived event = the newly contiguous bytes + the end marker);
   TraceTransfer evaluates these on events of real connections, EventsOk ties
   them to the model. *)
EvPrefixOk(sid, written, delivered, data) ==
  /\ delivered + Len(data) <= written
  /\ \A i \in 1..Len(data) : data[i] = Byte(sid, delivered + i - 1)
EvEndOk(written, fin, delivered, endSeen, n, end) ==
  end => (~endSeen /\ fin /\ delivered + n = written)
EventsOk == [][\A f \in Flows :
               LET n == rx'[f].delivered - rx[f].delivered IN
               /\ EvPrefixOk(0, tx[f].written, rx[f].delivered, [i \in 1..n |-> Byte(0, rx[f].delivered + i - 1)])
               /\ EvEndOk(tx[f].written, tx[f].fin, rx[f].delivered, rx[f].endSeen, n,
                          rx'[f].endSeen /\ ~rx[f].endSeen)]_vars
Live == (phase = "fair") ~> AllDone
=============================================================================
