/* C04 instrumentation shim (harness code, never part of the code under check).
 *
 * libcrypto is not instrumented and does its bulk work in assembly, so
 * AddressSanitizer cannot see it touch the memory _crypto.c hands to it (the
 * header-protection sample, the AEAD input/output, the tag).  This library is
 * LD_PRELOADed after the ASan runtime; it interposes the three EVP entry
 * points _crypto.c uses, checks -- with the ASan runtime's own shadow query --
 * that every byte range the caller passed lies in addressable memory, touches
 * the first bad byte from instrumented code (so that ASan prints its normal
 * report, with _crypto.c's frame in the stack), and forwards to libcrypto.
 */
#define _GNU_SOURCE
#include <dlfcn.h>
#include <stddef.h>
#include <openssl/evp.h>

void *__asan_region_is_poisoned(void *beg, size_t size);

static void touch_read(const void *p, size_t n)
{
    if (p == NULL || n == 0) return;
    volatile const unsigned char *bad = __asan_region_is_poisoned((void *)p, n);
    if (bad != NULL) { unsigned char c = *bad; (void)c; }
}

static void touch_write(void *p, size_t n)
{
    if (p == NULL || n == 0) return;
    volatile unsigned char *bad = __asan_region_is_poisoned(p, n);
    if (bad != NULL) { *bad = 0; }
}

int EVP_CipherUpdate(EVP_CIPHER_CTX *ctx, unsigned char *out, int *outl,
                     const unsigned char *in, int inl)
{
    static int (*real)(EVP_CIPHER_CTX *, unsigned char *, int *, const unsigned char *, int);
    if (!real) real = dlsym(RTLD_NEXT, "EVP_CipherUpdate");
    if (inl > 0) {
        touch_read(in, (size_t)inl);
        touch_write(out, (size_t)inl);
    }
    return real(ctx, out, outl, in, inl);
}

int EVP_CipherInit_ex(EVP_CIPHER_CTX *ctx, const EVP_CIPHER *cipher, ENGINE *impl,
                      const unsigned char *key, const unsigned char *iv, int enc)
{
    static int (*real)(EVP_CIPHER_CTX *, const EVP_CIPHER *, ENGINE *,
                       const unsigned char *, const unsigned char *, int);
    if (!real) real = dlsym(RTLD_NEXT, "EVP_CipherInit_ex");
    if (cipher == NULL && ctx != NULL) {
        int kl = EVP_CIPHER_CTX_get_key_length(ctx);
        int il = EVP_CIPHER_CTX_get_iv_length(ctx);
        if (kl > 0) touch_read(key, (size_t)kl);
        if (il > 0) touch_read(iv, (size_t)il);
    }
    return real(ctx, cipher, impl, key, iv, enc);
}

int EVP_CIPHER_CTX_ctrl(EVP_CIPHER_CTX *ctx, int type, int arg, void *ptr)
{
    static int (*real)(EVP_CIPHER_CTX *, int, int, void *);
    if (!real) real = dlsym(RTLD_NEXT, "EVP_CIPHER_CTX_ctrl");
    if (arg > 0) {
        if (type == EVP_CTRL_AEAD_SET_TAG) touch_read(ptr, (size_t)arg);
        if (type == EVP_CTRL_AEAD_GET_TAG) touch_write(ptr, (size_t)arg);
    }
    return real(ctx, type, arg, ptr);
}
