"""C05: independent structural codec for TLS 1.3 handshake messages (RFC 8446
section 4) and QUIC transport parameters (RFC 9000 section 18), and the
mutation catalogue of DESIGN.md appendix B.3.  Shares no code with aioquic.

A mutation takes genuine message bytes and returns a list of (variant id,
mutated message bytes).  Nothing here decides anything: the bytes are handed
to a real connection and TLC judges what the connection did."""
import struct

CH, SH, NST, EOED, EE, CERT, CERTREQ, CV, FIN, KEYUPDATE = 1, 2, 4, 5, 8, 11, 13, 15, 20, 24
MSG_TYPE = {"ch": CH, "sh": SH, "ee": EE, "cert": CERT, "cv": CV, "fin": FIN, "nst": NST}
X_SNI, X_GROUPS, X_SIGALGS, X_ALPN, X_PSK, X_EARLY, X_VERSIONS, X_PSKMODES, X_KEYSHARE, X_TP = 0, 10, 13, 16, 41, 42, 43, 45, 51, 0x39
HRR_RANDOM = bytes.fromhex("cf21ad74e59a6111be1d8c021e65b891c2a211167abb8c5e079e09e2c8a8339c")


def op(n, b):
    return len(b).to_bytes(n, "big") + b


def msg(t, body):
    return bytes([t]) + len(body).to_bytes(3, "big") + body


class R:
    def __init__(self, b):
        self.b, self.p = b, 0

    def take(self, n):
        v = self.b[self.p:self.p + n]
        if len(v) != n:
            raise ValueError("short")
        self.p += n
        return v

    def u(self, n):
        return int.from_bytes(self.take(n), "big")

    def opq(self, n):
        return self.take(self.u(n))

    def left(self):
        return len(self.b) - self.p


def split_messages(stream):
    """[(type, whole message bytes)] of a CRYPTO stream prefix."""
    out, p = [], 0
    while p + 4 <= len(stream):
        n = 4 + int.from_bytes(stream[p + 1:p + 4], "big")
        if p + n > len(stream):
            break
        out.append((stream[p], stream[p:p + n]))
        p += n
    return out


def parse_exts(b):
    r, out = R(b), []
    while r.left():
        t = r.u(2)
        out.append([t, r.opq(2)])
    return out


def build_exts(exts):
    return op(2, b"".join(struct.pack(">H", t) + op(2, bytes(v)) for t, v in exts))


def parse_hello(m):
    r = R(m[4:])
    d = {"type": m[0], "ver": r.u(2), "random": r.take(32), "sid": r.opq(1)}
    if m[0] == CH:
        d["ciphers"] = r.opq(2)
        d["comp"] = r.opq(1)
    else:
        d["cipher"] = r.u(2)
        d["comp"] = r.u(1)
    d["exts"] = parse_exts(r.opq(2))
    return d


def build_hello(d):
    b = struct.pack(">H", d["ver"]) + d["random"] + op(1, d["sid"])
    if d["type"] == CH:
        b += op(2, d["ciphers"]) + op(1, d["comp"])
    else:
        b += struct.pack(">HB", d["cipher"], d["comp"])
    return msg(d["type"], b + build_exts(d["exts"]))


def copy_hello(d):
    e = dict(d)
    e["exts"] = [[t, v] for t, v in d["exts"]]
    return e


def get_ext(d, t):
    return next((x for x in d["exts"] if x[0] == t), None)


def set_ext(d, t, v):
    x = get_ext(d, t)
    if x is None:
        d["exts"].insert(0, [t, v])
    else:
        x[1] = v
    return d


# ------------------------------------------------------------ transport parameters
def var(v):
    if v < 64:
        return bytes([v])
    if v < 16384:
        return (0x4000 | v).to_bytes(2, "big")
    if v < (1 << 30):
        return (0x80000000 | v).to_bytes(4, "big")
    return ((3 << 62) | v).to_bytes(8, "big")


def rvar(r):
    f = r.u(1)
    n = 1 << (f >> 6)
    v = f & 0x3F
    for _ in range(n - 1):
        v = (v << 8) | r.u(1)
    return v


def parse_tp(b):
    r, out = R(b), []
    while r.left():
        i = rvar(r)
        out.append([i, r.take(rvar(r))])
    return out


def build_tp(ps):
    return b"".join(var(i) + var(len(v)) + bytes(v) for i, v in ps)


TP_NUMERIC = {0x01: "max_idle_timeout", 0x03: "max_udp_payload_size", 0x04: "initial_max_data", 0x05: "initial_max_stream_data_bidi_local",
              0x06: "initial_max_stream_data_bidi_remote", 0x07: "initial_max_stream_data_uni", 0x08: "initial_max_streams_bidi",
              0x09: "initial_max_streams_uni", 0x0a: "ack_delay_exponent", 0x0b: "max_ack_delay", 0x0e: "active_connection_id_limit",
              0x20: "max_datagram_frame_size"}
TP_BOUNDS = [0, 1, 2, 20, 21, 1199, 1200, 16383, 16384, 65527, 65528, (1 << 30), (1 << 60), (1 << 60) + 1, (1 << 62) - 1]


def tp_mutations(kind, tp_body, from_client):
    """-> [(vid, new body or None (= extension removed))]"""
    ps = parse_tp(tp_body)
    out = []
    if kind == "tp-missing":
        out.append(("removed", None))
        out.append(("empty", b""))
    elif kind == "tp-truncated":
        for cut in (1, 2, len(tp_body) // 2, len(tp_body) - 1):
            out.append(("cut%d" % cut, tp_body[:cut]))
        out.append(("len-beyond", tp_body + var(0x04) + var(8) + b"\x01"))
        out.append(("value-not-varint", build_tp(ps + [[0x04, b"\xc0\x00"]])))
        out.append(("varint-with-trailing", build_tp([p for p in ps if p[0] != 0x04] + [[0x04, b"\x05\x05"]])))
    elif kind == "tp-duplicated":
        for i, v in ps[:6]:
            out.append(("dup-0x%x" % i, build_tp(ps + [[i, v]])))
    elif kind == "tp-bounds":
        for i in sorted(TP_NUMERIC):
            for b in TP_BOUNDS:
                out.append(("0x%x=%d" % (i, b), build_tp([p for p in ps if p[0] != i] + [[i, var(b)]])))
        out.append(("disable_active_migration-nonempty", build_tp(ps + [[0x0c, b"\x01"]])))
        out.append(("grease-params", build_tp(ps + [[27 + 31 * 7, b"\xff" * 9], [(1 << 62) - 1, b""]])))
        out.append(("initial_scid-empty", build_tp([p for p in ps if p[0] != 0x0f] + [[0x0f, b""]])))
        out.append(("initial_scid-21", build_tp([p for p in ps if p[0] != 0x0f] + [[0x0f, bytes(21)]])))
        out.append(("initial_scid-missing", build_tp([p for p in ps if p[0] != 0x0f])))
        out.append(("initial_scid-wrong", build_tp([p for p in ps if p[0] != 0x0f] + [[0x0f, b"\x01\x02\x03\x04\x05\x06\x07\x08"]])))
    elif kind in ("tp-forbidden-from-client", "tp-server-only-params"):
        # from a client these are forbidden; from a server they must match what the client saw
        base = [p for p in ps if p[0] not in (0x00, 0x02, 0x0d, 0x10)]
        out.append(("odcid", build_tp(base + [[0x00, bytes(8)]])))
        out.append(("odcid-missing", build_tp(base)))
        out.append(("reset-token", build_tp(ps + [[0x02, bytes(16)]] if from_client else base + [[0x02, bytes(16)]])))
        out.append(("reset-token-15", build_tp(base + [[0x02, bytes(15)]])))
        out.append(("preferred-address", build_tp(ps + [[0x0d, bytes(4 + 2 + 16 + 2) + b"\x08" + bytes(8) + bytes(16)]])))
        out.append(("preferred-address-short", build_tp(ps + [[0x0d, bytes(5)]])))
        out.append(("preferred-address-cid-21", build_tp(ps + [[0x0d, bytes(24) + b"\x15" + bytes(21) + bytes(16)]])))
        out.append(("retry-scid", build_tp(ps + [[0x10, bytes(8)]])))
    elif kind == "tp-version-information":
        base = [p for p in ps if p[0] != 0x11]
        for vid, v in (("chosen-0", bytes(4) + b"\x00\x00\x00\x01"), ("chosen-not-available", b"\x00\x00\x00\x01" + b"\x6b\x33\x43\xcf"),
                       ("odd-length", b"\x00\x00\x00\x01\x00"), ("empty", b""), ("only-chosen", b"\x00\x00\x00\x01"),
                       ("available-has-0", b"\x00\x00\x00\x01" + bytes(4) + b"\x00\x00\x00\x01"),
                       ("chosen-v2", b"\x6b\x33\x43\xcf\x6b\x33\x43\xcf\x00\x00\x00\x01"), ("unknown", b"\x1a\x2a\x3a\x4a\x1a\x2a\x3a\x4a"),
                       ("many", b"\x00\x00\x00\x01" * 300)):
            out.append((vid, build_tp(base + [[0x11, v]])))
    return out


# -------------------------------------------------------------------- mutations
def generic(kind, m, t=None):
    body = m[4:]
    if kind == "genuine":
        return [("genuine", m)]
    if kind == "wrong-type-byte":
        return [("type%d" % x, bytes([x]) + m[1:]) for x in (0, 1, 2, 4, 5, 8, 11, 13, 15, 20, 24, 254, 255) if x != m[0]]
    if kind == "len-plus-1":
        return [("plus1-padded", msg(m[0], body)[:1] + (len(body) + 1).to_bytes(3, "big") + body + b"\x00"),
                ("plus1-short", m[:1] + (len(body) + 1).to_bytes(3, "big") + body)]
    if kind == "len-minus-1":
        if not body:
            return [("empty", m)]
        return [("minus1", m[:1] + (len(body) - 1).to_bytes(3, "big") + body),
                ("minus1-cut", msg(m[0], body[:-1]))]
    if kind == "trunc-body":
        cuts = sorted({1, 2, 3, 34, 35, 38, 40, len(body) // 3, len(body) // 2, len(body) - 2, len(body) - 1})
        return [("cut%d" % c, msg(m[0], body[:c])) for c in cuts if 0 < c < len(body)]
    if kind == "trailing":
        return [("trailing1", msg(m[0], body + b"\x00")), ("trailing40", msg(m[0], body + bytes(range(40))))]
    if kind == "empty-body":
        return [("empty", msg(m[0], b""))]
    raise KeyError(kind)


def each_ext(d, fn, label):
    out = []
    for i, (t, v) in enumerate(d["exts"]):
        e = copy_hello(d)
        fn(e, i)
        out.append(("%s-ext%d" % (label, t), e))
    return out


def _ks_entries(d):
    x = get_ext(d, X_KEYSHARE)
    return x[1] if x else b""


def hello_mut(kind, m, tickets=None):
    d = parse_hello(m)
    is_ch = d["type"] == CH
    out = []

    def add(vid, e):
        out.append((vid, build_hello(e)))

    def ks(entries):
        body = b"".join(struct.pack(">H", g) + op(2, k) for g, k in entries)
        return op(2, body) if is_ch else body
    if kind == "legacy-version":
        for v in (0x0300, 0x0301, 0x0302, 0x0304, 0x0000, 0xffff):
            add("ver%04x" % v, dict(copy_hello(d), ver=v))
    elif kind == "ciphers-empty":
        if is_ch:
            add("empty", dict(copy_hello(d), ciphers=b""))
            add("odd", dict(copy_hello(d), ciphers=d["ciphers"][:3]))
        else:
            add("zero", dict(copy_hello(d), cipher=0))
    elif kind == "ciphers-unknown":
        if is_ch:
            add("unknown", dict(copy_hello(d), ciphers=b"\x00\x2f\xc0\x2b\xfa\xfa"))
            add("many", dict(copy_hello(d), ciphers=b"\x13\x05" * 3000))
        else:
            add("unknown", dict(copy_hello(d), cipher=0xfafa))
            add("tls12", dict(copy_hello(d), cipher=0xc02b))
    elif kind == "cipher-not-offered":
        add("ccm8", dict(copy_hello(d), cipher=0x1305))
        add("aes256", dict(copy_hello(d), cipher=0x1302 if d["cipher"] != 0x1302 else 0x1301))
    elif kind == "compression-empty":
        if is_ch:
            add("empty", dict(copy_hello(d), comp=b""))
        else:
            add("255", dict(copy_hello(d), comp=255))
    elif kind == "compression-nonnull":
        if is_ch:
            add("deflate", dict(copy_hello(d), comp=b"\x01"))
            add("both", dict(copy_hello(d), comp=b"\x01\x00"))
            add("many", dict(copy_hello(d), comp=bytes(range(255))))
        else:
            add("deflate", dict(copy_hello(d), comp=1))
    elif kind == "ext-missing-each":
        for vid, e in each_ext(d, lambda e, i: e["exts"].pop(i), "no"):
            add(vid, e)
        add("no-extensions", dict(copy_hello(d), exts=[]))
        out.append(("no-extensions-block", build_hello(dict(copy_hello(d), exts=[]))[:-2]))
    elif kind == "ext-dup-each":
        for vid, e in each_ext(d, lambda e, i: e["exts"].insert(i, list(e["exts"][i])), "dup"):
            add(vid, e)
    elif kind == "ext-empty-each":
        for vid, e in each_ext(d, lambda e, i: e["exts"][i].__setitem__(1, b""), "empty"):
            add(vid, e)
    elif kind == "ext-innerlen-beyond":
        def bump(e, i):
            v = bytearray(e["exts"][i][1])
            if v:
                v[0] = 0xff
            e["exts"][i][1] = bytes(v)
        for vid, e in each_ext(d, bump, "innerff"):
            add(vid, e)

        def cut(e, i):
            e["exts"][i][1] = e["exts"][i][1][:-1]
        for vid, e in each_ext(d, cut, "cut1"):
            add(vid, e)

        def extra(e, i):
            e["exts"][i][1] = e["exts"][i][1] + b"\x00"
        for vid, e in each_ext(d, extra, "extra1"):
            add(vid, e)
        b = build_hello(d)
        out.append(("extlen-beyond-message", b[:-1 - len(d["exts"][-1][1])] + b"\xff" + d["exts"][-1][1]) if d["exts"][-1][1] else ("noop", b))
    elif kind == "ext-unknown":
        e = copy_hello(d)
        e["exts"] += [[0xfafa, b""], [0x1234, bytes(300)], [0xffff, b"\xff"], [21, bytes(600)]]
        add("grease", e)
        e = copy_hello(d)
        e["exts"] = [[0x0a0a + i, bytes(i % 7)] for i in range(1200)] + e["exts"]
        add("1200-extensions", e)
    elif kind == "ext-forbidden":
        for t, v in ((X_SNI, op(2, b"\x00" + op(2, b"a"))), (X_ALPN, op(2, op(1, b"hq"))), (X_TP, b""), (X_EARLY, b""),
                     (X_SIGALGS, op(2, b"\x08\x04")), (X_GROUPS, op(2, b"\x00\x1d")), (44, op(2, b"cookie"))):
            e = copy_hello(d)
            e["exts"].append([t, v])
            add("ext%d" % t, e)
    elif kind == "supported-versions-no-13":
        if is_ch:
            for vid, v in (("tls12", op(1, b"\x03\x03")), ("empty", op(1, b"")), ("odd", op(1, b"\x03\x04\x03")), ("grease", op(1, b"\x7f\x1c\xfa\xfa"))):
                add(vid, set_ext(copy_hello(d), X_VERSIONS, v))
        else:
            for vid, v in (("tls12", b"\x03\x03"), ("zero", b"\x00\x00"), ("short", b"\x03"), ("long", b"\x03\x04\x00")):
                add(vid, set_ext(copy_hello(d), X_VERSIONS, v))
    elif kind == "keyshare-empty":
        add("empty-list" if is_ch else "empty", set_ext(copy_hello(d), X_KEYSHARE, ks([]) if is_ch else b""))
        add("empty-key", set_ext(copy_hello(d), X_KEYSHARE, ks([(0x001d, b"")])))
    elif kind == "keyshare-unknown-group":
        add("only-unknown", set_ext(copy_hello(d), X_KEYSHARE, ks([(0xfafa, bytes(32))])))
        add("ffdhe", set_ext(copy_hello(d), X_KEYSHARE, ks([(0x0100, bytes(256))])))
        add("secp521-unsupported", set_ext(copy_hello(d), X_KEYSHARE, ks([(0x0019, b"\x04" + bytes(132))])))
        if is_ch:
            add("unknown-then-known", set_ext(copy_hello(d), X_KEYSHARE, op(2, struct.pack(">H", 0xfafa) + op(2, b"\x00") + _ks_entries(d)[2:])))
            g = copy_hello(d)
            set_ext(g, X_KEYSHARE, ks([(0x001e, bytes(56))]))
            add("x448-not-in-groups", g)
    elif kind == "keyshare-short-key":
        for g, n in ((0x001d, 31), (0x001d, 1), (0x001e, 55), (0x0017, 64), (0x0017, 1), (0x0018, 96)):
            add("g%04x-%d" % (g, n), set_ext(copy_hello(d), X_KEYSHARE, ks([(g, b"\x04" * n)])))
    elif kind == "keyshare-long-key":
        for g, n in ((0x001d, 33), (0x001d, 4000), (0x001e, 57), (0x0017, 66), (0x0017, 133)):
            add("g%04x-%d" % (g, n), set_ext(copy_hello(d), X_KEYSHARE, ks([(g, b"\x04" * n)])))
    elif kind == "keyshare-invalid-point":
        add("p256-not-on-curve", set_ext(copy_hello(d), X_KEYSHARE, ks([(0x0017, b"\x04" + b"\x01" * 64)])))
        add("p256-infinity", set_ext(copy_hello(d), X_KEYSHARE, ks([(0x0017, b"\x00")])))
        add("p256-compressed", set_ext(copy_hello(d), X_KEYSHARE, ks([(0x0017, b"\x02" + b"\x01" * 32)])))
        add("p256-bad-prefix", set_ext(copy_hello(d), X_KEYSHARE, ks([(0x0017, b"\x07" + b"\x01" * 64)])))
        add("p384-not-on-curve", set_ext(copy_hello(d), X_KEYSHARE, ks([(0x0018, b"\x04" + b"\x01" * 96)])))
        add("x25519-zero", set_ext(copy_hello(d), X_KEYSHARE, ks([(0x001d, bytes(32))])))
        add("x25519-low-order", set_ext(copy_hello(d), X_KEYSHARE, ks([(0x001d, b"\x01" + bytes(31))])))
        add("x448-zero", set_ext(copy_hello(d), X_KEYSHARE, ks([(0x001e, bytes(56))])))
    elif kind == "sni-nonascii":
        for vid, n in (("latin1", b"caf\xe9.example"), ("nul", b"a\x00b"), ("utf8", "héllo".encode()), ("ff", b"\xff" * 300)):
            add(vid, set_ext(copy_hello(d), X_SNI, op(2, b"\x00" + op(2, n))))
    elif kind == "sni-empty":
        add("empty-name", set_ext(copy_hello(d), X_SNI, op(2, b"\x00" + op(2, b""))))
        add("empty-list", set_ext(copy_hello(d), X_SNI, op(2, b"")))
        add("empty-ext", set_ext(copy_hello(d), X_SNI, b""))
        add("two-names", set_ext(copy_hello(d), X_SNI, op(2, (b"\x00" + op(2, b"a.example")) * 2)))
    elif kind == "sni-unknown-type":
        add("type1", set_ext(copy_hello(d), X_SNI, op(2, b"\x01" + op(2, b"localhost"))))
        add("type255", set_ext(copy_hello(d), X_SNI, op(2, b"\xff")))
    elif kind == "alpn-empty-list":
        add("empty-list", set_ext(copy_hello(d), X_ALPN, op(2, b"")))
        add("empty-ext", set_ext(copy_hello(d), X_ALPN, b""))
    elif kind == "alpn-empty-name":
        add("empty-name", set_ext(copy_hello(d), X_ALPN, op(2, op(1, b""))))
        add("empty-then-hq", set_ext(copy_hello(d), X_ALPN, op(2, op(1, b"") + op(1, b"hq"))))
    elif kind == "alpn-nonascii":
        add("only-nonascii", set_ext(copy_hello(d), X_ALPN, op(2, op(1, b"\xff\xfe"))))
        add("nonascii-then-hq", set_ext(copy_hello(d), X_ALPN, op(2, op(1, b"h\xe9") + op(1, b"hq"))))
        add("255", set_ext(copy_hello(d), X_ALPN, op(2, op(1, b"\x80" * 255))))
    elif kind in ("alpn-no-overlap", "alpn-not-offered"):
        add("other", set_ext(copy_hello(d), X_ALPN, op(2, op(1, b"h3-nope"))))
        add("absent", dict(copy_hello(d), exts=[x for x in d["exts"] if x[0] != X_ALPN]))
    elif kind == "alpn-two":
        add("two", set_ext(copy_hello(d), X_ALPN, op(2, op(1, b"hq") + op(1, b"h3"))))
        add("name-len-beyond", set_ext(copy_hello(d), X_ALPN, op(2, b"\x09hq")))
    elif kind in ("psk-not-last", "psk-identities", "psk-binder-len", "psk-unknown-identity"):
        ident = (tickets or [b"unknown-ticket"])[0]
        unknown = b"no-such-ticket-" + bytes(16)

        def psk(ids, binders):
            return op(2, b"".join(op(2, i) + struct.pack(">I", a) for i, a in ids)) + op(2, b"".join(op(1, b) for b in binders))
        base = copy_hello(d)
        base["exts"] = [x for x in base["exts"] if x[0] not in (X_PSK, X_PSKMODES)] + [[X_PSKMODES, op(1, b"\x01")]]
        if kind == "psk-not-last":
            e = copy_hello(base)
            e["exts"].insert(0, [X_PSK, psk([(ident, 0)], [bytes(32)])])
            add("first", e)
            e = copy_hello(base)
            e["exts"] += [[X_PSK, psk([(ident, 0)], [bytes(32)])], [0xfafa, b""]]
            add("before-grease", e)
        elif kind == "psk-identities":
            for vid, ids, bs in (("zero", [], []), ("two", [(ident, 0), (ident, 1)], [bytes(32), bytes(32)]),
                                 ("ids1-binders0", [(ident, 0)], []), ("ids0-binders1", [], [bytes(32)]),
                                 ("empty-identity", [(b"", 0)], [bytes(32)]), ("no-modes", [(ident, 0)], [bytes(32)])):
                e = copy_hello(base)
                if vid == "no-modes":
                    e["exts"] = [x for x in e["exts"] if x[0] != X_PSKMODES]
                e["exts"].append([X_PSK, psk(ids, bs)])
                add(vid, e)
            e = copy_hello(base)
            e["exts"] = [x for x in e["exts"] if x[0] != X_PSKMODES] + [[X_PSKMODES, op(1, b"\x00")], [X_PSK, psk([(ident, 0)], [bytes(32)])]]
            add("mode-psk-ke-only", e)
            e = copy_hello(base)
            e["exts"] = [x for x in e["exts"] if x[0] != X_PSKMODES] + [[X_PSKMODES, op(1, b"")], [X_PSK, psk([(ident, 0)], [bytes(32)])]]
            add("modes-empty", e)
        elif kind == "psk-binder-len":
            for n in (0, 1, 31, 32, 33, 48, 255):
                e = copy_hello(base)
                e["exts"].append([X_PSK, psk([(ident, 0)], [b"\x5a" * n])])
                add("binder%d" % n, e)
                e = copy_hello(base)
                e["exts"] += [[X_EARLY, b""], [X_PSK, psk([(ident, 0)], [b"\x5a" * n])]]
                add("binder%d-early" % n, e)
        else:
            for vid, i in (("unknown", unknown), ("long", bytes(5000)), ("one-byte", b"\x00")):
                e = copy_hello(base)
                e["exts"].append([X_PSK, psk([(i, 0xffffffff)], [bytes(32)])])
                add(vid, e)
    elif kind == "psk-selected-index":
        for v in (b"\x00\x00", b"\x00\x01", b"\xff\xff", b"\x00", b""):
            e = copy_hello(d)
            e["exts"].append([X_PSK, v])
            add("idx-%s" % (v.hex() or "empty"), e)
    elif kind == "early-data-without-psk":
        e = copy_hello(d)
        e["exts"].append([X_EARLY, b""])
        add("early", e)
        e = copy_hello(d)
        e["exts"].append([X_EARLY, b"\x00\x00\x00\x01"])
        add("early-with-body", e)
    elif kind == "sigalgs-unknown":
        for vid, v in (("unknown", op(2, b"\xfa\xfa")), ("empty", op(2, b"")), ("odd", op(2, b"\x08")), ("only-ecdsa", op(2, b"\x04\x03")),
                       ("only-ed25519", op(2, b"\x08\x07")), ("sha1", op(2, b"\x02\x01"))):
            add(vid, set_ext(copy_hello(d), X_SIGALGS, v))
    elif kind == "groups-unknown":
        for vid, v in (("unknown", op(2, b"\xfa\xfa")), ("empty", op(2, b"")), ("odd", op(2, b"\x00")), ("without-keyshare-group", op(2, b"\x00\x18"))):
            add(vid, set_ext(copy_hello(d), X_GROUPS, v))
    elif kind == "hello-retry-request":
        add("hrr-random", dict(copy_hello(d), random=HRR_RANDOM))
        e = dict(copy_hello(d), random=HRR_RANDOM)
        set_ext(e, X_KEYSHARE, b"\x00\x17")
        add("hrr-selected-group", e)
        e = dict(copy_hello(d), random=HRR_RANDOM)
        e["exts"].append([44, op(2, b"cookie")])
        add("hrr-cookie", e)
        add("downgrade-sentinel", dict(copy_hello(d), random=d["random"][:24] + b"DOWNGRD\x01"))
        add("sid-mismatch", dict(copy_hello(d), sid=b"\x01" * 32))
        add("sid-33", dict(copy_hello(d), sid=b"\x01" * 33))
    elif kind.startswith("tp-"):
        x = get_ext(d, X_TP)
        for vid, body in tp_mutations(kind, x[1] if x else b"", is_ch):
            e = copy_hello(d)
            if body is None:
                e["exts"] = [y for y in e["exts"] if y[0] != X_TP]
            else:
                set_ext(e, X_TP, body)
            add(vid, e)
    else:
        raise KeyError(kind)
    return out


def ee_mut(kind, m):
    exts = parse_exts(R(m[4:]).opq(2))
    d = {"exts": exts}

    def b(e):
        return msg(EE, build_exts(e["exts"]))
    out = []
    cp = lambda: {"exts": [[t, v] for t, v in exts]}       # noqa: E731
    if kind == "alpn-empty-list":
        out += [("empty-list", b(set_ext(cp(), X_ALPN, op(2, b"")))), ("empty-ext", b(set_ext(cp(), X_ALPN, b""))),
                ("empty-name", b(set_ext(cp(), X_ALPN, op(2, op(1, b"")))))]
    elif kind == "alpn-two":
        out += [("two", b(set_ext(cp(), X_ALPN, op(2, op(1, b"hq") + op(1, b"h3"))))),
                ("name-len-beyond", b(set_ext(cp(), X_ALPN, op(2, b"\x09hq"))))]
    elif kind == "alpn-nonascii":
        out += [("nonascii", b(set_ext(cp(), X_ALPN, op(2, op(1, b"\xff\xfe"))))),
                ("nonascii-then-hq", b(set_ext(cp(), X_ALPN, op(2, op(1, b"h\xe9") + op(1, b"hq")))))]
    elif kind == "alpn-not-offered":
        out += [("other", b(set_ext(cp(), X_ALPN, op(2, op(1, b"h3-nope"))))), ("absent", b({"exts": [x for x in exts if x[0] != X_ALPN]}))]
    elif kind == "ext-dup-each":
        for i in range(len(exts)):
            e = cp()
            e["exts"].insert(i, list(e["exts"][i]))
            out.append(("dup-ext%d" % exts[i][0], b(e)))
    elif kind == "ext-forbidden":
        for t, v in ((X_KEYSHARE, b"\x00\x1d" + op(2, bytes(32))), (X_VERSIONS, b"\x03\x04"), (X_PSK, b"\x00\x00"), (X_SIGALGS, op(2, b"\x08\x04")),
                     (0xfafa, b"x"), (X_SNI, b"")):
            e = cp()
            e["exts"].append([t, v])
            out.append(("ext%d" % t, b(e)))
        out.append(("no-extensions-block", msg(EE, b"")))
        out.append(("ext-len-beyond", msg(EE, op(2, struct.pack(">HH", X_ALPN, 50) + b"\x00"))))
    elif kind == "early-data-unsolicited":
        e = cp()
        e["exts"].append([X_EARLY, b""])
        out.append(("early", b(e)))
        e = cp()
        e["exts"].append([X_EARLY, b"\x00"])
        out.append(("early-with-body", b(e)))
    elif kind.startswith("tp-"):
        x = get_ext(d, X_TP)
        for vid, body in tp_mutations(kind, x[1] if x else b"", False):
            e = cp()
            if body is None:
                e["exts"] = [y for y in e["exts"] if y[0] != X_TP]
            else:
                set_ext(e, X_TP, body)
            out.append((vid, b(e)))
    else:
        raise KeyError(kind)
    return out


def parse_cert(m):
    r = R(m[4:])
    ctx = r.opq(1)
    lr = R(r.opq(3))
    entries = []
    while lr.left():
        entries.append([lr.opq(3), lr.opq(2)])
    return ctx, entries


def build_cert(ctx, entries):
    return msg(CERT, op(1, ctx) + op(3, b"".join(op(3, c) + op(2, x) for c, x in entries)))


def cert_mut(kind, m, other_cert_der=None):
    ctx, entries = parse_cert(m)
    c0 = entries[0][0] if entries else b"\x30\x00"
    if kind == "empty-list":
        return [("empty-list", build_cert(ctx, [])), ("no-list", msg(CERT, op(1, ctx)))]
    if kind == "garbage-der":
        return [("random", build_cert(ctx, [[bytes((i * 37) & 0xff for i in range(600)), b""]])),
                ("truncated-der", build_cert(ctx, [[c0[:len(c0) // 2], b""]])),
                ("flipped-byte", build_cert(ctx, [[c0[:200] + bytes([c0[200] ^ 0xff]) + c0[201:], b""]] + entries[1:])),
                ("der-trailing", build_cert(ctx, [[c0 + b"\x00\x00", b""]])),
                ("chain-garbage", build_cert(ctx, [entries[0], [b"\x30\x03\x02\x01\x00", b""]])),
                ("sequence-of-nothing", build_cert(ctx, [[b"\x30\x00", b""]]))]
    if kind == "zero-length-cert":
        return [("zero-first", build_cert(ctx, [[b"", b""]])), ("zero-second", build_cert(ctx, [entries[0], [b"", b""]]))]
    if kind == "long-chain":
        return [("chain12", build_cert(ctx, [entries[0]] * 12)), ("chain60-small", build_cert(ctx, [entries[0]] + [[b"\x30\x00", b""]] * 60))]
    if kind == "nonempty-context":
        return [("ctx1", build_cert(b"\x01", entries)), ("ctx255", build_cert(bytes(255), entries))]
    if kind == "entry-extensions":
        return [("status-request", build_cert(ctx, [[c0, struct.pack(">H", 5) + op(2, b"\x01" + op(3, b"ocsp"))]])),
                ("ext-garbage", build_cert(ctx, [[c0, b"\x00"]])), ("ext-len-beyond", msg(CERT, op(1, ctx) + op(3, op(3, c0) + b"\x00\x09\x00")))]
    if kind == "other-valid-cert":
        return [("other-cert", build_cert(ctx, [[other_cert_der or c0, b""]])), ("reversed-chain", build_cert(ctx, list(reversed(entries * 2))))]
    raise KeyError(kind)


def cv_mut(kind, m):
    r = R(m[4:])
    alg, sig = r.u(2), r.opq(2)

    def b(a, s):
        return msg(CV, struct.pack(">H", a) + op(2, s))
    if kind == "alg-not-advertised":
        return [("rsa-pkcs1-sha1", b(0x0201, sig)), ("ecdsa-p256", b(0x0403, sig)), ("ed25519", b(0x0807, sig)), ("rsa-pkcs1-sha256", b(0x0401, sig)),
                ("rsa-pss-pss", b(0x0809, sig))]
    if kind == "alg-unknown":
        return [("fafa", b(0xfafa, sig)), ("zero", b(0, sig)), ("ffff", b(0xffff, sig))]
    if kind == "sig-empty":
        return [("empty", b(alg, b"")), ("no-sig-field", msg(CV, struct.pack(">H", alg))), ("alg-only-1-byte", msg(CV, b"\x08"))]
    if kind == "sig-garbage":
        return [("zeros", b(alg, bytes(len(sig)))), ("short", b(alg, sig[:-1])), ("long", b(alg, sig + b"\x00")), ("one", b(alg, b"\x01")),
                ("huge", b(alg, bytes(60000))), ("flipped", b(alg, bytes([sig[0] ^ 1]) + sig[1:]))]
    raise KeyError(kind)


def fin_mut(kind, m):
    body = m[4:]
    if kind == "wrong-length":
        return [("len%d" % n, msg(FIN, body[:n] if n <= len(body) else body + bytes(n - len(body)))) for n in (0, 1, 31, 33, 47, 48, 49, 64, 2000) if n != len(body)]
    if kind == "wrong-mac":
        return [("flipped", msg(FIN, bytes([body[0] ^ 1]) + body[1:])), ("zeros", msg(FIN, bytes(len(body))))]
    raise KeyError(kind)


def nst_mut(kind, m):
    r = R(m[4:])
    lifetime, age, nonce, ticket = r.u(4), r.u(4), r.opq(1), r.opq(2)
    exts = parse_exts(r.opq(2))

    def b(lt=lifetime, ag=age, no=nonce, ti=ticket, ex=exts):
        return msg(NST, struct.pack(">II", lt, ag) + op(1, no) + op(2, ti) + build_exts(ex))
    if kind == "max-early-data-size":
        return [("med-%d" % v, b(ex=[[X_EARLY, struct.pack(">I", v)]])) for v in (0, 1, 0xfffffffe, 0xffffffff)] + \
               [("med-short", b(ex=[[X_EARLY, b"\x00\x00"]])), ("med-long", b(ex=[[X_EARLY, bytes(5)]])), ("med-empty", b(ex=[[X_EARLY, b""]]))]
    if kind == "truncated":
        body = m[4:]
        return [("cut%d" % c, msg(NST, body[:c])) for c in (0, 3, 4, 8, 9, 10, 11, len(body) - 3, len(body) - 1) if 0 <= c < len(body)]
    if kind == "ext-dup-each":
        return [("dup-early", b(ex=[[X_EARLY, b"\xff\xff\xff\xff"]] * 2)), ("unknown-ext", b(ex=exts + [[0xfafa, bytes(9)]])),
                ("lifetime-max", b(lt=0xffffffff)), ("lifetime-0", b(lt=0)), ("nonce-255", b(no=bytes(255))), ("nonce-empty", b(no=b""))]
    if kind == "huge-ticket":
        return [("ticket-empty", b(ti=b"")), ("ticket-60000", b(ti=bytes(60000))), ("ticket-1", b(ti=b"\x00"))]
    raise KeyError(kind)


def certreq(ctx=b"", exts=None):
    if exts is None:
        exts = [[X_SIGALGS, op(2, b"\x08\x04\x04\x03\x08\x07")]]
    return msg(CERTREQ, op(1, ctx) + build_exts(exts))
