"""C16 helpers: the rig (real H3Connection / H0Connection on a live QuicConnection
pair), byte-level concretisation of the input classes of H3Conn.tla, canonical
prefixes for the abstract states, and the mechanical projection of the real
objects onto the abstract state record.

Nothing here decides anything: outcomes are recorded and judged by TLC
(TraceH3Conn).  aioquic is imported lazily (after the overlay is active).
"""
import os
import random
import traceback

CA = "/repo/tests/pycacert.pem"
CERT = "/repo/tests/ssl_cert.pem"
KEY = "/repo/tests/ssl_key.pem"
CADDR = ("1.2.3.4", 1234)
SADDR = ("2.3.4.5", 4433)

VMAX = (1 << 62) - 1


# ------------------------------------------------------------------ bytes
def vi(n, size=None):
    """QUIC variable-length integer; `size` forces a (possibly non-minimal) length."""
    if size is None:
        size = 1 if n < 64 else 2 if n < 16384 else 4 if n < (1 << 30) else 8
    pre = {1: 0, 2: 1, 4: 2, 8: 3}[size]
    return (n | (pre << (8 * size - 2))).to_bytes(size, "big")


def frame(t, payload=b"", length=None, tsize=None, lsize=None):
    return vi(t, tsize) + vi(len(payload) if length is None else length, lsize) + payload


def settings(pairs):
    return b"".join(vi(k) + vi(v) for k, v in pairs)


def qint(prefix_bits, value, first=0):
    """QPACK/HPACK prefixed integer."""
    lim = (1 << prefix_bits) - 1
    if value < lim:
        return bytes([first | value])
    out = [first | lim]
    value -= lim
    while value >= 128:
        out.append(0x80 | (value & 0x7F))
        value >>= 7
    out.append(value)
    return bytes(out)


def qstr(prefix_bits, s, first=0):
    return qint(prefix_bits, len(s), first) + s


def field_line(name, value):
    """Literal field line with literal name (no Huffman, no table reference)."""
    return qstr(3, name, 0x20) + qstr(7, value)


def block(headers):
    """A QPACK field section using literals only (required insert count 0, base 0)."""
    return b"\x00\x00" + b"".join(field_line(n, v) for n, v in headers)


REQ_HEADERS = [(b":method", b"GET"), (b":scheme", b"https"), (b":authority", b"localhost"), (b":path", b"/")]
RSP_HEADERS = [(b":status", b"200"), (b"x", b"a")]
TRAILERS = [(b"x-trailer", b"1")]

# encoder stream prefix "ins": capacity 220, insert literal (x, a) -> absolute index 0
ENC_INS = qint(5, 220, 0x20) + qstr(5, b"x", 0x40) + qstr(7, b"a")
# field section referencing dynamic entry 0 (required insert count 1, base 1)
DYN_PREFIX = b"\x02\x00"


def first_headers(role):
    return RSP_HEADERS if role == "client" else REQ_HEADERS


def static_lines(role):
    """pseudo-headers of a valid first field section as raw field lines (no prefix)."""
    return block(first_headers(role)[:1] if role == "client" else REQ_HEADERS)[2:]


def blocked_section(role, phase_h):
    """A field section that needs dynamic entry 0; valid once unblocked."""
    if phase_h == "init":
        return DYN_PREFIX + static_lines(role) + b"\x80"
    return DYN_PREFIX + b"\x80"         # trailers: only (x, a)


# ------------------------------------------------------------------ stream ids
def ids(role):
    """Stream ids the *peer* of an endpoint with this role uses."""
    b = 3 if role == "client" else 2          # peer-initiated unidirectional
    return {"ctrl": b, "enc": b + 4, "dec": b + 8, "push": b + 12, "newuni": b + 16,
            "req": 0, "newreq": 1 if role == "client" else 4}


# ------------------------------------------------------------------ classes
def _rand(rnd, n):
    return bytes(rnd.randrange(256) for _ in range(n))


def uni_shapes(ctx):
    rnd = ctx["rnd"]
    S = {}
    S["CONTROL_TYPE"] = [(b"\x00", False), (vi(0, 2), False), (vi(0, 8), False)]
    S["CONTROL_FIN"] = [(b"\x00", True)]
    S["CONTROL_SETTINGS"] = [(b"\x00" + frame(4, settings([(1, 0), (7, 0)])), False),
                             (b"\x00" + frame(4, b""), False)]
    S["ENC_TYPE"] = [(b"\x02", False), (vi(2, 4), False)]
    S["ENC_FIN"] = [(b"\x02", True)]
    S["DEC_TYPE"] = [(b"\x03", False), (vi(3, 2), False)]
    S["DEC_FIN"] = [(b"\x03", True)]
    S["PUSH_TYPEONLY"] = [(b"\x01", False), (b"\x01", True)]
    S["PUSH_TRUNC"] = [(b"\x01\x40", False), (b"\x01\xc0\x00\x00", False), (b"\x01\x40", True)]
    S["PUSH_ID"] = [(b"\x01\x00", False), (b"\x01" + vi(9), False), (b"\x01" + vi(VMAX), False)]
    S["PUSH_ID_FIN"] = [(b"\x01\x00", True)]
    S["PUSH_HEADERS"] = [(b"\x01\x00" + frame(1, block(first_headers(ctx["role"]))), False),
                         (b"\x01\x00" + frame(1, block(first_headers(ctx["role"]))), True)]
    S["WT_UNI"] = [(vi(0x54) + vi(0) + b"hello", False), (vi(0x54) + vi(VMAX), False), (vi(0x54) + vi(4), False)]
    S["WT_UNI_TRUNC"] = [(vi(0x54) + b"\x40", False), (vi(0x54) + b"\xc0\x00", False), (vi(0x54), False)]
    S["WT_UNI_FIN"] = [(vi(0x54) + vi(0), True), (vi(0x54) + b"\x40", True), (vi(0x54), True)]
    S["GREASE"] = [(vi(0x21) + b"junk", False), (vi(0x21 + 0x1F * 7) + _rand(rnd, 9), True), (vi(0x21), False)]
    S["HUGE_TYPE"] = [(vi(VMAX) + b"junk", False), (vi(VMAX), True)]
    S["TRUNC_TYPE"] = [(b"\x40", False), (b"\xc0\x00\x00", False), (b"\x80\x00", False)]
    S["TRUNC_TYPE_FIN"] = [(b"\x40", True), (b"\xc0\x00\x00\x00\x00\x00\x00", True)]
    S["EMPTY_FIN"] = [(b"", True)]
    S["RANDOM"] = [(_rand(rnd, rnd.randint(1, 12)), rnd.random() < 0.3) for _ in range(3)]
    return S


def ctrl_shapes(ctx):
    rnd = ctx["rnd"]
    S = {}
    S["FIN"] = [(b"", True)]
    S["SETTINGS_EMPTY"] = [(frame(4, b""), False), (frame(4, b"", tsize=2, lsize=8), False)]
    S["SETTINGS_VALID"] = [(frame(4, settings([(1, 4096), (7, 16), (8, 1), (0x21, 1)])), False),
                           (frame(4, settings([(6, VMAX), (0x21 + 0x1F * 3, VMAX), (8, 0)])), False),
                           (frame(4, settings([(1, 0)])), False)]
    S["SETTINGS_ODD"] = [(frame(4, b"\x01"), False), (frame(4, settings([(1, 0)]) + b"\x07"), False),
                         (frame(4, b"\x21"), False)]
    S["SETTINGS_TRUNC_ID"] = [(frame(4, b"\x40"), False), (frame(4, b"\xc0\x00\x00"), False),
                              (frame(4, settings([(1, 0)]) + b"\x80\x00"), False)]
    S["SETTINGS_TRUNC_VAL"] = [(frame(4, b"\x01\x40"), False), (frame(4, b"\x07\xc0\x00\x00\x00"), False),
                               (frame(4, settings([(1, 0)]) + b"\x07\x80"), False)]
    S["SETTINGS_RESERVED"] = [(frame(4, settings([(i, 0)])), False) for i in (0, 2, 3, 4, 5)] + \
                             [(frame(4, settings([(1, 0), (2, VMAX)])), False)]
    S["SETTINGS_DUP"] = [(frame(4, settings([(1, 0), (1, 0)])), False), (frame(4, settings([(0x21, 1), (7, 1), (0x21, 2)])), False)]
    S["SETTINGS_BOOL_BAD"] = [(frame(4, settings([(i, v)])), False)
                              for i in (0x8, 0x33, 0x2B603742) for v in (2, VMAX)]
    S["SETTINGS_WT_NO_DGRAM"] = [(frame(4, settings([(0x2B603742, 1)])), False),
                                 (frame(4, settings([(0x2B603742, 1), (0x33, 0)])), False)]
    S["SETTINGS_DGRAM"] = [(frame(4, settings([(0x33, 1)])), False),
                           (frame(4, settings([(0x33, 1), (0x2B603742, 1)])), False)]
    S["SETTINGS_HUGE_VALS"] = [(frame(4, settings([(1, VMAX), (7, VMAX)])), False),
                               (frame(4, settings([(1, 1 << 32), (7, 1 << 32)])), False),
                               (frame(4, settings([(1, (1 << 31)), (7, (1 << 16))])), False)]
    S["SETTINGS_TWICE"] = [(frame(4, b"") + frame(4, b""), False),
                           (frame(4, settings([(1, 0)])) + frame(4, settings([(1, 0)])), False)]
    S["MAXPUSH_VALID"] = [(frame(0xD, vi(8)), False), (frame(0xD, vi(VMAX)), False), (frame(0xD, vi(0)), False),
                          (frame(0xD, vi(8, 8)), False)]
    S["MAXPUSH_EMPTY"] = [(frame(0xD, b""), False)]
    S["MAXPUSH_TRAIL"] = [(frame(0xD, vi(8) + b"\x00"), False), (frame(0xD, vi(8) + vi(9)), False)]
    S["MAXPUSH_TRUNC"] = [(frame(0xD, b"\x40"), False), (frame(0xD, b"\xc0\x00\x00\x00\x00\x00\x00"), False)]
    S["MAXPUSH_DECREASE"] = [(frame(0xD, vi(8)) + frame(0xD, vi(4)), False)]
    S["GOAWAY_VALID"] = [(frame(7, vi(0)), False), (frame(7, vi(VMAX)), False), (frame(7, vi(3)), False)]
    S["GOAWAY_EMPTY"] = [(frame(7, b""), False)]
    S["GOAWAY_OVERSIZE"] = [(frame(7, vi(0) + b"\x00" * 20), False), (frame(7, b"\x40"), False)]
    S["CANCEL_VALID"] = [(frame(3, vi(0)), False), (frame(3, vi(VMAX)), False)]
    S["CANCEL_EMPTY"] = [(frame(3, b""), False)]
    S["CANCEL_OVERSIZE"] = [(frame(3, vi(0) + b"\x01\x02"), False), (frame(3, b"\xc0"), False)]
    S["DATA_ON_CTRL"] = [(frame(0, b"abc"), False), (frame(0, b""), False)]
    S["HEADERS_ON_CTRL"] = [(frame(1, block(first_headers(ctx["role"]))), False), (frame(1, b""), False)]
    S["PP_ON_CTRL"] = [(frame(5, vi(0) + block(REQ_HEADERS)), False), (frame(5, b""), False)]
    S["DUPPUSH_ON_CTRL"] = [(frame(0xE, vi(0)), False), (frame(0xE, b""), False)]
    S["PRIORITY_ON_CTRL"] = [(frame(2, b"\x00\x00\x00\x00"), False), (frame(2, b""), False)]
    S["UNKNOWN_ON_CTRL"] = [(frame(0x21, b"grease"), False), (frame(VMAX, b""), False), (frame(0x40, b"\x00" * 70), False)]
    S["WT_ON_CTRL"] = [(frame(0x41, b""), False), (vi(0x41) + vi(0) + b"data", False)]
    S["LEN_HUGE"] = [(frame(t, b"ab", length=n), False) for t in (4, 0xD, 7, 0x21) for n in (VMAX, 1 << 30)][:6]
    S["TRUNC_TYPE"] = [(b"\x40", False), (b"\xc0\x00\x00", False)]
    S["TRUNC_LEN"] = [(b"\x04", False), (b"\x0d\x40", False), (b"\x07\xc0\x00", False)]
    S["RANDOM"] = [(_rand(rnd, rnd.randint(1, 14)), False) for _ in range(4)]
    return S


def req_shapes(ctx):
    rnd, role = ctx["rnd"], ctx["role"]
    first = first_headers(role)
    pseudo = first[:1] if role == "client" else first
    S = {}

    def H(headers, fin=False):
        return (frame(1, block(headers)), fin)

    S["HEADERS_VALID"] = [H(first), (frame(1, block(first), lsize=4), False)]
    S["HEADERS_VALID_FIN"] = [H(first, True)]
    S["TRAILERS_VALID"] = [H(TRAILERS), H(TRAILERS, True)]
    S["HEADERS_CL_MISMATCH"] = [H(first + [(b"content-length", b"3")], True),
                                (frame(1, block(first + [(b"content-length", b"3")])) + frame(0, b"ab"), True)]
    S["HEADERS_EMPTY"] = [(frame(1, b""), False), (frame(1, b"") + frame(0x21, b"x"), False)]
    S["HEADERS_GARBAGE"] = [(frame(1, b"\x00\x00\xff\xff\xff\xff\xff\xff\xff\xff\xff\xff\x7f"), False),
                            (frame(1, b"\x00"), False), (frame(1, b"\x00\x00\x3f"), False),
                            (frame(1, b"\x00\x80\x00"), False)]
    S["HEADERS_BLOCKED"] = [(frame(1, blocked_section(role, "init")), False),
                            (frame(1, b"\x03\x00\x81\x80"), False)]
    S["HEADERS_BLOCKED_FIN"] = [(frame(1, blocked_section(role, "init")), True)]
    S["HEADERS_DYN_TRAILERS"] = [(frame(1, blocked_section(role, "hdrs")), False)]
    S["HEADERS_BADREF"] = [(frame(1, DYN_PREFIX + b"\x81"), False), (frame(1, DYN_PREFIX + b"\xbf\x40"), False),
                           (frame(1, DYN_PREFIX + b"\x10"), False)]
    S["HEADERS_RIC_HUGE"] = [(frame(1, b"\xff\x7f\x00\xc0"), False), (frame(1, b"\xff\xff\xff\xff\xff\xff\xff\xff\xff\x7f\x00"), False),
                             (frame(1, qint(8, 257) + b"\x00\x80"), False)]
    S["NAME_UPPER"] = [H(pseudo + [(b"X-Upper", b"1")]), H(pseudo + [(b"a b", b"1")]), H(pseudo + [(b"a:b", b"1")]),
                       H(pseudo + [(b"", b"1")]), H(pseudo + [(b"a\x7f", b"1")])]
    S["NAME_2000"] = [H(pseudo + [(b"A" * 2000, b"1")]), H(pseudo + [(b"\xff" * 1100, b"1")]),
                      H(pseudo + [(b"a" * 1500 + b" ", b"")]), H([(b":" + b"z" * 1300, b"")])]
    S["NAME_70000"] = [H(pseudo + [(b"A" * 70000, b"1")])]
    S["VALUE_NONUTF8"] = [H(first + [(b"x-bin", b"\xff\xfe")]), H(first + [(b"x-bin", b"\xc3")]),
                          H(pseudo + [(b"x-bin", b"a\x80b")], True)]
    S["VALUE_BAD"] = [H(first + [(b"x-v", b"a\nb")]), H(first + [(b"x-v", b" a")]), H(first + [(b"x-v", b"a\t")]),
                      H(first + [(b"x-v", b"\x00")]), H(first + [(b"x" * 1400, b"\r")])]
    if role == "client":
        S["PSEUDO_BAD"] = [H([(b"x", b"a")]), H([(b":status", b"200"), (b":status", b"200")]),
                           H([(b"x", b"a"), (b":status", b"200")]), H([(b":status", b"200"), (b":method", b"GET")]),
                           H([(b":status", b"200"), (b":" + b"q" * 1300, b"")])]
    else:
        S["PSEUDO_BAD"] = [H(REQ_HEADERS[1:]), H(REQ_HEADERS + REQ_HEADERS[:1]), H([(b"x", b"a")] + REQ_HEADERS),
                           H(REQ_HEADERS + [(b":status", b"200")]), H([(b":method", b"GET"), (b":scheme", b"https"), (b":authority", b""), (b":path", b"/")]),
                           H([(b":method", b"GET"), (b":scheme", b"http"), (b":authority", b"a"), (b":path", b"")]),
                           H(REQ_HEADERS + [(b":" + b"q" * 1300, b"")])]
    S["CL_TE_BAD"] = [H(first + [(b"content-length", b"-1")]), H(first + [(b"content-length", b"1e3")]),
                      H(first + [(b"content-length", b"9" * 5000)]), H(first + [(b"content-length", b"\xff")]),
                      H(first + [(b"transfer-encoding", b"chunked")])]
    S["DATA"] = [(frame(0, b"abc"), False), (frame(0, b"a") + frame(0, b"bc"), False), (frame(0, b"abc", lsize=8), False)]
    S["DATA_FIN"] = [(frame(0, b"abc"), True)]
    S["DATA_EMPTY"] = [(frame(0, b""), False), (frame(0, b"") + frame(0, b""), False), (frame(0, b""), True)]
    S["DATA_PARTIAL"] = [(frame(0, b"ab", length=5), False), (frame(0, b"ab", length=5), True), (frame(0, b"", length=1), False)]
    S["DATA_LEN_HUGE"] = [(frame(0, b"ab", length=VMAX), False), (frame(0, b"ab", length=VMAX), True)]
    S["PP_VALID"] = [(frame(5, vi(0) + block(REQ_HEADERS)), False), (frame(5, vi(VMAX) + block(REQ_HEADERS)), False),
                     (frame(5, vi(9) + block(REQ_HEADERS)), True)]
    S["PP_EMPTY"] = [(frame(5, b""), False), (frame(5, b""), True), (frame(5, b"") + frame(0x21, b""), False)]
    S["PP_TRUNC_ID"] = [(frame(5, b"\x40"), False), (frame(5, b"\xc0\x00\x00\x00"), False), (frame(5, b"\x80\x00\x00"), True)]
    S["PP_ID_ONLY"] = [(frame(5, vi(0)), False), (frame(5, vi(VMAX)), False)]
    S["PP_BADHDRS"] = [(frame(5, vi(0) + block(REQ_HEADERS[1:])), False), (frame(5, vi(0) + block([(b"A" * 1900, b"")])), False),
                       (frame(5, vi(0) + blocked_section("server", "init")), False)]
    S["CTRLFRAME_ON_REQ"] = [(frame(t, b"\x00"), False) for t in (2, 3, 4, 7, 0xD, 0xE)]
    S["CTRLFRAME_ZEROLEN"] = [(frame(t, b""), False) for t in (3, 4, 7, 0xD)] + [(frame(4, b"") + frame(0x21, b"x"), False)]
    S["UNKNOWN_SMALL"] = [(frame(0x21, b"grease"), False), (frame(VMAX, b"x"), False), (frame(0x21, b""), True)]
    S["UNKNOWN_LEN_HUGE"] = [(frame(0x21, b"ab", length=VMAX), False), (frame(0x40, b"", length=1 << 40), True),
                             (frame(1, b"\x00\x00", length=VMAX), False), (frame(5, b"\x00", length=1 << 32), True)]
    S["WT_FRAME"] = [(vi(0x41) + vi(0) + b"data", False), (vi(0x41) + vi(VMAX), True), (vi(0x41) + vi(0), False)]
    S["WT_TRUNC"] = [(vi(0x41) + b"\x40", False), (vi(0x41), False), (vi(0x41) + b"\xc0\x00\x00", True)]
    S["FIN"] = [(b"", True)]
    S["TRUNC_TYPE"] = [(b"\x40", False), (b"\xc0\x00\x00", True)]
    S["TRUNC_LEN"] = [(b"\x01", False), (b"\x00\x40", False), (b"\x05\xc0\x00", True), (b"\x01\x80", False)]
    S["RANDOM"] = [(_rand(rnd, rnd.randint(1, 16)), rnd.random() < 0.3) for _ in range(4)]
    return S


def enc_shapes(ctx):
    rnd = ctx["rnd"]
    S = {}
    S["SETCAP_OK"] = [(qint(5, 220, 0x20), False), (qint(5, 4096, 0x20), False), (qint(5, 0, 0x20), False)]
    S["SETCAP_OVER"] = [(qint(5, 4097, 0x20), False), (qint(5, 1 << 30, 0x20), False)]
    S["INSERT_OK"] = [(ENC_INS, False), (qint(5, 220, 0x20) + qint(6, 0, 0xC0) + qstr(7, b"a"), False)]
    S["INSERT_NO_CAP"] = [(qstr(5, b"y", 0x40) + qstr(7, b"b"), False), (qint(6, 1, 0xC0) + qstr(7, b"/x"), False)]
    S["INSERT_BADREF"] = [(qint(5, 220, 0x20) + qint(6, 99, 0xC0) + qstr(7, b"a"), False),
                          (qint(5, 220, 0x20) + qint(6, 5, 0x80) + qstr(7, b"a"), False)]
    S["DUP_NONEXIST"] = [(qint(5, 0, 0x00), False), (qint(5, 30, 0x00), False), (qint(5, 220, 0x20) + qint(5, 7, 0x00), False)]
    S["TRUNC_INT"] = [(b"\x3f", False), (b"\x3f\x80", False), (b"\x5f", False), (qint(5, 3, 0x40) + b"ab", False)]
    S["INT_OVERFLOW"] = [(b"\x3f" + b"\xff" * 10 + b"\x7f", False), (b"\x1f" + b"\xff" * 9 + b"\x01", False),
                         (b"\xff" + b"\x80" * 12 + b"\x01", False)]
    S["STR_LEN_HUGE"] = [(qint(5, 220, 0x20) + qint(5, 1 << 28, 0x40) + b"abc", False),
                         (qint(5, 220, 0x20) + qstr(5, b"n", 0x40) + qint(7, 1 << 40) + b"v", False),
                         (qint(5, 220, 0x20) + qstr(5, b"n", 0x40) + qstr(7, b"v" * 5000), False)]
    S["HUFFMAN_BAD"] = [(qint(5, 220, 0x20) + qstr(5, b"\xff\xff\xff\xff", 0x60) + qstr(7, b"a"), False),
                        (qint(5, 220, 0x20) + qstr(5, b"n", 0x40) + qstr(7, b"\xff\xff\xff\xff\xff", 0x80), False)]
    S["FIN"] = [(b"", True)]
    S["RANDOM"] = [(_rand(rnd, rnd.randint(1, 14)), False) for _ in range(4)]
    return S


def dec_shapes(ctx):
    rnd = ctx["rnd"]
    S = {}
    S["SECTION_ACK_UNKNOWN"] = [(qint(7, 0, 0x80), False), (qint(7, 4, 0x80), False), (qint(7, VMAX, 0x80), False)]
    S["STREAM_CANCEL"] = [(qint(6, 0, 0x40), False), (qint(6, 1 << 40, 0x40), False)]
    S["ICI_ZERO"] = [(qint(6, 0, 0x00), False)]
    S["ICI_BEYOND"] = [(qint(6, 1, 0x00), False), (qint(6, 1000, 0x00), False)]
    S["INT_OVERFLOW"] = [(b"\x3f" + b"\xff" * 10 + b"\x7f", False), (b"\xff" + b"\xff" * 10 + b"\x7f", False),
                         (b"\x7f" + b"\x80" * 12 + b"\x01", False)]
    S["TRUNC_INT"] = [(b"\x3f", False), (b"\xff\x80", False), (b"\x7f\xff\xff", False)]
    S["FIN"] = [(b"", True)]
    S["RANDOM"] = [(_rand(rnd, rnd.randint(1, 14)), False) for _ in range(4)]
    return S


def dgram_shapes(ctx):
    rnd = ctx["rnd"]
    S = {}
    S["EMPTY"] = [(b"", False)]
    S["TRUNC_QSID"] = [(b"\x40", False), (b"\xc0\x00\x00\x00\x00\x00\x00", False), (b"\x80\x00\x00", False)]
    S["VALID"] = [(vi(0) + b"payload", False), (vi(0), False), (vi(5) + b"x", False)]
    S["QSID_HUGE"] = [(vi(VMAX) + b"x", False), (vi(1 << 60), False)]
    S["RANDOM"] = [(_rand(rnd, rnd.randint(1, 10)), False) for _ in range(3)]
    return S


def h0_shapes(ctx):
    rnd = ctx["rnd"]
    S = {}
    S["LINE_OK"] = [(b"GET /\r\n", False), (b"GET /index.html\r\n", True), (b"GET / HTTP/0.9 extra\r\n", False)]
    S["LINE_NOSPACE"] = [(b"GET\r\n", False), (b"GET/\r\n", True), (b"\r\n", False), (b"G\r\n", False)]
    S["LINE_BLANK"] = [(b" \r\n", False), (b"   \r\n", True), (b"\t\r\n", False), (b"\n\r\n", False)]
    S["NOCRLF"] = [(b"GET /", False), (b"GET", False), (b"GET /\r", False), (b"GET /\n", False)]
    S["NOCRLF_FIN"] = [(b"GET /", True), (b"GET", True), (b"GET /\r", True)]
    S["EMPTY_FIN"] = [(b"", True)]
    S["BINARY"] = [(b"\x00\xff\xfe\r\n", False), (b"\xff" * 9, True), (b"\x00 \x00\r\n", False), (b" \xff\r\n", True)]
    S["LONG"] = [(b"GET /" + b"a" * 70000 + b"\r\n", False), (b"A" * 70000, True)]
    S["RANDOM"] = [(_rand(rnd, rnd.randint(1, 12)) + (b"\r\n" if rnd.random() < 0.5 else b""), rnd.random() < 0.4)
                   for _ in range(4)]
    return S


SHAPES_BY_TARGET = {"newuni": uni_shapes, "ctrl": ctrl_shapes, "req": req_shapes, "newreq": req_shapes,
                    "push": req_shapes, "enc": enc_shapes, "dec": dec_shapes, "dgram": dgram_shapes,
                    "h0req": h0_shapes, "h0new": h0_shapes, "h0other": h0_shapes}


def shape_names():
    """target -> sorted shape names (compared with the class table TLC prints)."""
    ctx = {"rnd": random.Random(0), "role": "server"}
    return {t: sorted(f(ctx)) for t, f in SHAPES_BY_TARGET.items()}


_CONC = {}


def concretise(role, target, shape, seed):
    """All concretisations (bytes, fin) of a class; deterministic for a seed."""
    key = (role, target, seed)
    if key not in _CONC:
        ctx = {"rnd": random.Random("%s/%s/%d" % (role, target, seed)), "role": role}
        _CONC[key] = SHAPES_BY_TARGET[target](ctx)
    return _CONC[key][shape]


def chunkings(data, fin, mode):
    """mode: "whole" | "bytes" | ("split", k) | "finsep" -> list of (chunk, fin) events.
    Only events a QUIC stream can produce: non-empty data or FIN."""
    if mode == "whole" or len(data) == 0:
        return [(data, fin)]
    if mode == "bytes":
        return [(data[i:i + 1], fin and i == len(data) - 1) for i in range(len(data))]
    if mode == "finsep":
        return [(data, False)] + ([(b"", True)] if fin else [])
    k = mode[1]
    if not 0 < k < len(data):
        return [(data, fin)]
    return [(data[:k], False), (data[k:], fin)]


# ------------------------------------------------------------------ canonical prefixes
def prefix_script(st):
    """Events [(target, bytes, fin)] that drive a fresh endpoint into abstract state st
    using only well-formed input (each dimension independently)."""
    role = st["role"]
    ev = []
    if st["layer"] == "h0":
        if st["req"] == "init.mid":
            ev.append(("h0req", b"GET /par", False))
        elif st["req"] == "hdrs":
            ev.append(("h0req", b"GET /\r\n", False))
        elif st["req"] == "fin":
            ev.append(("h0req", b"GET /\r\n", True))
        return ev
    c = st["ctrl"]
    if c != "none":
        ev.append(("ctrl", b"\x00", False))
    if c in ("set", "setMid"):
        pairs = [(1, 4096), (7, 16), (0x21, 7)]
        if st["tp"]:
            pairs += [(0x33, 1), (0x2B603742, 1)]
        ev.append(("ctrl", frame(4, settings(pairs)), False))
    if st["mpi"]:
        ev.append(("ctrl", frame(0xD, vi(8)), False))
    if c == "setMid":
        ev.append(("ctrl", b"\x07", False))
    if c == "openMid":
        ev.append(("ctrl", b"\x04", False))
    if st["dec"]:
        ev.append(("dec", b"\x03", False))
    e = st["enc"]
    if e != "none":
        ev.append(("enc", b"\x02", False))
    if e == "ins":
        ev.append(("enc", ENC_INS, False))
    r = st["req"]
    h, _, p = r.partition(".")
    rq = []
    if r == "fin":
        rq.append(("req", frame(1, block(first_headers(role))), True))
    else:
        if h in ("hdrs", "trl") and not (h == "hdrs" and p == "blocked" and False):
            rq.append(("req", frame(1, block(first_headers(role))), False))
        if h == "trl":
            rq.append(("req", frame(1, block(TRAILERS)), False))
        if p == "mid":
            rq.append(("req", b"\x01", False))
        elif p == "data":
            rq.append(("req", frame(0, b"ab", length=5), False))
        elif p == "wt":
            rq.append(("req", vi(0x41) + vi(0), False))
        elif p in ("blocked", "bfin"):
            rq.append(("req", frame(1, blocked_section(role, h)), p == "bfin"))
    ev += rq
    pu = st["push"]
    if pu != "none":
        ev.append(("push", b"\x01", False))
    if pu in ("open", "hdrs"):
        ev.append(("push", vi(0), False))
    if pu == "hdrs":
        ev.append(("push", frame(1, block(RSP_HEADERS)), False))
    return ev


# ------------------------------------------------------------------ the rig
_CFG = {}


def _base_config(A, is_client):
    k = is_client
    if k not in _CFG:
        c = A["QuicConfiguration"](is_client=is_client)
        if is_client:
            c.load_verify_locations(cafile=CA)
        else:
            c.load_cert_chain(CERT, KEY)
        _CFG[k] = c
    return _CFG[k]


def load_modules():
    from aioquic.quic.configuration import QuicConfiguration
    from aioquic.quic.connection import QuicConnection
    from aioquic.quic.logger import QuicLogger
    from aioquic.quic import events as qevents
    from aioquic.h3.connection import H3Connection, HeadersState
    from aioquic.h0.connection import H0Connection
    import aioquic
    return {"QuicConfiguration": QuicConfiguration, "QuicConnection": QuicConnection, "QuicLogger": QuicLogger,
            "qevents": qevents, "H3Connection": H3Connection, "H0Connection": H0Connection,
            "HeadersState": HeadersState, "pkgdir": os.path.dirname(os.path.realpath(aioquic.__file__))}


def innermost_aioquic(exc, pkgdir):
    """Function name of the innermost traceback frame that lies inside aioquic."""
    fn = "?"
    for fs, _ in traceback.walk_tb(exc.__traceback__):
        if os.path.realpath(fs.f_code.co_filename).startswith(pkgdir):
            fn = fs.f_code.co_name
    return fn


class Rig:
    """One endpoint under test (H3 or H0, client or server role) on a live QUIC
    connection whose handshake with a real peer connection has completed."""

    def __init__(self, A, layer, role, tp=True, qlog=True, webtransport=None):
        self.A, self.layer, self.role, self.tp = A, layer, role, tp
        self.now = 1000.0
        alpn = ["h3"] if layer == "h3" else ["hq-interop"]
        conns = {}
        for is_client in (True, False):
            b = _base_config(A, is_client)
            cfg = A["QuicConfiguration"](
                is_client=is_client, alpn_protocols=alpn,
                quic_logger=A["QuicLogger"]() if qlog else None,
                max_datagram_frame_size=65536 if tp else None,
                certificate=b.certificate, certificate_chain=b.certificate_chain, private_key=b.private_key,
                cadata=b.cadata, cafile=b.cafile, capath=b.capath, server_name="localhost")
            kw = {}
            if not is_client:
                kw["original_destination_connection_id"] = conns[True].original_destination_connection_id
            conns[is_client] = A["QuicConnection"](configuration=cfg, **kw)
        c, s = conns[True], conns[False]
        c.connect(SADDR, now=self.now)
        for _ in range(4):
            self._xfer(c, s, CADDR)
            self._xfer(s, c, SADDR)
        self.quic = c if role == "client" else s
        self.peer = s if role == "client" else c
        self.me_addr = CADDR if role == "client" else SADDR
        for q in (c, s):
            while q.next_event() is not None:
                pass
        if not (c._handshake_confirmed and s._handshake_confirmed):
            raise RuntimeError("rig: handshake not confirmed")
        self.ids = ids(role)
        self.fin = set()                # stream ids on which the peer's FIN was delivered
        if layer == "h3":
            self.http = A["H3Connection"](self.quic, enable_webtransport=tp if webtransport is None else webtransport)
            if role == "client":        # the client has an outstanding request on stream 0
                sid = self.quic.get_next_available_stream_id()
                self.http.send_headers(sid, REQ_HEADERS, end_stream=True)
        else:
            self.http = A["H0Connection"](self.quic)
            if role == "client":
                sid = self.quic.get_next_available_stream_id()
                self.http.send_headers(sid, [(b":method", b"GET"), (b":path", b"/")], end_stream=True)
            self.ids = {"h0req": 0, "h0new": 1 if role == "client" else 4, "h0other": 3 if role == "client" else 2}

    def _xfer(self, a, b, from_addr):
        self.now += 0.01
        n = 0
        for d, _ in a.datagrams_to_send(now=self.now):
            b.receive_datagram(d, from_addr, now=self.now)
            n += 1
        return n

    # -- environment guard: only events a QUIC connection could deliver
    def allowed_stream(self, sid):
        peer_is_client = self.role == "server"
        initiated_by_client = sid % 2 == 0
        if sid % 4 >= 2:                                  # unidirectional: only peer-initiated
            return initiated_by_client == peer_is_client
        if initiated_by_client == peer_is_client:         # peer-initiated bidirectional
            return True
        return sid in self.quic._streams                  # ours: only if we opened it

    def feed(self, target, data, fin, sid=None):
        """One transport event into handle_event.  Returns (names of events | None, exc)."""
        ev = self.A["qevents"]
        if target == "dgram":
            e = ev.DatagramFrameReceived(data=data)
        else:
            sid = self.ids[target] if sid is None else sid
            if not self.allowed_stream(sid) or sid in self.fin or (not data and not fin):
                raise GuardError("event outside what QUIC can deliver: sid=%r fin=%r len=%d" % (sid, fin, len(data)))
            if fin:
                self.fin.add(sid)
            e = ev.StreamDataReceived(data=data, end_stream=fin, stream_id=sid)
        try:
            out = self.http.handle_event(e)
        except Exception as exc:            # noqa: recorded, judged by TLC
            return None, exc
        return [type(x).__name__ for x in out], None

    def closed(self):
        ce = self.quic._close_event
        return None if ce is None else ce

    def transmit(self):
        """datagrams_to_send on the live connection; deliver to the peer; report
        what the peer saw.  -> dict(raised, exc, fn, sent, peer_code)"""
        self.now += 0.01
        r = {"raised": False, "exc": "", "fn": "", "sent": 0, "peer_code": -1, "peer_reason_len": -1}
        try:
            dgs = self.quic.datagrams_to_send(now=self.now)
        except Exception as exc:            # noqa
            r.update(raised=True, exc=type(exc).__name__, fn=innermost_aioquic(exc, self.A["pkgdir"]))
            return r
        r["sent"] = len(dgs)
        for d, _ in dgs:
            self.peer.receive_datagram(d, self.me_addr, now=self.now)
        if self.quic._close_event is not None:
            t = self.peer.get_timer()           # the peer reports the close when its draining period ends
            if t is not None:
                self.peer.handle_timer(now=t)
        while True:
            e = self.peer.next_event()
            if e is None:
                break
            if type(e).__name__ == "ConnectionTerminated":
                r["peer_code"] = e.error_code
                r["peer_reason_len"] = len(e.reason_phrase)
        return r

    # -- projection of the real object onto the abstract record (mechanical)
    def _stream_phase(self, sid):
        st = self.http._stream.get(sid)
        HS = self.A["HeadersState"]
        if st is not None:
            h = {HS.INITIAL: "init", HS.AFTER_HEADERS: "hdrs", HS.AFTER_TRAILERS: "trl"}[st.headers_recv_state]
        if sid in self.fin:
            return h + ".bfin" if st is not None and st.blocked else "fin"
        if st is None:
            return "init"
        if st.blocked:
            p = "blocked"
        elif st.frame_type == 0x41 and st.session_id is not None:
            p = "wt"
        elif st.frame_type == 0 and st.frame_size is not None:
            p = "data"
        elif st.buffer or st.frame_size is not None:
            p = "mid"
        else:
            return h
        return h + "." + p

    def project(self):
        base = {"layer": self.layer, "role": self.role, "tp": self.tp, "ctrl": "none", "enc": "none", "dec": False,
                "req": "init", "push": "none", "mpi": False, "done": False}
        x = self.http
        if self.layer == "h0":
            if 0 in self.fin:
                base["req"] = "fin"
            elif x._headers_received.get(0, False):
                base["req"] = "hdrs"
            elif 0 in x._buffer:
                base["req"] = "init.mid"
            return base
        if x._peer_control_stream_id is not None:
            buf = x._stream[x._peer_control_stream_id].buffer
            base["ctrl"] = ("set" if x._settings_received else "open") + ("Mid" if buf else "")
        if x._peer_encoder_stream_id is not None:
            base["enc"] = "ins" if x._encoder_bytes_received > 0 else "open"
        base["dec"] = x._peer_decoder_stream_id is not None
        base["req"] = self._stream_phase(0)
        if self.role == "client":
            st = x._stream.get(self.ids["push"])
            if st is not None and st.stream_type == 1:
                if st.push_id is None:
                    base["push"] = "type"
                else:
                    ph = self._stream_phase(self.ids["push"])
                    base["push"] = "open" if ph == "init" else "hdrs" if ph == "hdrs" else "other:" + ph
            elif st is not None:
                base["push"] = "other"
        else:
            base["mpi"] = x._max_push_id is not None
        base["done"] = bool(x._is_done)
        return base


class GuardError(Exception):
    pass
