"""C18 - the connection-ID life cycle honours the peer's instructions.

(M) TLC explores Cid.tla: NEW_CONNECTION_ID frames with any sequence number, retire-prior-to,
    duplicates and reordering, local changes, loss and acknowledgement of the
    RETIRE_CONNECTION_ID frames, the peer retiring our IDs; invariants NeverUseRetired, Cap,
    AnnounceRetirement, IssueWithinLimit.
(R/V) netsim scripts with change_connection_id() calls by both sides, client rebinding, loss /
    duplication / reordering of the datagrams that carry the frames, and a key-holding peer
    that re-sends NEW_CONNECTION_ID frames the genuine endpoint has emitted (consistent
    sequence number / ID / token) with raised retire-prior-to values, early, late and
    duplicated.  The observer decodes destination CIDs and NEW/RETIRE_CONNECTION_ID frames of
    every packet; TLC judges the trace with TraceCid.
"""
import json
import random

from .. import trace
from ..netsim import project, runner, script, sim
from ..overlay import MachineryError

_A = None


def job_fn(job):
    s = script.run(_A, job["cfg"], job["script"], seed=job["seed"], hs_adv=job["hs_adv"])
    lines = project.cid(s.log)
    rpt = any(l["ev"] == "ncid" and l["rpt"] > 0 for l in lines)
    retires = sum(len(l["retire"]) for l in lines if l["ev"] == "pkt")
    return {"lines": lines, "nontrivial": bool(rpt or retires), "raised": s.raised[:3], "retires": retires,
            "ncid": sum(1 for l in lines if l["ev"] == "ncid"),
            "term": [(e["ep"], e["code"], e["reason"]) for e in s.log if e["k"] == "ev" and e["cls"] == "ConnectionTerminated"]}


def judge(check, jobs, results, name):
    lines, owner = [], []
    for ji, r in enumerate(results):
        for ln in r["lines"]:
            lines.append(ln)
            owner.append(ji)
    fails = trace.validate(check, "TraceCid", lines, name=name, group_key=lambda ln: ln["ev"] == "init",
                           constants="CONSTANTS MaxSeq = 1\nLimit = 1")
    check.cov["traces_validated_against_impl"] += len(jobs)
    seen = set()
    for i, clause in fails:
        ji = owner[i]
        if (ji, clause) in seen:
            continue
        seen.add((ji, clause))
        ln = lines[i]
        sig = "cid:%s:ep=%s" % (clause, ln.get("ep", "-"))
        detail = {"clause": clause, "line": ln, "job": jobs[ji], "terminated": results[ji]["term"], "raised": results[ji]["raised"]}
        (check.drift if clause.startswith("model:") else check.violation)(sig, detail)


def run(check):
    global _A
    check.build_overlay()
    _A = sim.load_modules()
    if check.replay:
        d = json.load(open(check.replay))["detail"]
        if "job" not in d:
            raise MachineryError("replay of a design-level counterexample: run the check itself")
        res = [job_fn(d["job"])]
        judge(check, [d["job"]], res, "replay")
        check.count(repr(d["job"]), evaluations=len(res[0]["lines"]))
        check.sample({"replayed": d["job"]})
        check.cov["rule"] = "replay of one recorded script"
        return
    cfg = ("SPECIFICATION Spec\nCONSTANTS MaxSeq = %d\nLimit = 2\nINVARIANT TypeOk\nINVARIANT NeverUseRetired\nINVARIANT Cap\n"
           "INVARIANT AnnounceRetirement\nINVARIANT NoReuse\nINVARIANT IssueWithinLimit\n" % (3 if check.quick else 4))
    r = check.run_tlc("Cid", cfg, name="Cid_M", timeout=2400, heap="6g")
    if r.violated:
        check.model_violation(r, "Cid")
    rnd = random.Random(check.seed)
    jobs = []
    n = 60 if check.quick else 700
    for i in range(n):
        cfg = {"cc": rnd.choice(["reno", "cubic"]), "version": rnd.choice(["v1", "v2", "v1->v2"])}
        prof = "cids" if i % 4 else "migrate"
        if i % 3 == 0:            # peers that allow fewer (or as many) active connection IDs than aioquic is ready to issue
            cfg["cid_limit"] = {"c": rnd.choice([2, 3, 4, 7, 8]), "s": rnd.choice([2, 3, 4, 7, 8])}
        jobs.append({"cfg": cfg, "script": script.random_script(rnd, rnd.choice([25, 60, 100]), script.PROFILES[prof]),
                     "seed": rnd.randrange(1 << 30), "hs_adv": False, "profile": prof})
    # connection IDs changed while the sender is congestion-limited by a bulk transfer
    for i in range(n // 3):
        cfg = {"cc": rnd.choice(["reno", "cubic"]), "version": rnd.choice(["v1", "v2"])}
        jobs.append({"cfg": cfg, "script": script.random_script(rnd, rnd.choice([30, 60]), script.PROFILES["cidload"], streams=[0, 3],
                                                                 sizes=[20000, 60000, 150000]),
                     "seed": rnd.randrange(1 << 30), "hs_adv": False, "profile": "cidload"})
    # corpus: a later NEW_CONNECTION_ID overtakes an earlier one with a raised retire-prior-to
    jobs.append({"cfg": {}, "script": [["changecid", "c"], ["deliver", 0], ["deliver", 0], ["deliver", 0], ["ncid", "s", 6, 0],
                                       ["ncid", "s", 2, 0], ["ncid", "s", 6, 0], ["changecid", "c"], ["changecid", "c"],
                                       ["ncid", "s", 6, 0], ["write", "c", 0, 10, True], ["deliver", 0], ["deliver", 0]],
                 "seed": 1, "hs_adv": False, "profile": "corpus-rpt"})
    # corpus: NEW_CONNECTION_ID 9 overtakes 8, then Retire Prior To 9 arrives, then the ID in use changes
    T = ["tick", 30000]
    # (the datagram with ID 8 is lost and retransmitted after ID 9 arrived; then a key-holding peer repeats the frame of ID 9 with
    # Retire Prior To 9; then the application changes the ID in use)
    jobs.append({"cfg": {}, "script": [T, ["changecid", "c"], ["timer", "c"], ["deliver", 0], ["drop", 0], T, ["changecid", "c"], ["timer", "c"],
                                       ["deliver", 0], ["deliver", 0], ["pump", 40], ["ncid", "s", 8, 0], T, ["changecid", "c"], ["timer", "c"],
                                       ["write", "c", 0, 10, True], ["timer", "c"], ["pump", 20]],
                 "seed": 2, "hs_adv": False, "profile": "corpus-rpt-between-reordered-ids"})
    for lim in (2, 3, 7):
        jobs.append({"cfg": {"cid_limit": {"c": lim, "s": lim}},
                     "script": [T, ["changecid", "c"], ["timer", "c"], ["deliver", 0], ["deliver", 0], T, ["changecid", "s"], ["timer", "s"],
                                ["deliver", 0], ["deliver", 0], ["write", "c", 0, 10, True], ["deliver", 0]],
                     "seed": 3, "hs_adv": False, "profile": "corpus-small-peer-limit"})
    results = runner.run_many(job_fn, jobs)
    judge(check, jobs, results, "TraceCid_V")
    for job, res in zip(jobs, results):
        check.count(repr(job), nontrivial=res["nontrivial"], evaluations=len(res["lines"]))
    check.cov["new_connection_id_frames_processed"] = sum(r["ncid"] for r in results)
    check.cov["retire_connection_id_frames_emitted"] = sum(r["retires"] for r in results)
    check.cov["runs_with_api_exception"] = sum(1 for r in results if r["raised"])
    check.cov["termination_reasons_seen"] = sorted({t[2] for r in results for t in r["term"]})[:12]
    ex = next((r for r in results if r["nontrivial"]), results[0])
    check.sample({"script": jobs[results.index(ex)]["script"][:20], "trace": [l for l in ex["lines"] if l["ev"] in ("ncid", "rcid")][:8]
                  + [l for l in ex["lines"] if l["ev"] == "pkt" and (l["retire"] or l["ncids"])][:6]})
    check.cov["rule"] = ("one case = one script on two real connections; non-trivial = a NEW_CONNECTION_ID with retire-prior-to > 0 "
                         "was processed or RETIRE_CONNECTION_ID frames were emitted")
    check.cov["trusted_base"] = ["TLC 1.8", "netsim driver", "observer (destination CIDs, NEW/RETIRE_CONNECTION_ID frames)",
                                 "hostile peer built on the observer's independent encryptor",
                                 "internal read: keys installed for the epoch of an arriving packet"]
    check.assumptions += ["the key-holding peer only re-sends NEW_CONNECTION_ID frames the genuine endpoint emitted (same sequence number, "
                          "ID and token) with other retire-prior-to values, so the histories are consistent on the issuing side",
                          "both endpoints advertise active_connection_id_limit 8 (aioquic's fixed value)",
                          "'accepting packets addressed to any issued ID' is exercised by the genuine peer's own ID changes, "
                          "not by probing every issued ID"]
