"""C19 - the asyncio adapter stays consistent under any event-loop schedule.

(M) TLC explores Asyncio.tla (protocol.py / server.py, the QUIC core abstracted
    to the events it can emit) exhaustively for several small configurations:
    all interleavings of application calls (connect, wait_connected, ping,
    write, change_connection_id, close, wait_closed - also after termination),
    loop callbacks (deferred transmit, timer incl. idle expiry) and network
    fates (any order, drop, duplicate, rebinding) and checks WaiterOnce,
    NoPendingFinal, StreamIntegrity, Reachable, NoStaleRoute, TokenBound.
(R) behaviours simulated by TLC from the same module give scenario structures
    (who calls what in which order, who closes, which fates occur) ...
(V) ... which, with seeded random scenarios, are run on the REAL
    aioquic.asyncio QuicServer / QuicConnectionProtocol / QuicConnection objects
    on a virtual-time event loop whose next callback / datagram / time step is
    chosen by a seeded schedule (harness/c19_sim.py).  Every recorded line is
    judged by TLC with the definitions of Asyncio (TraceAsyncio).
"""
import hashlib
import json
import multiprocessing
import os
import random

from .. import trace
from ..overlay import MachineryError

INVARIANTS = ("TypeOk WaiterOnce NoPendingFinal StreamIntegrity Reachable NoStaleRoute TokenBound "
              "TimerLive Flushed EventsDrained NoWaiterHeldAfterTermination")
BASE = dict(NC=1, UseRetry="FALSE", MaxPing=0, MaxWC=0, MaxWClosed=0, NChunk=0, MaxCid=0, MaxDrop=1, MaxDup=1,
            MaxRebind=0, MaxFault=1, ServerApp="FALSE", Late="TRUE", Fixed="TRUE")


# several TLC processes run side by side: keep each JVM's helper threads few
JVM_ENV = {"JAVA_TOOL_OPTIONS": "-XX:ParallelGCThreads=2 -XX:CICompilerCount=2"}


def consts(**kw):
    d = dict(BASE)
    d.update(kw)
    return "CONSTANTS\n" + "\n".join("%s = %s" % kv for kv in d.items()) + "\n"


def model_cfg(**kw):
    return "SPECIFICATION Spec\n" + consts(**kw) + "VIEW View\nINVARIANTS " + INVARIANTS + "\n"


# what each exhaustive configuration is about
M_QUICK = [
    ("waiters_client", dict(MaxPing=2, MaxWC=1, MaxWClosed=1)),
    ("waiters_both_sides", dict(MaxPing=1, MaxWClosed=1, ServerApp="TRUE", MaxFault=0)),
    ("stream", dict(NChunk=2)),
    ("routing_retry", dict(UseRetry="TRUE", MaxCid=2, MaxRebind=1, MaxFault=2, MaxWClosed=1)),
    ("two_clients", dict(NC=2, MaxCid=1, Late="FALSE", MaxFault=0)),
]
M_THOROUGH = [
    ("waiters_client", dict(MaxPing=2, MaxWC=1, MaxWClosed=1, MaxFault=2)),
    ("waiters_both_sides", dict(MaxPing=1, MaxWC=1, MaxWClosed=1, ServerApp="TRUE", MaxFault=1)),
    ("stream", dict(NChunk=2, MaxFault=2, MaxPing=1)),
    ("routing_retry", dict(UseRetry="TRUE", MaxCid=2, MaxRebind=1, MaxFault=3, MaxWClosed=1, MaxPing=1)),
    ("two_clients", dict(NC=2, MaxPing=1, MaxCid=1, Late="FALSE", MaxFault=0)),
    ("two_clients_retry", dict(NC=2, UseRetry="TRUE", MaxRebind=1, MaxFault=1, Late="FALSE")),
]
SIM = dict(NC=2, UseRetry="FALSE", MaxPing=2, MaxWC=1, MaxWClosed=1, NChunk=2, MaxCid=2, MaxDrop=2, MaxDup=2,
           MaxRebind=1, MaxFault=3, ServerApp="TRUE")

KNOWN_RULE = ("seeded random and TLC-derived scenarios (1-2 clients; connect with or without waiting; streams written "
              "and echoed; concurrent pings; connection-ID changes; explicit wait_connected/wait_closed; closes by "
              "client, by server, with an error code, by handshake failure (ALPN, certificate, bad token) or by idle "
              "timeout; waiters created after termination; retry on/off) run on the real objects under a seeded "
              "non-FIFO schedule with datagram drop/duplicate/delay/reorder/rebinding; a run is non-trivial when at "
              "least two callbacks were ready at some scheduling point and a non-FIFO one ran; distinct by scenario")


# ------------------------------------------------------------ (R) TLC behaviours
def scenario_from_behaviour(states, sid, nc):
    """The structure of a TLC behaviour of Asyncio as a scenario for the real code."""
    clients = [{"wait_connected": True, "alpn": True, "ca": True, "token": 0, "idle": 60.0, "ops": [], "late": [],
                "end": "idle", "_on": False, "_wrote": False} for _ in range(nc)]
    server = {"idle": 60.0, "ops": [], "late": [], "echo": "after"}
    net = {"drop": 0.0, "dup": 0.0, "rebind": 0.0, "max_drops": 0, "max_dups": 0, "max_delay": 0.02}
    acts = []
    gap = set()          # endpoints for which loop / network actions happened since their last application step
    for a, b in zip(states, states[1:]):
        act = b["act"]
        acts.append(act)
        k = act[0]
        if k in ("Deliver", "Duplicate", "Transmit", "HandleTimer"):
            gap = set(range(1, 2 * nc + 1))
        if k in ("Drop", "Duplicate", "Rebind"):
            key = {"Drop": "drop", "Duplicate": "dup", "Rebind": "rebind"}[k]
            net[key] = 0.2
            if k == "Drop":
                net["max_drops"] += 1
            if k == "Duplicate":
                net["max_dups"] += 1
            continue
        if k in ("Deliver", "Transmit"):
            continue
        e = act[1]
        cl = e if e <= nc else e - nc
        closed = dict(a["P"])[e]["closed"] if isinstance(a["P"], dict) else a["P"][e - 1]["closed"]
        if k == "HandleTimer":
            st = (dict(a["K"])[e] if isinstance(a["K"], dict) else a["K"][e - 1])["st"]
            if act[2] and st in ("hs", "open"):
                (clients[cl - 1] if e <= nc else server)["idle"] = 2.0
            continue
        tgt = clients[cl - 1] if e <= nc else server
        lst = tgt["late"] if closed else tgt["ops"]
        if e in gap and k != "Connect":
            gap.discard(e)
            lst.append(["sleep", 0.003])      # the behaviour let the loop / the network run before this step
        if k == "Connect":
            tgt["wait_connected"] = bool(act[2])
            tgt["_on"] = True
        elif k == "WaitConnected":
            lst.append(["wait_connected"])
        elif k == "Ping":
            lst.append(["ping", 1, False])
        elif k == "WaitClosed":
            lst.append(["wait_closed"])
        elif k == "Close":
            lst.append(["close", 0])
        elif k == "ChangeCid":
            lst.append(["cid"])
        elif k == "Write":
            if not tgt["_wrote"]:
                tgt["_wrote"] = True
                lst.append(["stream", 0, 700, False])
            for op in tgt["ops"] + tgt["late"]:
                if op[0] == "stream":
                    op[1] += 700
    clients = [c for c in clients if c["_on"]]
    if not clients:
        return None
    for c in clients:
        del c["_on"], c["_wrote"]
        for op in c["ops"] + c["late"]:
            if op[0] == "stream":
                op[1] = max(1, op[1] - 700)     # the last Write of the model is write_eof
    h = int(hashlib.sha1(repr(acts).encode()).hexdigest()[:7], 16)
    return {"id": sid, "retry": False, "clients": clients, "server": server, "net": net,
            "sched": {"seed": h, "fifo": (0.0, 0.5)[h % 2], "tick": (0.0, 0.05)[(h >> 1) % 2]},
            "expect_complete": False, "from_tlc": True}


def tlc_scenarios(check, n, depth):
    """Ask TLC (simulation mode, retry off and on side by side) for behaviours of Asyncio and turn each
    into a scenario.  Runs in a helper thread: returns the TLC results for the caller's bookkeeping."""
    from concurrent.futures import ThreadPoolExecutor
    from .. import tlc
    from ..tlaparse import parse_behaviour_file
    d = os.path.join(check.work, "sim")

    def one(retry):
        sub = os.path.join(d, retry)
        os.makedirs(sub, exist_ok=True)
        cfg = "SPECIFICATION Spec\n" + consts(**dict(SIM, UseRetry=retry)) + "INVARIANTS " + INVARIANTS + "\n"
        r = tlc.run("Asyncio", cfg, os.path.join(check.work, "tlc"), name="Asyncio_sim_retry" + retry, workers=1,
                    simulate="file=%s/b,num=%d" % (sub, n // 2), depth=depth, seed=check.seed, env=JVM_ENV)
        return retry, sub, r
    with ThreadPoolExecutor(2) as ex:
        res = list(ex.map(one, ("FALSE", "TRUE")))
    out, runs = [], []
    for retry, sub, r in res:
        runs.append(("Asyncio_sim_retry" + retry, r))
        for f in sorted(os.listdir(sub)):
            sc = scenario_from_behaviour(parse_behaviour_file(os.path.join(sub, f)), 0, SIM["NC"])
            if sc is not None:
                sc["retry"] = retry == "TRUE"
                sc["net"]["attack"] = sc["retry"]
                out.append(sc)
    return runs, out


# ------------------------------------------------------------------ (V) running
_A = None


def share_retry_key():
    """QuicRetryTokenHandler generates a 2048-bit RSA key per server (0.1-0.5 s of CPU);
    a process generates one and every server of that process gets it.  Only the
    cryptography library's key generator is replaced, no aioquic code."""
    import types
    import aioquic.quic.retry as retry
    if getattr(retry.rsa, "_c19", False):
        return
    real = retry.rsa.generate_private_key
    cache = {}

    def generate_private_key(public_exponent, key_size):
        k = (public_exponent, key_size)
        if k not in cache:
            cache[k] = real(public_exponent=public_exponent, key_size=key_size)
        return cache[k]
    retry.rsa = types.SimpleNamespace(generate_private_key=generate_private_key, _c19=True)


def _work(batch):
    import sys
    from .. import c19_sim as S
    global _A
    sys.unraisablehook = lambda *a: None      # coroutines of never-finishing waiters are destroyed at exit
    if _A is None:
        _A = S.load_modules()
        share_retry_key()
    out = []
    for sc in batch:
        try:
            lines, st = S.run_scenario(_A, sc)
            out.append((sc, lines, st, None))
        except S.HarnessError as e:
            out.append((sc, [], {}, str(e)))
    return out


def run_all(scenarios, procs=16):
    batches = [scenarios[i::procs * 4] for i in range(procs * 4)]
    batches = [b for b in batches if b]
    ctx = multiprocessing.get_context("fork")
    with ctx.Pool(min(procs, len(batches))) as pool:
        res = pool.map(_work, batches)
    out = [x for b in res for x in b]
    out.sort(key=lambda x: x[0]["id"])
    return out


def signature(clause, line, lines_before):
    op = line["op"]
    if clause == "waiter-never-finishes":
        return "waiter-never-finishes:kind=%s:created=%s" % (line["kind"], "after-termination" if line["late"] else "live")
    if clause == "future-once":
        return "future-completed-twice:creator=%s" % line["creator"]
    if clause in ("waiter-once", "waiter-result"):
        kind = next((x["kind"] for x in lines_before if x["op"] == "wcreate" and x["w"] == line["w"]), "?")
        return "%s:kind=%s:result=%s" % (clause, kind, line["res"])
    if clause.startswith("stream-") and op in ("read", "reof"):
        return "%s:direction=%s" % (clause, "server-to-client" if line["down"] else "client-to-server")
    if clause == "model:callback-raised":
        return "model:callback-raised:%s:%s" % (line["type"], line["where"])
    return "%s:at=%s" % (clause, op)


def judge(check, results, name):
    """TLC judges every line of every run; map failing clauses to violations / drift."""
    lines, owner = [], []
    for ri, (sc, ls, st, err) in enumerate(results):
        if err:
            raise MachineryError(err + " scenario=" + json.dumps(sc))
        for j, e in enumerate(ls):
            lines.append(e)
            owner.append((ri, j))
    # ~8000 lines per TLC process: below that the JVM start dominates the cost of a shard
    fails = trace.validate(check, "TraceAsyncio", lines, constants=consts(), name=name,
                           shards=max(1, min(16, len(lines) // 8000)), group_key=lambda e: e["op"] == "init")
    check.cov["traces_validated_against_impl"] += len(results)
    for i, clause in fails:
        ri, j = owner[i]
        sc, ls = results[ri][0], results[ri][1]
        sig = signature(clause, lines[i], ls[:j])
        detail = {"clause": clause, "line": lines[i], "scenario": sc, "context": ls[max(0, j - 12):j]}
        if clause == "harness-guard":
            raise MachineryError("driver left its alphabet: " + json.dumps(detail)[:1500])
        if clause.startswith("model:"):
            check.drift(sig, detail)
        else:
            check.violation(sig, detail)
    return lines, fails, [o[0] for o in owner]


def binding_demo(check, good):
    """Corrupt one field / drop one event / add one stale entry in a good trace:
    TLC must reject each (the judge is really bound to the recorded lines)."""
    def variant(f):
        ls = [dict(x) for x in good]
        return f(ls)

    def corrupt_read(ls):
        i = next(i for i, x in enumerate(ls) if x["op"] == "read")
        ls[i]["runs"] = [[(ls[i]["runs"][0][0] + 1) % 256, ls[i]["runs"][0][1]]] + ls[i]["runs"][1:]
        return ls, "stream-bytes"

    def drop_wdone(ls):
        i = next(i for i, x in enumerate(ls) if x["op"] == "wdone")
        del ls[i]
        return ls, "waiter-never-finishes"

    def stale_route(ls):
        t = next(i for i, x in enumerate(ls) if x["op"] == "term" and any(
            y["op"] == "conn-created" and y["p"] == x["p"] for y in ls))
        i = next(i for i in range(t, len(ls)) if ls[i]["op"] == "route")
        ls[i]["route"] = ls[i]["route"] + [[9999, ls[t]["p"]]]
        return ls, "no-stale-route"

    def second_completion(ls):
        i = next(i for i, x in enumerate(ls) if x["op"] == "futset" and x["creator"] in ("ping", "wait_connected", "wait"))
        ls.insert(i + 1, dict(ls[i], n=2))
        return ls, "future-once"

    demo, lines, spans = {}, [], []
    try:
        for f in (corrupt_read, drop_wdone, stale_route, second_completion):
            ls, expect = variant(f)
            spans.append((f.__name__, expect, len(lines), len(lines) + len(ls)))
            lines += ls
    except StopIteration:
        return False          # this run lacks one of the events to tamper with
    fails = trace.validate(check, "TraceAsyncio", lines, constants=consts(), name="binding_demo", shards=1)
    for name, expect, lo, hi in spans:
        got = sorted({c for i, c in fails if lo <= i < hi})
        demo[name] = {"expected": expect, "rejected_with": got}
        if expect not in got:
            raise MachineryError("binding demonstration %s: TLC did not reject the corrupted trace (%s)" % (name, got))
    check.cov["binding_demonstrations"] = demo
    return True


def replay(check, S, A):
    d = json.load(open(check.replay))["detail"]
    if d.get("kind") == "model":
        raise MachineryError("replay of a design-level counterexample: run the check itself, the TLC trace is in the replay file")
    sc = d["scenario"]
    lines, st = S.run_scenario(A, sc)
    judge(check, [(sc, lines, st, None)], "replay")
    check.count(json.dumps(sc, sort_keys=True), nontrivial=True, evaluations=len(lines))
    check.sample({"replayed_scenario": sc, "stats": st})
    check.cov["rule"] = "replay of one recorded scenario (same schedule seed); every line of it judged by TLC"


REQUIRED_OPS = ("conn-created", "retry-sent", "cid-issued", "cid-retired", "term", "read", "reof", "wcreate", "wdone",
                "route", "futset")


def run(check):
    check.build_overlay()
    from .. import c19_sim as S
    A = S.load_modules()
    check.cov["trusted_base"] = [
        "TLC 1.8", "harness/c19_sim.py: the virtual-time event loop (asyncio.Handle/TimerHandle/Task/Future of CPython "
        "on a ready list and timer heap), the in-memory transports and network",
        "mechanical projections: QuicServer._protocols -> set of (CID number, protocol number); host_cid at creation; "
        "the core's events seen in quic_event_received; Retry token and Initial token/DCID parsed from the datagrams "
        "with pull_quic_header; run-length encoding of the bytes read",
        "CPython asyncio (Future, Task, Event, StreamReader, shield, gather, sleep)"]
    check.assumptions += [
        "applications follow the API contract: one wait_connected() at a time, no cancellation of awaiting tasks, "
        "QuicServer.close() is not called while connections are live",
        "network faults are drop, duplicate, bounded delay, reordering and NAT rebinding of client Initials; datagrams are not corrupted; "
        "in retry scenarios an on-path attacker replays the client's token-carrying Initial from foreign source addresses "
        "(same IP with port +256, +512, -256, ^0x100; another IP with the same and with another port) when it first sees it "
        "and again after the genuine server connection terminated",
        "executing a callback advances the virtual clock by 1 microsecond (a frozen clock lets a loss timer whose deadline rounds to 'now' re-arm forever)",
        "complete delivery followed by EOF is demanded only in runs without drops where nobody closes before the "
        "echoes were read (otherwise: what was read is a prefix, and an EOF on a live connection comes after everything written)",
        "the model abstracts the QUIC core to its events; retransmission is not modelled (a retransmitted datagram is a delayed one)"]
    if check.replay:
        return replay(check, S, A)
    rnd = random.Random(check.seed)

    # (V) seeded random scenarios: start the real-code runs first, ask TLC meanwhile
    n_random = 700 if check.quick else 6000
    scenarios = [S.make_scenario(rnd, i) for i in range(n_random)]
    ctx = multiprocessing.get_context("fork")
    procs = 16

    def cut(scs):
        return [b for b in (scs[i::procs * 6] for i in range(procs * 6)) if b]
    pool = ctx.Pool(procs)
    try:
        pending = [pool.map_async(_work, cut(scenarios))]
        from concurrent.futures import ThreadPoolExecutor

        # (R) scenario structures from TLC behaviours: asked for in a helper thread, handed to the
        # process pool as soon as they exist, while the exhaustive configurations run
        def derive():
            runs, derived = tlc_scenarios(check, 80 if check.quick else 600, 45)
            for k, sc in enumerate(derived):
                sc["id"] = n_random + k
            return runs, derived, pool.map_async(_work, cut(derived))
        helper = ThreadPoolExecutor(1)
        derive_job = helper.submit(derive)
        # (M) the exhaustive configurations run side by side (the wall time is the longest, not the sum)
        from .. import tlc
        configs = M_QUICK if check.quick else M_THOROUGH

        def one(item):
            name, kw = item
            return name, tlc.run("Asyncio", model_cfg(**kw), os.path.join(check.work, "tlc"),
                                 name="Asyncio_M_" + name, workers=4, timeout=3000, env=JVM_ENV)
        with ThreadPoolExecutor(len(configs) if check.quick else 3) as ex:
            model_runs = list(ex.map(one, configs))
        for name, r in model_runs:          # the bookkeeping of Check.run_tlc, done in this thread
            check.cov["states"] += r.distinct
            check.cov["transitions"] += r.generated
            check.cov["tlc_runs"].append(dict(r.summary(), module="Asyncio", name="Asyncio_M_" + name))
            if r.violated:
                check.model_violation(r, "Asyncio[%s]" % name)
        if not check.quick:
            # the code as it is (deviation DevLateWaiter): TLC must find the never-finishing late waiter
            r = check.run_tlc("Asyncio", model_cfg(MaxPing=1, MaxWC=1, MaxWClosed=1, Fixed="FALSE"),
                              name="Asyncio_M_deviation_DevLateWaiter", workers=8)
            check.cov["deviation_DevLateWaiter_counterexample"] = r.violated
            if r.violated != "NoPendingFinal":
                raise MachineryError("the model of the unfixed late-waiter behaviour should violate NoPendingFinal, got %s" % r.violated)
        sim_runs, derived, job = derive_job.result()
        helper.shutdown()
        for name, r in sim_runs:
            check.cov["tlc_runs"].append(dict(r.summary(), module="Asyncio", name=name))
            if r.violated:
                check.model_violation(r, "Asyncio(simulate)")
        check.cov["tlc_behaviours_replayed"] = len(derived)
        pending.append(job)
        results = [x for p in pending for b in p.get(timeout=3000) for x in b]
    finally:
        pool.terminate()
    results.sort(key=lambda x: x[0]["id"])

    lines, fails, owner_of = judge(check, results, "TraceAsyncio_V")
    ops = {}
    for e in lines:
        ops[e["op"]] = ops.get(e["op"], 0) + 1
    missing = [o for o in REQUIRED_OPS if not ops.get(o)]
    if missing:
        raise MachineryError("vacuous run: no %s events were recorded" % missing)
    agg = {}
    for sc, ls, st, _ in results:
        check.count(json.dumps(sc, sort_keys=True), nontrivial=st["nonfifo"] > 0, evaluations=len(ls))
        for k, v in st.items():
            agg[k] = round(agg.get(k, 0) + v, 3)
    if not agg.get("spoofed"):
        raise MachineryError("vacuous run: the token-replay attacker never sent a datagram")
    check.cov["events"] = ops
    check.cov["schedule_totals"] = agg
    check.cov["scenarios"] = {"random": len(scenarios), "from_tlc_behaviours": len(derived)}
    failing_runs = {owner_of[i] for i, _ in fails}
    good = None
    for ri, (sc, ls, st, _) in enumerate(results):
        if ri not in failing_runs and len(ls) < 400 and any(x["op"] == "read" for x in ls) \
                and any(x["op"] == "conn-created" for x in ls) and binding_demo(check, ls):
            good = ls
            break
    if good is None:
        if not check.violations and not check.known_hits:
            raise MachineryError("no run suitable for the binding demonstration")
        good = results[0][1]
    sc0, ls0, st0, _ = results[0]
    check.sample({"scenario": sc0, "stats": st0, "first_lines": ls0[:12]})
    scd = next((r for r in results if r[0].get("from_tlc")), None)
    if scd:
        check.sample({"scenario_from_tlc_behaviour": scd[0], "stats": scd[2]})
    check.sample({"lines_of_a_run": good[:40]})
    check.cov["rule"] = KNOWN_RULE
