"""C07 - receive-side limits are enforced and buffering stays bounded.

(M) TLC explores FlowRecv.tla: every STREAM / RESET_STREAM frame with offsets and final sizes
    around the limits on every stream, interleaved with limit raises; a frame beyond a limit
    closes with a matching code, a frame within the limits never does, buffered bytes stay
    within the advertised credit, a fixed final size never changes.
(R/V) hostile sessions: after a real handshake the genuine peer is replaced by a key-holding
    peer (independent encryptor) that sends STREAM and RESET_STREAM frames with offsets /
    lengths / final sizes at limit-1, limit, limit+1 and 2^62-1 on every kind of stream,
    interleaved with the limit updates the endpoint emits, and unbounded repetitions of
    CRYPTO (never-completed), PATH_CHALLENGE and NEW_CONNECTION_ID / retire-prior-to.  After
    every hostile packet the endpoint's reaction (the CONNECTION_CLOSE it emits, decoded by
    the observer), the MAX_* frames it put on the wire and the measured peer-driven state
    (reassembly bytes, pending CRYPTO bytes, queued path challenges, pending retirements,
    stored peer connection IDs) are recorded; TLC judges every line with TraceFlowRecv.
"""
import json
import os
import random

from .. import trace
from ..netsim import hostile as H
from ..netsim import runner, sim
from ..overlay import MachineryError

_A = None
TOP = (1 << 62) - 1
TOP_AS = 1 << 30                # how 2^62-1-len offsets are carried in the trace (TLC integers are 32 bit)


def other(ep):
    return "s" if ep == "c" else "c"


def measure(conn):
    reasm = sum(len(st.receiver._buffer) for st in conn._streams.values())
    crypto = sum(len(st.receiver._buffer) for st in conn._crypto_streams.values())
    chal = max([len(p.remote_challenges) for p in conn._network_paths] or [0])     # the documented bound is per path
    return {"reasm": reasm, "crypto": crypto, "chal": chal, "retire": len(conn._retire_connection_ids),
            "pcids": 1 + len(conn._peer_cid_available)}


def session(job):
    rnd = random.Random(job["seed"])
    s = sim.Sim(_A, job["cfg"], seed=job["seed"])
    lines = []
    try:
        if not s.handshake():
            raise MachineryError("handshake did not complete")
        X, src = job["target"], other(job["target"])
        conn = s.eps[X]
        cfg = s.cfg
        sl = cfg["max_stream_data"] if X == "c" or cfg["s_max_stream_data"] is None else cfg["s_max_stream_data"]
        cl = cfg["max_data"] if X == "c" or cfg["s_max_data"] is None else cfg["s_max_data"]
        ms = cfg["max_streams"] or 128
        lines.append({"ev": "init", "sl": sl, "cl": cl, "ms": ms, "client": X == "c"})
        lim = {"conn": cl, "bidi": ms, "uni": ms}
        slim = {}
        # the application of X opens one bidirectional stream of its own (frames on it are legal for the peer)
        own = 0 if X == "c" else 1
        # (in "loaded" sessions it writes far more than its congestion window: nothing is ever acknowledged, so the
        # endpoint is congestion-limited while the peer pushes against its limits)
        s.api(X, "write", own, 0, 40000 if job.get("loaded") else 3, False)
        lines.append({"ev": "opened", "sid": own})
        if job.get("loaded"):
            for i in range(30):                # let the pacer release a full congestion window
                s.tick(3000)
                s.api(X, "ping", 1000 + i)
                while s.net:
                    s.drop(0)
        seen_pkts = 0
        closed = False

        def harvest(n0):
            """MAX_* frames and CONNECTION_CLOSE X emitted since log index n0."""
            code = -1
            adv = []
            for e in s.log[n0:]:
                if e["k"] == "pkt" and e["ep"] == X and e.get("ok"):
                    for f in e.get("frames", []):
                        if f["t"] == "connection_close":
                            code = f["code"]
                        elif f["t"] == "max_stream_data":
                            adv.append({"ev": "adv", "kind": "stream", "sid": f["sid"], "value": f["max"]})
                            slim[f["sid"]] = max(slim.get(f["sid"], 0), f["max"])
                        elif f["t"] == "max_data":
                            adv.append({"ev": "adv", "kind": "conn", "sid": 0, "value": f["max"]})
                            lim["conn"] = max(lim["conn"], f["max"])
                        elif f["t"] == "max_streams":
                            k = "uni" if f["uni"] else "bidi"
                            adv.append({"ev": "adv", "kind": k, "sid": 0, "value": f["max"]})
                            lim[k] = max(lim[k], f["max"])
                        elif f["t"] == "retire_connection_id":
                            adv.append({"ev": "rcid", "seq": f["seq"]})
            while s.net:                       # the genuine peer never sees X's packets: the hostile peer has taken over
                s.drop(0)
            return code, adv

        def build_ack(skip_limits):
            """ACK frame for what X sent, except (usually) the packets that carried its limit updates: X must treat those
            as lost and advertise the limits again, while it keeps honouring them."""
            mine = [e for e in s.log if e["k"] == "pkt" and e["ep"] == X and e.get("ok") and e.get("space") == "a"]
            pns = sorted({e["pn"] for e in mine
                          if not (skip_limits and any(f["t"].startswith("max_") for f in e.get("frames", [])))})
            if not pns:
                return None
            runs = []
            for pn in pns:
                if runs and pn == runs[-1][1] + 1:
                    runs[-1][1] = pn
                else:
                    runs.append([pn, pn])
            runs.reverse()
            ranges, prev_lo = [], runs[0][0]
            for lo, hi_ in runs[1:]:
                ranges.append((prev_lo - hi_ - 2, hi_ - lo))
                prev_lo = lo
            return H.f_ack(runs[0][1], 0, runs[0][1] - runs[0][0], ranges[:20])

        genuine_ncid = {}
        emitter = {e["dg"]: e["ep"] for e in s.log if e["k"] == "pkt"}
        for dg in sorted(s.emitted):
            if emitter.get(dg) == src:
                for p in s.emitted[dg]:
                    for f in (p.get("frames") or []) if p.get("ok") else []:
                        if f["t"] == "new_connection_id":
                            genuine_ncid[f["seq"]] = f
                            lines.append({"ev": "ncid", "seq": f["seq"], "rpt": f["rpt"]})
        lines += [a for a in harvest(0)[1] if a["ev"] == "rcid"]
        peer_bidi = [1, 5, 9] if X == "c" else [0, 4, 8]
        peer_uni = [3, 7, 11] if X == "c" else [2, 6, 10]
        hi = {}
        for step in range(job["steps"]):
            if closed or s.terminated[X]:
                break
            n0 = len(s.log)
            r = rnd.random()
            plan = job.get("plan")
            if plan is not None:
                if step >= len(plan):
                    break
                if plan[step][0] in ("fire", "ping", "tick", "changecid"):
                    if plan[step][0] == "fire":
                        s.fire(X)
                    elif plan[step][0] == "changecid":
                        s.api(X, "changecid")
                    elif plan[step][0] == "ping":
                        s.api(X, "ping", 2000 + step)
                    else:
                        s.tick(plan[step][1])
                    code, adv = harvest(n0)
                    lines += adv
                    continue
                r = 1.0 if plan[step][0] in ("ncidlow", "ncidnew", "ciddup") else 0.0
            if r < 0.72:
                # STREAM / RESET_STREAM aimed at a limit
                far = rnd.random() < 0.08
                pool = peer_bidi + peer_uni + [own]
                if far:                        # a stream index at / beyond the stream-count limit
                    uni = rnd.random() < 0.5
                    idx = lim["uni" if uni else "bidi"] + rnd.choice([-1, 0, 1])
                    sid = max(0, idx) * 4 + (2 if uni else 0) + (1 if X == "c" else 0)
                else:
                    sid = rnd.choice(pool)
                cur = max(sl, slim.get(sid, 0))
                target = rnd.choice(["slim", "slim", "conn", "hi", "small", "top"])
                reset = rnd.random() < 0.2
                fin = rnd.random() < 0.25
                ln = 0 if reset else rnd.choice([0, 1, 1, 2, 17, 200])
                if target == "slim":
                    end = cur + rnd.choice([-1, 0, 1])
                elif target == "conn":
                    end = hi.get(sid, 0) + (lim["conn"] - sum(hi.values())) + rnd.choice([-1, 0, 1])
                elif target == "hi":
                    end = hi.get(sid, 0) + rnd.choice([-1, 0, 1, 2])
                elif target == "small":
                    end = rnd.choice([0, 1, 2, 5, 40])
                else:
                    end = TOP
                # the same packet may first acknowledge what X sent except its limit updates, some time after they were
                # sent: X declares them lost while it processes this very packet and must still honour them for the frame
                # that follows
                pre = b""
                if (rnd.random() < 0.2 and plan is None) or (plan is not None and plan[step][0] == "ackframe"):
                    if plan is None:
                        s.tick(rnd.choice([1000, 300000]))
                        if rnd.random() < 0.6:     # a new stream just inside the stream-count limit
                            uni = rnd.random() < 0.5
                            sid = max(0, lim["uni" if uni else "bidi"] - 1) * 4 + (2 if uni else 0) + (1 if X == "c" else 0)
                            cur = max(sl, slim.get(sid, 0))
                            end = min(end, cur)
                    pre = build_ack(True) or b""
                if plan is not None:
                    _, sid, delta, ln, fin, reset = plan[step]
                    cur = max(sl, slim.get(sid, 0))
                    end = cur + delta
                end = max(0, end)
                off = max(0, end - ln)
                ln = end - off
                if end == TOP:
                    data = b"\x00" * ln
                    payload = H.f_reset_stream(sid, 7, TOP) if reset else H.f_stream(sid, TOP - ln, data, fin=fin, with_off=True)
                    rec_off, rec_len = (TOP_AS, 0) if reset else (TOP_AS - ln, ln)
                else:
                    data = sim.payload(sid, off, ln)
                    payload = H.f_reset_stream(sid, 7, end) if reset else H.f_stream(sid, off, data, fin=fin, with_off=True)
                    rec_off, rec_len = (end, 0) if reset else (off, ln)
                # a stream whose both halves finished is forgotten by the endpoint; RFC 9000 4.5 does not oblige it to
                # keep the final size of closed streams, so frames on such a stream are not judged
                live = sid not in conn._streams_finished
                H.inject(s, src, "1rtt", pre + payload, "flow")
                inj = next(e for e in reversed(s.log) if e["k"] == "inject")
                code, adv = harvest(n0)
                if inj["accepted"]:
                    lines.append({"ev": "frame", "sid": sid, "off": rec_off, "len": rec_len, "fin": bool(fin), "reset": bool(reset),
                                  "close": code, "live": bool(live)})
                    if code == -1 and end != TOP:
                        hi[sid] = max(hi.get(sid, 0), end)
                lines += adv
                closed = code != -1
            else:
                kind = rnd.choice(["crypto", "challenge", "ncid", "ack", "ack"] + (["ncidlow"] if job.get("cidflood") else []))
                if plan is not None:
                    kind = plan[step][0]
                more = []
                ncid_sent = []
                if kind == "ack":
                    payload = build_ack(rnd.random() < 0.8)
                    if payload is None:
                        continue
                elif kind == "crypto":
                    # never-completed handshake data: offset 0 is never sent
                    off = rnd.choice([1, 1000, 100000, 400000, 524288 - 1200, 524288 - 100, 524289, 1 << 20])
                    payload = H.f_crypto(off, bytes(rnd.choice([1, 100, 1100])))
                elif kind == "challenge":
                    payload = b"".join(H.f_path_challenge(bytes([rnd.randrange(256)]) * 8) for _ in range(rnd.choice([1, 33, 100])))
                elif kind == "ncidnew":
                    # fresh connection IDs, as many as the peer has seen retired (stays within the limit)
                    base = job.setdefault("_seq", 8)
                    k = plan[step][1] if plan is not None else 1
                    payload = b"".join(H.f_new_cid(base + i, 0, bytes([0xEE, (base + i) >> 8, (base + i) & 255]) + bytes(5)) for i in range(k))
                    ncid_sent = [(base + i, 0) for i in range(k)]
                    job["_seq"] = base + k
                elif kind == "ciddup":
                    # a late copy of a NEW_CONNECTION_ID frame the genuine peer sent during the handshake (same ID and token)
                    g = genuine_ncid.get(plan[step][1] if plan is not None else rnd.choice(sorted(genuine_ncid) or [1]))
                    if g is None:
                        continue
                    payload = H.f_new_cid(g["seq"], g["rpt"], bytes(g["cid"]), bytes(g["srt"]))
                    ncid_sent = [(g["seq"], g["rpt"])]
                elif kind == "ncidlow":
                    # connection IDs announced *below* a Retire Prior To already processed (reordered frames): each must be
                    # retired at once, and the queue of pending retirements stays bounded whatever the order
                    cidb = lambda q: bytes([0xEE, q >> 8, q & 255]) + bytes(5)
                    if not job.get("_rpt"):
                        job["_rpt"] = 5000
                        payload = H.f_new_cid(5000, 5000, cidb(5000))
                        ncid_sent = [(5000, 5000)]
                    else:
                        low = job.setdefault("_low", 1000)
                        packs = [b"".join(H.f_new_cid(low + 38 * j + i, 0, cidb(low + 38 * j + i)) for i in range(38)) for j in range(4)]
                        job["_low"] = low + 38 * 4
                        payload, more = packs[0], packs[1:]
                        ncid_sent = [(low + i, 0) for i in range(38 * 4)]
                else:
                    base = job.setdefault("_seq", 8)
                    k = rnd.choice([1, 3, 7])
                    ncid_sent = [(base + i, base + i if rnd.random() < 0.7 else 0) for i in range(k)]
                    payload = b"".join(H.f_new_cid(q, r_, bytes([0xEE, q >> 8, q & 255]) + bytes(5)) for q, r_ in ncid_sent)
                    job["_seq"] = base + k
                kw = {}
                if kind == "challenge" and rnd.random() < 0.5:
                    # from a source address the endpoint has never seen (a path of its own, created while the packet is processed)
                    job["_addr"] = job.get("_addr", 0) + 1
                    kw["from_addr"] = ("10.9.%d.%d" % (job["_addr"] // 200, 1 + job["_addr"] % 200), 5000 + job["_addr"])
                H.inject(s, src, "1rtt", payload, kind, **kw)
                inj0 = next(e for e in reversed(s.log) if e["k"] == "inject")
                for extra in more:             # several packets before the endpoint next transmits
                    if conn._close_event is None:
                        H.inject(s, src, "1rtt", extra, kind)
                if inj0["accepted"]:
                    lines += [{"ev": "ncid", "seq": q, "rpt": r_} for q, r_ in ncid_sent]
                code, adv = harvest(n0)
                lines += adv
                closed = code != -1
                if closed:
                    lines.append({"ev": "xclose", "close": code})
            lines.append(dict(measure(conn), ev="buf"))
            if rnd.random() < 0.15:
                n1 = len(s.log)
                s.fire(X)
                code, adv = harvest(n1)
                lines += adv
                if code != -1:
                    closed = True
                    lines.append({"ev": "xclose", "close": code})
    finally:
        s.close()
    frames = [l for l in lines if l["ev"] == "frame"]
    return {"lines": lines, "frames": len(frames), "closes": sorted({l["close"] for l in frames if l["close"] != -1}),
            "raised": s.raised[:3], "nontrivial": any(l["close"] != -1 for l in frames) or any(l["ev"] == "adv" for l in lines)}


def judge(check, jobs, results, name):
    lines, owner = [], []
    for ji, r in enumerate(results):
        for ln in r["lines"]:
            lines.append(ln)
            owner.append(ji)
    fails = trace.validate(check, "TraceFlowRecv", lines, name=name, group_key=lambda ln: ln["ev"] == "init",
                           constants="CONSTANTS NS = 1\nMaxOff = 1\nTop = 1")
    check.cov["traces_validated_against_impl"] += len(jobs)
    seen = set()
    for i, clause in fails:
        ji = owner[i]
        if (ji, clause) in seen:
            continue
        seen.add((ji, clause))
        ln = lines[i]
        extra = ":reset=%s:fin=%s:close=%s" % (ln["reset"], ln["fin"], ln["close"]) if ln["ev"] == "frame" else ""
        sig = "flowrecv:%s:target=%s%s" % (clause, jobs[ji]["target"], extra)
        detail = {"clause": clause, "line": ln, "job": {k: v for k, v in jobs[ji].items() if not k.startswith("_")}}
        (check.drift if clause.startswith("model:") else check.violation)(sig, detail)


def run(check):
    global _A
    check.build_overlay()
    _A = sim.load_modules()
    if check.replay:
        d = json.load(open(check.replay))["detail"]
        if "job" not in d:
            raise MachineryError("replay of a design-level counterexample: run the check itself")
        res = [session(dict(d["job"]))]
        judge(check, [d["job"]], res, "replay")
        check.count(repr(d["job"]), evaluations=len(res[0]["lines"]))
        check.sample({"replayed": d["job"]})
        check.cov["rule"] = "replay of one recorded hostile session"
        return
    cfg = ("SPECIFICATION Spec\nCONSTANTS NS = 2\nMaxOff = %d\nTop = %d\nINVARIANT TypeOk\nINVARIANT Bounded\nPROPERTY FinalFixed\n"
           % ((3, 5) if check.quick else (4, 7)))
    r = check.run_tlc("FlowRecv", cfg, name="FlowRecv_M", timeout=2400, heap="6g")
    if r.violated:
        check.model_violation(r, "FlowRecv")
    rnd = random.Random(check.seed)
    jobs = []
    for i in range(160 if check.quick else 2000):
        msd = rnd.choice([10, 64, 300, 2000])
        md = rnd.choice([20, 100, 500, 3000])
        cfg = {"max_stream_data": msd, "max_data": md, "s_max_stream_data": msd, "s_max_data": md,
               "max_streams": rnd.choice([None, 1, 2, 3]), "version": rnd.choice(["v1", "v2"])}
        tgt = "s" if i % 2 else "c"
        loaded = i % 4 >= 2
        if loaded:                      # the attacked endpoint may send a lot: its peer's limits are large, its own stay small
            big = {"max_stream_data": 1 << 20, "max_data": 1 << 20} if tgt == "s" else {"s_max_stream_data": 1 << 20, "s_max_data": 1 << 20}
            cfg.update(big)
        jobs.append({"cfg": cfg, "target": tgt, "seed": rnd.randrange(1 << 30), "steps": rnd.choice([15, 40, 80]), "loaded": loaded,
                     "cidflood": i % 8 in (1, 4)})
    # corpus: the endpoint is congestion-limited (its own data is never acknowledged) when it wants to raise a limit
    for tgt in "cs":
        peer_uni0 = 3 if tgt == "c" else 2
        small, large = {"max_stream_data": 1000, "max_data": 100000}, {"max_stream_data": 1 << 20, "max_data": 1 << 20}
        ccfg, scfg = (small, large) if tgt == "c" else (large, small)
        jobs.append({"cfg": {"max_stream_data": ccfg["max_stream_data"], "max_data": ccfg["max_data"],
                             "s_max_stream_data": scfg["max_stream_data"], "s_max_data": scfg["max_data"]},
                     "target": tgt, "seed": 77, "loaded": True, "steps": 40,
                     "plan": [["frame", peer_uni0, -400, 600, False, False], ["frame", peer_uni0, 1, 1, False, False],
                              ["frame", peer_uni0, 300, 1, False, False], ["fire"], ["frame", peer_uni0, 1, 1, False, False]]})
    # corpus: connection IDs announced below a Retire Prior To already processed, many before the endpoint next transmits
    for tgt in "cs":
        jobs.append({"cfg": {"max_stream_data": 1000, "max_data": 100000, "s_max_stream_data": 1000, "s_max_data": 100000},
                     "target": tgt, "seed": 79, "loaded": False, "steps": 10, "plan": [["ncidlow"], ["ncidlow"], ["ncidlow"]]})
    # corpus: the endpoint retires two IDs of its own accord, the peer replaces them (back at the limit), then a late copy of
    # a NEW_CONNECTION_ID frame of the handshake arrives: nothing new, nobody exceeded anything
    for tgt in "cs":
        b1 = 5 if tgt == "c" else 4
        jobs.append({"cfg": {"max_stream_data": 1000, "max_data": 100000, "s_max_stream_data": 1000, "s_max_data": 100000},
                     "target": tgt, "seed": 80, "loaded": False, "steps": 10,
                     "plan": [["changecid"], ["fire"], ["changecid"], ["fire"], ["ncidnew", 2], ["ciddup", 1], ["ciddup", 2], ["frame", b1, -990, 10, False, False]]})
    # corpus: data that arrives ahead of a gap counts against the connection credit like any other (limit 500, stream limit 3000)
    for tgt in "cs":
        u0, b0 = (3, 1) if tgt == "c" else (2, 0)
        small = {"max_stream_data": 3000, "max_data": 500} if tgt == "c" else {"s_max_stream_data": 3000, "s_max_data": 500}
        base = {"max_stream_data": 1 << 20, "max_data": 1 << 20, "s_max_stream_data": 1 << 20, "s_max_data": 1 << 20}
        for plan in ([["frame", u0, -3000 + 501, 1, False, False]],
                     [["frame", u0, -3000 + 300, 10, False, False], ["frame", b0, -3000 + 201, 1, False, False]],
                     [["frame", u0, -3000 + 250, 10, False, False], ["frame", b0, -3000 + 250, 10, False, False], ["frame", u0, -3000 + 260, 5, True, False]]):
            jobs.append({"cfg": dict(base, **small), "target": tgt, "seed": 81, "loaded": False, "steps": 10, "plan": plan})
    # corpus: a MAX_STREAMS frame is declared lost by the very packet that opens a stream it allows
    for tgt in "cs":
        b1, b3 = (5, 13) if tgt == "c" else (4, 12)
        jobs.append({"cfg": {"max_stream_data": 1000, "max_data": 100000, "s_max_stream_data": 1000, "s_max_data": 100000, "max_streams": 2},
                     "target": tgt, "seed": 78, "loaded": False, "steps": 10,
                     "plan": [["frame", b1, -990, 10, False, False], ["ping"], ["tick", 1000000], ["ping"],
                              ["ackframe", b3, -990, 10, False, False], ["frame", b3, -900, 10, False, False]]})
    results = runner.run_many(session, jobs)
    judge(check, jobs, results, "TraceFlowRecv_V")
    for job, res in zip(jobs, results):
        check.count(repr(job), nontrivial=res["nontrivial"], evaluations=len(res["lines"]))
    check.cov["stream_and_reset_frames_judged"] = sum(r["frames"] for r in results)
    check.cov["close_codes_seen"] = sorted({c for r in results for c in r["closes"]})
    check.cov["sessions_with_api_exception"] = sum(1 for r in results if r["raised"])
    ex = next((r for r in results if r["closes"]), results[0])
    check.sample({"cfg": jobs[results.index(ex)]["cfg"], "trace": ex["lines"][:16]})
    check.cov["rule"] = ("one case = one hostile session against a real endpoint (client or server) after a real handshake; "
                         "non-trivial = the endpoint closed on some frame or advertised a larger limit during the session "
                         "(frames were aimed at limit-1 / limit / limit+1 / 2^62-1)")
    check.cov["trusted_base"] = ["TLC 1.8", "netsim driver", "hostile peer on the observer's independent encryptor",
                                 "observer (CONNECTION_CLOSE codes and MAX_* frames the endpoint emitted)",
                                 "internal reads: ack queue (was the hostile packet processed), _streams_finished / receiver.is_finished (is the stream still alive), lengths of stream / crypto "
                                 "reassembly buffers, remote_challenges, _retire_connection_ids, _peer_cid_available"]
    check.assumptions += ["'within the limits' is judged against the largest limits the endpoint ever put on the wire (transport "
                          "parameters and MAX_* frames the observer saw leave), the reading most favourable to the peer",
                          "offsets of 2^62-1 are sent as such and carried as 2^30 in the trace (every limit is below 2^20)",
                          "a FIN / RESET below data already received with no final size fixed yet is not judged (the statement "
                          "does not rule on it)",
                          "the genuine peer object never sees the attacked endpoint's packets after the handshake"]
