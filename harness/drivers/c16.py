"""C16 - peer stream bytes can never make the HTTP layers raise.

(M) TLC explores H3Conn.tla exhaustively: every valid prefix state of the
    HTTP/3 (and HTTP/0.9) layer x every input class of DESIGN.md appendix B.4,
    checks that the specification is total (no class without an outcome, no
    outcome other than events / close with an HTTP/3 code, a done layer stays
    silent) and prints every enabled (state, class) pair.
(R) every pair TLC printed is concretised into bytes (all boundary values of
    the class + seeded random ones) and fed, as StreamDataReceived /
    DatagramFrameReceived events and under the chunkings whole / byte-by-byte /
    FIN-separate / split at every position, to a real H3Connection or
    H0Connection attached to a LIVE QuicConnection that completed a real
    in-memory handshake with a real peer connection; afterwards
    datagrams_to_send() is called on the live connection and its datagrams are
    delivered to the peer.
(V) seeded random byte-level sessions: well-formed multi-stream traffic
    produced with a real QPACK encoder (dynamic table, blocked streams),
    mutated, chunked and interleaved at random.
Every run is recorded as (state before, class, chunking, outcome, state after)
and judged by TLC (TraceH3Conn) with the operators of H3Conn: an exception out
of handle_event, a close with a code that is not an HTTP/3 code, or a
datagrams_to_send that raises / sends nothing after such a close is a
violation; disagreement about which class closes with which code is drift.
"""
import json
import subprocess
import os
import random
import sys
import time

from .. import c16_h3 as H
from .. import tlc, trace
from ..overlay import MachineryError

STATE_FIELDS = ("layer", "role", "tp", "ctrl", "enc", "dec", "req", "push", "mpi", "done")

FULL = {"CtrlPhases": ["open", "openMid", "set", "setMid"], "EncPhases": ["open", "ins"], "DecPhases": [True],
        "ReqPhases": ["init.mid", "init.blocked", "init.bfin", "init.wt", "hdrs", "hdrs.mid", "hdrs.data", "hdrs.blocked",
                      "hdrs.bfin", "trl", "trl.mid", "fin"],
        "PushPhases": ["type", "open", "hdrs"]}
# the sub-lattice whose every (state, class) pair is replayed in the quick tier
QUICK = {"ctrl": {"none", "open", "set"}, "enc": {"none", "open", "ins"}, "dec": {False, True},
         "req": {"init", "hdrs", "hdrs.data", "init.blocked", "init.bfin", "trl"}, "push": {"none", "open"}}
BLOCKED = ("init.blocked", "init.bfin", "hdrs.blocked", "hdrs.bfin")

A = None            # aioquic modules (set in run(), inherited by forked workers)


def tla(v):
    if isinstance(v, bool):
        return "TRUE" if v else "FALSE"
    if isinstance(v, str):
        return '"%s"' % v
    return "{" + ", ".join(tla(x) for x in v) + "}"


def model_cfg(print_edges):
    c = dict(FULL, Layers=["h3", "h0"], Roles=["client", "server"], TpValues=[True, False])
    lines = ["SPECIFICATION Spec", "CONSTANTS"]
    lines += ["  %s = %s" % (k, tla(v)) for k, v in sorted(c.items())]
    lines += ["  PrintEdges = %s" % tla(print_edges), "INVARIANTS TypeOk Total SomeClassCloses DoneAbsorbs", "PROPERTY DoneStays"]
    return "\n".join(lines) + "\n"


TRACE_CONSTANTS = "CONSTANTS\n" + "\n".join(
    "  %s = %s" % (k, tla(v)) for k, v in sorted(dict(FULL, Layers=["h3", "h0"], Roles=["client", "server"],
                                                       TpValues=[True, False]).items())) + "\n  PrintEdges = FALSE"


# ------------------------------------------------------------------ one run
def split_positions(n, cap):
    """Split points 1..n-1; for inputs longer than `cap` every position of the head
    (2/3 of cap) and of the tail (1/6), and a stride through the middle."""
    if n - 1 <= cap:
        return list(range(1, n))
    head, tail = (cap * 2) // 3, cap // 6
    keep = set(range(1, head + 1)) | set(range(n - tail, n))
    stride = max(1, (n - head - tail) // max(1, cap - head - tail))
    keep |= set(range(head + 1, n - tail, stride))
    return sorted(k for k in keep if 0 < k < n)


def outcome_of(rig, names, exc, nev):
    o = {"kind": "events", "code": 0, "n": nev, "exc": "", "fn": "", "txraised": False, "txsent": 0, "peer": -1,
         "txexc": "", "txfn": "", "reason": 0}
    ce = rig.closed()
    if exc is not None:
        o.update(kind="raised", exc=type(exc).__name__, fn=H.innermost_aioquic(exc, A["pkgdir"]))
    elif ce is not None:
        o.update(kind="close", code=ce.error_code, reason=len(ce.reason_phrase.encode("utf8")))
    return o


def finish_outcome(rig, o):
    tx = rig.transmit()
    o.update(txraised=tx["raised"], txsent=tx["sent"], peer=tx["peer_code"], txexc=tx["exc"], txfn=tx["fn"])
    return o


def run_case(st, cls, events, qlog=True):
    """Fresh live pair, canonical prefix of `st`, then `events` [(target, bytes, fin)]
    of class `cls`.  Returns the record TLC judges."""
    rig = H.Rig(A, st["layer"], st["role"], st["tp"], qlog=qlog)
    if st["done"]:
        script = [("dgram", b"", False)]
    else:
        script = H.prefix_script(st)
    for t, d, f in script:
        names, exc = rig.feed(t, d, f)
        if exc is not None:
            # a well-formed prefix made the layer raise: report it as what it is
            pre = rig.project()
            o = finish_outcome(rig, outcome_of(rig, None, exc, 0))
            return {"pre": pre, "want": pre, "post": rig.project(), "cls": {"t": t, "k": "SESSION"},
                    "chunk": "prefix", "out": o}
    pre = rig.project()
    closed0 = rig.closed() is not None
    nev, exc = 0, None
    for t, d, f in events:
        names, exc = rig.feed(t, d, f)
        if exc is not None:
            break
        nev += len(names)
    o = outcome_of(rig, None, exc, nev)
    if closed0 and o["kind"] == "close":
        o.update(kind="events", code=0)          # it was closed before this input; nothing new
    post = rig.project()
    finish_outcome(rig, o)
    return {"pre": pre, "want": {k: st[k] for k in STATE_FIELDS}, "post": post, "cls": cls, "chunk": "", "out": o}


def case_events(st, cls, ci, mode, seed):
    data, fin = H.concretise(st["role"], cls["t"], cls["k"], seed)[ci]
    return [(cls["t"], d, f) for d, f in H.chunkings(data, fin, tuple(mode) if isinstance(mode, list) else mode)]


def work(task):
    """task = (index, state, class, [(conc index, mode)], seed) -> [(ref, record)]"""
    idx, st, cls, runs, seed = task
    out = []
    for ci, mode in runs:
        rec = run_case(st, cls, case_events(st, cls, ci, mode, seed))
        rec["chunk"] = mode if isinstance(mode, str) else "split"
        out.append(([idx, ci, mode], rec))
    return out


def line_key(rec):
    """Identity of a record for TLC: everything a clause looks at.  The chunking is
    carried along (that of the first example) but no clause depends on it, so
    records that differ only in it are judged once."""
    return json.dumps(dict(judged_line(rec), chunk=""), sort_keys=True, separators=(",", ":"))


def work_shard(job):
    """Run a shard; return the distinct judged lines (with a count and the first
    example each) and per-case / per-session counters."""
    lines, cases, sessions = {}, [], []

    def add(ref, rec):
        k = line_key(rec)
        e = lines.get(k)
        if e is None:
            lines[k] = [1, ref, rec]
        else:
            e[0] += 1
            if json.dumps(ref) < json.dumps(e[1]):
                e[1], e[2] = ref, rec

    for task in job["cases"]:
        res = work(task)
        for ref, rec in res:
            add(ref, rec)
        cases.append([task[0], len(res), sum(1 for _, r in res if r["out"]["kind"] != "events")])
    for task in job["sessions"]:
        i, recs = work_session(task)
        for r in recs:
            add(["session", i, r["step"]], r)
        sessions.append([i, len(recs), sum(1 for r in recs[1:] if r["out"]["kind"] != "events")])
    return {"lines": lines, "cases": cases, "sessions": sessions}


# ------------------------------------------------------------------ sessions (V)
class PeerScript:
    """Well-formed traffic of a real peer: control, QPACK and request/push
    streams, field sections produced by a real pylsqpack encoder."""

    def __init__(self, role, rnd, tp):
        import pylsqpack
        self.role, self.rnd = role, rnd
        ids = H.ids(role)
        self.streams = {}           # sid -> [bytes, fin]
        self.kind = {}              # sid -> target kind
        enc = pylsqpack.Encoder()
        dyn = rnd.random() < 0.7
        if dyn:
            self.enc_prefix = enc.apply_settings(max_table_capacity=4096, blocked_streams=16)
        else:
            self.enc_prefix = b""
        pairs = [(1, 4096), (7, 16), (0x21, rnd.randrange(1 << 20))]
        if tp and rnd.random() < 0.5:
            pairs += [(0x33, 1), (0x2B603742, 1)]
        ctrl = b"\x00" + H.frame(4, H.settings(pairs))
        if role == "server" and rnd.random() < 0.6:
            ctrl += H.frame(0xD, H.vi(rnd.choice([0, 8, 1 << 20])))
        if rnd.random() < 0.4:
            ctrl += H.frame(7, H.vi(rnd.randrange(64) * 4))
        if rnd.random() < 0.4:
            ctrl += H.frame(0x21 + 0x1F * rnd.randrange(5), H._rand(rnd, rnd.randrange(6)))
        encs = b"\x02" + self.enc_prefix
        reqs = []
        nreq = rnd.randint(1, 3)
        sids = [0] if role == "client" else [0, 4, 8][:nreq]
        if role == "client" and rnd.random() < 0.5:
            sids.append(1)
        for sid in sids:
            first = list(H.first_headers(role)) + [(b"x-h%d" % rnd.randrange(3), b"v%d" % rnd.randrange(3))]
            body = H._rand(rnd, rnd.randrange(40))
            if rnd.random() < 0.3:
                first.append((b"content-length", b"%d" % len(body)))
            e, blk = enc.encode(sid, first)
            encs += e
            b = H.frame(1, blk)
            if role == "client" and rnd.random() < 0.3:
                e, pblk = enc.encode(sid, H.REQ_HEADERS)
                encs += e
                b = H.frame(5, H.vi(rnd.randrange(8)) + pblk) + b
            if body or rnd.random() < 0.5:
                b += H.frame(0, body)
            if rnd.random() < 0.3:
                e, blk = enc.encode(sid, [(b"x-t", b"1")])
                encs += e
                b += H.frame(1, blk)
            if rnd.random() < 0.2:
                b = H.vi(0x41) + H.vi(rnd.randrange(4) * 4) + H._rand(rnd, rnd.randrange(20))
            reqs.append((sid, b, rnd.random() < 0.7))
        self.add(ids["ctrl"], "ctrl", ctrl, False)
        self.add(ids["enc"], "enc", encs, False)
        self.add(ids["dec"], "dec", b"\x03" + (H.qint(6, rnd.randrange(3), 0x40) if rnd.random() < 0.3 else b""), False)
        for sid, b, fin in reqs:
            self.add(sid, "req", b, fin)
        if rnd.random() < 0.5:
            e, blk = enc.encode(ids["push"], H.RSP_HEADERS)
            encs2 = e
            self.streams[ids["enc"]][0] += encs2
            self.add(ids["push"], "push", b"\x01" + H.vi(rnd.randrange(9)) + H.frame(1, blk) + H.frame(0, b"pushed"),
                     rnd.random() < 0.5)
        if rnd.random() < 0.4:
            t = rnd.choice([0x54, 0x21, 0x21 + 0x1F * 9, H.VMAX])
            self.add(ids["newuni"], "newuni", H.vi(t) + H.vi(0) + H._rand(rnd, rnd.randrange(12)), rnd.random() < 0.5)
        self.dgrams = [H.vi(rnd.randrange(3)) + H._rand(rnd, rnd.randrange(8)) for _ in range(rnd.randrange(3))]

    def add(self, sid, kind, data, fin):
        self.streams[sid] = [data, fin]
        self.kind[sid] = kind

    def mutate(self):
        rnd = self.rnd
        for _ in range(rnd.choice([0, 1, 1, 1, 2, 3])):
            sid = rnd.choice(sorted(self.streams))
            d, fin = self.streams[sid]
            if not d:
                continue
            m = rnd.randrange(8)
            p = rnd.randrange(len(d))
            if m == 0:
                d = d[:p] + bytes([d[p] ^ (1 << rnd.randrange(8))]) + d[p + 1:]
            elif m == 1:
                d = d[:p]
            elif m == 2:
                d = d[:p] + H._rand(rnd, rnd.randint(1, 6)) + d[p:]
            elif m == 3:
                d = d[:p] + H._rand(rnd, rnd.randint(1, 30))
            elif m == 4:
                q = rnd.randrange(p, len(d))
                d = d[:q] + d[p:q] + d[q:]
            elif m == 5:
                d = d[:p] + bytes([rnd.choice([0, 0x3F, 0x40, 0x7F, 0x80, 0xBF, 0xC0, 0xFF])]) + d[p + 1:]
            elif m == 6:
                d = d[:p] + d[p + 1:]
            else:
                fin = not fin
            self.streams[sid] = [d, fin]
        if rnd.random() < 0.2:
            self.dgrams.append(rnd.choice([b"", b"\x40", b"\xc0\x00", H._rand(rnd, 3)]))

    def events(self):
        """Random chunking and interleaving -> [(kind, sid, bytes, fin)]."""
        rnd = self.rnd
        pend = {sid: [d, fin, 0] for sid, (d, fin) in self.streams.items()}
        style = rnd.choice(["bytes", "small", "mixed", "whole"])
        out = []
        dg = list(self.dgrams)
        while pend or dg:
            if dg and (not pend or rnd.random() < 0.1):
                out.append(("dgram", -1, dg.pop(0), False))
                continue
            sid = rnd.choice(sorted(pend))
            d, fin, pos = pend[sid]
            left = len(d) - pos
            if left == 0:
                if fin:
                    out.append((self.kind[sid], sid, b"", True))
                del pend[sid]
                continue
            n = {"bytes": 1, "small": rnd.randint(1, 3), "mixed": rnd.choice([1, 2, 5, 17, left]), "whole": left}[style]
            n = min(n, left)
            last = pos + n == len(d)
            attach = fin and last and rnd.random() < 0.5
            out.append((self.kind[sid], sid, d[pos:pos + n], attach))
            if last and (attach or not fin):
                del pend[sid]
            else:
                pend[sid][2] = pos + n
        return out


def session_events(seed, i):
    rnd = random.Random("session/%d/%d" % (seed, i))
    layer = "h0" if rnd.random() < 0.12 else "h3"
    role = rnd.choice(["client", "server"])
    tp = rnd.random() < 0.8
    qlog = rnd.random() < 0.7
    if layer == "h0":
        evs = []
        sids = [0] if role == "client" else [0, 4]
        for sid in sids + [3 if role == "client" else 2]:
            d = rnd.choice([b"GET /\r\n", b"GET /a b\r\n", b"GET\r\n", b"\r\n", b"GET /", H._rand(rnd, rnd.randint(1, 9))])
            if rnd.random() < 0.4 and d:
                p = rnd.randrange(len(d))
                d = d[:p] + H._rand(rnd, 2) + d[p + 1:]
            pos = 0
            fin = rnd.random() < 0.6
            while pos < len(d):
                n = rnd.randint(1, max(1, len(d)))
                last = pos + n >= len(d)
                evs.append(("h0req" if sid % 4 == 0 else "h0other", sid, d[pos:pos + n], fin and last))
                pos += n
        rnd.shuffle(evs)
        # keep per-stream order after the shuffle
        by = {}
        for e in evs:
            by.setdefault(e[1], []).append(e)
        order = [e[1] for e in evs]
        evs = [by[sid].pop(0) for sid in order]
        return {"layer": layer, "role": role, "tp": True, "qlog": qlog, "wt": False, "events": evs}
    ps = PeerScript(role, rnd, tp)
    if rnd.random() < 0.85:
        ps.mutate()
    return {"layer": layer, "role": role, "tp": tp, "qlog": qlog, "wt": rnd.random() < 0.5, "events": ps.events()}


def run_session(sess, upto=None):
    """Feed a session; one record per transport event."""
    rig = H.Rig(A, sess["layer"], sess["role"], sess["tp"], qlog=sess["qlog"], webtransport=sess["wt"])
    recs = []
    after_close = 0
    for j, (kind, sid, data, fin) in enumerate(sess["events"]):
        if upto is not None and j > upto:
            break
        if kind != "dgram" and (sid in rig.fin or not rig.allowed_stream(sid) or (not data and not fin)):
            continue                                  # not deliverable by QUIC (e.g. after a mutated FIN)
        pre = rig.project()
        closed0 = rig.closed() is not None
        names, exc = rig.feed(kind, data, fin, sid=None if kind == "dgram" else sid)
        o = outcome_of(rig, names, exc, 0 if names is None else len(names))
        if closed0 and o["kind"] == "close":
            o.update(kind="events", code=0)
        recs.append({"pre": pre, "want": pre, "post": rig.project(), "cls": {"t": kind, "k": "SESSION"},
                     "chunk": "session", "out": o, "step": j})
        if exc is not None:
            break
        if rig.closed() is not None:
            after_close += 1
            if after_close > 3:
                break
    if recs:
        # one datagrams_to_send at the end; its result belongs to the step that closed, else to the last step
        closing = [r for r in recs if r["out"]["kind"] == "close"]
        finish_outcome(rig, (closing[0] if closing else recs[-1])["out"])
    return recs


def work_session(task):
    seed, i = task
    return i, run_session(session_events(seed, i))


# ------------------------------------------------------------------ judging
def signature(rec, clause):
    pre, o, t = rec["pre"], rec["out"], rec["cls"]["t"]
    head = "%s:%s" % (pre["layer"], pre["role"])
    if clause == "no-raise":
        return "%s:raised:%s:%s:%s" % (head, o["exc"], o["fn"], t)
    if clause == "close-code-is-h3":
        return "%s:close-code-not-h3:0x%x:%s" % (head, o["code"], t)
    if clause == "transmit-after-close":
        if o["txraised"]:
            return "%s:close-transmit-raised:%s:%s:%s" % (head, o["txexc"], o["txfn"], t)
        return "%s:close-transmit-nothing-sent:%s" % (head, t)
    st = "ctrl=%s,enc=%s,dec=%s,req=%s,push=%s,mpi=%s,tp=%s,done=%s" % tuple(
        str(pre[k]).lower() if isinstance(pre[k], bool) else pre[k]
        for k in ("ctrl", "enc", "dec", "req", "push", "mpi", "tp", "done"))
    what = o["kind"] + (":0x%x" % o["code"] if o["kind"] == "close" else "")
    if clause == "model:prefix-state":
        w = rec["want"]
        return "%s:%s:wanted %s reached %s" % (head, clause, ",".join("%s=%s" % (k, w[k]) for k in STATE_FIELDS[3:]),
                                               ",".join("%s=%s" % (k, pre[k]) for k in STATE_FIELDS[3:] if pre[k] != w[k]))
    if clause == "model:outcome":
        # one line per (class, target phase), not per state
        return "%s:%s:%s/%s:%s" % (head, clause, t, rec["cls"]["k"], what)
    return "%s:%s:%s/%s:%s [%s]" % (head, clause, t, rec["cls"]["k"], what, st)


def judged_line(rec):
    o = rec["out"]
    return {"pre": rec["pre"], "want": rec["want"], "postdone": rec["post"]["done"], "cls": rec["cls"],
            "chunk": rec["chunk"],
            "out": {"kind": o["kind"], "code": o["code"], "n": min(o["n"], 2), "txraised": o["txraised"],
                    "txsent": min(o["txsent"], 2), "peer": o["peer"]}}


class Judge:
    """Collects the distinct records, lets TLC judge every one of them, reports."""

    def __init__(self, check):
        self.check = check
        self.lines = {}         # json of the judged line -> [count, ref of the first example, its full record]

    def merge(self, lines):
        for k, (n, ref, rec) in lines.items():
            e = self.lines.get(k)
            if e is None:
                self.lines[k] = [n, ref, rec]
            else:
                e[0] += n
                if json.dumps(ref) < json.dumps(e[1]):
                    e[1], e[2] = ref, rec

    def add(self, rec, ref):
        self.merge({line_key(rec): [1, ref, rec]})

    def run(self, name, detail_of):
        keys = sorted(self.lines)
        lines = [judged_line(self.lines[k][2]) for k in keys]
        fails = trace.validate(self.check, "TraceH3Conn", lines, constants=TRACE_CONSTANTS, name=name)
        for i, clause in fails:
            n, ref, rec = self.lines[keys[i]]
            if clause == "harness-guard":
                raise MachineryError("driver left the environment's alphabet: %s"
                                     % json.dumps(judged_line(rec))[:700])
            sig = signature(rec, clause)
            if clause.startswith("model:"):
                self.check.drift(sig, {"clause": clause, "record": rec, "occurrences": n, "example": ref})
            else:
                self.check.violation(sig, dict(detail_of(ref), clause=clause, record=rec, occurrences=n))
        return len(lines)


def hexevents(events):
    return [[t, d.hex(), f] for t, d, f in events]


# ------------------------------------------------------------------ selection of runs
def in_quick_lattice(st):
    if st["layer"] == "h0" or st["done"] or not st["tp"]:
        return True
    return (all(st[k] in v for k, v in QUICK.items())
            and st["dec"] == (st["enc"] != "none")                          # QPACK streams come in pairs
            and (st["enc"] == "open") == (st["req"] in BLOCKED)             # blocked sections wait at an open encoder stream
            and (st["role"] == "client" or st["mpi"] == (st["ctrl"] == "set")))


def is_focus_state(st, t):
    """States in which all concretisations and chunkings of the classes aimed at
    target t are run: every phase of the target's own dimension, the other
    dimensions either bare or rich."""
    if st["layer"] == "h0" or st["done"] or not st["tp"]:
        return True
    own = {"ctrl": ["ctrl", "mpi"], "enc": ["enc", "req"], "dec": ["dec"], "req": ["req", "enc"], "push": ["push"],
           "newuni": ["ctrl", "enc", "dec", "push"], "newreq": [], "dgram": []}[t]
    bare = {"ctrl": "none", "enc": "none", "dec": False, "req": "init", "push": "none", "mpi": False}
    rich = {"ctrl": "set", "enc": "ins", "dec": True, "req": "hdrs", "push": "open" if st["role"] == "client" else "none",
            "mpi": st["role"] == "server"}
    others = [k for k in bare if k not in own]
    return all(st[k] == bare[k] for k in others) or all(st[k] == rich[k] for k in others)


def is_rich(st):
    return st["layer"] == "h0" or (st["tp"] and not st["done"] and st["ctrl"] in ("set", "setMid") and st["enc"] != "none"
                                   and st["dec"])


def plan_runs(check, st, cls, concs):
    """Which (concretisation, chunking) runs to make for an edge.
    every replayed edge: first concretisation, whole;
    focus states (all phases of the target's own dimensions, the rest bare or rich): every concretisation
      under whole / byte-by-byte / FIN-separate, and in the rich ones split at every position;
    thorough, states of the quick lattice: also byte-by-byte and the other concretisations whole."""
    lens = [len(c[0]) for c in concs]
    fins = [c[1] for c in concs]
    nconc = len(concs)
    runs = [(0, "whole")]
    if cls["t"] == "dgram":                  # a datagram is not a stream: it cannot be chunked
        runs += [(ci, "whole") for ci in range(nconc)]
    elif is_focus_state(st, cls["t"]):
        for ci in range(nconc):
            runs += [(ci, "whole"), (ci, "bytes"), (ci, "finsep")]
        if is_rich(st):
            cap = 12 if check.quick else 32
            for ci in range(1 if check.quick else nconc):
                runs += [(ci, ["split", k]) for k in split_positions(lens[ci], cap)]
    elif not check.quick and in_quick_lattice(st):
        runs.append((0, "bytes"))
        runs += [(ci, "whole") for ci in range(1, nconc)]
    out, seen = [], set()
    for ci, mode in runs:
        if mode == "finsep" and (not fins[ci] or lens[ci] == 0):
            continue                    # coincides with "whole"
        if mode == "bytes" and lens[ci] <= 1:
            continue
        key = (ci, json.dumps(mode))
        if key not in seen:
            seen.add(key)
            out.append((ci, mode))
    return out


# ------------------------------------------------------------------ replay
def replay(check):
    d = json.load(open(check.replay))["detail"]
    if d.get("kind") == "model":
        raise MachineryError("replay of a design-level counterexample: run the check itself, the TLC trace is in the replay file")
    j = Judge(check)
    if d["mode"] == "edge":
        st, cls = d["state"], d["cls"]
        events = [(t, bytes.fromhex(h), f) for t, h, f in d["events"]]
        rec = run_case(st, cls, events, qlog=d.get("qlog", True))
        rec["chunk"] = d["chunk"]
        recs = [rec]
    else:
        sess = dict(d["session"], events=[(k, sid, bytes.fromhex(h), f) for k, sid, h, f in d["session"]["events"]])
        recs = run_session(sess, upto=d["step"])
    for k, r in enumerate(recs):
        j.add(r, ["replay", k])
    n = j.run("replay", lambda ref: {k: v for k, v in d.items() if k not in ("clause", "record", "occurrences")})
    check.count(repr(d.get("events") or d.get("session")), nontrivial=True, evaluations=len(recs))
    check.cov["traces_validated_against_impl"] += 1
    check.sample({"replayed": judged_line(recs[-1])})
    check.cov["rule"] = "replay of one recorded case; every record of it judged by TLC (%d lines)" % n


# ------------------------------------------------------------------ worker processes
def run_workers(check, judge, tasks, sess_tasks):
    """Shard the cases over fresh interpreter processes; results are re-ordered by
    index, so the outcome does not depend on scheduling."""
    nproc = max(1, min(16, os.cpu_count() or 1, (len(tasks) + len(sess_tasks)) // 20 + 1))
    shards = [{"cases": [], "sessions": []} for _ in range(nproc)]
    load = [0] * nproc
    for t in sorted(tasks, key=lambda t: -len(t[3])):       # greedy balancing by number of runs
        k = load.index(min(load))
        shards[k]["cases"].append(t)
        load[k] += len(t[3])
    for i, t in enumerate(sess_tasks):
        shards[i % nproc]["sessions"].append(t)
    d = os.path.join(check.work, "workers")
    os.makedirs(d, exist_ok=True)
    root = os.path.dirname(os.path.dirname(os.path.dirname(os.path.abspath(__file__))))
    procs = []
    for k, sh in enumerate(shards):
        inp, outp = os.path.join(d, "in%d.json" % k), os.path.join(d, "out%d.json" % k)
        with open(inp, "w") as f:
            json.dump(sh, f)
        procs.append((subprocess.Popen([sys.executable, "-m", "harness.c16_worker", check.overlay_root, inp, outp],
                                       cwd=root, stdout=subprocess.PIPE, stderr=subprocess.STDOUT, text=True), outp))
    cases, sessions = {}, {}
    for p, outp in procs:
        log = p.communicate()[0]
        if p.returncode != 0 or not os.path.exists(outp):
            raise MachineryError("C16 worker failed (exit %s):\n%s" % (p.returncode, log[-3000:]))
        o = json.load(open(outp))
        os.unlink(outp)
        judge.merge(o["lines"])
        for idx, n, refused in o["cases"]:
            cases[idx] = (n, refused)
        for i, n, refused in o["sessions"]:
            sessions[i] = (n, refused)
    return cases, sessions


# ------------------------------------------------------------------ main
def _t(check, what):
    if os.environ.get("C16_DEBUG_TIMES"):
        print("[c16] %6.1fs %s" % (time.time() - check.t0, what), file=sys.stderr)


def run(check):
    global A
    check.build_overlay()
    A = H.load_modules()
    _t(check, "overlay")
    if check.replay:
        return replay(check)

    # (M) exhaustive state x class; TLC prints every enabled pair
    r = check.run_tlc("H3Conn", model_cfg(True), name="H3Conn_M", workers=4)
    _t(check, "M done")
    if r.violated:
        check.model_violation(r, "H3Conn")
        check.sample({"design-level counterexample": r.violated})
        return
    shapes, pairs = {}, []
    for line in r.out.splitlines():
        if line.startswith('"CLASS|'):
            _, t, k = line.strip().strip('"').split("|")
            shapes.setdefault(t, set()).add(k)
        elif line.startswith('"EDGE|'):
            f = line.strip().strip('"').split("|")[1:]
            v = [x == "T" if i in (2, 5, 8, 9) else x for i, x in enumerate(f[:10])]
            pairs.append((dict(zip(STATE_FIELDS, v)), f[10]))
    # TLC printed the class table and the (state, enabled target) pairs: expand
    edges = [(st, {"t": t, "k": k}) for st, t in pairs for k in sorted(shapes[t])]
    edges.sort(key=lambda e: json.dumps(e, sort_keys=True))
    if not edges:
        raise MachineryError("TLC printed no (state, class) pairs")
    names = H.shape_names()
    seen = {}
    for st, cls in edges:
        seen.setdefault(cls["t"], set()).add(cls["k"])
    for t, ks in seen.items():
        if sorted(ks) != names[t]:
            raise MachineryError("class alphabet of H3Conn.tla and of the concretiser differ for target %s: %s"
                                 % (t, sorted(set(ks) ^ set(names[t]))))
    states = {json.dumps(st, sort_keys=True) for st, _ in edges}
    check.cov["model_states_with_edges"] = len(states)
    check.cov["model_edges"] = len(edges)

    # (R) concretise and replay
    tasks = []
    skipped = 0
    for st, cls in edges:
        if check.quick and not in_quick_lattice(st):
            skipped += 1
            continue
        concs = H.concretise(st["role"], cls["t"], cls["k"], check.seed)
        runs = plan_runs(check, st, cls, concs)
        tasks.append((len(tasks), st, cls, runs, check.seed))
    check.cov["edges_replayed"] = len(tasks)
    check.cov["edges_not_replayed_in_this_tier"] = skipped
    nsess = 400 if check.quick else 4000
    judge = Judge(check)
    cases, sessions = run_workers(check, judge, tasks, [(check.seed, i) for i in range(nsess)])
    _t(check, "R and V done")
    if sorted(cases) != list(range(len(tasks))) or sorted(sessions) != list(range(nsess)):
        raise MachineryError("workers did not return every case")
    nruns = nsteps = 0
    for idx in sorted(cases):
        st = tasks[idx][1]
        n, refused = cases[idx]
        nruns += n
        prefixed = not st["done"] and any(st[k] != v for k, v in
                                          (("ctrl", "none"), ("enc", "none"), ("dec", False), ("req", "init"), ("push", "none")))
        for j in range(n):
            check.count(("case", idx, j), nontrivial=prefixed and j < refused)
    for i in sorted(sessions):
        n, refused = sessions[i]
        nsteps += n
        for j in range(n):
            check.count(("session", i, j), nontrivial=j < refused)
    check.cov["runs_on_live_connections"] = nruns
    check.cov["sessions"] = nsess
    check.cov["session_steps"] = nsteps
    check.cov["traces_validated_against_impl"] += nruns + nsess

    def detail_of(ref):
        if ref[0] == "session":
            return session_detail(check.seed, ref[1], ref[2])
        idx, ci, mode = ref
        st, cls = tasks[idx][1], tasks[idx][2]
        return {"mode": "edge", "state": st, "cls": cls, "chunk": rec_chunk(mode), "conc": ci,
                "events": hexevents(case_events(st, cls, ci, mode, check.seed))}

    nlines = judge.run("TraceH3Conn_RV", detail_of)
    _t(check, "judged %d lines" % nlines)
    check.cov["distinct_records_judged_by_tlc"] = nlines

    ex = [v[2] for k, v in sorted(judge.lines.items()) if v[2]["out"]["kind"] == "close"][:2]
    for rec in ex:
        check.sample({"record": judged_line(rec)})
    check.sample({"edge": edges[len(edges) // 2]})
    check.cov["rule"] = ("a case = one (valid prefix state, input class, concretisation, chunking) run on a fresh live "
                         "connection pair, or one step of a random session; non-trivial = the input was refused (close / "
                         "exception) after a non-empty valid prefix; distinct by (edge, concretisation, chunking) / (session, step)")
    check.cov["trusted_base"] = ["TLC 1.8", "the mechanical projection of H3Connection/H3Stream/H0Connection attributes onto "
                                 "the abstract state (harness/c16_h3.py Rig.project)", "the byte concretisation of the classes "
                                 "(harness/c16_h3.py)", "QuicConnection._close_event is read to learn the code passed to close(); "
                                 "the peer connection's ConnectionTerminated event cross-checks it (model:peer-sees-close)"]
    check.assumptions += ["events are constructed by the harness, restricted to what a QUIC connection can deliver: peer-initiated "
                          "streams or streams the endpoint opened, non-empty data or FIN, nothing after FIN",
                          "the live connection is in the state right after a confirmed handshake when the layer closes it",
                          "valid prefixes are the canonical ones of H3Conn.tla (one per abstract state) plus the random sessions",
                          "qlog is on in all replayed edges (it adds the logging code paths) and on in 70% of the sessions"]


def rec_chunk(mode):
    return mode if isinstance(mode, str) else "split"


def session_detail(seed, i, step):
    s = session_events(seed, i)
    return {"mode": "session", "step": step,
            "session": dict(s, events=[[k, sid, d.hex(), f] for k, sid, d, f in s["events"]])}
