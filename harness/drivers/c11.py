"""C11 - TLS handshake messages are accepted only in protocol order.

(M) TLC explores Tls13.tla exhaustively: every configuration (client with /
    without a session ticket, server with / without certificate request and
    ticket store), the key-holding adversary feeding any of the 21 message
    variants (all 12 HandshakeType values, an unknown type, bad MAC / signature
    variants, PSK variants, empty certificate, EncryptedExtensions with early_data,
    CertificateRequest with a context) in every reachable state, and all
    scripts "hello + arrangement of a sub-multiset of the flight"; invariants
    NoSkip, KeysAfterAuth, RefusalIsUnexpectedMessage.
(R) every script TLC enumerated (printed from the initial states of SpecScript)
    is replayed into REAL aioquic.tls.Context objects, message by message and a
    second time with the flight in one input buffer.
(X) breadth-first exploration of the implementation: from every sequence of
    messages the real Context accepted, every message of the alphabet is fed
    (a fresh Context per edge, the prefix is re-played), until nothing new is
    accepted -- this reaches all 13 states by genuine prefixes and tries every
    message type in each of them, on both roles.
(V) seeded random message sequences (one or two edits of a legal run).
    Every call of every run is recorded (state before, message, alert class,
    state after, update_traffic_key_cb calls) and judged by TLC with the
    operators of Tls13 (TraceTls13).
(Q) one layer down: the flight orderings are also sent, in real QUIC packets
    protected with the genuine keys, to a real QuicConnection client (no session
    ticket); observed are HandshakeCompleted, the close code, the final TLS
    state and the installed 1-RTT keys (connection.py), judged by the same
    module.  This is also what checks the assumption of the runs above that a
    Context is not fed any more after it raised an alert.

The adversary: a genuine peer Context produces the hello (and so the key
exchange); everything else is built here from the certificate's private key
and the handshake traffic secrets the peer holds: CertificateVerify is signed
and Finished is MACed over the transcript the receiver has accepted so far
(own transcript hash, HKDF-Expand-Label and HMAC from hashlib/hmac), so that a
message out of order is exactly what a key-holding attacker would send and
only the order check can stop it.
"""
import hashlib
import hmac
import json
import os
import random
import struct

from .. import tlc as tlcmod
from .. import trace
from ..overlay import MachineryError

# certificates are test fixtures, not code under check: always the pristine ones
FIXTURES = "/repo/tests"
SIG_RSA_PSS_RSAE_SHA256 = 0x0804
SERVER_CV_CONTEXT = b"TLS 1.3, server CertificateVerify"
CLIENT_CV_CONTEXT = b"TLS 1.3, client CertificateVerify"

NAME_TYPE = {"CH": "CLIENT_HELLO", "CHpsk": "CLIENT_HELLO", "CHpskbad": "CLIENT_HELLO", "SH": "SERVER_HELLO",
             "SHpsk": "SERVER_HELLO", "SHpskbad": "SERVER_HELLO", "NST": "NEW_SESSION_TICKET", "EOED": "END_OF_EARLY_DATA",
             "EE": "ENCRYPTED_EXTENSIONS", "EEearly": "ENCRYPTED_EXTENSIONS", "CRctx": "CERTIFICATE_REQUEST", "CERT": "CERTIFICATE", "CERTempty": "CERTIFICATE",
             "CR": "CERTIFICATE_REQUEST", "CV": "CERTIFICATE_VERIFY", "CVbad": "CERTIFICATE_VERIFY",
             "FIN": "FINISHED", "FINbad": "FINISHED", "KU": "KEY_UPDATE", "CCERT": "COMPRESSED_CERTIFICATE",
             "MH": "MESSAGE_HASH", "UNKNOWN": "UNKNOWN"}
CLIENT_ALPHABET = ["SH", "SHpsk", "SHpskbad", "EE", "EEearly", "CR", "CRctx", "CERT", "CERTempty", "CV", "CVbad", "FIN", "FINbad", "NST",
                   "CH", "EOED", "KU", "CCERT", "MH", "UNKNOWN"]
SERVER_ALPHABET = ["CH", "CHpsk", "CHpskbad", "CERT", "CERTempty", "CV", "CVbad", "FIN", "FINbad", "SH", "EE",
                   "CR", "NST", "EOED", "KU", "CCERT", "MH", "UNKNOWN"]


# ----------------------------------------------------------- own TLS 1.3 crypto
def hkdf_expand(hashname, prk, info, length):
    out, t, i = b"", b"", 1
    while len(out) < length:
        t = hmac.new(prk, t + info + bytes([i]), hashname).digest()
        out += t
        i += 1
    return out[:length]


def hkdf_expand_label(hashname, secret, label, context, length):
    full = b"tls13 " + label
    info = struct.pack("!HB", length, len(full)) + full + bytes([len(context)]) + context
    return hkdf_expand(hashname, secret, info, length)


def finished_mac(hashname, traffic_secret, transcript):
    size = hashlib.new(hashname).digest_size
    key = hkdf_expand_label(hashname, traffic_secret, b"finished", b"", size)
    return hmac.new(key, hashlib.new(hashname, transcript).digest(), hashname).digest()


def hs_msg(type_byte, body):
    return bytes([type_byte]) + len(body).to_bytes(3, "big") + body


def split_messages(data):
    out = []
    while data:
        n = 4 + int.from_bytes(data[1:4], "big")
        out.append(bytes(data[:n]))
        data = data[n:]
    return out


def suite_hash(cipher_suite):
    return "sha384" if int(cipher_suite) == 0x1302 else "sha256"


class Lab:
    """The adversary's means: aioquic modules of the overlay, the certificate
    with its private key, and a session ticket pair obtained from one genuine
    handshake (client side / server side of the same ticket)."""

    def __init__(self, tls, Buffer):
        from cryptography.hazmat.primitives import hashes, serialization
        from cryptography.hazmat.primitives.asymmetric import padding
        self.tls, self.Buffer = tls, Buffer
        self.hashes, self.padding = hashes, padding
        pem = open(os.path.join(FIXTURES, "ssl_cert.pem"), "rb").read()
        self.cert = tls.load_pem_x509_certificates(pem)[0]
        self.cert_der = self.cert.public_bytes(serialization.Encoding.DER)
        self.key = tls.load_pem_private_key(open(os.path.join(FIXTURES, "ssl_key.pem"), "rb").read())
        self.cafile = os.path.join(FIXTURES, "pycacert.pem")
        self.client_ticket = None
        self.server_tickets = {}
        self._make_ticket()

    # -- contexts ------------------------------------------------------------
    def bufs(self):
        E = self.tls.Epoch
        return {E.INITIAL: self.Buffer(capacity=16384), E.HANDSHAKE: self.Buffer(capacity=16384),
                E.ONE_RTT: self.Buffer(capacity=16384)}

    def client(self, ticket=False):
        c = self.tls.Context(is_client=True, cafile=self.cafile, server_name="localhost")
        c.handshake_extensions = [(self.tls.ExtensionType.QUIC_TRANSPORT_PARAMETERS, b"\x01\x02\x43\xe8")]
        if ticket:
            c.session_ticket = self.client_ticket
        return c

    def server(self, tickets=False, cert_request=False):
        s = self.tls.Context(is_client=False, max_early_data=0xFFFFFFFF)
        s.certificate = self.cert
        s.certificate_private_key = self.key
        s.handshake_extensions = [(self.tls.ExtensionType.QUIC_TRANSPORT_PARAMETERS, b"\x01\x02\x43\xe8")]
        s._request_client_certificate = cert_request
        if tickets:
            s.get_session_ticket_cb = self.server_tickets.get
        return s

    def _make_ticket(self):
        c, s = self.client(), self.server()
        got = []
        c.new_session_ticket_cb = got.append
        s.new_session_ticket_cb = lambda t: self.server_tickets.__setitem__(t.ticket, t)
        cb, sb = self.bufs(), self.bufs()
        try:
            c.handle_message(b"", cb)
            s.handle_message(cb[self.tls.Epoch.INITIAL].data, sb)
            c.handle_message(b"".join(b.data for b in sb.values()), self.bufs())
        except Exception as e:      # a tree on which no genuine handshake works: PSK cases are skipped
            self.ticket_error = repr(e)
        if got and self.server_tickets:
            self.client_ticket = got[0]

    def quic(self):
        if not hasattr(self, "_quic"):
            import logging
            logging.getLogger("quic").setLevel(logging.CRITICAL)     # refusals are logged as warnings
            from aioquic.quic.configuration import QuicConfiguration
            from aioquic.quic.connection import QuicConnection
            ccfg = QuicConfiguration(is_client=True, server_name="localhost")
            ccfg.load_verify_locations(cafile=self.cafile)
            scfg = QuicConfiguration(is_client=False)
            scfg.certificate, scfg.private_key = self.cert, self.key
            self._quic = {"QuicConnection": QuicConnection, "client_cfg": ccfg, "server_cfg": scfg}
        return self._quic

    # -- forged messages -----------------------------------------------------
    def certificate_verify(self, hashname, transcript, context, bad=False):
        data = b" " * 64 + context + b"\x00" + hashlib.new(hashname, transcript).digest()
        sig = self.key.sign(data, self.padding.PSS(mgf=self.padding.MGF1(self.hashes.SHA256()), salt_length=32),
                            self.hashes.SHA256())
        if bad:
            sig = sig[:-1] + bytes([sig[-1] ^ 1])
        return hs_msg(15, struct.pack("!HH", SIG_RSA_PSS_RSAE_SHA256, len(sig)) + sig)

    def finished(self, hashname, secret, transcript, bad=False):
        mac = finished_mac(hashname, secret, transcript)
        if bad:
            mac = mac[:-1] + bytes([mac[-1] ^ 1])
        return hs_msg(20, mac)

    def certificate(self, empty=False):
        entries = b"" if empty else len(self.cert_der).to_bytes(3, "big") + self.cert_der + b"\x00\x00"
        return hs_msg(11, b"\x00" + len(entries).to_bytes(3, "big") + entries)

    def certificate_request(self, context=b""):
        algs = b"".join(struct.pack("!H", a) for a in (0x0403, 0x0804, 0x0401, 0x0503, 0x0805, 0x0501))
        ext = struct.pack("!HH", 13, len(algs) + 2) + struct.pack("!H", len(algs)) + algs
        return hs_msg(13, bytes([len(context)]) + context + struct.pack("!H", len(ext)) + ext)

    def new_session_ticket(self):
        ext = struct.pack("!HHI", 42, 4, 0xFFFFFFFF)
        tick = bytes(range(64))
        return hs_msg(4, struct.pack("!II", 86400, 7) + b"\x00" + struct.pack("!H", len(tick)) + tick
                      + struct.pack("!H", len(ext)) + ext)

    def dummy_server_hello(self):
        ext = struct.pack("!HHH", 43, 2, 0x0304) + struct.pack("!HHHH", 51, 36, 0x001D, 32) + bytes(range(32))
        return hs_msg(2, b"\x03\x03" + bytes(32) + b"\x00" + b"\x13\x02" + b"\x00" + struct.pack("!H", len(ext)) + ext)

    def other(self, name, hashname):
        if name == "NST":
            return self.new_session_ticket()
        if name == "EOED":
            return hs_msg(5, b"")
        if name == "KU":
            return hs_msg(24, b"\x00")
        if name == "CCERT":
            return hs_msg(25, b"\x00\x02" + (100).to_bytes(3, "big") + (4).to_bytes(3, "big") + b"\x0b\x01\x80\x03")
        if name == "MH":
            return hs_msg(254, bytes(hashlib.new(hashname).digest_size))
        if name == "UNKNOWN":
            return hs_msg(99, b"")
        if name == "CR":
            return self.certificate_request()
        if name == "CRctx":
            return self.certificate_request(context=b"\x07ctx")
        raise MachineryError("no encoder for message " + name)


def with_early_data(ee):
    """EncryptedExtensions with an (empty) early_data extension, unless it has one."""
    exts, p, has = ee[6:], 0, False
    while p + 4 <= len(exts):
        t, n = struct.unpack("!HH", exts[p:p + 4])
        has = has or t == 42
        p += 4 + n
    if has:
        return ee
    exts = exts + struct.pack("!HH", 42, 0)
    return hs_msg(8, struct.pack("!H", len(exts)) + exts)


def add_psk_to_server_hello(sh):
    """ServerHello with a pre_shared_key extension selecting identity 0 appended."""
    body = bytearray(sh[4:])
    sid_len = body[34]
    p = 35 + sid_len + 3                      # offset of the extensions length
    ext = bytes(body[p + 2:]) + struct.pack("!HHH", 41, 2, 0)
    body[p:] = struct.pack("!H", len(ext)) + ext
    return hs_msg(2, bytes(body))


def call(tls, ctx, data, bufs, keys):
    """One handle_message call on the context under check, recorded."""
    pre, k0 = ctx.state.name, len(keys)
    try:
        ctx.handle_message(data, bufs)
        alert = "none"
    except tls.Alert as a:
        d = getattr(a, "description", None)
        alert = d.name if d is not None else "alert:" + type(a).__name__
    except Exception as ex:
        alert = "exception:" + type(ex).__name__
    return {"pre": pre, "alert": alert, "post": ctx.state.name,
            "keys": [[d.name, e.name] for d, e in keys[k0:]],
            "resumed": bool(ctx._session_resumed)}


def run_case(lab, cfg, names, batch_from=None, keep_going=False):
    """Run one case on a fresh real Context.  cfg: role, pskOffered, certReq,
    tickets.  names[:batch_from] are fed one per call, the rest in one buffer.
    Feeding stops at the first refusal (the connection is closed; that the
    connection really stops feeding its Context is what the "quic" cases check).
    keep_going: rehearsal mode of the adversary -- go on after an alert to learn
    which messages a receiver that is fed on would accept (lines not judged).
    Returns the NDJSON lines of the case."""
    tls = lab.tls
    E, D = tls.Epoch, tls.Direction
    role = cfg["role"]
    psk_cfg = bool(cfg["pskOffered"]) and lab.client_ticket is not None
    lines = [{"op": "init", "role": role, "pskOffered": psk_cfg, "certReq": bool(cfg["certReq"]),
              "tickets": bool(cfg["tickets"]) and lab.client_ticket is not None}]
    keys = []
    if role == "client":
        ctx = lab.client(ticket=psk_cfg)
    else:
        ctx = lab.server(tickets=lines[0]["tickets"], cert_request=cfg["certReq"])
    secrets = []

    def on_key(d, e, cs, secret):
        keys.append((d, e))
        secrets.append((d, e, cs, secret))
    ctx.update_traffic_key_cb = on_key
    out = lab.bufs()
    st = {"transcript": b"", "hash": "sha384", "secret": bytes(48), "ee": hs_msg(8, b"\x00\x00"),
          "sh": None, "ch": None, "peers": {}}

    def reset_out():
        data = {k: b.data for k, b in out.items()}
        for b in out.values():
            b.seek(0)
        return data

    if role == "client":
        r = call(tls, ctx, b"", out, keys)
        lines.append(dict(r, op="start"))
        st["ch"] = reset_out()[E.INITIAL]
        st["transcript"] = st["ch"]
        if r["alert"] != "none":
            return lines

    def genuine_server(variant):
        """A genuine server Context answers the ClientHello: ServerHello,
        EncryptedExtensions and the server handshake traffic secret."""
        if variant not in st["peers"]:
            s = lab.server(tickets=(variant == "SHpsk" and psk_cfg))
            if variant == "SHpskbad" and lab.client_ticket is not None:
                # an impostor: it does not hold the PSK and answers with another cipher suite than the ticket's, yet its
                # ServerHello claims to have selected the PSK
                other = [c for c in s._cipher_suites if c != lab.client_ticket.cipher_suite]
                s._cipher_suites = other[:1] or s._cipher_suites
            got = []
            s.update_traffic_key_cb = lambda d, e, cs, sec: got.append((d, e, cs, sec))
            sb = lab.bufs()
            orig_push = tls.push_server_hello
            if variant == "SHpskbad":
                # the impostor's own ServerHello carries the pre_shared_key extension (identity 0), so that its transcript
                # and handshake secrets are consistent with what it sends; it still derives them without the PSK
                def push_with_psk(buf, hello):
                    hello.pre_shared_key = 0
                    return orig_push(buf, hello)
                tls.push_server_hello = push_with_psk
            try:
                try:
                    s.handle_message(st["ch"], sb)
                finally:
                    tls.push_server_hello = orig_push
                sh = split_messages(sb[E.INITIAL].data)[0]
                ee = split_messages(sb[E.HANDSHAKE].data)[0]
                cs, sec = [(c, x) for d, e, c, x in got if d == D.ENCRYPT and e == E.HANDSHAKE][0]
                if variant == "SHpsk" and not s._session_resumed:
                    sh = add_psk_to_server_hello(sh)
                st["peers"][variant] = {"sh": sh, "ee": ee, "hash": suite_hash(cs), "secret": sec}
            except Exception:
                st["peers"][variant] = {"sh": lab.dummy_server_hello(), "ee": st["ee"], "hash": "sha384",
                                        "secret": bytes(48)}
        return st["peers"][variant]

    def genuine_client(variant):
        """A genuine client Context produces the ClientHello (with a PSK for
        CHpsk*); later it is given the server's hello to learn the client
        handshake traffic secret, as the real peer would."""
        key = "CHpsk" if variant.startswith("CHpsk") else "CH"
        if key not in st["peers"]:
            c = lab.client(ticket=(key == "CHpsk" and lab.client_ticket is not None))
            got = []
            c.update_traffic_key_cb = lambda d, e, cs, sec: got.append((d, e, cs, sec))
            cb = lab.bufs()
            c.handle_message(b"", cb)
            st["peers"][key] = {"ctx": c, "got": got, "ch": cb[E.INITIAL].data}
        return st["peers"][key]

    def build(name):
        h, sec, tr = st["hash"], st["secret"], st["transcript"]
        if role == "client":
            if name in ("SH", "SHpsk", "SHpskbad"):
                return genuine_server(name)["sh"]
            if name in ("EE", "EEearly"):
                ee = st["ee"] if st["sh"] else genuine_server("SH")["ee"]
                return ee if name == "EE" else with_early_data(ee)
            if name == "CH":
                return st["ch"]
            cv_context = SERVER_CV_CONTEXT
        else:
            if name == "CH":
                return genuine_client(name)["ch"]
            if name == "CHpsk":
                return genuine_client(name)["ch"]
            if name == "CHpskbad":
                ch = genuine_client(name)["ch"]
                return ch[:-1] + bytes([ch[-1] ^ 1])
            if name == "SH":
                return st["sh"] or lab.dummy_server_hello()
            if name in ("EE", "EEearly"):
                return st["ee"] if name == "EE" else with_early_data(st["ee"])
            cv_context = CLIENT_CV_CONTEXT
        if name in ("CERT", "CERTempty"):
            return lab.certificate(empty=(name == "CERTempty"))
        if name in ("CV", "CVbad"):
            return lab.certificate_verify(h, tr, cv_context, bad=(name == "CVbad"))
        if name in ("FIN", "FINbad"):
            return lab.finished(h, sec, tr, bad=(name == "FINbad"))
        return lab.other(name, h)

    def accepted(name, data, produced):
        """Book-keeping of the adversary after the receiver accepted a message."""
        st["transcript"] += data
        if role == "client" and name in ("SH", "SHpsk", "SHpskbad") and st["sh"] is None:
            p = genuine_server(name)
            st.update(sh=p["sh"], ee=p["ee"], hash=p["hash"], secret=p["secret"])
        if role == "server" and NAME_TYPE[name] == "CLIENT_HELLO" and st["sh"] is None:
            flight = produced[E.INITIAL] + produced[E.HANDSHAKE]
            st["transcript"] += flight
            msgs = split_messages(flight)
            st["sh"] = msgs[0] if msgs else None
            ees = [m for m in msgs if m[0] == 8]
            if ees:
                st["ee"] = ees[0]
            peer = genuine_client(name)
            try:        # the genuine client learns its handshake secret from ServerHello + EncryptedExtensions
                if name == "CHpskbad":
                    raise ValueError("hello altered after the genuine client made it")
                peer["ctx"].handle_message(msgs[0] + ees[0], lab.bufs())
                cs, sec = [(c, x) for d, e, c, x in peer["got"] if d == D.ENCRYPT and e == E.HANDSHAKE][0]
                st.update(hash=suite_hash(cs), secret=sec)
            except Exception:
                # an attacker who altered its own hello derives the same secret as the server: take it from there
                mine = [(c, x) for d, e, c, x in secrets if d == D.DECRYPT and e == E.HANDSHAKE]
                if mine:
                    st.update(hash=suite_hash(mine[0][0]), secret=mine[0][1])

    cut = len(names) if batch_from is None else batch_from
    for name in names[:cut]:
        data = build(name)
        r = call(tls, ctx, data, out, keys)
        lines.append(dict(r, op="recv", name=name))
        produced = reset_out()
        if r["alert"] != "none":
            if keep_going and not r["alert"].startswith("exception:"):
                continue
            return lines
        accepted(name, data, produced)
    if batch_from is not None and names[cut:]:
        # messages of one buffer: each is forged over the transcript that the
        # receiver has when it accepts everything before it
        blob, tr0 = b"", st["transcript"]
        for name in names[cut:]:
            data = build(name)
            blob += data
            st["transcript"] += data
        st["transcript"] = tr0
        r = call(tls, ctx, blob, out, keys)
        lines.append(dict(r, op="batch", names=list(names[cut:])))
    return lines


def run_quic_case(lab, names):
    """The same adversary one layer down: a real QuicConnection client is fed
    real datagrams by a QuicConnection server whose TLS flight (everything after
    the ServerHello) is replaced by the forged one -- packet protection uses the
    genuine keys, so the client decrypts it and hands it to its tls.Context.
    Observed: HandshakeCompleted, the close error code, the final TLS state,
    whether 1-RTT receive keys were installed (connection.py)."""
    tls, E, D = lab.tls, lab.tls.Epoch, lab.tls.Direction
    Q = lab.quic()
    # rehearsal against the adversary's own copy of the software: which of the
    # messages does a client that keeps being fed accept?  Only those enter the
    # transcript the signatures / MACs are computed over.
    plain = {"role": "client", "pskOffered": False, "certReq": False, "tickets": False}
    reh = [x for x in run_case(lab, plain, ["SH"] + list(names), keep_going=True) if x["op"] == "recv"][1:]
    hashed = [i < len(reh) and reh[i]["alert"] == "none" for i in range(len(names))]
    client = Q["QuicConnection"](configuration=Q["client_cfg"])
    client.connect(("192.0.2.1", 4433), now=0.0)
    server = Q["QuicConnection"](configuration=Q["server_cfg"],
                                 original_destination_connection_id=client.original_destination_connection_id)
    st = {"done": False}
    init0 = server._initialize

    def initialize(peer_cid):                  # the adversary's own instance: swap its flight
        init0(peer_cid)
        handle0, cb0, secrets = server.tls.handle_message, server.tls.update_traffic_key_cb, []

        def on_key(d, e, cs, sec):
            secrets.append((d, e, cs, sec))
            cb0(d, e, cs, sec)

        def handle(data, bufs):
            handle0(data, bufs)
            if st["done"] or server.tls.state != tls.State.SERVER_EXPECT_FINISHED:
                return
            st["done"] = True
            ee = split_messages(bufs[E.HANDSHAKE].data)[0]
            cs, sec = [(x, y) for d, e, x, y in secrets if d == D.ENCRYPT and e == E.HANDSHAKE][0]
            h, tr, flight = suite_hash(cs), bytes(data) + bufs[E.INITIAL].data, b""
            for i, n in enumerate(names):
                if n in ("EE", "EEearly"):
                    m = ee if n == "EE" else with_early_data(ee)
                elif n in ("SH", "SHpsk", "SHpskbad"):
                    m = bufs[E.INITIAL].data if n == "SH" else add_psk_to_server_hello(bufs[E.INITIAL].data)
                elif n == "CH":
                    m = bytes(data)
                elif n in ("CERT", "CERTempty"):
                    m = lab.certificate(empty=(n == "CERTempty"))
                elif n in ("CV", "CVbad"):
                    m = lab.certificate_verify(h, tr, SERVER_CV_CONTEXT, bad=(n == "CVbad"))
                elif n in ("FIN", "FINbad"):
                    m = lab.finished(h, sec, tr, bad=(n == "FINbad"))
                else:
                    m = lab.other(n, h)
                if hashed[i]:
                    tr += m
                flight += m
            bufs[E.HANDSHAKE].seek(0)
            bufs[E.HANDSHAKE].push_bytes(flight)
        server.tls.update_traffic_key_cb = on_key
        server.tls.handle_message = handle
    server._initialize = initialize
    for data, _ in client.datagrams_to_send(now=0.0):
        server.receive_datagram(data, ("192.0.2.2", 5000), now=0.0)
    for path in server._network_paths:          # an attacker is not bound by the anti-amplification limit
        path.is_validated = True
    # the sans-IO pattern: all datagrams that arrived are handed over, then the
    # application asks for events / datagrams to send
    crashed = ""
    for data, _ in server.datagrams_to_send(now=0.01):
        try:
            client.receive_datagram(data, ("192.0.2.1", 4433), now=0.01)
        except Exception as ex:             # not an alert: the API raised (that is property C05)
            crashed = type(ex).__name__
            break
    completed = False
    while True:
        ev = client.next_event()
        if ev is None:
            break
        completed = completed or type(ev).__name__ == "HandshakeCompleted"
    close = client._close_event
    return [{"op": "init", "role": "client", "pskOffered": False, "certReq": False, "tickets": False},
            {"op": "quic", "names": list(names), "completed": completed,
             # the whole forged flight left the adversary
             "fed": bool(st["done"]) and len(server._crypto_streams[E.HANDSHAKE].sender._pending) == 0,
             "post": client.tls.state.name,
             "code": -2 if crashed else (-1 if close is None else int(close.error_code)),
             "onertt": bool(client._cryptos[E.ONE_RTT].recv.is_valid()),
             # handshake messages a client that is fed on accepts (post-handshake tickets left out)
             "accepted": [n for i, n in enumerate(names) if hashed[i] and n != "NST"], "crashed": crashed}]


# -------------------------------------------------------------- exploration
def case_key(cfg):
    return "%s|%d%d%d" % (cfg["role"], cfg["pskOffered"], cfg["certReq"], cfg["tickets"])


def closure(lab, cfg, alphabet, max_depth, cap):
    """BFS over the sequences of messages the real Context accepts."""
    cases, frontier, nodes, capped = [], [()], 1, False
    while frontier:
        nxt = []
        for prefix in frontier:
            for n in alphabet:
                names = list(prefix) + [n]
                lines = run_case(lab, cfg, names)
                cases.append((cfg, names, None, lines))
                last = lines[-1]
                whole = sum(1 for x in lines if x["op"] == "recv") == len(names)
                if whole and last["alert"] == "none" and len(names) < max_depth and names.count("NST") <= 1:
                    if nodes < cap:
                        nodes += 1
                        nxt.append(tuple(names))
                    else:
                        capped = True
        frontier = nxt
    return cases, nodes, capped


_LAB = None


def run_job(lab, cfg, names, batch_from):
    if batch_from == "quic":
        return run_quic_case(lab, names[1:])        # names[0] is the genuine ServerHello
    return run_case(lab, cfg, names, batch_from)


def _pool_run(job):
    return run_job(_LAB, *job)


def run_jobs(lab, jobs, procs):
    """Run cases, in forked workers when there are many (results in job order)."""
    global _LAB
    if len(jobs) < 400 or procs <= 1:
        return [run_job(lab, *j) for j in jobs]
    import multiprocessing
    _LAB = lab
    with multiprocessing.get_context("fork").Pool(procs) as pool:
        return pool.map(_pool_run, jobs, chunksize=64)


def parse_case(text):
    role, flags, names = text.split("|")
    return ({"role": role, "pskOffered": flags[0] == "1", "certReq": flags[1] == "1", "tickets": flags[2] == "1"},
            names.split(","))


HISTORY_CLAUSES = ("complete:illegal-history", "finished-without-verified-cv", "keys-before-auth")


def signature(cfg, line, clause, case_lines=(), li=0):
    """Identity of a failing call: role, state, message, clause, observed alert
    and successor state; for the clauses that speak about the history also the
    configuration and the messages accepted so far."""
    if line["op"] == "quic":
        return "tls-order:client:quic:%s:completed=%s:closed=%s:post=%s:accepted-when-fed-on=%s" % (
            clause, line["completed"], "no" if line["code"] == -1 else ("crash" if line["code"] == -2 else "yes"),
            line["post"], "+".join(line["accepted"]))
    if line["op"] == "batch":
        sig = "tls-order:%s:batch:state=%s:msgs=%s:%s:alert=%s:post=%s" % (
            cfg["role"], line["pre"], "+".join(line["names"]), clause, line["alert"], line["post"])
    else:
        sig = "tls-order:%s:state=%s:msg=%s:%s:alert=%s:post=%s" % (
            cfg["role"], line["pre"], line.get("name", line["op"]), clause, line["alert"], line["post"])
    if clause in HISTORY_CLAUSES or line["op"] == "batch":
        hist = [x["name"] for x in case_lines[:li + 1] if x["op"] == "recv" and x["alert"] == "none"]
        sig += ":cfg=%s:accepted=%s" % (case_key(cfg), "+".join(hist))
    return sig


def judge(check, lab, cases, name):
    """Let TLC judge every line of every case; report per failing clause.
    Cases whose recorded lines are identical (scripts that die at the same
    message) are judged once."""
    all_cases, uniq = cases, {}
    for c in all_cases:
        uniq.setdefault(json.dumps([c[2] is None, c[3]], sort_keys=True), c)
    cases = list(uniq.values())
    check.cov["cases_run"] = check.cov.get("cases_run", 0) + len(all_cases)
    check.cov["cases_with_distinct_recordings"] = check.cov.get("cases_with_distinct_recordings", 0) + len(cases)
    lines, owner = [], []
    for ci, (cfg, names, batch_from, ls) in enumerate(cases):
        for li, ln in enumerate(ls):
            lines.append(ln)
            owner.append((ci, li))
    fails = trace.validate(check, "TraceTls13", lines, name=name, group_key=lambda ln: ln["op"] == "init",
                           constants="CONSTANT MaxLen = 8\nCONSTANT ScriptLen = 1\nCONSTANT ScriptRep = 1",
                           shards=max(1, min(12, len(lines) // 4000)))
    check.cov["traces_validated_against_impl"] += len(all_cases)
    failing = {i for i, _ in fails}
    for i, ln in enumerate(lines):
        if ln["op"] in ("recv", "batch", "quic"):
            ci, li = owner[i]
            cfg, names, _, ls = cases[ci]
            k = sum(1 for x in ls[:li] if x["op"] == "recv")
            key = tuple(names[:k + 1]) if ln["op"] == "recv" else tuple(names) + (ln["op"], k)
            refused = ln["code"] != -1 if ln["op"] == "quic" else ln["alert"] != "none"
            check.count((case_key(cfg), key), nontrivial=(refused or i in failing))
    # a script is run message by message and, a second time, with its flight in
    # one buffer; the batch differs from its twin only by handle_message's loop:
    # a batch failure is a finding of its own only when the twin is clean
    def rec_key(c):
        return json.dumps([True, c[3]], sort_keys=True)
    bad_any = {rec_key(cases[owner[i][0]]) for i, clause in fails if cases[owner[i][0]][2] is None}
    bad_stmt = {rec_key(cases[owner[i][0]]) for i, clause in fails
                if cases[owner[i][0]][2] is None and not clause.startswith("model:")}
    twin_any = {(case_key(c[0]), tuple(c[1])) for c in all_cases if c[2] is None and rec_key(c) in bad_any}
    twin_stmt = {(case_key(c[0]), tuple(c[1])) for c in all_cases if c[2] is None and rec_key(c) in bad_stmt}
    reported = 0
    for i, clause in fails:
        ci, li = owner[i]
        cfg, names, batch_from, ls = cases[ci]
        ln = lines[i]
        if clause == "harness-guard":
            raise MachineryError("driver made a call outside the environment's alphabet: %r in %r" % (ln, names))
        detail = {"cfg": cfg, "names": names, "batch_from": batch_from, "clause": clause, "line": ln,
                  "line_index": li, "case_lines": ls}
        sig = signature(cfg, ln, clause, ls, li)
        if clause.startswith("model:"):
            check.drift(sig, detail)
        elif batch_from is not None and (case_key(cfg), tuple(names)) in twin_stmt:
            check.cov["batch_failures_same_as_twin"] = check.cov.get("batch_failures_same_as_twin", 0) + 1
        elif batch_from is not None and (case_key(cfg), tuple(names)) in twin_any:
            # the same messages fed one per call already left the model (outside the statement):
            # the batch cannot be explained by the model either, for the same reason
            check.drift(sig, detail)
        elif reported < 12 or any(k["key"] == sig for k in check.known):
            n0 = len(check.violations)
            check.violation(sig, detail)
            reported += len(check.violations) - n0
        else:
            check.cov["violations_not_listed"] = check.cov.get("violations_not_listed", 0) + 1
    return len(lines), fails


def self_test_forging(check, lab):
    """The forged Finished over the legal transcript must be byte-identical to
    the one a genuine server sends, else the order check would not be the only
    thing between the adversary and acceptance.  (Outside the statement: a
    disagreement is reported as drift, the verdicts do not depend on it.)"""
    tls = lab.tls
    E, D = tls.Epoch, tls.Direction
    c, s = lab.client(), lab.server()
    got = []
    s.update_traffic_key_cb = lambda d, e, cs, sec: got.append((d, e, cs, sec))
    cb, sb = lab.bufs(), lab.bufs()
    try:
        c.handle_message(b"", cb)
        ch = cb[E.INITIAL].data
        s.handle_message(ch, sb)
        flight = split_messages(sb[E.INITIAL].data + sb[E.HANDSHAKE].data)
        cs, sec = [(x, y) for d, e, x, y in got if d == D.ENCRYPT and e == E.HANDSHAKE][0]
        mine = lab.finished(suite_hash(cs), sec, ch + b"".join(flight[:-1]))
        ok = mine == flight[-1]
    except Exception as ex:
        ok = False
        check.cov["forging_selftest_error"] = repr(ex)
    check.cov["forging_selftest"] = "forged Finished == genuine Finished: %s" % ok
    if not ok:
        check.drift("forging-selftest:finished-differs-from-genuine", {"kind": "selftest"})


def replay(check, lab):
    d = json.load(open(check.replay))["detail"]
    if d.get("kind") == "model":
        raise MachineryError("replay of a design-level counterexample: run the check itself, the TLC trace is in the replay file")
    lines = run_job(lab, d["cfg"], d["names"], d.get("batch_from"))
    cases = [(d["cfg"], d["names"], d.get("batch_from"), lines)]
    # one TLC run so that the evidence rule (states > 0) holds for replays too
    judge(check, lab, cases, "replay")
    check.sample({"replayed_case": d["names"], "lines": lines[-2:]})
    check.cov["rule"] = "replay of one recorded case; every call of it judged by TLC"


BASE = "CONSTANT MaxLen = %d\nCONSTANT ScriptLen = %d\nCONSTANT ScriptRep = %d\n"


def run(check):
    check.build_overlay()
    import aioquic.tls as tls
    from aioquic.buffer import Buffer
    lab = Lab(tls, Buffer)
    if check.replay:
        return replay(check, lab)
    rnd = random.Random(check.seed)
    quick = check.quick

    # ---- (M) design level -------------------------------------------------
    inv = "INVARIANT TypeOk\nINVARIANT NoSkip\nINVARIANT KeysAfterAuth\n" \
          "PROPERTY RefusalIsUnexpectedMessage\nPROPERTY RefusedChangesNothing\n"
    r = check.run_tlc("Tls13", "SPECIFICATION Spec\n" + BASE % (8 if quick else 9, 1, 1) + inv, name="Tls13_free", workers=4)
    if r.violated == "assumption":
        raise MachineryError("Tls13: the legal orders do not complete in the model (ASSUME LegalOrdersComplete)")
    if r.violated:
        check.model_violation(r, "Tls13-free")
    script_cfgs = [(5, 1), (3, 2)] if quick else [(5, 1), (5, 2)]
    texts = []
    for L, R in script_cfgs:
        r = check.run_tlc("Tls13", "SPECIFICATION SpecScript\n" + BASE % (8, L, R) + inv, name="Tls13_scripts_%d_%d" % (L, R),
                          workers=4 if quick else 16)
        if r.violated:
            check.model_violation(r, "Tls13-scripts")
        for p in r.prints:
            t = tlcmod.parse_tuple_line(p)
            if t and t[0] == "CASE":
                texts.append(t[1])
        if r.distinct < len(texts) // 2:
            raise MachineryError("script cases were not printed completely")
    seen, scripts = set(), []
    for t in texts:
        if t not in seen:
            seen.add(t)
            scripts.append(parse_case(t))
    if len(scripts) < 2014:
        raise MachineryError("TLC enumerated only %d scripts" % len(scripts))
    check.cov["scripts_from_tlc"] = len(scripts)

    self_test_forging(check, lab)
    if lab.client_ticket is None:
        check.drift("no-session-ticket-from-genuine-handshake", {"error": getattr(lab, "ticket_error", "")})

    # ---- (X) closure over what the implementation accepts ---------------------
    cases = []
    closures = {}
    configs = [({"role": "client", "pskOffered": p, "certReq": False, "tickets": False}, CLIENT_ALPHABET)
               for p in (False, True)] + \
              [({"role": "server", "pskOffered": False, "certReq": c, "tickets": t}, SERVER_ALPHABET)
               for c in (False, True) for t in (False, True)]
    for cfg, alphabet in configs:
        cs, nodes, capped = closure(lab, cfg, alphabet, max_depth=8 if quick else 9, cap=60 if quick else 200)
        closures[case_key(cfg)] = {"accepted_sequences": nodes, "edges": len(cs), "capped": capped,
                                   "states_reached": sorted({ln["pre"] for c in cs for ln in c[3] if "pre" in ln})}
        cases += cs
    check.cov["closure"] = closures
    reached = set()
    for v in closures.values():
        reached |= set(v["states_reached"])
    check.cov["states_reached"] = len(reached)
    if len(reached) < 13:               # not a verdict: on this tree some state has no genuine prefix
        check.cov["coverage_gap"] = "states never reached: %d of 13" % len(reached)

    # ---- (R) the scripts TLC enumerated, message by message and batched ---------
    jobs = []
    nquic = 0
    for cfg, names in scripts:
        jobs.append((cfg, names, None))
        if len(names) > 2:
            jobs.append((cfg, names, 1))
        # one layer down, through a real QuicConnection client (no session ticket)
        if case_key(cfg) == "client|000" and names[0] == "SH" and (not quick or len(set(names)) == len(names)):
            jobs.append((cfg, names, "quic"))
            nquic += 1
    # ---- (V) seeded random sequences over the whole alphabet ---------------------
    for _ in range(300 if quick else 4000):
        cfg, alphabet = configs[rnd.randrange(len(configs))]
        legal = ([rnd.choice(["SHpsk", "SHpsk", "SHpskbad"]), "EE", "FIN"] if cfg["pskOffered"] and rnd.random() < 0.5 else
                 ["SH", "EE"] + (["CR"] if rnd.random() < 0.3 else []) + ["CERT", "CV", "FIN"]) \
            if cfg["role"] == "client" else \
            (["CHpsk" if cfg["tickets"] and rnd.random() < 0.5 else "CH"]
             + (rnd.choice([["CERT", "CV"], ["CERTempty"]]) if cfg["certReq"] else []) + ["FIN"])
        names = list(legal)
        for _ in range(rnd.choice((1, 1, 2))):       # one or two edits of a legal run
            k = rnd.randrange(len(names) + 1)
            e = rnd.random()
            if e < 0.4 and k < len(names):
                names.pop(k)
            elif e < 0.7:
                names.insert(k, rnd.choice(alphabet))
            elif k < len(names):
                names[k] = rnd.choice(alphabet)
        if names:
            names.append(rnd.choice(alphabet))
            jobs.append((cfg, names, None))
            if rnd.random() < 0.3 and len(names) > 2:
                jobs.append((cfg, names, 1))
            if case_key(cfg) == "client|000" and names[0] == "SH" and len(names) > 1:
                jobs.append((cfg, names, "quic"))
                nquic += 1
    check.cov["sequences_through_quic_client"] = nquic
    results = run_jobs(lab, jobs, procs=8)
    cases += [(cfg, names, bf, ls) for (cfg, names, bf), ls in zip(jobs, results)]

    nlines, fails = judge(check, lab, cases, "TraceTls13")
    check.cov["lines_judged"] = nlines
    check.cov["cases"] = len(cases)

    # samples: a refused out-of-order message, a completed legal handshake
    for want in (lambda ls: ls[-1]["alert"] == "unexpected_message" and len(ls) > 4,
                 lambda ls: ls[-1]["post"] == "CLIENT_POST_HANDSHAKE" and ls[-1]["alert"] == "none",
                 lambda ls: ls[-1]["op"] == "batch"):
        for cfg, names, bf, ls in cases:
            if want(ls):
                check.sample({"cfg": case_key(cfg), "fed": names, "batch_from": bf,
                              "calls": [{k: v for k, v in x.items() if k != "op"} for x in ls[1:]]})
                break
    check.cov["exhaustive"] = True
    check.cov["rule"] = ("a case = one fresh real tls.Context, a genuine hello from a genuine peer Context, then "
                         "messages forged by the key-holding adversary; counted per call (configuration, messages "
                         "accepted before, message fed); non-trivial when the call was refused, i.e. the message "
                         "was not the one the legal order expects next (or carried a bad MAC/signature)")
    check.cov["trusted_base"] = ["TLC 1.8", "python hashlib/hmac (HKDF-Expand-Label, Finished MAC, transcript hash)",
                                 "cryptography (RSA-PSS signing of the forged CertificateVerify)",
                                 "harness projection: Context.state.name, Context._session_resumed, "
                                 "update_traffic_key_cb arguments"]
    check.assumptions += [
        "environment of tls.Context = connection.py: handle_message(b'') exactly once on a fresh client "
        "(CLIENT_HANDSHAKE_START is left before any peer message can arrive, so no message is fed in that state), "
        "no further handle_message call after an alert (the connection closes)",
        "messages are fed whole; splitting a message over several calls is input framing (C05), not order",
        "the CRYPTO epoch a message arrives in is not an input of tls.Context and is not varied",
        "QUIC layer: the flight orderings are sent to a real QuicConnection client without session ticket only "
        "(server-role and PSK orderings are judged at the tls.Context level)",
        "0-RTT keys are judged only for being released under an offered / selected PSK",
    ]
