"""C02 - only authentic packets are accepted; altered packets change nothing.

(a) every protected packet an endpoint emits is opened by the independent RFC 9001/9369
    implementation (observer) and processed by its peer; packets protected by the independent
    encryptor with packet-number lengths 1..4 and many payload sizes are accepted - for three
    cipher suites, two versions (+ compatible upgrade) and key phases 0/1/2.
(b) packet-number expansion: PnDecode.tla - the lemma "the result is the candidate closest to
    the expected number" is checked by Apalache over unbounded integers for the four real
    window sizes and by TLC exhaustively on a scaled space; the real decode_packet_number is
    bound to it by rows (t, bits, e, r) at every branch boundary and seeded random tuples,
    judged by TLC (values below 2^30) and Apalache (values up to 2^62).
(c) altered packets are inert: Protection.tla (a forged packet leaves the observable projection
    unchanged, the genuine packet is still accepted); on real connections every packet of the
    handshake and data flights is delivered alone, preceded by a series of altered copies
    (bit flips over header and payload, byte replacements, truncation by one byte), in every
    connection state; the projection (events, TLS state, keys installed, completion, closure,
    key phase) is recorded before and after each and TLC judges every record.
"""
import json
import os
import random
import shutil
import subprocess

from .. import trace
from ..netsim import hostile as H
from ..netsim import runner, sim
from ..overlay import MachineryError

_A = None
SUITES = ["AES_128_GCM_SHA256", "AES_256_GCM_SHA384", "CHACHA20_POLY1305_SHA256"]
SPEC = os.path.join(os.path.dirname(os.path.dirname(os.path.dirname(os.path.abspath(__file__)))), "spec")


def other(ep):
    return "s" if ep == "c" else "c"


def proj(conn):
    tlsst = conn.tls.state.name if hasattr(conn, "tls") else "-"
    keys = []
    for ep_, pair in sorted(getattr(conn, "_cryptos", {}).items(), key=lambda kv: kv[0].value):
        keys.append("%s:%d%d:%d" % (ep_.name, pair.recv.is_valid(), pair.send.is_valid(), pair.recv.key_phase))
    if not conn._is_client and conn._state.name == "FIRSTFLIGHT":
        # a server that has not accepted anything yet sets up its TLS engine and derives the (public) Initial keys from
        # whatever Initial packet it is shown, genuine or not: that is neither an event nor an advance of the handshake,
        # so a fresh server and one that has only seen unauthentic Initial packets project to the same value
        tlsst = "SERVER_EXPECT_CLIENT_HELLO" if tlsst in ("-", "SERVER_EXPECT_CLIENT_HELLO") else tlsst
        keys = [k for k in keys if not k.startswith("INITIAL:") and ":00:" not in k]     # (":00:" = no key installed)
    return json.dumps([conn._state.name, tlsst, bool(conn._handshake_complete), bool(conn._handshake_confirmed), keys,
                       bool(conn._close_pending), conn._close_event is not None, conn._retry_count,
                       sorted((sid, st.receiver.highest_offset, st.receiver.is_finished) for sid, st in conn._streams.items())])


def accepted(conn, p):
    T = _A["tls"].Epoch
    ep_ = {"initial": T.INITIAL, "handshake": T.HANDSHAKE, "0rtt": T.ONE_RTT, "1rtt": T.ONE_RTT}[p["type"]]
    sp = conn._spaces.get(ep_) if hasattr(conn, "_spaces") else None
    # (a space that was discarded while or after the packet was processed keeps no record: not judged)
    return bool(sp is not None and (sp.discarded or p["pn"] in sp.ack_queue or p["pn"] in getattr(sp, "received_packets", ())))


def is_vn(b):
    """Version Negotiation packets are unauthenticated by design (RFC 9000 6) and excluded by the statement."""
    return len(b) >= 5 and (b[0] & 0x80) and bytes(b[1:5]) == bytes(4)


def mutations(raw, rnd, thorough):
    """Altered copies of one protected packet."""
    n = len(raw)
    out = []
    hdr = min(n, 30)
    for pos in range(hdr):                      # every bit of the first 30 bytes (header, packet number, start of payload)
        for bit in (range(8) if thorough or pos < 12 else (rnd.randrange(8),)):
            out.append(("bit", pos, 1 << bit))
    step = 1 if thorough else max(1, n // 40)
    for pos in range(hdr, n, step):             # payload and tag: one seeded bit per position (thorough: every byte)
        out.append(("bit", pos, 1 << rnd.randrange(8)))
    for pos in (n - 1, n - 8, n - 16, n - 17):  # the authentication tag and the byte before it
        if 0 <= pos < n:
            out.append(("byte", pos, 0xFF))
    out.append(("trunc", n - 1, 0))
    res = []
    for kind, pos, mask in out:
        b = bytearray(raw)
        if kind == "trunc":
            b = b[:-1]
        elif kind == "byte":
            b[pos] = (b[pos] + 1 + rnd.randrange(254)) & 0xFF
        else:
            b[pos] ^= mask
        if bytes(b) == raw or is_vn(b):
            continue                      # an alteration that yields version 0 makes a Version Negotiation packet: excluded
        res.append((kind, pos, bytes(b)))
    return res


def forge_series(s, idx, lines, rnd, thorough, budget):
    """Before the datagram at net[idx] is delivered: hand altered copies of each of its packets to the receiver."""
    d = s.net[idx]
    dst = d["dst"]
    if dst == "s" and "s" not in s.eps:
        # the very first datagram: the server object exists (created for the genuine original destination connection ID, as
        # an application that feeds one QuicConnection would) and is shown the altered copies before the genuine packet
        pk = d["pkts"][0] if d["pkts"] else None
        if not pk or pk["type"] != "initial" or not pk.get("ok"):
            return
        s._make_server(pk["dcid"])
    conn = s.eps[dst]
    if s.terminated[dst]:
        return
    addr = s.caddr if d["src"] == "c" else sim.SADDR
    for p in d["pkts"]:
        if not p.get("ok") or p["type"] not in ("initial", "handshake", "1rtt", "0rtt"):
            continue
        raw = d["data"][p["start"]:p["start"] + p["len"]]
        muts = mutations(raw, rnd, thorough)
        if budget and len(muts) > budget:
            muts = rnd.sample(muts, budget)
        for kind, pos, b in muts:
            if p["type"] == "initial" and d["src"] == "c" and len(b) < 1200:
                b = b + bytes(1200 - len(b))
            before = proj(conn)
            n0 = len(s.log)
            pending = len(conn._events)        # events queued by an earlier transmit (e.g. ConnectionIdIssued), not by this packet
            s.inject(dst, b, addr, "forge")
            events = max(0, sum(1 for e in s.log[n0:] if e["k"] == "ev") - pending)
            lines.append({"ev": "forge", "ep": dst, "type": p["type"], "kind": kind, "pos": pos, "before": before,
                          "after": proj(conn), "events": events})


def scenario(job):
    rnd = random.Random(job["seed"])
    thorough = job["thorough"]
    s = sim.Sim(_A, job["cfg"], seed=job["seed"])
    lines = []
    try:
        s.connect()
        ops = list(job["ops"])
        steps = 0
        stall = 0
        while steps < 400:
            steps += 1
            if not s.net:
                if not s.quiescent():
                    # let pacing / ack / loss timers run so that the flights really leave
                    cand = [(s.timer_value(ep), ep) for ep in s.eps if not s.terminated[ep] and s.timer_value(ep) is not None]
                    idle = {ep: s.eps[ep]._close_at for ep in s.eps}
                    cand = [(v, ep) for v, ep in cand if idle[ep] is None or v < int(round(idle[ep] * 1e6))]
                    if cand:
                        n_before = s.dgid
                        v, ep = min(cand)
                        s.fire(ep)
                        stall = stall + 1 if s.dgid == n_before else 0
                        if stall < 6:
                            continue
                if not ops:
                    break
                stall = 0
                op = ops.pop(0)
                if op[0] == "write":
                    s.api(op[1], "write", op[2], op[3], op[4], op[5])
                elif op[0] == "keyupdate":
                    s.api(op[1], "keyupdate")
                elif op[0] == "ping":
                    s.api(op[1], "ping", 7)
                elif op[0] == "timer":
                    s.fire(op[1])
                elif op[0] == "close":
                    s.api(op[1], "close", 0)
                elif op[0] == "inbound":
                    inbound(s, op[1], lines, rnd)
                elif op[0] == "teleport":
                    # move the connection to a far-away packet number (no test can send 2^32 packets): the sender's next packet
                    # number, the receiver's expectation and the observer's are set to X (internal writes, harness set-up)
                    _, ep, X = op
                    T = _A["tls"].Epoch.ONE_RTT
                    s.eps[ep]._packet_number = X
                    sp = s.eps[other(ep)]._spaces[T]
                    sp.expected_packet_number = X
                    s.obs.dir[ep].largest["a"] = X - 1
                continue
            d = s.net[0]
            dst = d["dst"]
            for p in d["pkts"]:
                if p["type"] in ("initial", "handshake", "1rtt", "0rtt"):
                    lines.append({"ev": "emit", "ep": d["src"], "type": p["type"], "opened": bool(p.get("ok"))})
            if job["forge"] and (d["id"] % job["slice"][1]) == job["slice"][0]:
                forge_series(s, 0, lines, rnd, thorough, job["budget"])
            # the genuine datagram, delivered afterwards
            conn = s.eps.get(dst)
            dup = {}
            if conn is not None:
                for j, p in enumerate(d["pkts"]):
                    if p.get("ok") and p["type"] in ("initial", "handshake", "1rtt", "0rtt"):
                        dup[j] = accepted(conn, p)
            n0 = len(s.log)
            s.deliver(0)
            conn = s.eps.get(dst)
            arrs = {e["idx"]: e for e in s.log[n0:] if e["k"] == "arr"}
            for j, p in enumerate(d["pkts"]):
                if j in arrs and conn is not None:
                    acc = accepted(conn, p) or conn._close_event is not None
                    a = arrs[j]
                    lines.append({"ev": "peer", "ep": dst, "type": p["type"], "accepted": bool(acc),
                                  "haskeys": bool(a["haskeys"]), "dup": bool(dup.get(j, False))})
                    if job["forge"] and a["haskeys"] and not dup.get(j, False):
                        lines.append({"ev": "genuine", "ep": dst, "type": p["type"], "accepted": bool(acc)})
    finally:
        s.close()
    return {"lines": lines, "forged": sum(1 for l in lines if l["ev"] == "forge"), "emitted": sum(1 for l in lines if l["ev"] == "emit"),
            "raised": s.raised[:3], "states": sorted({json.loads(l["before"])[0] + "/" + json.loads(l["before"])[1] for l in lines if l["ev"] == "forge"})}


def inbound(s, dst, lines, rnd):
    """Packets protected by the independent encryptor: every packet-number length, many payload sizes."""
    src = other(dst)
    mds = s.cfg["mds"]
    for pnlen in (1, 2, 3, 4):
        for size in (3, 4, 5, 20, 21, 100, 700, mds - 60, mds - 40):
            payload = H.f_ping() + H.f_padding(size - 1)
            if not H.inject(s, src, "1rtt", payload, "inbound", pnlen=pnlen):
                return                     # no 1-RTT keys (the handshake did not complete): nothing to protect a packet with
            inj = next(e for e in reversed(s.log) if e["k"] == "inject")
            lines.append({"ev": "inbound", "ep": dst, "pnlen": pnlen, "size": size, "accepted": bool(inj["accepted"])})
            while s.net:
                s.deliver(0)


def retry_rows(rnd):
    """Retry packets: altered copies are ignored, the genuine one is accepted afterwards."""
    P = _A["packet"]
    C = _A["configuration"].QuicConfiguration
    lines = []
    for version in (P.QuicProtocolVersion.VERSION_1, P.QuicProtocolVersion.VERSION_2):
        cfg = C(is_client=True, alpn_protocols=["hq"])
        cfg.supported_versions = [version]
        cfg.server_name = "localhost"
        conn = _A["connection"].QuicConnection(configuration=cfg)
        conn.connect(sim.SADDR, now=0.0)
        first = conn.datagrams_to_send(now=0.0)[0][0]
        odcid = conn._peer_cid.cid
        retry = P.encode_quic_retry(version=version, source_cid=b"\x11" * 8, destination_cid=conn.host_cid,
                                    original_destination_cid=odcid, retry_token=b"token-" + bytes(10))
        for pos in range(len(retry)):
            b = bytearray(retry)
            b[pos] ^= 1 << rnd.randrange(8)
            if is_vn(b):
                continue
            before = proj(conn)
            conn.receive_datagram(bytes(b), sim.SADDR, now=0.01)
            ev = 0
            while conn.next_event() is not None:
                ev += 1
            out = conn.datagrams_to_send(now=0.01)
            lines.append({"ev": "forge", "ep": "c", "type": "retry", "kind": "bit", "pos": pos, "before": before,
                          "after": proj(conn), "events": ev + len(out)})
        conn.receive_datagram(retry, sim.SADDR, now=0.02)
        out = conn.datagrams_to_send(now=0.02)
        lines.append({"ev": "genuine", "ep": "c", "type": "retry", "accepted": bool(conn._retry_count == 1 and out)})
    return lines


def pn_rows(rnd, n):
    dec = _A["packet"].decode_packet_number
    rows = []

    def add(t, bits, e):
        w = 1 << bits
        if 0 <= e and 0 <= t < w:
            rows.append((t % w, bits, e, dec(t % w, bits, e)))
    for bits in (8, 16, 24, 32):
        w = 1 << bits
        for e in [0, 1, w // 2 - 1, w // 2, w // 2 + 1, w - 1, w, w + 1, 3 * w + w // 2, (1 << 29) - 3, (1 << 29),
                  (1 << 62) - 1, (1 << 62) - 2, (1 << 62) - w, (1 << 62) - w - 1, (1 << 62) - w // 2, (1 << 61) + 12345]:
            for dt in (-2, -1, 0, 1, 2):
                for base in (0, w // 2, w - 1, e % w):
                    add((base + dt) % w, bits, e)
                    add((e + w // 2 + dt) % w, bits, e)
                    add((e - w // 2 + dt) % w, bits, e)
        for _ in range(n):
            e = rnd.choice([rnd.randrange(1 << 29), rnd.randrange(1 << 62), rnd.randrange(4 * w)])
            add(rnd.randrange(w), bits, e)
    return sorted(set(rows))


def apalache(check, module_text, name, inv="Inv"):
    """Run Apalache on a generated wrapper (copied next to PnDecodeOps.tla); returns True when the invariant holds."""
    d = os.path.join(check.work, "apalache-" + name)
    os.makedirs(d, exist_ok=True)
    shutil.copy(os.path.join(SPEC, "PnDecodeOps.tla"), d)
    mod = "MC_" + name
    with open(os.path.join(d, mod + ".tla"), "w") as f:
        f.write(module_text)
    r = subprocess.run(["apalache-mc", "check", "--init=Init", "--next=Next", "--inv=" + inv, "--length=0",
                        "--out-dir=" + os.path.join(d, "out"), mod + ".tla"], cwd=d, capture_output=True, text=True, timeout=900)
    out = r.stdout + r.stderr
    if "The outcome is: NoError" in out:
        return True
    if "The outcome is: Error" in out:
        return False
    raise MachineryError("Apalache failed on %s:\n%s" % (name, out[-1500:]))


def judge(check, lines, jobs_of_line, name):
    fails = trace.validate(check, "TraceProtection", lines, name=name, constants="CONSTANTS Epochs = {\"initial\"}\nMaxPn = 0")
    seen = set()
    for i, clause in fails:
        ln = lines[i]
        sig = "protection:%s:%s" % (clause, ":".join(str(ln.get(k)) for k in ("ep", "type", "kind") if k in ln))
        if ln["ev"] == "forge":
            sig += ":state=" + "/".join(json.loads(ln["before"])[:2])
        if sig in seen:
            continue
        seen.add(sig)
        check.violation(sig, {"clause": clause, "line": ln, "job": jobs_of_line[i]})


def make_jobs(check, rnd):
    jobs = []
    ops = [["write", "c", 0, 0, 1500, False], ["write", "s", 3, 0, 300, True], ["inbound", "s"], ["inbound", "c"],
           ["keyupdate", "c"], ["write", "c", 0, 1500, 800, False], ["write", "s", 1, 0, 50, False],
           ["keyupdate", "s"], ["write", "s", 1, 50, 1300, True], ["write", "c", 0, 2300, 10, True], ["ping", "c"],
           ["close", "c"], ["timer", "s"]]
    far = [["write", "c", 0, 0, 1500, False], ["teleport", "c", (1 << 32) - 3], ["write", "c", 0, 1500, 4000, False], ["inbound", "s"],
           ["teleport", "s", (1 << 40) + 7], ["write", "s", 3, 0, 3000, False], ["inbound", "c"],
           ["teleport", "c", (1 << 62) - 3000], ["write", "c", 0, 5500, 2000, True], ["inbound", "s"], ["ping", "c"]]
    for k, suite in enumerate(SUITES):
        jobs.append({"cfg": {"suite": suite, "version": "v2" if k == 1 else "v1", "mds": 1280}, "ops": far, "seed": rnd.randrange(1 << 30),
                     "forge": False, "thorough": not check.quick, "budget": 0, "slice": [0, 1]})
    # the largest packets the builder emits (max_datagram_size up to the 1500 bytes the native helpers allow), both directions
    big = [["write", "c", 0, 0, 7000, False], ["write", "s", 3, 0, 7000, True], ["inbound", "s"], ["inbound", "c"], ["keyupdate", "c"],
           ["write", "c", 0, 7000, 5000, True], ["write", "s", 1, 0, 5000, True], ["ping", "c"]]
    for k, mds in enumerate((1500, 1499, 1497, 1485, 1472)):
        jobs.append({"cfg": {"suite": SUITES[k % len(SUITES)], "version": "v2" if k % 2 else "v1", "mds": mds}, "ops": big,
                     "seed": rnd.randrange(1 << 30), "forge": False, "thorough": not check.quick, "budget": 0, "slice": [0, 1]})
    matrix = [(s_, v) for s_ in SUITES for v in ("v1", "v2")] + [(SUITES[0], "v1->v2")]
    for k, (suite, ver) in enumerate(matrix):
        if check.quick and k % 2 and suite != SUITES[2]:
            forge = False          # quick: every configuration checks (a); the forgery sweep runs on 4 of 7
        else:
            forge = True
        seed = rnd.randrange(1 << 30)
        K = 4 if forge else 1              # the forgery sweep of one configuration is spread over K processes (by datagram ordinal)
        for r_ in range(K):
            jobs.append({"cfg": {"suite": suite, "version": ver, "mds": 1200 if k % 2 else 1350}, "ops": ops, "seed": seed,
                         "forge": forge, "thorough": not check.quick, "budget": 40 if check.quick else 0, "slice": [r_, K]})
    return jobs


def run(check):
    global _A
    check.build_overlay()
    _A = sim.load_modules()
    rnd = random.Random(check.seed)
    if check.replay:
        d = json.load(open(check.replay))["detail"]
        if d.get("job") is None:
            raise MachineryError("this replay records a row/lemma failure: run the check itself")
        res = scenario(d["job"])
        judge(check, res["lines"], [d["job"]] * len(res["lines"]), "replay")
        check.count(repr(d["job"]), evaluations=len(res["lines"]))
        check.sample({"replayed": d["job"]["cfg"]})
        check.cov["rule"] = "replay of one recorded scenario"
        return

    # (M)
    r = check.run_tlc("Protection", "SPECIFICATION Spec\nCONSTANTS Epochs = {\"initial\", \"handshake\", \"1rtt\"}\nMaxPn = 1\n"
                      "INVARIANT TypeOk\nINVARIANT GenuineStillAccepted\nPROPERTY ForgedInert\n", name="Protection_M")
    if r.violated:
        check.model_violation(r, "Protection")
    r = check.run_tlc("PnDecode", "SPECIFICATION Spec\nCONSTANTS Space = 256\nWindows = {4, 8, 16, 32}\nINVARIANT Lemma\n", name="PnDecode_scaled")
    if r.violated:
        check.model_violation(r, "PnDecode (scaled)")
    # (b) the unbounded lemma and the 62-bit binding rows: two Apalache runs, side by side
    import time as _t
    from concurrent.futures import ThreadPoolExecutor
    _t0 = _t.time()
    rows = pn_rows(rnd, 300 if check.quick else 5000)
    small = [r_ for r_ in rows if r_[1] <= 24 and r_[2] < (1 << 29)]
    sset = set(small)
    big = [r_ for r_ in rows if r_ not in sset]
    rnd.shuffle(big)
    big = big[:80 if check.quick else 600]        # Apalache needs ~0.5 s per row
    table = ",\n  ".join("<<%d, %d, %d, %d>>" % (t, 1 << b_, e, r_) for t, b_, e, r_ in big)
    rows_mod = ("---- MODULE MC_rows ----\nEXTENDS Integers, Sequences, PnDecodeOps\nVARIABLE\n  \\* @type: Int;\n  x\nS62 == 4611686018427387904\n"
                "\\* @type: Seq(<<Int, Int, Int, Int>>);\nRows == <<\n  %s >>\nInit == x = 0\nNext == UNCHANGED x\n"
                "Inv == \\A i \\in DOMAIN Rows : Row(Rows[i][4], Rows[i][1], Rows[i][2], Rows[i][3], S62)\n====\n" % table)
    lemma_mod = open(os.path.join(SPEC, "MC_PnDecode.tla")).read().replace("MODULE MC_PnDecode", "MODULE MC_lemma")
    with ThreadPoolExecutor(max_workers=2) as ex:
        f1 = ex.submit(apalache, check, lemma_mod, "lemma")
        f2 = ex.submit(apalache, check, rows_mod, "rows")
        ok_lemma, ok_rows = f1.result(), f2.result()
    if not ok_lemma:
        check.violation("pn-decode:lemma:apalache-counterexample", {"what": "the transcription of decode_packet_number does not always "
                                                                    "return the candidate closest to the expected number", "job": None})
    if not ok_rows:
        check.violation("pn-decode:row:apalache", {"what": "decode_packet_number returned a value that is not the closest "
                                                   "candidate for some 62-bit row", "job": None, "rows": len(big)})
    check.cov["apalache_lemma"] = "Good(Dec(t,w,e)) for w in {2^8,2^16,2^24,2^32}, 0 <= e < 2^62, 0 <= t < w: " + ("NoError" if ok_lemma else "Error")
    lines = [{"ev": "pn", "t": t, "bits": b_, "e": e, "r": r_} for t, b_, e, r_ in small]
    owners = [None] * len(lines)
    check.cov["apalache_wall_s"] = round(_t.time() - _t0, 1)
    check.cov["pn_rows_judged_by_tlc"] = len(small)
    check.cov["pn_rows_judged_by_apalache"] = len(big)

    # (a)/(c) scenarios
    jobs = make_jobs(check, rnd)
    results = runner.run_many(scenario, jobs)
    for job, res in zip(jobs, results):
        lines += res["lines"]
        owners += [job] * len(res["lines"])
        check.count(repr(job["cfg"]) + str(job["forge"]), nontrivial=res["forged"] > 0, evaluations=len(res["lines"]))
    rl = retry_rows(rnd)
    lines += rl
    owners += [None] * len(rl)
    judge(check, lines, owners, "TraceProtection_V")
    check.cov["traces_validated_against_impl"] += len(jobs)
    check.cov["forged_packets_delivered"] = sum(r_["forged"] for r_ in results) + sum(1 for l in rl if l["ev"] == "forge")
    check.cov["emitted_packets_opened_by_observer"] = sum(r_["emitted"] for r_ in results)
    check.cov["states_in_which_forgeries_arrived"] = sorted({st for r_ in results for st in r_["states"]})
    check.cov["scenarios_with_api_exception"] = sum(1 for r_ in results if r_["raised"])
    check.cov["inbound_packets_from_independent_encryptor"] = sum(1 for l in lines if l["ev"] == "inbound")
    if not check.violations and check.cov["inbound_packets_from_independent_encryptor"] < 36 * 3:
        raise MachineryError("vacuous: the independent encryptor delivered too few packets")
    fl = [l for l in lines if l["ev"] == "forge"]
    check.sample({"forge": fl[len(fl) // 2] if fl else None, "pn": lines[0], "inbound": next((l for l in lines if l["ev"] == "inbound"), None)})
    check.cov["rule"] = ("one case = one configuration (cipher suite x version x max_datagram_size) driven through handshake, data in both "
                         "directions, two key updates and close; non-trivial = altered copies were derived from packets the receiver "
                         "would have accepted and delivered in front of them")
    check.cov["trusted_base"] = ["TLC 1.8", "Apalache 0.58", "observer (independent RFC 9001/9369 decryptor and encryptor on hashlib/hmac/"
                                 "cryptography primitives)", "internal reads: _state, tls.state, _handshake_complete/_confirmed, "
                                 "_cryptos[*].recv/send.is_valid()/key_phase, _close_pending, _close_event, _retry_count, "
                                 "stream receivers' highest_offset, ack_queue/received_packets (was a packet processed)"]
    check.assumptions += ["Version Negotiation packets are unauthenticated by design and excluded",
                          "counters the RFC tells an endpoint to update for any datagram (anti-amplification bytes received) are not "
                          "part of the observable projection",
                          "TLC cannot compute AES/ChaCha: bit-exact recovery is observed by the independent decryptor (instrument) "
                          "and judged by TLC as the 'opened' field; quick tier samples bit positions (all bits of the first 12 bytes, "
                          "one seeded bit elsewhere, at most 60 alterations per packet), thorough tier flips every bit"]
