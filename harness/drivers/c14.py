"""C14 - HTTP/3 events are independent of chunking and survive a round trip.

(M) TLC checks the theorem of spec/H3Stream.tla (the incremental parser hands
    out, after any sequence of deliveries, exactly the tokens H3Frames!Meaning
    assigns to the bytes delivered so far) on every frame sequence with 1- and
    2-byte varints up to L bytes, cut and interleaved in every way, for request
    streams (client and server), push streams, a request stream waiting for the
    QPACK encoder stream, two request streams plus encoder stream, and the
    unidirectional stream types.
(R) TLC enumerates frame sequences (H3Stream!RSeqs); each is turned into real
    frames carrying real QPACK blocks (pylsqpack.Encoder; static-only blocks
    and blocks that refer to the dynamic table) and fed as StreamDataReceived
    events to a real H3Connection on a stub QuicConnection under all
    single cuts, byte by byte, cuts around frame boundaries, FIN attached or
    alone, the encoder stream early / late / in pieces, and a second request
    stream interleaved.  TraceH3 judges every run: against the canonical
    (whole) run (the statement), and delivery by delivery against the operators
    of H3Stream and against H3Frames!Meaning (model clauses).
(V) seeded exchanges (requests with bodies and trailers, responses, push
    promises and pushed responses, WebTransport streams; header lists hitting
    the static table, the dynamic table and literals; bodies 0..64 kB in many
    write patterns) are produced through the sending API of two real
    H3Connections; what each endpoint hands to QuicConnection.send_stream_data is
    captured per stream and delivered to a fresh receiving H3Connection whole
    (canonical) and under many per-stream cuts and cross-stream interleavings
    (encoder stream last, control stream late, ...).  TraceH3 requires every
    run's normalised per-stream events to equal the canonical run's and to equal
    what was submitted through the sending API.

Python drives, projects event fields, computes digests and concretises bytes;
every equality is decided by TLC.
"""
import hashlib
import itertools
import json
import os
import random
from concurrent.futures import ThreadPoolExecutor

from .. import tlc, trace
from ..overlay import MachineryError

KINDS = ["D", "D2", "H", "H2", "P", "U", "S", "W"]
SESSION = 9
PUSH_ID = 7
ACCEPT_ENC = (b"accept-encoding", b"gzip, deflate, br")
CACHE = (b"cache-control", b"no-cache")
LAST = (b"x-last", b"zzzz")
DYN = (b"x-dyn", b"dddd")


# ----------------------------------------------------------------- real objects
class A:
    """aioquic modules of the overlay (imported after build_overlay)."""


def load_aioquic():
    import aioquic.buffer as buffer_mod
    import aioquic.h3.connection as h3c
    import aioquic.h3.events as h3e
    import aioquic.quic.configuration as qcfg
    import aioquic.quic.events as qev
    import pylsqpack
    A.h3c, A.h3e, A.qcfg, A.qev, A.buffer, A.qpack = h3c, h3e, qcfg, qev, buffer_mod, pylsqpack


class StubQuic:
    """The surface of QuicConnection that H3Connection uses (tests/test_h3.py
    FakeQuicConnection): stream ids, send_stream_data (captured), close."""

    def __init__(self, is_client):
        self.configuration = A.qcfg.QuicConfiguration(is_client=is_client)
        self._quic_logger = None
        self.closed = None
        self.sent = []                       # (stream_id, bytes, end_stream) as handed over
        self._next_bidi = 0 if is_client else 1
        self._next_uni = 2 if is_client else 3
        self._remote_max_datagram_frame_size = 65536

    def close(self, error_code, reason_phrase=""):
        if self.closed is None:
            self.closed = (error_code, reason_phrase)

    def get_next_available_stream_id(self, is_unidirectional=False):
        if is_unidirectional:
            sid, self._next_uni = self._next_uni, self._next_uni + 4
        else:
            sid, self._next_bidi = self._next_bidi, self._next_bidi + 4
        return sid

    def send_stream_data(self, stream_id, data, end_stream=False):
        self.sent.append((stream_id, bytes(data), bool(end_stream)))

    def send_datagram_frame(self, data):
        pass


def hdg(headers):
    h = hashlib.sha1()
    for n, v in headers:
        h.update(b"%d:%d:" % (len(n), len(v)))
        h.update(bytes(n))
        h.update(bytes(v))
    return h.hexdigest()[:16]


class Cum:
    """Running digest of the body bytes of each stream."""

    def __init__(self):
        self.h = {}

    def add(self, sid, data):
        h = self.h.get(sid)
        if h is None:
            h = self.h[sid] = hashlib.sha1()
        h.update(data)
        return h.hexdigest()[:16]


def project(ev, cum, explicit):
    """Mechanical projection of an H3 event to a JSON record."""
    e = A.h3e
    rec = {"k": "?", "sid": getattr(ev, "stream_id", -1), "n": 0, "dg": "", "push": -1, "x": -1, "end": False, "b": []}
    if isinstance(ev, e.HeadersReceived):
        rec.update(k="H", n=len(ev.headers), dg=hdg(ev.headers), end=bool(ev.stream_ended),
                   push=-1 if ev.push_id is None else ev.push_id)
    elif isinstance(ev, e.PushPromiseReceived):
        rec.update(k="P", n=len(ev.headers), dg=hdg(ev.headers), x=ev.push_id)
    elif isinstance(ev, e.DataReceived):
        rec.update(k="D", n=len(ev.data), dg=cum.add(ev.stream_id, ev.data), end=bool(ev.stream_ended),
                   push=-1 if ev.push_id is None else ev.push_id, b=list(ev.data) if explicit else [])
    elif isinstance(ev, e.WebTransportStreamDataReceived):
        rec.update(k="W", n=len(ev.data), dg=cum.add(ev.stream_id, ev.data), end=bool(ev.stream_ended),
                   x=ev.session_id, b=list(ev.data) if explicit else [])
    else:
        rec["k"] = "X:" + type(ev).__name__
    return rec


def closed_name(q, raised):
    if raised:
        return raised
    if q.closed is None:
        return ""
    code = q.closed[0]
    try:
        return A.h3c.ErrorCode(code).name
    except ValueError:
        return "CODE_%s" % code


def deliver(h3, q, sched, explicit, want_steps):
    """Feed deliveries [(sid, bytes, fin)] to a receiving H3Connection.
    Returns steps (events per delivery), obs [[sid, events]], closed name."""
    cum = Cum()
    steps, per, order, raised = [], {}, [], ""
    for sid, data, fin in sched:
        evs = []
        if not raised:
            try:
                out = h3.handle_event(A.qev.StreamDataReceived(data=data, end_stream=fin, stream_id=sid))
            except Exception as ex:        # an exception other than ProtocolError escapes handle_event
                tb = ex.__traceback__
                fn = "?"
                while tb is not None:
                    if "aioquic" in tb.tb_frame.f_code.co_filename:
                        fn = tb.tb_frame.f_code.co_name
                    tb = tb.tb_next
                raised = "RAISED:%s:%s" % (type(ex).__name__, fn)
                out = []
            for ev in out:
                r = project(ev, cum, explicit)
                evs.append(r)
                if r["sid"] not in per:
                    per[r["sid"]] = []
                    order.append(r["sid"])
                per[r["sid"]].append(r)
        if want_steps:
            steps.append(evs)
    return steps, [[s, per[s]] for s in order], closed_name(q, raised), (q.closed[1] if q.closed else "")


def receiver(is_client):
    q = StubQuic(is_client)
    return A.h3c.H3Connection(q, enable_webtransport=True), q


# ------------------------------------------------------------------ (R) binding
def varint(v, two=False):
    if two:
        return bytes([0x40 | (v >> 8), v & 0xFF])
    return A.buffer.encode_uint_var(v)


class Library:
    """Real QPACK header blocks for one receiving role, made by pylsqpack."""

    def __init__(self, client):
        self.client = client
        Enc = A.qpack.Encoder
        req = [(b":method", b"GET"), (b":scheme", b"https"), (b":authority", b"a"), (b":path", b"/")]
        first = [(b":status", b"200")] if client else req
        extra = [ACCEPT_ENC, CACHE]
        prime = [DYN, LAST]

        def primed():
            """An encoder that has inserted DYN and LAST (LAST last) into the dynamic table."""
            e = Enc()
            e.apply_settings(4096, 16)
            e0, _ = e.encode(100, prime)
            ins, _ = e.encode(104, prime)
            if e0 or not ins:
                raise MachineryError("pylsqpack did not insert on second sight as expected")
            return e, ins

        self.enc_payload = primed()[1]                 # the insertions the dynamic blocks wait for
        self.blocks = {}                               # (slot, n, dyn) -> (block bytes, headers)
        self.table = []
        for slot, base in (("first", first), ("trailers", []), ("promise", req)):
            for n in (0, 1):
                for d in (0, 1):
                    hl = list(base) + extra[:n] + ([LAST] if d else [])
                    if not hl:
                        hl = [ACCEPT_ENC]
                    if d:
                        enc, ins = primed()
                        if ins != self.enc_payload:
                            raise MachineryError("pylsqpack encoder stream output is not deterministic")
                    else:
                        enc = Enc()                    # no dynamic table: static and literal only
                    e, blk = enc.encode(0, hl)
                    if e:
                        raise MachineryError("unexpected encoder stream output while building the block library")
                    if (blk[0] != 0) != bool(d):
                        raise MachineryError("block library: Required Insert Count does not match the dyn flag")
                    self.blocks[(slot, n, d)] = (blk, hl)
                    self.table.append([list(blk), hdg(hl)])
        self.enc_sid = 7 if client else 6


def decode_seq(codes):
    return [{"k": KINDS[c // 1000 - 1], "l2": bool((c // 100) % 10), "n": (c // 10) % 10, "dyn": c % 10} for c in codes]


def concretise(lib, descs):
    """Frame descriptors -> bytes of a request stream, frame boundaries."""
    out, bounds, nh = b"", [], 0
    for d in descs:
        k = d["k"]
        if k in ("H", "H2"):
            slot = "first" if nh == 0 else "trailers"
            nh += 1
            payload = lib.blocks[(slot, d["n"], d["dyn"])][0]
            tb = b"\x01" if k == "H" else b"\x40\x01"
        elif k == "P":
            payload = varint(PUSH_ID) + lib.blocks[("promise", d["n"], d["dyn"])][0]
            tb = b"\x05"
        elif k in ("D", "D2"):
            payload = bytes(0xA1 + i for i in range(d["n"]))
            tb = b"\x00" if k == "D" else b"\x40\x00"
        elif k == "U":
            payload = bytes(0xE1 + i for i in range(d["n"]))
            tb = b"\x21"
        elif k == "S":
            payload, tb = b"", b"\x04"
        elif k == "W":
            out += b"\x40\x41" + varint(SESSION, d["l2"]) + bytes(0xD1 + i for i in range(d["n"]))
            bounds.append(len(out))
            continue
        else:
            raise MachineryError("bad frame kind " + k)
        out += tb + varint(len(payload), d["l2"]) + payload
        bounds.append(len(out))
    return out, bounds


def seq_name(descs):
    return ",".join(d["k"] + ("d" if d["dyn"] else "") for d in descs)


def cuts_to_chunks(n, cuts):
    pts = [0] + sorted(cuts) + [n]
    return [(pts[i], pts[i + 1]) for i in range(len(pts) - 1) if pts[i + 1] > pts[i]]


def stream_deliveries(sid, data, chunks, fin, lone):
    """Deliveries of one stream: its chunks, FIN with the last one or alone."""
    ds = [(sid, data[a:b], False) for a, b in chunks]
    if fin:
        if lone or not ds:
            ds.append((sid, b"", True))
        else:
            ds[-1] = (sid, ds[-1][1], True)
    return ds


def splittings(n, bounds, rnd, thorough):
    """Cut sets for a string of n bytes with the FIN choices to try for each
    (False = with the last piece, True = alone): none, every single cut, byte
    by byte, pairs (and triples) of cuts next to frame boundaries / inside frame
    headers, every cut set when the string is short, some random ones."""
    both, res = (False, True), []
    res.append(((), both))
    res += [((c,), both if c >= n - 2 else (rnd.random() < 0.5,)) for c in range(1, n)]
    if n > 1:
        res.append((tuple(range(1, n)), both))
    near = sorted({p for b in [0] + bounds for p in (b - 1, b, b + 1, b + 2, b + 3) if 0 < p < n})
    more = []
    if n <= (8 if thorough else 6):
        more = [c for k in range(2, n) for c in itertools.combinations(range(1, n), k)]
    else:
        pairs = list(itertools.combinations(near, 2))
        more = pairs if len(pairs) <= (30 if thorough else 12) else rnd.sample(pairs, 30 if thorough else 12)
        if thorough:
            tri = list(itertools.combinations(near, 3))
            more += tri if len(tri) <= 15 else rnd.sample(tri, 15)
        for _ in range(4 if thorough else 2):
            k = rnd.randint(2, max(2, n // 2))
            more.append(tuple(sorted(rnd.sample(range(1, n), min(k, n - 1)))))
    res += [(c, (rnd.random() < 0.5,)) for c in more]
    seen, out = set(), []
    for c, l in res:
        if c not in seen:
            seen.add(c)
            out.append((c, l))
    return out


def enc_placements(nd, enc_len, rnd, thorough):
    """Where the encoder stream goes among nd deliveries of the request stream:
    (position of the last piece, position of an earlier first piece or None, cut)."""
    if nd <= (4 if thorough else 2):
        pos = list(range(nd + 1))
    else:
        pos = sorted(set(rnd.sample([0, nd] + [rnd.randint(1, nd - 1) for _ in range(2 if thorough else 1)], 3 if thorough else 2)))
    res = [(p, None, 0) for p in pos]
    if enc_len > 1 and (thorough or rnd.random() < 0.3):
        p = rnd.choice(pos)
        res.append((p, rnd.randint(0, p), rnd.randint(1, enc_len - 1)))
    return res


def r_case_runs(lib, descs, rnd, thorough, second=None, trunc=0):
    """All runs of one (R) case.  Returns (header, runs): header describes the
    streams; each run is (tag dict, deliveries)."""
    data, bounds = concretise(lib, descs)
    if trunc:
        data = data[:-trunc]
    streams = {0: (data, True)}
    order = [0]
    has_dyn = any(d["dyn"] for d in descs) or second is not None
    if second is not None:
        d2, _ = concretise(lib, second)
        streams[4] = (d2, True)
        order.append(4)
    enc = b""
    if has_dyn:
        enc = b"\x02" + lib.enc_payload
        streams[lib.enc_sid] = (enc, False)
        order.insert(0, lib.enc_sid)
    canon = []
    for s in order:
        canon += stream_deliveries(s, streams[s][0], [(0, len(streams[s][0]))] if streams[s][0] else [], streams[s][1], False)
    runs = [({"canon": True}, canon)]
    for cuts, lones in splittings(len(data), bounds, rnd, thorough):
        for lone in lones:
            base = stream_deliveries(0, data, cuts_to_chunks(len(data), cuts), True, lone)
            if second is not None:
                c2 = rnd.choice(splittings(len(streams[4][0]), [], rnd, False)[:12])[0]
                other = stream_deliveries(4, streams[4][0], cuts_to_chunks(len(streams[4][0]), c2), True, rnd.random() < 0.5)
                merged, i, j = [], 0, 0
                while i < len(base) or j < len(other):
                    if j >= len(other) or (i < len(base) and rnd.random() < 0.5):
                        merged.append(base[i])
                        i += 1
                    else:
                        merged.append(other[j])
                        j += 1
                base = merged
            if not has_dyn:
                runs.append(({"cuts": list(cuts), "lone": lone, "enc": "none"}, base))
                continue
            for p, p0, cut in enc_placements(len(base), len(enc), rnd, thorough):
                ds = list(base)
                if p0 is None:
                    ds.insert(p, (lib.enc_sid, enc, False))
                else:
                    ds.insert(p, (lib.enc_sid, enc[cut:], False))
                    ds.insert(p0, (lib.enc_sid, enc[:cut], False))
                runs.append(({"cuts": list(cuts), "lone": lone, "enc": "first" if p == 0 else "late"}, ds))
    header = {"streams": streams, "order": order, "trunc": [0] if trunc else [], "descs": descs,
              "second": second, "enc_need": len(lib.enc_payload) if has_dyn else 0}
    return header, runs


def r_lines(lib, header, runs):
    """Execute the runs of one case on real H3Connections; one line per run."""
    lines = []
    for i, (tag, ds) in enumerate(runs):
        h3, q = receiver(lib.client)
        steps, obs, closed, reason = deliver(h3, q, ds, True, True)
        ln = {"op": "r", "back": i, "sched": [[s, len(d), f] for s, d, f in ds], "steps": steps, "obs": obs, "closed": closed,
              "reason": reason}
        if i == 0:
            st = header["streams"]
            ln.update(client=lib.client, encNeed=header["enc_need"], trunc=header["trunc"], sent=[],
                      streams=[[s, len(st[s][0]), st[s][1]] for s in header["order"]],
                      bytes=[[s, list(st[s][0])] for s in header["order"]], blocks=lib.table)
        lines.append(ln)
    return lines


# ------------------------------------------------------------------ (V) binding
def rand_token(rnd, lo, hi, alphabet):
    return bytes(rnd.choice(alphabet) for _ in range(rnd.randint(lo, hi)))


NAME_CH = b"abcdefghijklmnopqrstuvwxyz0123456789-"
VAL_CH = bytes(range(0x21, 0x7F)) + b"  \t" + bytes([0x80, 0xC3, 0xA9, 0xFF])


def rand_value(rnd):
    r = rnd.random()
    if r < 0.1:
        return b""
    n = rnd.randint(1, 40) if r < 0.9 else rnd.randint(200, 1800)
    v = rand_token(rnd, n, n, VAL_CH).strip(b" \t")
    return v


class HeaderGen:
    """Header lists exercising static-table hits, entries that enter the dynamic
    table (repeated across messages) and one-off literals."""

    STATIC = [(b"accept", b"*/*"), ACCEPT_ENC, (b"content-type", b"text/html; charset=utf-8"), CACHE,
              (b"accept-language", b""), (b"vary", b"origin"), (b"x-content-type-options", b"nosniff")]

    def __init__(self, rnd):
        self.rnd = rnd
        self.sticky = [(b"x-" + rand_token(rnd, 1, 10, NAME_CH.replace(b"-", b"")), rand_value(rnd)) for _ in range(rnd.randint(2, 5))]
        self.sticky += [(b"user-agent", (b"verif/1.0 " + rand_token(rnd, 0, 30, VAL_CH)).strip(b" \t")), (b"server", b"aioquic-under-test")]
        self.authorities = [b"localhost", b"example.com:4433", b"a"]
        self.paths = [b"/", b"/index.html", b"/a/b?c=d&e=f"]

    def regular(self, body_len=None):
        rnd = self.rnd
        hl = []
        for _ in range(rnd.randint(0, 6)):
            r = rnd.random()
            if r < 0.3:
                hl.append(rnd.choice(self.STATIC))
            elif r < 0.7:
                hl.append(rnd.choice(self.sticky))
            elif r < 0.85:
                hl.append((rnd.choice(self.sticky)[0], rand_value(rnd)))        # known name, new value
            else:
                hl.append((b"x-" + rand_token(rnd, 1, 12, NAME_CH.replace(b"-", b"")), rand_value(rnd)))
        # pylsqpack encodes a field section into a fixed 4 kB buffer (lsqpack_enc_encode fails beyond):
        # keep the list below 3000 bytes, pseudo-headers and huffman expansion leave ample room
        while sum(len(n) + len(v) + 4 for n, v in hl) > 3000:
            hl.remove(max(hl, key=lambda h: len(h[1])))
        if body_len is not None and rnd.random() < 0.4:
            hl.insert(rnd.randint(0, len(hl)), (b"content-length", b"%d" % body_len))
        return hl

    def request(self, body_len, method=None):
        rnd = self.rnd
        m = method or rnd.choice([b"GET", b"POST", b"PUT", b"DELETE", b"PATCH-X"])
        path = rnd.choice(self.paths) if rnd.random() < 0.7 else b"/" + rand_token(rnd, 1, 30, NAME_CH)
        return [(b":method", m), (b":scheme", b"https"), (b":authority", rnd.choice(self.authorities)), (b":path", path)] \
            + self.regular(body_len)

    def response(self, body_len):
        st = self.rnd.choice([b"200", b"204", b"404", b"503", b"299", b"100"])
        return [(b":status", st)] + self.regular(body_len)

    def trailers(self):
        hl = [h for h in self.regular() if h[0] != b"content-length"]
        return hl or [(b"x-checksum", rand_value(self.rnd) or b"0")]


def body_writes(rnd, big):
    """A body as a list of writes (some empty)."""
    r = rnd.random()
    if r < 0.15:
        total = 0
    elif r < 0.6:
        total = rnd.randint(1, 200)
    elif r < 0.9 or not big:
        total = rnd.randint(200, 5000)
    else:
        total = rnd.randint(5000, 65536)
    body = rnd.randbytes(total) if total else b""
    k = rnd.choice([1, 1, 2, 3, 5, 9])
    pts = sorted(rnd.randint(0, total) for _ in range(k - 1))
    parts = [body[a:b] for a, b in zip([0] + pts, pts + [total])]
    return parts


class Endpoint:
    def __init__(self, is_client):
        self.is_client = is_client
        self.q = StubQuic(is_client)
        self.h3 = A.h3c.H3Connection(self.q, enable_webtransport=True)
        self.sent = {}            # sid -> events submitted through the sending API
        self.sent_order = []
        self.cum = Cum()
        self.taken = 0            # q.sent entries already handed to the peer
        self.live = []            # deliveries made to this endpoint in the live run
        self.push_of = {}         # push stream id -> push id

    def log(self, sid, **kw):
        rec = {"k": "?", "sid": sid, "n": 0, "dg": "", "push": -1, "x": -1, "end": False, "b": []}
        rec.update(kw)
        if sid not in self.sent:
            self.sent[sid] = []
            self.sent_order.append(sid)
        self.sent[sid].append(rec)


def make_exchange(rnd, big):
    """A script of sending-API calls for a client and a server."""
    gen = HeaderGen(rnd)
    convs = []
    for _ in range(rnd.randint(1, 4)):
        kind = rnd.choice(["req", "req", "req", "push", "wt"])
        ops = []
        if kind == "wt":
            ops.append(("C", "newreq"))
            ops.append(("C", "headers", "req", [(b":method", b"CONNECT"), (b":scheme", b"https"), (b":authority", b"localhost"),
                                                 (b":path", b"/wt"), (b":protocol", b"webtransport")] + gen.regular(), False))
            ops.append(("S", "headers", "req", [(b":status", b"200")] + gen.regular(), False))
            for w in range(rnd.randint(1, 3)):
                who = rnd.choice("CS")
                ops.append((who, "wtcreate", w, rnd.random() < 0.5))
                parts = body_writes(rnd, False)
                endless = rnd.random() < 0.2
                for i, p in enumerate(parts):
                    ops.append((who, "wtdata", w, p, (i == len(parts) - 1) and not endless))
            convs.append(ops)
            continue
        for who, mk in (("C", gen.request), ("S", gen.response)):
            if who == "S" and kind == "push":
                ops.append(("S", "push", gen.request(None, b"GET")[:4] + gen.regular()))
                pparts = body_writes(rnd, False)
                ptotal = sum(map(len, pparts))
                ops.append(("S", "headers", "push", gen.response(ptotal), ptotal == 0 and rnd.random() < 0.5))
                if not ops[-1][4]:
                    for i, p in enumerate(pparts):
                        ops.append(("S", "data", "push", p, i == len(pparts) - 1))
            if who == "C":
                ops.append(("C", "newreq"))
            parts = body_writes(rnd, big)
            total = sum(map(len, parts))
            trailers = rnd.random() < 0.3
            only = total == 0 and not trailers and rnd.random() < 0.6
            ops.append((who, "headers", "req", mk(total), only))
            if not only:
                for i, p in enumerate(parts):
                    ops.append((who, "data", "req", p, (i == len(parts) - 1) and not trailers))
                if trailers:
                    ops.append((who, "headers", "req", gen.trailers(), True))
        convs.append(ops)
    # interleave conversations, each keeps its own order
    idx = [0] * len(convs)
    script = []
    while any(idx[i] < len(convs[i]) for i in range(len(convs))):
        i = rnd.choice([i for i in range(len(convs)) if idx[i] < len(convs[i])])
        script.append((i,) + convs[i][idx[i]])
        idx[i] += 1
    return script


def flush(a, b):
    """Hand what a has sent since the last flush to b, one delivery per send call."""
    moved = False
    while a.taken < len(a.q.sent):
        sid, data, fin = a.q.sent[a.taken]
        a.taken += 1
        if not data and not fin:
            continue                      # the QUIC layer delivers data or FIN, never neither
        b.live.append((sid, data, fin))
        moved = True
    return moved


def run_exchange(rnd, big):
    """Run the script on two live endpoints.  Returns the endpoints (with Sent
    and the bytes each handed to its QuicConnection)."""
    C, S = Endpoint(True), Endpoint(False)
    ends = {"C": C, "S": S}
    policy = rnd.choice(["immediate", "deferred", "mixed"])
    liveC, liveS = receiver_events(C), receiver_events(S)

    def exchange():
        for _ in range(8):
            m1 = flush(C, S)
            liveS.catch_up()
            m2 = flush(S, C)
            liveC.catch_up()
            if not (m1 or m2):
                return
        raise MachineryError("live exchange does not quiesce")

    exchange()                           # control streams, SETTINGS, MAX_PUSH_ID
    script = make_exchange(rnd, big)
    ctx = {}                             # conversation -> ids
    for op in script:
        conv, who, what = op[0], op[1], op[2]
        ep = ends[who]
        st = ctx.setdefault(conv, {"wt": {}})
        if what == "newreq":
            st["req"] = C.q.get_next_available_stream_id()
        elif what == "headers":
            sid = st[op[3]]
            ep.h3.send_headers(sid, op[4], end_stream=op[5])
            ep.log(sid, k="H", n=len(op[4]), dg=hdg(op[4]), end=op[5], push=ep.push_of.get(sid, -1))
        elif what == "data":
            sid = st[op[3]]
            ep.h3.send_data(sid, op[4], end_stream=op[5])
            ep.log(sid, k="D", n=len(op[4]), dg=ep.cum.add(sid, op[4]), end=op[5], push=ep.push_of.get(sid, -1))
        elif what == "push":
            pid = ep.h3._next_push_id
            st["push"] = ep.h3.send_push_promise(st["req"], op[3])
            ep.push_of[st["push"]] = pid
            ep.log(st["req"], k="P", n=len(op[3]), dg=hdg(op[3]), x=pid)
        elif what == "wtcreate":
            st["wt"][(who, op[3])] = ep.h3.create_webtransport_stream(st["req"], is_unidirectional=op[4])
        elif what == "wtdata":
            sid = st["wt"][(who, op[3])]
            if op[4] or op[5]:
                ep.q.send_stream_data(sid, op[4], op[5])           # how an application writes to a WebTransport stream
                ep.log(sid, k="W", n=len(op[4]), dg=ep.cum.add(sid, op[4]), end=op[5], x=st["req"])
        else:
            raise MachineryError("bad op %r" % (op,))
        if policy == "immediate" or (policy == "mixed" and rnd.random() < 0.5):
            exchange()
    exchange()
    return C, S, liveC, liveS, policy


class receiver_events:
    """Collects the events of a live endpoint as its deliveries happen."""

    def __init__(self, ep):
        self.ep = ep
        self.done = 0
        self.cum = Cum()
        self.per, self.order, self.raised = {}, [], ""

    def catch_up(self):
        ep = self.ep
        while self.done < len(ep.live):
            sid, data, fin = ep.live[self.done]
            self.done += 1
            if self.raised:
                continue
            try:
                out = ep.h3.handle_event(A.qev.StreamDataReceived(data=data, end_stream=fin, stream_id=sid))
            except Exception as ex:
                self.raised = "RAISED:%s" % type(ex).__name__
                out = []
            for ev in out:
                r = project(ev, self.cum, False)
                if r["sid"] not in self.per:
                    self.per[r["sid"]] = []
                    self.order.append(r["sid"])
                self.per[r["sid"]].append(r)

    def result(self):
        return [[s, self.per[s]] for s in self.order], closed_name(self.ep.q, self.raised), (self.ep.q.closed[1] if self.ep.q.closed else "")


def captured(ep):
    """Per-stream bytes an endpoint handed to send_stream_data, in order of first use."""
    streams, order = {}, []
    for sid, data, fin in ep.q.sent:
        if sid not in streams:
            streams[sid] = {"data": bytearray(), "fin": False, "bounds": []}
            order.append(sid)
        s = streams[sid]
        s["data"] += data
        s["fin"] = s["fin"] or fin
        s["bounds"].append(len(s["data"]))
    for s in streams.values():
        s["data"] = bytes(s["data"])
    return streams, order


def stream_cuts(rnd, n, bounds):
    if n <= 1:
        return ()
    mode = rnd.choice(["whole", "bytes", "rand", "rand", "bounds", "near", "near", "half"])
    if mode == "bytes" and n > 260:
        mode = "near"
    if mode == "whole":
        return ()
    if mode == "bytes":
        return tuple(range(1, n))
    if mode == "rand":
        return tuple(sorted(set(rnd.randint(1, n - 1) for _ in range(rnd.randint(1, 8)))))
    if mode == "bounds":
        return tuple(b for b in sorted(set(bounds)) if 0 < b < n)
    if mode == "half":
        return (n // 2,)
    pts = set()
    for b in rnd.sample(bounds, min(len(bounds), rnd.randint(1, 4))) if bounds else []:
        for d in rnd.sample([-2, -1, 0, 1, 2, 3, 4], rnd.randint(1, 3)):
            if 0 < b + d < n:
                pts.add(b + d)
    return tuple(sorted(pts)) or (rnd.randint(1, n - 1),)


def make_schedule(rnd, streams, order, kinds):
    """Cut every stream and interleave the pieces, per-stream order preserved."""
    per = {}
    for sid in order:
        s = streams[sid]
        per[sid] = stream_deliveries(sid, s["data"], cuts_to_chunks(len(s["data"]), stream_cuts(rnd, len(s["data"]), s["bounds"])),
                                     s["fin"], rnd.random() < 0.5)
    mode = rnd.choice(["random", "random", "sequential", "reverse", "roundrobin", "enc-last", "enc-last", "ctl-last", "enc-first"])
    last = [s for s in order if (mode == "enc-last" and kinds.get(s) == "qenc") or (mode == "ctl-last" and kinds.get(s) == "control")]
    first = [s for s in order if mode == "enc-first" and kinds.get(s) == "qenc"]
    mid = [s for s in order if s not in last and s not in first]
    out = [d for s in first for d in per[s]]
    if mode == "sequential":
        out += [d for s in mid for d in per[s]]
    elif mode == "reverse":
        out += [d for s in reversed(mid) for d in per[s]]
    else:
        queues = [list(per[s]) for s in mid if per[s]]
        i = 0
        while queues:
            i = (i + 1) % len(queues) if mode == "roundrobin" else rnd.randrange(len(queues))
            out.append(queues[i].pop(0))
            if not queues[i]:
                queues.pop(i)
    out += [d for s in last for d in per[s]]
    return out, mode


def stream_kinds(streams):
    kinds = {}
    for sid, s in streams.items():
        if sid % 4 < 2:
            kinds[sid] = "wt-bidi" if s["data"][:2] == b"\x40\x41" else "request"
        else:
            t = s["data"][:1]
            kinds[sid] = {b"\x00": "control", b"\x01": "push", b"\x02": "qenc", b"\x03": "qdec"}.get(t, "wt-uni" if s["data"][:2] == b"\x40\x54" else "other")
    return kinds


def v_exchange_lines(seed, idx, big, nruns):
    """One exchange: lines for both receiving endpoints."""
    rnd = random.Random("%d-v-%d" % (seed, idx))
    C, S, liveC, liveS, policy = run_exchange(rnd, big)
    groups = []
    for sender, recv, live in ((S, C, liveC), (C, S, liveS)):
        streams, order = captured(sender)
        kinds = stream_kinds(streams)
        for sid, k in kinds.items():
            if k == "qdec":               # acknowledgements answer what the receiver itself encoded: a fresh
                streams[sid]["data"] = streams[sid]["data"][:1]       # receiver is given the stream type only
                streams[sid]["bounds"] = [1]
        sent = [[sid, sender.sent[sid]] for sid in sender.sent_order]
        lines = []
        canon = []
        for sid in order:
            s = streams[sid]
            canon += stream_deliveries(sid, s["data"], [(0, len(s["data"]))] if s["data"] else [], s["fin"], False)
        scheds = [("canonical", canon)]
        for _ in range(nruns):
            ds, mode = make_schedule(rnd, streams, order, kinds)
            scheds.append((mode, ds))
        for i, (mode, ds) in enumerate(scheds):
            h3, q = receiver(recv.is_client)
            _, obs, closed, reason = deliver(h3, q, ds, False, False)
            ln = {"op": "v", "back": i, "sched": [[s, len(d), f] for s, d, f in ds], "obs": obs, "closed": closed, "mode": mode,
                  "reason": reason}
            if i == 0:
                ln.update(streams=[[sid, len(streams[sid]["data"]), streams[sid]["fin"]] for sid in order], trunc=[], sent=sent,
                          role="client" if recv.is_client else "server", policy=policy, kinds={str(k): v for k, v in kinds.items()})
            lines.append(ln)
        # the live run: deliveries as the sender made its calls, the receiver being an active endpoint itself
        obs, closed, reason = live.result()
        full = captured(sender)[0]
        lines.append({"op": "v", "back": len(lines), "obs": obs, "closed": closed, "reason": reason, "mode": "live:" + policy,
                      "sched": live_sched(recv.live, streams, full)})
        groups.append(lines)
    return groups


def live_sched(live, streams, full):
    """The live deliveries, with the decoder stream counted as in the canonical
    line (its acknowledgements are not part of the compared streams)."""
    out, seen = [], {}
    for sid, data, fin in live:
        n = len(data)
        if len(streams[sid]["data"]) != len(full[sid]["data"]):       # the truncated decoder stream
            n = max(0, min(n, len(streams[sid]["data"]) - seen.get(sid, 0)))
            if n == 0 and not fin:
                continue
        seen[sid] = seen.get(sid, 0) + n
        out.append([sid, n, fin])
    return out


# -------------------------------------------------------------------- verdicts
STATEMENT = ("independent:", "round-trip:")


def ends_of(obs, sid):
    return sum(1 for s, evs in obs if s == sid for e in evs if e["end"])


FRAME_CLASS = {"D": "DATA", "D2": "DATA", "H": "HEADERS", "H2": "HEADERS", "P": "PUSH_PROMISE", "U": "ignored-type",
               "S": "SETTINGS", "W": "WEBTRANSPORT_STREAM"}


def r_signature(clause, lib, header, tag, ln, canon, statement=True):
    """Identity of a failing (R) class: clause, receiving role and the facts the
    clause is about (not the particular cut positions)."""
    role = "client" if lib.client else "server"
    descs = header["descs"]
    facts = []
    if clause.endswith("end-of-stream-cut-mid-frame"):
        sid = 4 if header["second"] and ends_of(ln["obs"], 0) == ends_of(canon["obs"], 0) else 0
        facts.append("last-frame=" + FRAME_CLASS[(header["second"] if sid == 4 else descs)[-1]["k"]])
    elif clause.endswith("end-of-stream") or clause == "model:truncated-end":
        # the request stream whose end-of-stream reports differ (0, or the interleaved second stream 4)
        sid = 4 if header["second"] and ends_of(ln["obs"], 0) == ends_of(canon["obs"], 0) else 0
        facts.append("last-frame=" + FRAME_CLASS[(header["second"] if sid == 4 else descs)[-1]["k"]])
        facts.append("ends=%d/canonical=%d" % (ends_of(ln["obs"], sid), ends_of(canon["obs"], sid)))
        if header["trunc"]:
            facts.append("frame-cut-by-fin")
    elif clause.endswith("connection-closed") or clause == "model:closed":
        facts.append("closed=%s/canonical=%s" % (ln["closed"] or "-", canon["closed"] or "-"))
        dyn = {FRAME_CLASS[d["k"]] for d in descs if d["dyn"]}
        late = tag.get("enc") == "late"
        facts.append("waiting-for-encoder-stream=" + (("PUSH_PROMISE" if "PUSH_PROMISE" in dyn else "HEADERS") if dyn and late else "-"))
    else:
        facts.append("frames=" + seq_name(descs))
        if statement:
            facts.append("cuts=%s,lone-fin=%s,encoder-stream=%s" % (tag.get("cuts"), tag.get("lone"), tag.get("enc")))
    return "R:%s:%s:%s" % (clause, role, ":".join(facts))


def v_signature(clause, group, ln):
    canon = group[0]
    facts = [canon["role"]]
    if "connection-closed" in clause:
        facts.append("closed=%s/canonical=%s" % (ln["closed"] or "-", canon["closed"] or "-"))
        facts.append("reason=" + str(ln.get("reason", "")))
    else:
        facts.append("mode=" + ln["mode"].split(":")[0])
    return "V:%s:%s" % (clause, ":".join(facts))


# ------------------------------------------------------------------------ main
def m_config(plan, shipped=False):
    return ("SPECIFICATION Spec\nCONSTANT Plan <- %s\nCONSTANT EnumSet = \"none\"\nCONSTANT Shipped = %s\n"
            "INVARIANT ChunkingIndependent\nINVARIANT Sane\n" % (plan, "TRUE" if shipped else "FALSE"))


TRACE_CONST = 'CONSTANT Plan <- PlanTrace\nCONSTANT EnumSet = "none"\nCONSTANT Shipped = FALSE'


def judge(check, lines, name, shards=None):
    if shards is None:
        shards = max(1, min(8 if check.quick else 16, len(lines) // 4000))      # a JVM start costs as much as judging a few thousand lines
    fails = trace.validate(check, "TraceH3", [strip(ln) for ln in lines], constants=TRACE_CONST, name=name,
                           group_key=lambda ln: ln["back"] == 0, shards=shards)
    check.cov["traces_validated_against_impl"] += len(lines)
    return fails


LINE_FIELDS = ("op", "back", "sched", "steps", "obs", "closed", "client", "encNeed", "trunc", "sent", "streams", "bytes", "blocks")


def strip(ln):
    # an (R) line carries the events per delivery; TLC derives the per-stream events from them
    return {k: v for k, v in ln.items() if k in LINE_FIELDS and not (k == "obs" and ln["op"] == "r")}


def run_r(check, rnd, seqs, thorough, only=None):
    """(R): concretise, run, judge.  seqs: list of code tuples."""
    libs = {True: Library(True), False: Library(False)}
    lines, index = [], []                 # index: per line (lib, header, tag, group start)
    second = decode_seq([3001, 1020])     # H(dynamic) DATA(2) on a second request stream
    for n, codes in enumerate(seqs):
        descs = decode_seq(codes)
        plans = [(True, None, 0)]
        if n % (2 if thorough else 3) == 0:
            plans.append((False, None, 0))
        if len(descs) <= 2 and n % (3 if thorough else 5) == 0:
            plans.append((True, second, 0))
        if descs[-1]["k"] in ("D", "H", "U", "P") and n % (4 if thorough else 7) == 0:
            plans.append((True, None, 1))                 # FIN cuts the last frame: every run must close the connection
        for client, sec, trunc in plans:
            if only is not None and (client, sec is not None, trunc) != only:
                continue
            lib = libs[client]
            header, runs = r_case_runs(lib, descs, rnd, thorough, sec, trunc)
            start = len(lines)
            got = r_lines(lib, header, runs)
            lines += got
            index += [(lib, header, runs[i][0], start) for i in range(len(got))]
            nontrivial = len(descs) > 1 or any(d["dyn"] for d in descs)
            check.count(("R", client, tuple(codes), sec is not None, trunc), nontrivial=nontrivial, evaluations=len(got))
    return lines, index


def report_r(check, lines, index, fails):
    # a case in which the code breaks the statement also leaves the model there:
    # the model clauses of that case say nothing new
    broken = {index[i][3] for i, clause in fails if clause.startswith(STATEMENT)}
    for i, clause in fails:
        lib, header, tag, start = index[i]
        ln, canon = lines[i], lines[start]
        if clause == "harness-guard":
            raise MachineryError("(R) schedule does not deliver the streams of its case: %r" % (ln["sched"],))
        statement = clause.startswith(STATEMENT)
        if not statement and start in broken:
            continue
        sig = r_signature(clause, lib, header, tag, ln, canon, statement)
        detail = {"kind": "R", "clause": clause, "client": lib.client,
                  "codes": [(KINDS.index(d["k"]) + 1) * 1000 + (100 if d["l2"] else 0) + d["n"] * 10 + d["dyn"] for d in header["descs"]],
                  "frames": seq_name(header["descs"]), "second": header["second"] is not None, "trunc": len(header["trunc"]), "tag": tag,
                  "sched": ln["sched"], "obs": ln["obs"], "closed": ln["closed"], "reason": ln["reason"],
                  "canonical_obs": canon["obs"], "canonical_closed": canon["closed"],
                  "streams": {str(k): v[0].hex() for k, v in header["streams"].items()}}
        if statement:
            check.violation(sig, detail)
        else:
            check.drift(sig, detail)


def run_v(check, n_exchanges, nruns, big, only=None):
    groups = []
    for idx in (range(n_exchanges) if only is None else [only]):
        for g in v_exchange_lines(check.seed, idx, big, nruns):
            for ln in g:
                ln["exchange"] = idx
            groups.append(g)
            canon = g[0]
            check.count(("V", idx, canon["role"]), nontrivial=len(canon["streams"]) > 3, evaluations=len(g))
    return groups


def report_v(check, groups, fails):
    flat = [(g, ln) for g in groups for ln in g]
    for i, clause in fails:
        g, ln = flat[i]
        if clause == "harness-guard":
            raise MachineryError("(V) schedule does not deliver the captured streams: exchange %s mode %s" % (ln.get("exchange"), ln["mode"]))
        sig = v_signature(clause, g, ln)
        detail = {"kind": "V", "clause": clause, "exchange": ln["exchange"], "role": g[0]["role"], "mode": ln["mode"],
                  "closed": ln["closed"], "policy": g[0]["policy"], "kinds": g[0]["kinds"],
                  "sched_head": ln["sched"][:40], "obs_head": [[s, e[:6]] for s, e in ln["obs"][:8]]}
        check.violation(sig, detail)


def enumerate_seqs(check, which):
    cfg = 'SPECIFICATION EnumSpec\nCONSTANT Plan <- PlanNone\nCONSTANT EnumSet = "%s"\nCONSTANT Shipped = FALSE\n' % which
    r = check.run_tlc("H3Stream", cfg, name="H3Stream_enum", workers=1)
    seqs = []
    for p in r.prints:
        t = tlc.parse_tuple_line(p)
        if t and t[0] == "SEQ":
            seqs.append(tuple(t[1:]))
    if len(seqs) < 100:
        raise MachineryError("TLC enumerated only %d frame sequences" % len(seqs))
    return seqs


def replay(check):
    d = json.load(open(check.replay))
    detail, seed = d["detail"], d["seed"]
    if detail.get("kind") == "model":
        raise MachineryError("replay of a design-level counterexample: run the check itself, the TLC trace is in the replay file")
    if detail["kind"] == "R":
        # the recorded run itself (same bytes, same deliveries) next to its canonical run, then the whole case again
        lib = Library(detail["client"])
        descs = decode_seq(detail["codes"])
        second = decode_seq([3001, 1020]) if detail["second"] else None
        header, runs = r_case_runs(lib, descs, random.Random(seed), d["tier"] == "thorough", second, detail["trunc"])
        offs, ds = {}, []
        for sid, n, fin in detail["sched"]:
            data = header["streams"][sid][0]
            ds.append((sid, data[offs.get(sid, 0):offs.get(sid, 0) + n], fin))
            offs[sid] = offs.get(sid, 0) + n
        runs = [runs[0], (dict(detail["tag"], recorded=True), ds)] + runs[1:]
        lines = r_lines(lib, header, runs)
        index = [(lib, header, runs[i][0], 0) for i in range(len(lines))]
        fails = judge(check, lines, "replay")
        report_r(check, lines, index, fails)
        check.count(("R-replay", tuple(detail["codes"])), nontrivial=True, evaluations=len(lines))
        check.sample({"replayed_case": detail["frames"], "runs": len(lines), "recorded_run": detail["sched"],
                      "recorded_run_events_now": lines[1]["obs"], "closed_now": lines[1]["closed"]})
    else:
        check.seed = seed
        big = d["tier"] == "thorough"
        groups = run_v(check, 0, 40 if big else 24, big, only=detail["exchange"])
        flat = [ln for g in groups for ln in g]
        fails = judge(check, flat, "replay")
        report_v(check, groups, fails)
        check.sample({"replayed_exchange": detail["exchange"], "runs": len(flat)})
    check.cov["rule"] = "replay of one recorded case: all its runs re-executed on the current tree and judged by TLC"


def run(check):
    check.build_overlay()
    load_aioquic()
    # many short TLC runs: keep the JVMs small (few GC threads; the quick tier never gets hot enough for C2)
    os.environ["_JAVA_OPTIONS"] = "-XX:ParallelGCThreads=4" + (" -XX:TieredStopAtLevel=1" if check.quick else "")
    if check.replay:
        return replay(check)
    rnd = random.Random(check.seed)
    thorough = not check.quick
    # (M) the theorem on the design, configurations in parallel with (R)/(V) driving
    plan = "PlanQuick" if check.quick else "PlanThorough"        # defined in H3Stream.tla
    pool = ThreadPoolExecutor(max_workers=1)
    fut = pool.submit(check.run_tlc, "H3Stream", m_config(plan), name="H3Stream_M_" + plan, workers=8 if check.quick else 12)

    # (R)
    seqs = enumerate_seqs(check, "enum-thorough" if thorough else "enum-quick")
    enumerated = len(seqs)
    by_len = {}
    for q in seqs:
        by_len.setdefault(len(q), []).append(q)
    quota = {1: 10 ** 9, 2: 10 ** 9, 3: 250, 4: 60} if thorough else {1: 10 ** 9, 2: 120, 3: 130}
    seqs = [q for n in sorted(by_len) for q in (by_len[n] if len(by_len[n]) <= quota.get(n, 0) else rnd.sample(by_len[n], quota.get(n, 0)))]
    lines, index = run_r(check, rnd, seqs, thorough)
    fails = judge(check, lines, "TraceH3_R")
    report_r(check, lines, index, fails)
    check.cov["R"] = {"frame_sequences_enumerated_by_tlc": enumerated, "frame_sequences_run": len(seqs), "runs": len(lines), "failing_lines": len(fails)}
    mid = index[len(index) // 2]
    check.sample({"binding": "R", "frames": seq_name(mid[1]["descs"]), "stream0": mid[1]["streams"][0][0].hex(),
                  "run": lines[len(lines) // 2]["sched"], "events": lines[len(lines) // 2]["obs"]})

    # (V)
    groups = run_v(check, 150 if thorough else 30, 40 if thorough else 24, thorough)
    flat = [ln for g in groups for ln in g]
    fails = judge(check, flat, "TraceH3_V")
    report_v(check, groups, fails)
    check.cov["V"] = {"exchanges": len(groups) // 2, "runs": len(flat), "failing_lines": len(fails),
                      "streams": sum(len(g[0]["streams"]) for g in groups),
                      "bytes": sum(s[1] for g in groups for s in g[0]["streams"])}
    g = groups[len(groups) // 2]
    check.sample({"binding": "V", "role": g[0]["role"], "policy": g[0]["policy"], "streams": g[0]["streams"], "kinds": g[0]["kinds"],
                  "modes": [ln["mode"] for ln in g][:8], "sent_head": [[s, [dict(e, b=None) for e in ev[:3]]] for s, ev in g[0]["sent"][:3]]})

    r = fut.result()
    pool.shutdown()
    if r.violated:
        check.model_violation(r, "H3Stream")
    if thorough:
        # the theorem must tell the design from the three departures of the code as first shipped
        probe = check.run_tlc("H3Stream", m_config("PlanProbe", shipped=True), name="H3Stream_M_probe_shipped", workers=4)
        check.cov["M_probe"] = {"variant": "Shipped = TRUE (blocked PUSH_PROMISE resumed as HEADERS; a FIN cutting a frame is no error; no end of stream after a frame "
                                           "without end flag)", "tlc_finds_counterexample": probe.violated}
        if probe.violated != "ChunkingIndependent":
            raise MachineryError("the theorem of H3Stream no longer discriminates: the as-shipped variant passes")

    check.cov["exhaustive"] = False
    check.cov["rule"] = ("(M) every frame sequence with 1- and 2-byte varints up to L bytes per stream x every splitting x every "
                         "interleaving of the configured streams; (R) a case = TLC-enumerated frame sequence x role x (second stream) "
                         "x (FIN cutting the last frame), non-trivial when it has more than one frame or a block referring to the "
                         "dynamic table; (V) a case = seeded exchange x receiving endpoint, non-trivial when more than the three "
                         "initial unidirectional streams carry data; evaluations = real runs judged by TLC")
    check.cov["trusted_base"] = ["TLC", "pylsqpack (QPACK encoder/decoder, outside the corpus)",
                                 "driver: StubQuic (stream ids, capture of send_stream_data), projection of H3 events to records "
                                 "(kind, stream, header-list digest and length, body length and running SHA-1 digest, push/session id, end flag)",
                                 "hashlib SHA-1 (equal digests taken as equal bytes)"]
    check.assumptions += [
        "header blocks are opaque to the specification: a block is available iff its Required Insert Count byte is 0 or the encoder "
        "stream has been delivered completely (the (R) library makes every dynamic block refer to the last insertion)",
        "a request or push stream whose FIN cuts a frame or a frame header in two closes the connection (H3_FRAME_ERROR, RFC 9114 7.1) in "
        "the design and in every run; on a tree that does not close, its end-of-stream reports are compared by the statement clause "
        "independent:end-of-stream-cut-mid-frame",
        "a stream that makes the connection fail is compared by 'closed in every run'; the events handed out before the failure depend "
        "on the deliveries by construction (handle_event drops the events of the failing call) and are compared as model clauses only",
        "in (V) replays the peer's QPACK decoder stream is cut to its stream type: its acknowledgements answer what the live endpoint "
        "encoded and mean nothing to a fresh receiver (the live run, judged as well, carries them)",
        "deliveries are what QuicStreamReceiver can produce: non-empty data, or FIN (possibly with no data)",
    ]
