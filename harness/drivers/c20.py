"""C20 - logging is observationally transparent.

(M) TLC explores LogPair.tla: a self-composition of one deterministic endpoint with
    logging off / on over all input scripts up to a bound; invariants
    SameObservation, LoggingTotal, QlogAccounting.  The same configuration is run
    with each of six defective loggers (a log branch that mutates state, an
    encoder that raises, records skipped or counted twice, an unserialisable
    record): TLC must refute the invariant meant to catch it.
(V) every scenario is executed four times on two real QuicConnections (netsim,
    same script, same seed): logging off, qlog on, secrets log on, both.  The four
    raw logs are projected mechanically and zipped line by line; TraceLogPair judges
    every line with the relations of LogPair (TotalStep, SameStep, SameFinal,
    Accounting).  Scenarios: the benign / lossy / dup / mixed / migrate / closing
    script profiles, frames of every type with hostile values from a key-holding
    peer, Version Negotiation packets in the first flight, resumption with 0-RTT
    data, HTTP/3 sessions (H3Connection on both endpoints: requests, responses,
    pushes, trailers, empty DATA frames, datagrams; header values that are not
    UTF-8, huge names) and HTTP/3 endpoints facing a peer that writes the malformed
    byte classes of C16 (including sections blocked on the QPACK encoder stream
    and resumed later).

A disagreement is reported once per (scenario, mode): the first line on which the
"on" run differs from the "off" run; everything after it is its consequence.
Before a disagreement is reported the scenario is run again with logging off: if
two "off" runs differ, the harness (not logging) is to blame -> machinery failure.
"""
import json
import random
import time
from concurrent.futures import ThreadPoolExecutor

from .. import c16_h3 as C16
from .. import c20_pair as P
from .. import trace
from ..netsim import hostile as H
from ..netsim import runner, script, sim
from ..overlay import MachineryError

_A = None
VMAX = (1 << 62) - 1

HOSTILE = [
    ("1rtt", bytes([0x1f]), "unknown-frame-type"),
    ("1rtt", H.f_stream(3, 0, b"x"), "stream-frame-on-send-only-stream"),
    ("1rtt", H.f_max_streams(1 << 61), "max-streams-too-large"),
    ("1rtt", H.f_close(0x7, 0x08, b"go away"), "peer-close-1rtt"),
    ("1rtt", H.f_close(0x3, 0, b"app", app=True), "peer-app-close-1rtt"),
    ("handshake", H.f_close(0x128, 0x06, b"hs"), "peer-close-handshake"),
    ("initial", H.f_close(0x2, 0, b"refused"), "peer-close-initial"),
    ("handshake", H.f_stream(0, 0, b"x"), "stream-frame-in-handshake-packet"),
    ("1rtt", H.f_close(0x1, 0x1f, b"\xff\xfe not utf8 \xc3"), "close-reason-not-utf8"),
    ("1rtt", H.f_close(0x100, VMAX, b"r" * 900), "close-huge-frame-type-long-reason"),
    ("1rtt", H.f_close(VMAX, 0, b"\xed\xa0\x80", app=True), "app-close-huge-code"),
    ("1rtt", H.f_new_token(b"\x00\xff" * 20), "new-token"),
    ("1rtt", H.f_new_token(b""), "new-token-empty"),
    ("1rtt", H.f_new_cid(5, 0, bytes(range(8)), bytes(16)), "new-cid-gap"),
    ("1rtt", H.f_new_cid(9, 9, b"\xff" * 8, b"\xfe" * 16), "new-cid-retire-all"),
    ("1rtt", H.f_new_cid(9, 9, b"\xff" * 20, b"\xfe" * 16), "new-cid-retire-all-20-bytes"),   # the observer only follows 8-byte CIDs
    ("1rtt", H.f_new_cid(3, 4, b"ab" * 4), "new-cid-retire-prior-to-beyond-seq"),
    ("1rtt", H.f_new_cid(2, 0, b""), "new-cid-empty"),
    ("1rtt", H.f_retire_cid(0), "retire-cid-0"),
    ("1rtt", H.f_retire_cid(77), "retire-cid-unknown"),
    ("1rtt", H.f_path_challenge(b"\xff" * 8), "path-challenge"),
    ("1rtt", H.f_path_response(b"\x01" * 8), "path-response-unsolicited"),
    ("1rtt", H.f_reset_stream(0, VMAX, 5), "reset-stream-huge-code"),
    ("1rtt", H.f_reset_stream(1 << 60, 1, 1), "reset-stream-beyond-limit"),
    ("1rtt", H.f_stop_sending(0, 1 << 61), "stop-sending"),
    ("1rtt", H.f_stop_sending(2, 1), "stop-sending-receive-only"),
    ("1rtt", H.f_max_data(VMAX), "max-data-huge"),
    ("1rtt", H.f_max_stream_data(0, VMAX), "max-stream-data-huge"),
    ("1rtt", H.f_max_stream_data(1 << 40, 1), "max-stream-data-unknown-stream"),
    ("1rtt", H.f_max_streams(1 << 60, uni=True), "max-streams-uni-limit"),
    ("1rtt", H.f_data_blocked(1 << 61), "data-blocked"),
    ("1rtt", H.f_stream_data_blocked(0, 1 << 61), "stream-data-blocked"),
    ("1rtt", H.f_streams_blocked((1 << 60) + 1), "streams-blocked-too-large"),
    ("1rtt", H.f_streams_blocked(5, uni=True), "streams-blocked-uni"),
    ("1rtt", H.f_handshake_done(), "handshake-done"),
    ("1rtt", H.f_datagram(b"\xff" * 30), "datagram-frame"),
    ("1rtt", H.f_datagram(b"", with_len=False), "datagram-frame-empty"),
    ("1rtt", H.f_ack(1 << 40, 0, 0), "ack-of-unsent-packet"),
    ("1rtt", H.f_ack(3, 1 << 50, 1, ((0, 0),), ecn=(1, 2, VMAX)), "ack-ecn-huge-delay"),
    ("1rtt", H.f_crypto(0, b"\x04\x00\x00\x02\xff\xff"), "crypto-garbage-1rtt"),
    ("1rtt", H.f_crypto(VMAX - 1, b"xx"), "crypto-offset-overflow"),
    ("handshake", H.f_crypto(5000, bytes(10)), "crypto-gap-handshake"),
    ("1rtt", H.f_stream(0, VMAX - 1, b"xyz"), "stream-offset-overflow"),
    ("1rtt", H.f_stream(0, 0, b"abc", with_len=False), "stream-without-length"),
    ("1rtt", H.f_stream(1 << 50, 0, b"q"), "stream-beyond-limit"),
    ("1rtt", H.f_ping() + H.f_padding(3) + H.f_ping(), "ping-padding-ping"),
    ("1rtt", b"", "empty-payload"),
    ("1rtt", b"\x08", "truncated-stream-frame"),
    ("1rtt", b"\x1c\x01", "truncated-close-frame"),
    ("1rtt", b"\x40\x01", "non-minimal-frame-type"),
]

# which invariant refutes which defective logger
FAULTS = [("mutates", "SameObservation"), ("raises", "LoggingTotal"), ("skips-sent", "QlogAccounting"),
          ("skips-recv", "QlogAccounting"), ("counts-dropped", "QlogAccounting"), ("unserialisable", "QlogAccounting")]


def job_fn(job):
    return P.run_scenario(_A, job)


# ------------------------------------------------------------------ scenario generation
def base_cfg(rnd):
    return {"cc": rnd.choice(["reno", "reno", "cubic"]), "version": rnd.choice(["v1", "v1", "v2", "v1->v2"]),
            "idle": rnd.choice([60.0, 60.0, 5.0]), "suite": rnd.choice(["", "", "CHACHA20_POLY1305_SHA256"])}


def h3_script(rnd, n, lossy):
    net = {"deliver": 8, "timer": 2, "tick": 1}
    if lossy:
        net.update({"drop": 2, "dup": 1.5, "swap": 1})
    out = []
    for _ in range(n):
        r = rnd.random()
        if r < 0.30:
            out.append(["h3req", rnd.randrange(len(P.EXTRA)), rnd.choice([0, 0, 10, 700, 4000]),
                        rnd.choice(["fin", "fin", "open"]), rnd.random() < 0.3])
        elif r < 0.38:
            n = rnd.choice([0, 1, 300, 2500])
            out.append(["h3more", rnd.randrange(4), n, n == 0 or rnd.random() < 0.5])
        elif r < 0.43:
            out.append(["h3trailers", rnd.randrange(4), rnd.randrange(3)])
        elif r < 0.47:
            out.append(["h3dgram", rnd.randrange(4), rnd.choice([0, 5, 400])])
        else:
            out += script.random_script(rnd, 1, net)
    return out


def raw_cases(rnd):
    """(victim role, target, shape, variant index, bytes, fin, type byte) for every C16 class."""
    tb = {"ctrl": "00", "enc": "02", "dec": "03", "push": "0100"}
    cases = []
    for role in ("server", "client"):
        for target, fn in C16.SHAPES_BY_TARGET.items():
            if target.startswith("h0") or target == "dgram" or (target == "push" and role == "server"):
                continue
            ctx = {"rnd": random.Random("c20/%s/%s" % (role, target)), "role": role}
            for shape, variants in sorted(fn(ctx).items()):
                for vi, (data, fin) in enumerate(variants):
                    if len(data) > 20000:
                        continue
                    cases.append((role, target, shape, vi, data, fin, tb.get(target, "")))
    return cases


def raw_job(rnd, case):
    role, target, shape, vi, data, fin, tb = case
    attacker = "c" if role == "server" else "s"
    victim = "s" if role == "server" else "c"
    sc = []
    if role == "client":       # the client has a request outstanding on stream 0; the hostile server answers on it
        sc += [["h3req", 0, 0, "fin", False], ["deliver", 0], ["deliver", 0]]
    if rnd.random() < 0.7 and target != "ctrl":         # a well-formed control stream first
        sc.append(["raw", attacker, "ctrl", C16.frame(4, C16.settings([(1, 4096), (7, 16)])).hex(), False, "00"])
    cut = rnd.choice([0, 0, 1, len(data) // 2])
    if 0 < cut < len(data):
        sc += [["raw", attacker, target, data[:cut].hex(), False, tb], ["deliver", 0],
               ["raw", attacker, target, data[cut:].hex(), fin, tb]]
    else:
        sc.append(["raw", attacker, target, data.hex(), fin, tb])
    sc += [["deliver", 0], ["deliver", 0]]
    h3 = {victim: "h3", attacker: "raw", "wt": rnd.random() < 0.5}
    cfg = {"alpn": ["h3"], "datagram": 65536}
    return {"cfg": cfg, "script": sc, "seed": rnd.randrange(1 << 30), "hs_adv": False, "h3": h3,
            "profile": "h3-hostile", "what": "%s/%s/%s/%d" % (role, target, shape, vi)}


def make_jobs(check, rnd):
    jobs = []
    q = check.quick
    # 1. the script profiles of C01 / C09 on plain QUIC
    for prof in ("benign", "lossy", "dup", "mixed", "migrate", "closing"):
        for i in range(10 if q else 200):
            cfg = base_cfg(rnd)
            if prof in ("mixed", "benign") and rnd.random() < 0.4:
                cfg["datagram"] = 65536
            p = dict(script.PROFILES[prof])
            if "datagram" in cfg:
                p["dgram"] = 0.7
            sc = script.random_script(rnd, rnd.choice([10, 30, 60]), p)
            jobs.append({"cfg": cfg, "script": sc, "seed": rnd.randrange(1 << 30), "hs_adv": rnd.random() < 0.3,
                         "profile": prof, "what": prof})
    # 2. frames from a key-holding peer: every case once from each side, then inside random scripts
    for pt, payload, tag in HOSTILE:
        for src in "cs":
            jobs.append({"cfg": {}, "script": [["write", "c", 0, 100, False], ["deliver", 0], ["write", "s", 1, 50, False], ["deliver", 0],
                                               ["inject", src, pt, payload.hex(), tag],
                                               ["write", "c", 0, 100, True], ["deliver", 0], ["deliver", 0]],
                         "seed": 7, "hs_adv": pt != "1rtt", "profile": "hostile", "what": "%s<-%s" % (tag, src)})
    for i in range(20 if q else 600):
        cfg = base_cfg(rnd)
        sc = script.random_script(rnd, rnd.choice([10, 30]), script.PROFILES[rnd.choice(["mixed", "lossy", "closing"])])
        tags = []
        for _ in range(rnd.choice([1, 2, 3])):
            pt, payload, tag = rnd.choice(HOSTILE)
            sc.insert(rnd.randrange(len(sc) + 1), ["inject", rnd.choice("cs"), pt, payload.hex(), tag])
            tags.append(tag)
        jobs.append({"cfg": cfg, "script": sc, "seed": rnd.randrange(1 << 30), "hs_adv": rnd.random() < 0.3,
                     "profile": "hostile", "what": "+".join(tags)})
    # 2b. Version Negotiation packets in the first flight; resumption with 0-RTT data
    V1, V2 = 1, 0x6B3343CF
    for tag, vs in (("other-version", [V2]), ("no-common-version", [0x1A2A3A4A]), ("contains-current", [V2, V1]), ("empty", []),
                    ("many", [0x0A0A0A0A + 0x10101010 * i for i in range(12)] + [V2])):
        for ver in ("v1", "v1->v2"):
            jobs.append({"cfg": {"version": ver}, "script": [["vn", vs, 0x2A], ["drop", 0], ["deliver", 0], ["vn", vs, 0x55], ["write", "c", 0, 300, True]],
                         "seed": 31, "hs_adv": True, "profile": "hostile", "what": "version-negotiation-%s/%s" % (tag, ver)})
    for i in range(4 if q else 40):
        cfg = base_cfg(rnd)
        sc = [["write", "c", 0, rnd.choice([100, 1500, 4000]), rnd.random() < 0.5]] + \
            script.random_script(rnd, rnd.choice([6, 20]), script.PROFILES[rnd.choice(["lossy", "benign", "dup"])])
        jobs.append({"cfg": cfg, "script": sc, "seed": rnd.randrange(1 << 30), "hs_adv": True, "resume": True,
                     "profile": "resume-0rtt", "what": "resume-0rtt"})
    # 3. HTTP/3 on both endpoints
    for i in range(len(P.EXTRA)):              # every header set once, request and response, no loss
        jobs.append({"cfg": {"alpn": ["h3"]}, "script": [["h3req", i, 0, "fin", False], ["deliver", 0], ["deliver", 0], ["deliver", 0]],
                     "seed": 11, "hs_adv": False, "h3": {"c": "h3", "s": "h3", "resp": [[0, 10, 0, -1]]},
                     "profile": "h3", "what": "request-headers-%d" % i})
        jobs.append({"cfg": {"alpn": ["h3"]}, "script": [["h3req", 0, 20, "fin", True], ["deliver", 0], ["deliver", 0], ["deliver", 0]],
                     "seed": 12, "hs_adv": False, "h3": {"c": "h3", "s": "h3", "resp": [[i, [300, -1, 0][i % 3], 1 + i % 2, i % 4 - 1]]},
                     "profile": "h3", "what": "response-headers-%d" % i})
    for i in range(30 if q else 900):
        cfg = base_cfg(rnd)
        cfg.update({"alpn": ["h3"], "datagram": rnd.choice([None, 65536])})
        resp = [[rnd.randrange(len(P.EXTRA)), rnd.choice([0, 10, 3000, -1]), rnd.choice([0, 0, 1, 2]), rnd.choice([-1, -1, 0, 1, 2])]
                for _ in range(3)]
        jobs.append({"cfg": cfg, "script": h3_script(rnd, rnd.choice([8, 20, 40]), rnd.random() < 0.6),
                     "seed": rnd.randrange(1 << 30), "hs_adv": False,
                     "h3": {"c": "h3", "s": "h3", "resp": resp, "wt": rnd.random() < 0.3}, "profile": "h3", "what": "session"})
    # 4. an HTTP/3 endpoint facing a peer that writes the malformed byte classes of C16
    cases = raw_cases(rnd)
    if q:
        by_shape = {}
        for c in cases:
            by_shape.setdefault(c[:3], []).append(c)
        keys = sorted(by_shape)
        rnd.shuffle(keys)
        cases = [rnd.choice(by_shape[k]) for k in keys[:90]]
        must = [c for c in raw_cases(rnd) if c[2] in ("VALUE_NONUTF8", "NAME_2000") and c[3] == 0]
        cases += must
    else:
        cases = cases + cases          # twice: raw_job draws the chunking, the prelude and the seed
    for c in cases:
        jobs.append(raw_job(rnd, c))
    # header sections blocked on the QPACK encoder stream and resumed later (HEADERS, trailers, PUSH_PROMISE)
    ctrl = ["ctrl", C16.frame(4, C16.settings([(1, 4096), (7, 16)])).hex(), False, "00"]
    for role in ("server", "client"):
        att, vic = ("c", "s") if role == "server" else ("s", "c")
        # (the request must have reached the server before it can write on that stream: the pacer may hold it back, so
        # timers are fired and the fair schedule runs for a few steps instead of counting deliveries)
        pre = [] if role == "server" else [["h3req", 0, 0, "fin", False], ["timer", "c"], ["pump", 12]]
        blocked = [("headers", C16.frame(1, C16.blocked_section(role, "init")), True),
                   ("trailers", C16.frame(1, C16.block(C16.first_headers(role))) + C16.frame(1, C16.blocked_section(role, "hdrs")), True)]
        if role == "client":
            blocked.append(("push-promise", C16.frame(5, C16.vi(0) + C16.blocked_section("server", "init")), False))
        for name, data, fin in blocked:
            sc = pre + [["raw", att] + ctrl, ["raw", att, "req", data.hex(), fin, ""], ["timer", att], ["pump", 12],
                        ["raw", att, "enc", C16.ENC_INS.hex(), False, "02"], ["timer", att], ["pump", 12]]
            jobs.append({"cfg": {"alpn": ["h3"], "datagram": 65536}, "script": sc, "seed": 21, "hs_adv": False,
                         "h3": {vic: "h3", att: "raw"}, "profile": "h3-hostile", "what": "%s/blocked-%s-resumed" % (role, name)})
    return jobs


# ------------------------------------------------------------------ judging
def judge(check, jobs, results, name):
    lines, owner = [], []
    for ji, r in enumerate(results):
        for ln in r["lines"]:
            lines.append(ln)
            owner.append(ji)
    fails = trace.validate(check, "TraceLogPair", lines, name=name,
                           constants='CONSTANTS MaxSteps = 0\nMaxPn = 0\nFault = "none"',
                           shards=max(1, min(8 if check.quick else 16, len(lines) // 3000)))
    check.cov["traces_validated_against_impl"] += 4 * len(jobs)
    # per (scenario, mode): everything after the first disagreement is its consequence; report the first
    # statement-level failure, and a model-level one only when it comes before it
    first = {}
    for i, clause in sorted(fails):
        ji = owner[i]
        key = (ji, mode_of(clause), clause.startswith("model:"))
        if key not in first and ((ji, mode_of(clause), False) not in first or first[(ji, mode_of(clause), False)][0] > i):
            first[key] = (i, clause)
    rechecked = {}
    for (ji, mode, is_model), (i, clause) in sorted(first.items()):
        job, ln, meta = jobs[ji], lines[i], results[ji]["meta"]
        if ji not in rechecked and len(rechecked) < 6:
            # the baseline must be deterministic, otherwise a difference says nothing about logging
            # (re-run for the first few disagreeing scenarios)
            again = job_fn(job)
            base = lambda res: [(x["r"][0]["k"], x["r"][0]["raised"], P.decode(x, x["r"][0]["obs"])) for x in res["lines"] if x["ev"] == "step"] + \
                [P.decode(res["lines"][-1], res["lines"][-1]["f"][0])]       # noqa: E731
            rechecked[ji] = base(again) == base(results[ji])
        if not rechecked.get(ji, True):
            raise MachineryError("two runs of the same scenario with logging off differ: the harness is not deterministic (%s)"
                                 % job.get("what"))
        sig = signature(clause, ln, meta)
        detail = {"clause": clause, "job": job, "line_index": i - owner.index(ji), "what": job.get("what"),
                  "line": json.loads(json.dumps(ln))}
        (check.drift if is_model else check.violation)(sig, detail)


def mode_of(clause):
    parts = clause.split(":")
    return parts[-2] if parts[-1] in ("c", "s") else parts[-1]


def signature(clause, ln, meta):
    parts = clause.split(":")
    if ln["ev"] == "step":
        m = P.MODE_NAMES.index(parts[-1])
        off, on = [dict(r, obs=P.decode(ln, r["obs"]), mdl=P.decode(ln, r["mdl"])) for r in (ln["r"][0], ln["r"][m])]
        call = ""
        for o in on["obs"][:1]:
            for tok in o.split(" "):
                if tok.startswith("call=") or tok.startswith("cls="):
                    call = tok.split("=", 1)[1]
        if call == "RAISED":
            call = "h3.handle_event" if on["k"] == "h3" else "next_event"
        if parts[0] == "logging-raises":
            return "logpair:logging-raises:%s:%s:%s:%s" % (parts[-1], on["raised"], on["k"], call)
        if parts[0].startswith("different-"):
            return "logpair:%s:%s:%s:%s" % (parts[0], parts[-1], call, P.first_diff(off, on))
        return "logpair:" + clause
    if parts[0] == "different-final-state":
        m = P.MODE_NAMES.index(parts[-1])
        return "logpair:different-final-state:%s:%s" % (parts[-1], meta["final_hints"][m - 1])
    q = next((x for x in ln["q"] if x["who"] == ":".join(parts[-2:])), None)
    extra = ""
    if q is not None and parts[0] == "qlog-not-serialisable":
        extra = ":" + q["raised"]
    elif q is not None and parts[0] == "packet-received-record-count":
        extra = ":" + ",".join("%s-%s" % ("more" if a > b else "fewer", t) for t, a, b in
                               zip(P.QLOG_TYPES, q["recvRecords"], q["processed"]) if a != b)
    elif q is not None and parts[0].startswith("packet-sent") or q is not None and parts[0] == "accounting":
        rec, obs = q["sentRecords"], q["sent"]
        k = next((i for i, (a, b) in enumerate(zip(rec, obs)) if a != b), min(len(rec), len(obs)))
        extra = ":%s:at-%s" % ("fewer" if len(rec) < len(obs) else "more" if len(rec) > len(obs) else "other",
                               (obs[k] if len(rec) <= len(obs) and k < len(obs) else rec[k] if k < len(rec) else "end").split(":")[0])
    return "logpair:" + clause + extra


def run(check):
    global _A
    check.build_overlay()
    _A = sim.load_modules()
    P.fix_stream_order()
    check.cov["trusted_base"] = [
        "TLC 1.8", "netsim driver", "observer (independent RFC 9001 un-protection and RFC 9000 frame parser)",
        "harness-side capture of the traffic secrets for the observer when the run has secrets_log_file=None "
        "(instance-level wrapper around QuicConnection._update_traffic_key that calls the original)",
        "harness-side counter of packets handed to QuicConnection._payload_received (wrapper that calls the original): "
        "the number of packets an endpoint processed",
        "mechanical projection of the raw log to strings; crc32/sha1 digests of payloads and of the walk over vars(connection)",
        "internal reads: sim.INTERNAL_READS, and every instance attribute for the final state projection"]
    check.assumptions += [
        "the TLS key shares come from OpenSSL and differ between runs: CRYPTO payloads are compared by offset and length only; "
        "the test certificate is RSA-3072 (PSS signatures of constant length), X25519 / P-256 shares have constant length, "
        "so every packet length is compared exactly",
        "os.urandom is replaced by a seeded generator (connection ids, reset tokens, challenge data, TLS randoms are the same in all four runs)",
        "qlog time stamps (time.time()) are not part of the observation",
        "aioquic re-queues streams that sent in the same round in the iteration order of a set of objects (address dependent, "
        "also between two runs without logging); the harness pins that order by hashing QuicStream by stream id",
        "the caller fires the timer when asked and transmits after every call"]
    if check.replay:
        d = json.load(open(check.replay))["detail"]
        if "job" not in d:
            raise MachineryError("replay of a design-level counterexample: run the check itself")
        res = [job_fn(d["job"])]
        judge(check, [d["job"]], res, "replay")
        check.count(repr(d["job"]), evaluations=len(res[0]["lines"]))
        check.sample({"replayed": d["job"].get("what"), "lines": len(res[0]["lines"])})
        check.cov["rule"] = "replay of one recorded scenario (four runs)"
        return
    # (M) runs in a thread (TLC subprocesses) next to the trace validation of (V)
    def model():
        base = 'SPECIFICATION Spec\nCONSTANTS MaxSteps = %d\nMaxPn = 2\nFault = "%s"\n'
        steps = 6 if check.quick else 8
        with ThreadPoolExecutor(max_workers=8) as ex:
            f0 = ex.submit(check.run_tlc, "LogPair", base % (steps, "none") + "INVARIANT TypeOk\nINVARIANT SameObservation\n"
                           "INVARIANT LoggingTotal\nINVARIANT QlogAccounting\n", name="LogPair_M", workers=4 if check.quick else 8)
            futs = [(fault, inv, ex.submit(check.run_tlc, "LogPair", base % (5, fault) + "INVARIANT %s\n" % inv,
                                           name="LogPair_" + fault.replace("-", "_"), workers=1, heap="1g")) for fault, inv in FAULTS]
            fr = ex.submit(check.run_tlc, "LogPair", base % (5, "none") + "INVARIANT Reach\n", name="LogPair_reach", workers=1, heap="1g")
            r = f0.result()
            if r.violated:
                check.model_violation(r, "LogPair")
            refuted = {}
            for fault, inv, f in futs:
                rf = f.result()
                refuted[fault] = rf.violated
                if rf.violated != inv:
                    raise MachineryError("the invariant %s does not refute the defective logger %r (got %r): the model is vacuous"
                                         % (inv, fault, rf.violated))
            if fr.result().violated != "Reach":
                raise MachineryError("LogPair: no behaviour sends, processes and terminates")
        check.cov["defective_loggers_refuted"] = refuted
    # (V)
    t1 = time.time()
    rnd = random.Random(check.seed)
    jobs = make_jobs(check, rnd)
    results = runner.run_many(job_fn, jobs)          # forks: before any thread exists
    # vacuity guard of the scripted "blocked section resumed" cases: the section must really have been delivered and decoded
    want = {"headers": "HeadersReceived", "trailers": "HeadersReceived", "push-promise": "PushPromiseReceived"}
    for j, r_ in zip(jobs, results):
        w = j.get("what", "")
        if "/blocked-" in w and w.endswith("-resumed") and not r_["meta"].get("raised_off"):
            kind = want[w.split("/blocked-")[1][:-len("-resumed")]]
            if kind not in r_["meta"].get("h3kinds", r_["meta"].get("kinds", [])) and not any("raise" in str(x) for x in r_["meta"].values()):
                check.cov.setdefault("blocked_section_cases_without_the_event", []).append(w)
    t2 = time.time()
    with ThreadPoolExecutor(max_workers=1) as bg:
        fm = bg.submit(model)
        judge(check, jobs, results, "TraceLogPair_V")
        t3 = time.time()
        fm.result()
    check.cov["phase_wall_s"] = {"paired_runs": round(t2 - t1, 1), "tlc_on_traces": round(t3 - t2, 1),
                                 "model_beyond_traces": round(time.time() - t3, 1)}
    prof = {}
    for job, res in zip(jobs, results):
        m = res["meta"]
        nontrivial = job["profile"] != "benign"
        check.count(repr(job), nontrivial=nontrivial, evaluations=len(res["lines"]))
        p = prof.setdefault(job["profile"], {"scenarios": 0, "steps": 0, "packets": 0, "h3_qlog_records": 0, "runs_raising_with_logging_off": 0})
        p["scenarios"] += 1
        p["steps"] += len(res["lines"])
        p["packets"] += m["npkt"]
        p["h3_qlog_records"] += m["h3records"]
        p["runs_raising_with_logging_off"] += bool(m["raised_off"])
        if job.get("resume"):
            p["resumed_from_ticket"] = p.get("resumed_from_ticket", 0) + bool(m["resumed_from_ticket"])
            p["with_0rtt_packets"] = p.get("with_0rtt_packets", 0) + bool(m["zero_rtt"])
    check.cov["profiles"] = prof
    check.cov["event_classes_seen"] = sorted({k for r in results for k in r["meta"]["kinds"]})
    check.cov["frame_types_sent"] = sorted({k for r in results for k in r["meta"]["ftypes"]})
    check.cov["termination_codes_seen"] = sorted({t[1] for r in results for t in r["meta"]["terminated"]})
    check.cov["packets_the_observer_could_not_open"] = sum(r["meta"]["unopened"] for r in results)
    check.cov["exceptions_with_logging_off"] = sorted({x for r in results for x in r["meta"]["raised_off"]})[:20]
    ex = next((i for i, j in enumerate(jobs) if j["profile"] == "h3" and results[i]["meta"]["h3records"]), 0)
    check.sample({"scenario": jobs[ex].get("what"), "profile": jobs[ex]["profile"], "script": jobs[ex]["script"][:12],
                  "run_lengths": results[ex]["meta"]["n"], "a_zipped_line": results[ex]["lines"][min(40, len(results[ex]["lines"]) - 2)],
                  "accounts": [{k: (v if not isinstance(v, list) or len(v) < 12 else v[:12] + ["..."]) for k, v in a.items()}
                               for a in results[ex]["lines"][-1]["q"][:2]]})
    check.cov["rule"] = ("one case = one scenario (configuration, script, seed) executed four times on two real connections "
                         "(logging off / qlog / secrets log / both) and zipped; non-trivial = the script is lossy, reordering, migrating, "
                         "closing or hostile, or carries HTTP/3 headers (every profile except 'benign')")
