"""C12 - acknowledgements are sound and timely.

(M) TLC explores AckTracker.tla: all arrival orders with gaps of pn 0..P-1 (ack-eliciting
    or not), delayed-ack timer, ACK emission, loss of ACKs, ACK-of-ACK pruning of the
    queue; invariants Sound, Timely, OwedQueued.
(V) every netsim script (lossy / dup / mixed / migrate profiles, handshake under loss,
    scripts that drop the ACKs themselves) is observed on the wire: arrivals of genuine
    packets at each endpoint and the ACK ranges in every datagram it emits (decoded by the
    independent observer).  TLC judges with TraceAckTracker: ACK ranges only list packets
    that were handed to the endpoint; each owed packet (ack-eliciting, authenticated, new
    largest in its space, after handshake completion for 1-RTT) is covered by an ACK in the
    first transmission at or after arrival + 25 ms, the endpoint always asks for a timer in
    time, and in Initial/Handshake by the next transmission in that space.  Connections through a Retry and
    resumed sessions (0-RTT packets in the application space, accepted or rejected) are part of the scripts.
"""
import json
import os
import random

from .. import trace
from ..netsim import project, runner, script, sim
from ..overlay import MachineryError

_A = None


def job_fn(job):
    s = script.run(_A, job["cfg"], job["script"], seed=job["seed"], hs_adv=job["hs_adv"], early=job.get("early"))
    lines = project.acktracker(s.log)
    arr = [(e["ep"], e["space"], e["pn"]) for e in s.log if e["k"] == "arr"]
    ooo = any(a[0] == b[0] and a[1] == b[1] and b[2] < a[2] for a, b in zip(arr, arr[1:]))
    lost_ack = any(e["k"] == "net" and e["fate"] == "drop" and
                   any(f["t"] == "ack" for p in s.emitted.get(e["dg"], []) if p.get("ok") for f in p.get("frames", []))
                   for e in s.log)
    return {"lines": lines, "nontrivial": bool(ooo or lost_ack), "raised": s.raised[:3],
            "acks": sum(len(l["acks"]) for l in lines if l["ev"] == "tx"),
            "zrtt": sum(1 for e in s.log if e["k"] == "pkt" and e["type"] == "0rtt"),
            "zrtt_arr": sum(1 for e in s.log if e["k"] == "arr" and e["type"] == "0rtt"),
            "zrtt_arr_keys": sum(1 for e in s.log if e["k"] == "arr" and e["type"] == "0rtt" and e["haskeys"]),
            "retries": s.retry["sent"]}


def zrtt_jobs(rnd, per):
    """Retry and resumed sessions: 0-RTT packets share the application packet number space; the server holds their
    keys only between the ClientHello and the end of the handshake (never, when it rejects early data)."""
    jobs = []
    for mode in script.ZRTT_MODES:
        for prof in ("lossy", "dup", "mixed"):
            for i in range(per):
                cfg = dict({"cc": rnd.choice(["reno", "cubic"]), "version": rnd.choice(["v1", "v2", "v1->v2"])}, **mode)
                jobs.append({"cfg": cfg, "script": script.random_script(rnd, rnd.choice([20, 50, 90]), script.PROFILES[prof]),
                             "seed": rnd.randrange(1 << 30), "hs_adv": rnd.random() < 0.6, "early": script.random_early(rnd),
                             "profile": "zrtt-" + prof})
    early = [["write", "c", 0, 3000, False], ["write", "c", 2, 20, True]]
    for mode in script.ZRTT_MODES:
        # 0-RTT packets arriving out of order with a gap, one of them before the ClientHello, a duplicate after the
        # handshake; then the acknowledgement of the lot is lost
        jobs.append({"cfg": dict(mode), "script": [["deliver", 2], ["deliver", 0], ["dup", 1], ["deliver", 1], ["deliver", 0], ["deliver", 0],
                                                   ["deliver", 0], ["deliver", 0], ["timer", "s"], ["drop", 0], ["write", "c", 0, 10, True],
                                                   ["deliver", 0], ["late", "s", 30000]],
                     "seed": 51, "hs_adv": True, "early": early, "profile": "corpus-zrtt-gap-dup-lost-ack"})
    return jobs


def judge(check, jobs, results, name):
    lines, owner = [], []
    for ji, r in enumerate(results):
        for ln in r["lines"]:
            lines.append(ln)
            owner.append(ji)
    fails = trace.validate(check, "TraceAckTracker", lines, name=name, group_key=lambda ln: ln["ev"] == "init",
                           constants="CONSTANTS P = 0\nMaxAckDelay = 0\nMaxTime = 0")
    check.cov["traces_validated_against_impl"] += len(jobs)
    seen = set()
    for i, clause in fails:
        ji = owner[i]
        if (ji, clause) in seen:
            continue
        seen.add((ji, clause))
        ln = lines[i]
        sig = "ack:%s:ep=%s" % (clause, ln.get("ep"))
        mode = jobs[ji]["cfg"]
        if mode.get("retry") or mode.get("resume"):
            sig += ":" + "+".join((["retry"] if mode.get("retry") else []) + (["resume-" + mode["resume"]] if mode.get("resume") else []))
        detail = {"clause": clause, "line": ln, "job": jobs[ji]}
        (check.drift if clause.startswith("model:") else check.violation)(sig, detail)


def run(check):
    global _A
    check.build_overlay()
    _A = sim.load_modules()
    if check.replay:
        d = json.load(open(check.replay))["detail"]
        if "job" not in d:
            raise MachineryError("replay of a design-level counterexample: run the check itself")
        res = [job_fn(d["job"])]
        judge(check, [d["job"]], res, "replay")
        check.count(repr(d["job"]), evaluations=len(res[0]["lines"]))
        check.sample({"replayed": d["job"]})
        check.cov["rule"] = "replay of one recorded script"
        return
    cfg = ("SPECIFICATION Spec\nCONSTANTS P = %d\nMaxAckDelay = 2\nMaxTime = %d\nINVARIANT TypeOk\nINVARIANT Sound\n"
           "INVARIANT Timely\nINVARIANT OwedQueued\n" % ((4, 4) if check.quick else (5, 5)))
    r = check.run_tlc("AckTracker", cfg, name="AckTracker_M", timeout=2400, heap="6g")
    if r.violated:
        check.model_violation(r, "AckTracker")
    rnd = random.Random(check.seed)
    jobs = []
    n = 8 if check.quick else 90
    for cc, ver in (("reno", "v1"), ("cubic", "v2"), ("reno", "v1->v2")):
        for prof in ("benign", "lossy", "dup", "mixed", "migrate"):
            for i in range(n):
                jobs.append({"cfg": {"cc": cc, "version": ver},
                             "script": script.random_script(rnd, rnd.choice([20, 50, 90]), script.PROFILES[prof]),
                             "seed": rnd.randrange(1 << 30), "hs_adv": prof in ("lossy", "mixed", "dup") and rnd.random() < 0.5,
                             "profile": prof})
    # corpus: out-of-order arrival with a gap, lost ACK, late timer
    jobs.append({"cfg": {}, "script": [["write", "c", 0, 3000, False], ["deliver", 2], ["deliver", 0], ["tick", 30000], ["deliver", 0],
                                       ["timer", "s"], ["drop", 0], ["write", "c", 0, 10, True], ["deliver", 0], ["late", "s", 30000]],
                 "seed": 1, "hs_adv": False, "profile": "corpus-gap-lost-ack"})
    # corpus: a long train of ack-eliciting packets arriving in order less than the internal acknowledgement delay apart
    # (windows grown first), every timer fired on time: the acknowledgement may not wait for the end of the train
    for ep, sid in (("c", 0), ("s", 1)):
        for gap in (500, 900):
            jobs.append({"cfg": {}, "script": [["write", ep, sid, 900000, False], ["pump", 700]] + [["run", gap], ["deliver", 0]] * 110,
                         "seed": 2, "hs_adv": False, "profile": "corpus-train"})
    jobs += zrtt_jobs(rnd, 1 if check.quick else 20)
    results = runner.run_many(job_fn, jobs)
    check.cov["zero_rtt_packets_on_the_wire"] = sum(r["zrtt"] for r in results)
    check.cov["zero_rtt_packets_arrived"] = sum(r["zrtt_arr"] for r in results)
    check.cov["zero_rtt_packets_arrived_with_keys"] = sum(r["zrtt_arr_keys"] for r in results)
    check.cov["retry_packets_sent"] = sum(r["retries"] for r in results)
    check.cov["retry_or_resumed_runs"] = sum(1 for j in jobs if j["cfg"].get("retry") or j["cfg"].get("resume"))
    judge(check, jobs, results, "TraceAckTracker_V")
    for job, res in zip(jobs, results):
        check.count(repr(job), nontrivial=res["nontrivial"], evaluations=len(res["lines"]))
    check.cov["ack_ranges_judged"] = sum(r["acks"] for r in results)
    ex = next((r for r in results if r["nontrivial"]), results[0])
    check.sample({"script": jobs[results.index(ex)]["script"][:20],
                  "trace": [l for l in ex["lines"] if l["ev"] != "gt"][:16]})
    check.cov["rule"] = ("one case = one script on two real connections, every datagram decoded by the independent observer; "
                         "non-trivial = packets arrived out of order in some space, or a datagram carrying an ACK was dropped")
    check.cov["trusted_base"] = ["TLC 1.8", "netsim driver", "observer (packet numbers, ACK ranges, ack-eliciting classification)",
                                 "internal reads: _cryptos[epoch].recv.is_valid(), _host_cids (would the endpoint process the packet), "
                                 "_handshake_complete at arrival, _state, _network_paths[0].is_validated"]
    check.assumptions += ["advertised max_ack_delay = 25 ms (aioquic's transport parameter); an ACK is due at the first transmit call "
                          "at or after arrival + 25 ms, and get_timer() must not ask for later than that",
                          "obligations lapse when the endpoint starts closing; transmissions of a server whose current path is not "
                          "validated are not judged for timeliness (anti-amplification may forbid the ACK)"]
