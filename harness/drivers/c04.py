"""C04 - native helpers never access memory out of bounds.

(M) TLC sweeps MemSafe.tla at real scale: every call of AEAD_encrypt /
    AEAD_decrypt / HeaderProtection_apply / HeaderProtection_remove with
    lengths and offsets 0..1700 (and the caller layer: what receive_datagram /
    pull_quic_header / decrypt_packet let through, what QuicPacketBuilder makes
    for max_datagram_size >= 1200), and BufferModel.tla: every Buffer method
    sequence up to depth 4 on capacities 0..4 with boundary / huge arguments.
(R) every threshold call TLC prints (a bound or guard within one of flipping,
    thinned by a seeded stride, corners always) plus a seeded sample elsewhere
    is executed in the ASan+UBSan build of the CURRENT C sources, in
    subprocesses (LD_PRELOAD asan runtime + a shim that lets ASan see what is
    handed to libcrypto, PYTHONMALLOC=malloc); the scratch buffer is moved to
    the end of its struct by a mechanical source transform.  Same for the whole
    one-step closure of Buffer states x alphabet and seeded method sequences.
(V) the Python/C boundary is wrapped inside real QuicConnection pairs doing a
    handshake and a bulk transfer for several max_datagram_size values, and
    inside real servers / clients that are fed hostile datagrams.
TraceMemSafe / TraceBufferModel (TLC) judge every recorded call.
"""
import json
import os
import random
import re
import subprocess
import threading
from concurrent.futures import ThreadPoolExecutor

from .. import overlay, tlc, trace
from ..overlay import MachineryError

HERE = os.path.dirname(os.path.dirname(os.path.abspath(__file__)))
WORKER = os.path.join(HERE, "c04_worker.py")
SHIM_C = os.path.join(HERE, "c04_shim.c")
PY = "/venv/bin/python"

SCRATCH, NMAX, MAXDG, MINMDS = 1500, 1700, 65535, 1200

# ---------------------------------------------------------------------------------------------------
# instrumentation build

STRUCT_PAT = re.compile(r"typedef struct \{\n((?:[^}]*\n)*?)\} (AEADObject|HeaderProtectionObject);")
MEMBER = "    unsigned char buffer[PACKET_LENGTH_MAX];\n"


def make_transform(hits):
    """Move `unsigned char buffer[PACKET_LENGTH_MAX]` to the END of AEADObject /
    HeaderProtectionObject (packed, padded in front so that the object ends
    exactly where the scratch ends): an overflow of the scratch then leaves the
    malloc'ed block and ASan sees it from the first byte.  Nothing else of the
    source is touched."""
    def tr(name, text):
        if name != "_crypto":
            return text

        def sub(m):
            body, tname = m.group(1), m.group(2)
            if body.count(MEMBER) != 1:
                return m.group(0)
            rest = body.replace(MEMBER, "")
            hits.append(tname)
            probe = "typedef struct {\n%s%s} __attribute__((packed)) %s_verif_probe;\n" % (rest, MEMBER, tname)
            pad = ("    unsigned char verif_pad[8 - (offsetof(%s_verif_probe, buffer) + PACKET_LENGTH_MAX) %% 8];\n" % tname)
            return (probe + "typedef struct {\n%s%s%s} __attribute__((packed)) %s;\n"
                    "_Static_assert(sizeof(%s) %% 8 == 0 && sizeof(%s) == offsetof(%s, buffer) + PACKET_LENGTH_MAX, "
                    "\"verif layout\");" % (rest, pad, MEMBER, tname, tname, tname, tname))
        return STRUCT_PAT.sub(sub, text)
    return tr


class Rig:
    """The sanitizer build, its environment, and the subprocess runner."""

    def __init__(self, check, transform=True):
        self.check = check
        hits = []
        if not transform:
            # second rig: the layout as written (the last member of each object ends the malloc'ed block, so an access past
            # `zero` / `nonce` leaves it - the transformed layout hides that behind the relocated scratch)
            self.root = overlay.build(os.path.join(check.work, "plain-layout"), sanitize=True)
            hits = None
        else:
          try:
            self.root = overlay.build(check.work, sanitize=True, transform=make_transform(hits))
          except MachineryError:
            if not hits:
                raise          # the untouched source does not compile either
            hits = None        # the transformed source does not compile: plain sanitizer build
            self.root = overlay.build(check.work, sanitize=True)
        self.transformed = sorted(set(hits or []))
        if transform:
          check.cov["scratch_transform"] = (
            "applied to " + " and ".join(self.transformed) if len(self.transformed) == 2 else
            "PATTERN NOT FOUND for %s: (partly) untransformed sanitizer build -- an overflow of that scratch into "
            "neighbouring members is then visible to the access model only"
            % sorted({"AEADObject", "HeaderProtectionObject"} - set(self.transformed)))
        self.shim = os.path.join(check.work, "c04_shim.so" if transform else "c04_shim_plain.so")
        r = subprocess.run(["clang", "-O1", "-g", "-fsanitize=address", "-fno-omit-frame-pointer", "-fPIC", "-shared",
                            SHIM_C, "-o", self.shim, "-lcrypto", "-ldl"], capture_output=True, text=True)
        if r.returncode != 0:
            raise MachineryError("shim build failed: " + r.stderr[-1500:])
        env = overlay.asan_env()
        if not os.path.exists(env["LD_PRELOAD"]):
            raise MachineryError("asan runtime not found: " + env["LD_PRELOAD"])
        env["LD_PRELOAD"] = env["LD_PRELOAD"] + " " + self.shim
        env["PYTHONPATH"] = self.root
        env["PYTHONHASHSEED"] = "0"
        env["PYTHONDONTWRITEBYTECODE"] = "1"
        env["C04_CERTS"] = os.path.join(overlay.REPO, "tests")
        env["ASAN_OPTIONS"] += ":symbolize=0:allocator_may_return_null=1"
        env["UBSAN_OPTIONS"] += ":symbolize=0"
        self.symtabs = {n: symbol_table(os.path.join(self.root, "aioquic", n + ".abi3.so")) for n in ("_crypto", "_buffer")}
        if not any(n == "HeaderProtection_remove" for _o, n in self.symtabs["_crypto"]):
            raise MachineryError("no symbols in the sanitizer build of _crypto")
        self.env = env
        self.lock = threading.Lock()
        self.deaths = 0
        self.setup_reports = []
        self.layout = "scratch-last" if transform else "as-written"
        self.canary()

    def canary(self):
        """The sanitizer must be live in the subprocess: a deliberate heap
        over-read of a malloc'ed block (through ctypes) has to be reported."""
        code = ("import ctypes, aioquic._crypto, aioquic._buffer\n"
                "b = ctypes.create_string_buffer(8)\n"
                "ctypes.string_at(ctypes.addressof(b), 4096)\n")
        p = subprocess.run([PY, "-c", code], env=self.env, capture_output=True, text=True, timeout=120)
        if "AddressSanitizer" not in p.stderr:
            raise MachineryError("sanitizer canary was not reported (rc=%s): %s" % (p.returncode, p.stderr[-800:]))
        if not os.path.realpath(self.root):
            raise MachineryError("no overlay")

    def run_chunk(self, jobs, tag):
        """Run the jobs in one subprocess, restarting after the job in which
        the process died.  Returns the list of records (with synthetic "death"
        records)."""
        jf = os.path.join(self.check.work, "jobs-%s.json" % tag)
        of = os.path.join(self.check.work, "out-%s.ndjson" % tag)
        with open(jf, "w") as f:
            json.dump(jobs, f)
        open(of, "w").close()
        start, guard = 0, 0
        while start < len(jobs):
            guard += 1
            if guard > 3:
                raise MachineryError("worker restart loop on " + tag)
            try:
                p = subprocess.run([PY, WORKER, jf, of, str(start), str(self.check.seed)], env=self.env,
                                   capture_output=True, text=True, timeout=1500, errors="replace")
            except subprocess.TimeoutExpired:
                raise MachineryError("sanitizer worker timed out on " + tag)
            recs = [json.loads(x) for x in open(of) if x.strip()]
            if recs and recs[-1].get("ev") == "end" and p.returncode == 0:
                break
            # the worker runs every job in a forked child and should itself never die - unless the sanitizer stops it inside
            # the helpers while it prepares its keys (a report with a frame of _crypto.c / _buffer.c is a finding, not a failure)
            san = classify(p.stderr, self.symtabs)
            if san and not san.endswith(":?"):
                with self.lock:
                    self.setup_reports.append({"tag": tag, "san": san, "report": report_excerpt(p.stderr), "layout": self.layout})
                    self.deaths += 1
                recs = [r for r in recs if r.get("ev") not in ("b",)]
                break
            raise MachineryError("sanitizer worker failed outside the code under check (rc=%s) on %s:\n%s"
                                 % (p.returncode, tag, p.stderr[-3000:]))
        out = []
        for r in recs:
            if r.get("ev") == "death":
                err = r.pop("stderr")
                san = classify(err, self.symtabs)
                if "WORKER-ERROR" in err or (san == "" and r["rc"] >= 0):
                    raise MachineryError("worker job %s of %s failed outside the code under check (rc=%s):\n%s"
                                         % (r["job"], tag, r["rc"], err[-3000:]))
                r.update(san=san, sig=-r["rc"] if r["rc"] < 0 else 0, report=report_excerpt(err))
                with self.lock:
                    self.deaths += 1
            out.append(r)
        os.unlink(jf)
        os.unlink(of)
        return out


def symbol_table(so):
    """Sorted (offset, function) of a shared object: reports are not symbolized
    (llvm-symbolizer costs seconds per report), frames are mapped here."""
    p = subprocess.run(["nm", "--defined-only", "-n", so], capture_output=True, text=True)
    tab = []
    for ln in p.stdout.splitlines():
        f = ln.split()
        if len(f) == 3 and f[1] in "tT" and re.match(r"^[A-Za-z_]\w*$", f[2]):
            tab.append((int(f[0], 16), f[2]))
    return tab


def lookup(tab, off):
    name = "?"
    for o, n in tab:
        if o > off:
            break
        name = n
    return name


def classify(stderr, symtabs=None):
    """Project a sanitizer report to <kind>:<READ|WRITE|->:<innermost function of _crypto.c/_buffer.c>."""
    kind, rw = "", "-"
    m = re.search(r"ERROR: AddressSanitizer: ([\w-]+)", stderr)
    if m:
        kind = m.group(1)
        m2 = re.search(r"^(READ|WRITE) of size", stderr, re.M)
        rw = m2.group(1) if m2 else "-"
    else:
        m = re.search(r"runtime error: ([^\n]+)", stderr)
        if m:
            kind = "ubsan:" + re.sub(r"-?\d+", "N", m.group(1)).replace(" ", "-")[:60]
        elif "Sanitizer" in stderr:
            kind = "sanitizer:other"
    if not kind:
        return ""
    func = "?"
    f = re.search(r" in (\w+) [^\n]*/_(?:crypto|buffer)\.c:\d+", stderr)
    if f:
        func = f.group(1)
    else:
        f = re.search(r"\(\S*/(_crypto|_buffer)\.abi3\.so\+0x([0-9a-f]+)\)", stderr)
        if f and symtabs:
            func = lookup(symtabs.get(f.group(1), []), int(f.group(2), 16))
    return "%s:%s:%s" % (kind, rw, func)


def report_excerpt(stderr):
    keep = [ln for ln in stderr.splitlines() if re.search(r"ERROR: |runtime error|^(READ|WRITE) of|_crypto\.|_buffer\.|"
                                                          r"is located|c04_shim", ln)]
    return [k[:200] for k in keep[:10]]


# ---------------------------------------------------------------------------------------------------
# records -> lines

def crypto_lines(recs, jobs, tag):
    """Pair "b"/"e" records; a death closes the open call as out = "died"."""
    lines, pending, last_b = [], None, None
    for r in recs:
        ev = r.get("ev")
        if ev == "b" and not r["ep"].startswith("Buffer."):
            pending = last_b = r
        elif ev == "e" and pending is not None:
            lines.append(mk_line(pending, r["out"], r["exc"], "", 0, r["usable"], r["pn"], tag))
            pending = None
        elif ev == "death":
            b = pending or last_b
            if b is None or b["job"] != r["job"]:
                raise MachineryError("worker died in job %s of %s outside any call of the helpers: %s"
                                     % (r["job"], tag, r))
            ln = mk_line(b, "died", "", r["san"], r["sig"], -1, b["pn"], tag)
            ln["report"] = r["report"]
            ln["after_call"] = int(pending is None)
            lines.append(ln)
            pending = None
    return lines


def mk_line(b, out, exc, san, sig, usable, pn, tag):
    return {"ep": b["ep"], "x": b["x"], "y": b["y"], "pn": pn, "src": b["src"], "out": out, "exc": exc,
            "san": san, "sig": sig, "usable": usable, "job": b["job"], "tag": tag}


def buffer_lines(recs, tag):
    lines, pending = [], None
    for r in recs:
        ev = r.get("ev")
        if ev == "b" and r["ep"].startswith("Buffer."):
            pending = r
        elif ev == "e" and pending is not None:
            lines.append(mk_bline(pending, r["out"], r["pos2"], r["cap2"], "", 0, r["usable"], 0, tag))
            pending = None
        elif ev == "death":
            if pending is None:
                raise MachineryError("buffer worker died outside a Buffer call: %s" % r)
            ln = mk_bline(pending, {"kind": "died", "ret": -1}, -1, -1, r["san"], r["sig"], -1, 1, tag)
            ln["report"] = r["report"]
            lines.append(ln)
            pending = None
    return lines


def mk_bline(b, out, pos2, cap2, san, sig, usable, died, tag):
    return {"m": b["m"], "cap": b["cap"], "pos": b["pos"], "lead": b["lead"], "a": b["a"], "b": b["b"], "n": b["n"],
            "out": out, "pos2": pos2, "cap2": cap2, "san": san, "sig": sig, "usable": usable, "died": died,
            "argv": b["argv"], "job": b["job"], "tag": tag}


# ---------------------------------------------------------------------------------------------------
# (M)

def memsafe_cfg(n, scratch, minmds, stride, phase, full, emit=True, pns="{1, 2, 3, 4}"):
    return ("SPECIFICATION Spec\nCONSTANTS Scratch = %d\nN = %d\nMaxDatagram = %d\nMinMds = %d\nPns = %s\n"
            "Stride = %d\nPhase = %d\nFull = %s\nINVARIANT Sweep\nINVARIANT FitsIsInBounds\nINVARIANT OffLemma\n"
            % (scratch, n, MAXDG, minmds, pns, stride, phase, full) + ("INVARIANT Emit\n" if emit else ""))


TRACE_CONSTANTS = ("CONSTANTS Scratch = %d\nN = 8\nMaxDatagram = %d\nMinMds = %d\nPns = {2}\nStride = 1\nPhase = 0\nFull = FALSE"
                   % (SCRATCH, MAXDG, MINMDS))
BUF_TRACE_CONSTANTS = "CONSTANTS MaxCap = 4\nMaxDepth = 1"


def tlc_bg(check, module, cfg, name, workers):
    """TLC from a background thread; the bookkeeping of Check.run_tlc is done by account() in the main thread."""
    return (module, name, tlc.run(module, cfg, os.path.join(check.work, "tlc"), name=name, workers=workers, timeout=1500))


def account(check, res):
    module, name, r = res
    check.cov["states"] += r.distinct
    check.cov["transitions"] += r.generated
    check.cov["tlc_runs"].append(dict(r.summary(), module=module, name=name))
    return r


def model_fails(check, r, what):
    fails = [tlc.parse_tuple_line(p) for p in r.prints if p.startswith('<<"FAIL"')]
    if r.violated or fails:
        check.violation("model:%s:%s" % (what, fails[0][1] if fails else r.violated),
                        {"kind": "model", "violated": r.violated, "failing_calls": fails[:10],
                         "trace": r.error_trace[-3:]})


def model_results(check, sweep, small, buf, out):
    """(M): the real-scale sweep; the comparison of the flat arithmetic with the
    range records on EVERY call of a scaled-down instance (scratch 48, lengths
    0..N2: all thresholds inside); the Buffer model."""
    r = account(check, sweep)
    model_fails(check, r, "MemSafe")
    out["near"] = [tlc.parse_tuple_line(p) for p in r.prints if p.startswith('<<"NEAR"')]
    out["calls_swept"] = (NMAX + 1) * (r.distinct - 4 * (NMAX + 1) - 2 * (NMAX + 1)) + 2 * 4 * (NMAX + 1)
    check.cov["memsafe_sweep"] = {"row_states": r.distinct - 4 * (NMAX + 1), "calls_per_row": NMAX + 1,
                                  "calls_evaluated_by_TLC": out["calls_swept"], "threshold_calls_printed": len(out["near"])}
    model_fails(check, account(check, small), "MemSafe(range-records)")
    rb = account(check, buf)
    if rb.violated:
        check.model_violation(rb, "BufferModel")


# ---------------------------------------------------------------------------------------------------
# job generation

def near_jobs(near, rnd):
    jobs = []
    for t in near:
        _, ep, x, y, pn = t[:5]
        j = {"k": "crypto", "ep": ep, "x": x, "y": y, "pn": pn, "cipher": rnd.choice([0, 0, 1, 2]), "origin": "threshold"}
        if ep == "HP_remove":
            j["long"] = rnd.randint(0, 1)
        if ep == "AEAD_decrypt":
            j["valid"] = 1
            jobs.append(dict(j, valid=0))
        jobs.append(j)
    return jobs


def sample_jobs(rnd, n):
    """Seeded sample of calls the callers can make, away from the thresholds
    (including large datagrams / tokens)."""
    jobs = []
    for _ in range(n):
        ep = rnd.choice(["HP_remove", "HP_remove", "HP_apply", "AEAD_encrypt", "AEAD_decrypt"])
        big = rnd.random() < 0.25
        top = MAXDG if big else NMAX
        if ep == "HP_remove":
            y = rnd.randint(1, top if rnd.random() < 0.3 else 60)
            x = min(MAXDG, y + rnd.choice([0, 1, 3, 4, 5, 19, 20, 21, rnd.randint(0, 64), rnd.randint(0, top)]))
            j = {"ep": ep, "x": x, "y": y, "pn": 4, "long": rnd.randint(0, 1)}
        elif ep == "HP_apply":
            x = rnd.randint(3, 80) if rnd.random() < 0.8 else rnd.randint(3, top - 40)
            y = rnd.randint(18, max(18, min(top, MAXDG - x) - 0))
            if x + y > MAXDG:
                y = MAXDG - x
            j = {"ep": ep, "x": x, "y": y, "pn": 2}
        elif ep == "AEAD_encrypt":
            y = rnd.randint(3, 80) if rnd.random() < 0.8 else rnd.randint(3, top - 40)
            x = rnd.randint(2, max(2, min(top, MAXDG - y - 16)))
            j = {"ep": ep, "x": x, "y": y, "pn": 0}
        else:
            y = rnd.randint(2, 80) if rnd.random() < 0.8 else rnd.randint(2, top - 40)
            x = rnd.randint(0, max(0, min(top, MAXDG - y)))
            j = {"ep": ep, "x": x, "y": y, "pn": 0, "valid": rnd.randint(0, 1)}
        jobs.append(dict(j, k="crypto", cipher=rnd.choice([0, 1, 2]), origin="sample"))
    return jobs


BIG = {"2^31": 2 ** 31, "2^32-1": 2 ** 32 - 1, "2^32": 2 ** 32, "2^64": 2 ** 64, "2^64+5": 2 ** 64 + 5, "2^62-1": 2 ** 62 - 1, "2^62": 2 ** 62, "2^63-1": 2 ** 63 - 1, "2^63": 2 ** 63,
       "-2^63": -2 ** 63, "-2^63-1": -2 ** 63 - 1, "2^64-1": 2 ** 64 - 1}
NOARG = ["tell", "eof", "capacity", "data", "pull_uint8", "pull_uint16", "pull_uint32", "pull_uint64", "pull_uint_var"]
PUSHFIX = ["push_uint8", "push_uint16", "push_uint32", "push_uint64"]


def int_args(cap):
    return sorted({-1, 0, 1, 2, cap - 1, cap, cap + 1, 63, 64, 255, 256, 16383, 16384, 65535, 65536}) + list(BIG.values())


def buffer_alphabet(cap):
    calls = [{"m": m} for m in NOARG]
    for m in PUSHFIX + ["seek", "pull_bytes", "push_uint_var"]:
        calls += [{"m": m, "args": [v]} for v in int_args(cap)]
    calls += [{"m": "data_slice", "args": [a, b]} for a in int_args(cap) for b in int_args(cap)]
    calls += [{"m": "push_bytes", "args": [n]} for n in sorted({0, 1, 2, cap - 1, cap, cap + 1, 9}) if n >= 0]
    return calls


def buffer_jobs(rnd, quick):
    """The whole one-step closure: every (cap, pos, leading bits at pos) x every
    call of the alphabet on a fresh Buffer; plus seeded method sequences."""
    jobs = []
    for cap in range(0, 5):
        for pos in range(0, cap + 1):
            leads = [0, 1, 2, 3] if pos < cap else [0]
            for lead in leads:
                content = [rnd.randrange(256) for _ in range(cap)]
                if pos < cap:
                    content[pos] = (lead << 6) | rnd.randrange(64)
                calls = [c for c in buffer_alphabet(cap) if not lead or c["m"] == "pull_uint_var"]
                jobs.append({"k": "buf", "cap": cap, "content": content, "pos": pos, "calls": calls, "fresh": 1})
    for v in (0, 1, 4, 1200, 65536, -1, -2, -2 ** 31, -2 ** 63, -2 ** 63 - 1, 2 ** 47, 2 ** 62, 2 ** 63 - 1, 2 ** 63, 2 ** 64):
        jobs.append({"k": "bufnew", "capacity": v})
    for v in (0, 1, 4, 9, 10, 11, 64, -1):                # capacity and initial contents in one call
        for nd in (1, 10, 4096):
            jobs.append({"k": "bufnew", "capacity": v, "data": nd})
    for _ in range(150 if quick else 1500):
        cap = rnd.choice([0, 1, 2, 3, 4, 4, 8, 9, 16, 64, 1200])
        alpha = buffer_alphabet(cap)
        calls = [rnd.choice(alpha) for _ in range(rnd.choice([4, 4, 8, 16]))]
        job = {"k": "buf", "cap": cap, "pos": 0, "calls": calls}
        if rnd.random() < 0.5:
            job["content"] = [rnd.choice([0x00, 0x40, 0x80, 0xC0]) | rnd.randrange(64) for _ in range(cap)]
        jobs.append(job)
    return jobs


def session_jobs(rnd, quick):
    mds = [1200, 1452, 1500, 1501, 1512, 1600, 9000] if quick else \
          [1200, 1201, 1280, 1350, 1452, 1472, 1499, 1500, 1501, 1505, 1511, 1512, 1520, 1527, 1528, 1600, 2000,
           4096, 9000, 16384, 65527]
    jobs = []
    for i, m in enumerate(mds):
        jobs.append({"k": "session", "mds_c": m, "mds_s": m, "nbytes": 60000 if quick else 200000, "seed": i,
                     "suite": [None, "CHACHA20_POLY1305_SHA256", "AES_256_GCM_SHA384"][i % 3],
                     "key_update": i % 2})
    extra = 2 if quick else 8
    for i in range(extra):
        a, b = rnd.randint(1200, 1700), rnd.randint(1200, 1700)
        jobs.append({"k": "session", "mds_c": a, "mds_s": b, "nbytes": 40000, "seed": 100 + i, "suite": None,
                     "key_update": 0})
    return jobs


def hostile_jobs(rnd, quick):
    jobs = []
    lens = list(range(0, 65)) if not quick else [0, 1, 2, 8, 9, 10, 12, 13, 14, 20, 24, 27, 28, 29, 30, 31, 33, 48, 64]
    # short-header packets of every small length into an established server / client
    for n in lens:
        jobs.append({"k": "hostile", "target": "server-1rtt", "dgrams": [{"form": "short", "len": n, "salt": n}]})
    for n in (lens if not quick else [9, 12, 13, 28, 29, 30]):
        jobs.append({"k": "hostile", "target": "client-1rtt",
                     "dgrams": [{"form": "short", "len": n, "use_cid": True, "salt": n}]})
    # INITIAL with a small length field, padded to 1200, into a fresh server; every varint size
    rests = list(range(0, 26)) if not quick else [0, 1, 3, 4, 5, 16, 19, 20, 21, 24]
    for r in rests:
        for lv in ((1, 2, 4, 8) if (not quick or r in (0, 4, 19, 20)) else (2,)):
            jobs.append({"k": "hostile", "target": "server-fresh",
                         "dgrams": [{"form": "initial", "rest": r, "lv": lv, "pad_to": 1200, "use_cid": False}]})
    # claimed length longer than what is there / exactly to the end
    for r, present in ((40, 10), (1150, 1150), (60, 60)):
        jobs.append({"k": "hostile", "target": "server-fresh",
                     "dgrams": [{"form": "initial", "rest": r, "present": present, "lv": 2, "pad_to": 1200, "use_cid": False}]})
    # huge token: the protected field starts beyond the scratch
    toks = [1400, 1470, 1476, 1477, 1478, 1480, 1500, 3000, 60000] if not quick else [1470, 1477, 1478, 3000, 60000]
    for t in toks:
        jobs.append({"k": "hostile", "target": "server-fresh",
                     "dgrams": [{"form": "initial", "token": t, "tv": 2 if t < 16384 else 4, "rest": 64, "lv": 2,
                                 "pad_to": 1200, "use_cid": False}]})
    # long-header packets into clients that hold initial / handshake keys
    for r in ([0, 3, 4, 19, 20, 40] if quick else list(range(0, 24)) + [40, 200]):
        jobs.append({"k": "hostile", "target": "client-handshake",
                     "dgrams": [{"form": "handshake", "rest": r, "lv": rnd.choice([1, 2, 4])}]})
        jobs.append({"k": "hostile", "target": "client-initial",
                     "dgrams": [{"form": "initial", "rest": r, "lv": 2}]})
    # well-formed sizes: several datagrams into one connection (nothing should die)
    jobs.append({"k": "hostile", "target": "server-1rtt",
                 "dgrams": [{"form": "short", "len": n, "salt": n} for n in (29, 30, 64, 200, 1200, 1500, 1516, 1517, 1600, 9000, 65535)]})
    jobs.append({"k": "hostile", "target": "server-1rtt", "cid_len": 20,
                 "dgrams": [{"form": "short", "len": n, "salt": n} for n in (41, 42, 100)]})
    return jobs


# ---------------------------------------------------------------------------------------------------
# judging

def dedupe(lines, keyf):
    seen, out = {}, []
    for ln in lines:
        k = keyf(ln)
        if k in seen:
            seen[k]["count"] += 1
        else:
            ln["count"] = 1
            seen[k] = ln
            out.append(ln)
    return out


def crypto_key(ln):
    return (ln["ep"], ln["x"], ln["y"], ln["pn"], ln["src"], ln["out"], ln["exc"], ln["san"], ln["sig"], ln["usable"])


def judge_crypto(check, lines, jobmap, name):
    distinct = dedupe(lines, crypto_key)
    slim = [{k: v for k, v in ln.items() if k in ("ep", "x", "y", "pn", "src", "out", "exc", "san", "sig", "usable")}
            for ln in distinct]
    fails = trace.validate(check, "TraceMemSafe", slim, constants=TRACE_CONSTANTS, name=name)
    for i, clause in fails:
        ln = distinct[i]
        detail = {"clause": clause, "line": {k: v for k, v in ln.items() if k not in ("tag",)},
                  "job": jobmap.get((ln["tag"], ln["job"]))}
        if clause == "harness-guard":
            raise MachineryError("the harness made a call the callers cannot make: %s" % ln)
        if clause.startswith("model:"):
            check.drift("memsafe:%s:%s:%s:%s" % (ln["ep"], clause, ln["src"], ln["out"]), detail)
        elif clause.startswith("bound:"):
            check.violation("memsafe:%s:%s" % (ln["ep"], clause[6:]), detail)
        elif clause in ("sanitizer", "crash") and ln.get("after_call"):
            # the process died in the library between two calls of the crypto helpers (e.g. inside _buffer.c)
            check.violation("memsafe:outside-crypto-call:%s:signal=%s" % (ln["san"] or "no-report", ln["sig"]), detail)
        elif clause == "sanitizer":
            check.violation("memsafe:%s:sanitizer-inside-modelled-bounds:%s" % (ln["ep"], ln["san"]), detail)
        elif clause == "crash":
            check.violation("memsafe:%s:crash:signal=%s" % (ln["ep"], ln["sig"]), detail)
        else:
            check.violation("memsafe:%s:%s-after-%s" % (ln["ep"], clause, ln["out"]), detail)
    return distinct


def buf_key(ln):
    return (ln["m"], ln["cap"], ln["pos"], ln["lead"], tuple(ln["argv"]), ln["n"], json.dumps(ln["out"]), ln["pos2"],
            ln["san"], ln["died"])


def judge_buffer(check, lines, jobmap, name):
    distinct = dedupe(lines, buf_key)
    slim = [{k: v for k, v in ln.items() if k in ("m", "cap", "pos", "lead", "a", "b", "n", "out", "pos2", "cap2", "san",
                                                   "sig", "usable", "died")} for ln in distinct]
    fails = trace.validate(check, "TraceBufferModel", slim, constants=BUF_TRACE_CONSTANTS, name=name)
    for i, clause in fails:
        ln = distinct[i]
        detail = {"clause": clause, "line": {k: v for k, v in ln.items() if k not in ("tag", "a", "b")},
                  "job": jobmap.get((ln["tag"], ln["job"]))}
        argclass = "/".join("big" if abs(int(a)) >= 2 ** 31 else ("neg" if int(a) < 0 else "small") for a in ln["argv"])
        if clause == "harness-guard":
            raise MachineryError("Buffer call outside the modelled alphabet: %s" % ln)
        if clause.startswith("model:"):
            check.drift("buffer:%s:%s:args=%s:out=%s" % (ln["m"], clause, argclass, ln["out"]["kind"]), detail)
        else:
            check.violation("buffer:%s:%s%s:args=%s" % (ln["m"], clause, (":" + ln["san"]) if ln["san"] else "", argclass),
                            detail)
    return distinct


# ---------------------------------------------------------------------------------------------------

def chunks(jobs, n):
    n = max(1, n)
    size = (len(jobs) + n - 1) // n
    return [jobs[i:i + size] for i in range(0, len(jobs), size)] if jobs else []


def number(jobs):
    for i, j in enumerate(jobs):
        j["i"] = i
    return jobs


def replay(check, rig):
    d = json.load(open(check.replay))["detail"]
    if d.get("kind") == "model" or not d.get("job"):
        raise MachineryError("replay of a design-level counterexample: run the check itself")
    job = d["job"]
    recs = rig.run_chunk(number([job]), "replay")
    jobmap = {("replay", 0): job}
    if job["k"] in ("buf", "bufnew"):
        lines = buffer_lines(recs, "replay")
        judge_buffer(check, lines, jobmap, "replay_buf")
    else:
        lines = crypto_lines(recs, [job], "replay")
        judge_crypto(check, lines, jobmap, "replay_crypto")
    if not lines:
        raise MachineryError("replayed job made no call")
    check.count(repr(job), nontrivial=True, evaluations=len(lines))
    check.sample({"replayed_job": job, "calls": len(lines),
                  "last": {k: v for k, v in lines[-1].items() if k not in ("a", "b")}})
    check.cov["traces_validated_against_impl"] += 1
    check.cov["rule"] = "replay of one recorded job in the sanitizer build; every call of it judged by TLC"


def run(check):
    check.build_overlay()
    rig = Rig(check)
    if check.replay:
        return replay(check, rig)
    rnd = random.Random(check.seed)
    quick = check.quick

    m = {}
    stride = 389 if quick else 61
    n2 = 96 if quick else 300
    with ThreadPoolExecutor(max_workers=15) as pool:
        # (M) runs in the background while the jobs that do not depend on it execute
        f_sweep = pool.submit(tlc_bg, check, "MemSafe",
                              memsafe_cfg(NMAX, SCRATCH, MINMDS, stride, check.seed % stride, "FALSE",
                                          pns="{2}" if quick else "{1, 2, 3, 4}"), "MemSafe_sweep", 8)
        f_small = pool.submit(tlc_bg, check, "MemSafe", memsafe_cfg(n2, 48, 40, 1, 0, "TRUE", emit=False),
                              "MemSafe_range_records", 4)
        f_buf = pool.submit(tlc_bg, check, "BufferModel",
                            "SPECIFICATION Spec\nCONSTANTS MaxCap = 4\nMaxDepth = %d\nINVARIANT TypeOk\nINVARIANT AllSteps\n"
                            % (4 if quick else 6), "BufferModel_M", 2)
        sess = number(session_jobs(rnd, quick))
        host = number(hostile_jobs(rnd, quick))
        bufs = number(buffer_jobs(rnd, quick))
        # a death costs one fork inside the worker, so jobs can share processes (and the import of the library)
        sess.sort(key=lambda j: -j["nbytes"])
        groups = [("sess%d" % i, sess[i::6]) for i in range(min(6, len(sess)))]
        groups += [("host%d" % i, c) for i, c in enumerate(chunks(host, 5))]
        groups += [("buf%d" % i, c) for i, c in enumerate(chunks(bufs, 3))]
        jobsof = dict(groups)
        futs = {tag: pool.submit(rig.run_chunk, jobs, tag) for tag, jobs in groups}
        # the same library-made calls once more on the layout as written: one session per cipher suite (the smallest ones)
        rig2 = Rig(check, transform=False)
        small = {}
        for j in sorted(sess, key=lambda j: j["nbytes"]):
            small.setdefault(j.get("suite"), j)
        pgroups = [("sessplain%d" % i, [dict(j)]) for i, j in enumerate(small.values())]
        for tag, jobs in pgroups:
            jobs[:] = number(jobs)
        jobsof.update(pgroups)
        futs.update({tag: pool.submit(rig2.run_chunk, jobs, tag) for tag, jobs in pgroups})
        model_results(check, f_sweep.result(), f_small.result(), f_buf.result(), m)
        direct = number(near_jobs(m["near"], rnd) + sample_jobs(rnd, 300 if quick else 3000))
        dgroups = [("direct%d" % i, c) for i, c in enumerate(chunks(direct, 10))]
        jobsof.update(dgroups)
        futs.update({tag: pool.submit(rig.run_chunk, jobs, tag) for tag, jobs in dgroups})
        pdirect = [("directplain0", number([dict(j) for j in direct[::max(1, len(direct) // 120)]]))]
        jobsof.update(pdirect)
        futs.update({tag: pool.submit(rig2.run_chunk, jobs, tag) for tag, jobs in pdirect})
        recs = {tag: f.result() for tag, f in futs.items()}

    for rep in rig.setup_reports + rig2.setup_reports:
        kind, rw, func = (rep["san"].split(":") + ["", ""])[:3]
        check.violation("memsafe:%s:sanitizer:%s:%s:worker-process:layout=%s" % (func, kind, rw, rep["layout"]),
                        {"kind": "sanitizer report while the worker prepared its objects", "detail": rep})
    jobmap = {}
    for tag, jobs in jobsof.items():
        for k, j in enumerate(jobs):
            jobmap[(tag, k)] = j
    clines, blines = [], []
    # library-made calls first: the recorded instance of a violation then shows how the library reaches it
    for tag in sorted(recs, key=lambda t: (t.startswith("direct"), t.startswith("sess"), t)):
        rs = recs[tag]
        if tag.startswith("buf"):
            blines += buffer_lines(rs, tag)
        else:
            clines += crypto_lines(rs, jobsof[tag], tag)
            if any(r.get("ev") == "b" and r["ep"].startswith("Buffer.") for r in rs):
                raise MachineryError("unexpected Buffer record in " + tag)

    # sessions / hostile summaries (evidence only)
    sessions = [r for rs in recs.values() for r in rs if r.get("ev") == "session"]
    apiexc = {}
    for rs in recs.values():
        for r in rs:
            if r.get("ev") == "api-exc":
                k = "%s:%s" % (r["fn"], r["type"])
                apiexc[k] = apiexc.get(k, 0) + 1
    check.cov["sessions"] = [{k: s[k] for k in ("mds_c", "mds_s", "handshake", "rx_c", "rx_s", "api_exc")} for s in sessions]
    check.cov["sessions_started"] = len(sess)
    check.cov["hostile_datagrams"] = sum(len(j["dgrams"]) for j in host)
    check.cov["api_exceptions_seen_(not_judged_here)"] = apiexc
    check.cov["sanitizer_process_deaths"] = rig.deaths + rig2.deaths
    check.cov["second_rig_layout_as_written"] = {"sessions": len(pgroups), "direct_calls": len(pdirect[0][1])}

    dc = judge_crypto(check, clines, jobmap, "TraceMemSafe_RV")
    db = judge_buffer(check, blines, jobmap, "TraceBufferModel_R")

    by_src = {}
    for ln in clines:
        k = "%s/%s/%s" % (ln["src"], ln["ep"], ln["out"])
        by_src[k] = by_src.get(k, 0) + 1
    check.cov["crypto_calls_by_source_entry_outcome"] = by_src
    check.cov["buffer_calls"] = len(blines)
    check.cov["direct_threshold_calls"] = sum(1 for j in direct if j["origin"] == "threshold")
    check.cov["direct_sample_calls"] = sum(1 for j in direct if j["origin"] == "sample")
    near_keys = {(t[1], t[2], t[3], t[4]) for t in m["near"]}
    for ln in dc:
        check.count(("c",) + crypto_key(ln), evaluations=ln["count"],
                    nontrivial=(ln["ep"], ln["x"], ln["y"], ln["pn"]) in near_keys or ln["out"] != "accepted"
                    or ln["src"] != "direct")
    for ln in db:
        check.count(("b",) + buf_key(ln), evaluations=ln["count"],
                    nontrivial=ln["out"]["kind"] != "ok" or ln["m"] not in ("tell", "eof", "capacity"))
    check.cov["evaluations"] += m.get("calls_swept", 0)
    check.cov["traces_validated_against_impl"] += len(recs)
    for ln in (dc[:1] + [x for x in dc if x["src"] == "session"][:1] + [x for x in dc if x["src"] == "hostile"][:2]
               + [x for x in dc if x["out"] == "died"][:1]):
        check.sample({k: v for k, v in ln.items() if k not in ("tag",)})
    if db:
        check.sample({k: v for k, v in db[len(db) // 2].items() if k not in ("tag", "a", "b")})
    check.cov["rule"] = (
        "a case = one executed call of a C entry point in the sanitizer build, distinct by (entry point, argument lengths/"
        "offset/pn, source, outcome).  Non-trivial = a call at a threshold TLC printed (a bound or guard of the access "
        "model within one of flipping), any rejected/died call, any call made by the library itself in a session or "
        "on a hostile datagram; for Buffer any call other than an accepted tell/eof/capacity.  'evaluations' also "
        "counts the calls TLC evaluated in the real-scale sweep.")
    check.cov["trusted_base"] = [
        "TLC 1.8", "clang ASan+UBSan runtime and the shadow query __asan_region_is_poisoned",
        "harness/c04_shim.c (interposes EVP_CipherUpdate / EVP_CipherInit_ex / EVP_CIPHER_CTX_ctrl to check the ranges "
        "handed to libcrypto)", "the mechanical struct transform (scratch moved to the end of its object)",
        "OpenSSL internals; CPython argument parsing", "the transcription of _crypto.c / _buffer.c in MemSafe.tla / "
        "BufferModel.tla (tied to the code by the sanitizer runs at every threshold)"]
    check.assumptions += [
        "a bytes argument's extent is its length (CPython's trailing NUL is not counted as addressable)",
        "user-space addresses are below 2^63 (pos + len does not wrap for len <= 2^63 - 1)",
        "Buffer capacities below 2^30; the constructor is exercised with capacities >= 0 only",
        "lengths/offsets 0..1700 exhaustively in TLC; larger ones (to 65535) by seeded samples and hostile datagrams",
        "exceptions leaving the library API during sessions (e.g. CryptoError for oversized packets) are recorded, not "
        "judged: C04 is about memory accesses"]
