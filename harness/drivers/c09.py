"""C09 - a live connection always has a timer, and closing always terminates.

(M) TLC explores Lifecycle.tla: all orders of start / receive / local close /
    transmit / peer close / timer firings at or after the deadline; invariants
    TimerAlways, TerminatesOnce, Deadline, NotOverdue and the liveness clause
    (closing ~> terminated under a fair timer).
(V) netsim scripts (C01 profiles extended with close() at arbitrary points by
    either side, during the handshake or after it, fatal protocol errors caused
    by a key-holding peer, peer closes in each packet number space, total
    blackouts until the idle timeout, late timers) on two real QuicConnections;
    after *every* API call the driver logs get_timer(); TLC judges the per-endpoint
    life-cycle trace with TraceLifecycle.
"""
import json
import random

from .. import trace
from ..netsim import hostile as H
from ..netsim import project, runner, script, sim
from ..overlay import MachineryError

_A = None
FATAL = [("1rtt", bytes([0x1f]), "unknown-frame-type"),
         ("1rtt", H.f_stream(3, 0, b"x"), "stream-frame-on-send-only-stream"),     # client->server on server-uni: wrong direction
         ("1rtt", H.f_max_streams(1 << 61), "max-streams-too-large"),
         ("1rtt", H.f_close(0x7, 0x08, b"go away"), "peer-close-1rtt"),
         ("1rtt", H.f_close(0x3, 0, b"app", app=True), "peer-app-close-1rtt"),
         ("handshake", H.f_close(0x128, 0x06, b"hs"), "peer-close-handshake"),
         ("initial", H.f_close(0x2, 0, b"refused"), "peer-close-initial"),
         ("handshake", H.f_stream(0, 0, b"x"), "stream-frame-in-handshake-packet")]


def job_fn(job):
    s = script.run(_A, job["cfg"], job["script"], seed=job["seed"], hs_adv=job["hs_adv"])
    causes = sorted({e["call"] for e in s.log if e["k"] == "api" and e["call"] == "close"} |
                    {"inject:" + e["tag"] for e in s.log if e["k"] == "inject"} |
                    ({"blackout"} if any(st[0] == "blackout" for st in job["script"]) else set()))
    term = sorted({(e["ep"], e["code"]) for e in s.log if e["k"] == "ev" and e["cls"] == "ConnectionTerminated"})
    return {"lines": project.lifecycle(s.log), "causes": causes, "terminated": term, "raised": s.raised[:3]}


def judge(check, jobs, results, name):
    lines, owner = [], []
    for ji, r in enumerate(results):
        for ln in r["lines"]:
            lines.append(ln)
            owner.append(ji)
    fails = trace.validate(check, "TraceLifecycle", lines, name=name, group_key=lambda ln: ln["ev"] == "init",
                           constants="CONSTANTS MaxTime = 0\nIdle = 0\nPto = 0")
    check.cov["traces_validated_against_impl"] += len(jobs)
    seen = set()
    for i, clause in fails:
        ji = owner[i]
        if (ji, clause) in seen:
            continue
        seen.add((ji, clause))
        res = results[ji]
        sig = "lifecycle:%s:cause=%s" % (clause, "+".join(c.split(":")[0] for c in res["causes"]) or "none")
        detail = {"clause": clause, "line": lines[i], "job": jobs[ji], "causes": res["causes"], "raised": res["raised"]}
        (check.drift if clause.startswith("model:") else check.violation)(sig, detail)


def make_jobs(check, rnd):
    jobs = []
    n = 8 if check.quick else 80
    for cc, ver in (("reno", "v1"), ("cubic", "v2"), ("reno", "v1->v2")):
        for prof in ("closing", "blackout", "mixed", "ptoclose"):
            for i in range(n):
                cfg = {"cc": cc, "version": ver, "idle": rnd.choice([60.0, 60.0, 5.0, 0.5])}
                if rnd.random() < 0.3:
                    cfg[rnd.choice(["c_idle", "s_idle"])] = rnd.choice([0.5, 2.0, 5.0])
                sc = script.random_script(rnd, rnd.choice([10, 30, 60]), script.PROFILES[prof])
                hs_adv = rnd.random() < 0.35
                if prof == "closing" and rnd.random() < 0.6:
                    pt, payload, tag = rnd.choice(FATAL)
                    src = rnd.choice("cs")
                    sc.insert(rnd.randrange(len(sc) + 1), ["inject", src, pt, payload.hex(), tag])
                jobs.append({"cfg": cfg, "script": sc, "seed": rnd.randrange(1 << 30), "hs_adv": hs_adv, "profile": prof})
    # corpus: every cause once, deterministically
    for pt, payload, tag in FATAL:
        for src in "cs":
            jobs.append({"cfg": {}, "script": [["write", "c", 0, 100, False], ["deliver", 0], ["inject", src, pt, payload.hex(), tag],
                                               ["write", "c", 0, 100, True], ["deliver", 0], ["deliver", 0]],
                         "seed": 7, "hs_adv": pt != "1rtt", "profile": "corpus-" + tag})
    jobs.append({"cfg": {"idle": 5.0}, "script": [["write", "c", 0, 3000, True], ["deliver", 0], ["blackout"]], "seed": 3,
                 "hs_adv": False, "profile": "corpus-blackout"})
    jobs.append({"cfg": {}, "script": [["close", "c", 0], ["blackout"]], "seed": 3, "hs_adv": True, "profile": "corpus-close-first-flight"})
    # the first datagram a server sees is damaged in transit / probes unanswered, then close
    jobs.append({"cfg": {}, "script": [["corrupt", 0, 700], ["timer", "s"], ["deliver", 0]], "seed": 5, "hs_adv": True,
                 "profile": "corpus-first-datagram-corrupt"})
    jobs.append({"cfg": {}, "script": [["corrupt", 0, 700], ["drop", 0], ["blackout"]], "seed": 5, "hs_adv": True,
                 "profile": "corpus-first-datagram-corrupt-blackout"})
    # the first datagram a server sees is cut short (dropped before the server initialises anything), then nothing / the rest
    for n in (1, 25, 600, 1199):
        jobs.append({"cfg": {"idle": 5.0}, "script": [["truncate", 0, n], ["drop", 0], ["blackout"]], "seed": 5, "hs_adv": True,
                     "profile": "corpus-first-datagram-cut-blackout"})
        jobs.append({"cfg": {}, "script": [["truncate", 0, n], ["deliver", 0], ["write", "c", 0, 100, True]], "seed": 5, "hs_adv": True,
                     "profile": "corpus-first-datagram-cut"})
    # the peer's close is in the very first packet an endpoint processes: a server that refuses at once (no common ALPN),
    # a client whose first flight was lost and which then closes
    jobs.append({"cfg": {"s_alpn": ["other"]}, "script": [["deliver", 0], ["deliver", 0], ["deliver", 0], ["timer", "c"], ["timer", "c"]],
                 "seed": 8, "hs_adv": True, "profile": "corpus-peer-close-first-packet-client"})
    jobs.append({"cfg": {}, "script": [["drop", 0], ["close", "c", 0], ["deliver", 0], ["timer", "s"], ["timer", "s"], ["timer", "s"]],
                 "seed": 8, "hs_adv": True, "profile": "corpus-peer-close-first-packet-server"})
    # the endpoints advertise different idle timeouts; the packet that brings the peer's transport parameters is the last one
    for small in ({"c_idle": 5.0, "idle": 60.0}, {"s_idle": 5.0, "idle": 60.0}):
        for smallcert in (False, True):
            jobs.append({"cfg": dict(small, smallcert=smallcert), "script": [["deliver", 0], ["deliver", 0], ["blackout"]],
                         "seed": 9, "hs_adv": True, "profile": "corpus-asymmetric-idle-blackout"})
            jobs.append({"cfg": dict(small, smallcert=smallcert), "script": [["deliver", 0], ["blackout"]],
                         "seed": 9, "hs_adv": True, "profile": "corpus-asymmetric-idle-blackout"})
    # the application closes a server that has only ever been handed a datagram it dropped before initialising
    for n in (7, 600):
        jobs.append({"cfg": {}, "script": [["truncate", 0, n], ["drop", 0], ["close", "s", 5], ["timer", "s"], ["timer", "s"], ["timer", "s"]],
                     "seed": 10, "hs_adv": True, "profile": "corpus-close-on-uninitialised-server"})
    for ep in "cs":
        jobs.append({"cfg": {}, "script": [["write", ep, 0 if ep == "c" else 3, 3000, False], ["drop", 0], ["drop", 0], ["drop", 0],
                                           ["timer", ep], ["drop", 0], ["timer", ep], ["drop", 0], ["timer", ep], ["drop", 0],
                                           ["close", ep, 0]],
                     "seed": 6, "hs_adv": False, "profile": "corpus-close-after-unanswered-probes"})
    jobs.append({"cfg": {}, "script": [["write", "s", 3, 5000, False], ["close", "s", 5], ["drop", 0], ["timer", "c"], ["timer", "s"]],
                 "seed": 4, "hs_adv": False, "profile": "corpus-close-lost"})
    return jobs


def run(check):
    global _A
    check.build_overlay()
    _A = sim.load_modules()
    if check.replay:
        d = json.load(open(check.replay))["detail"]
        if "job" not in d:
            raise MachineryError("replay of a design-level counterexample: run the check itself")
        res = [job_fn(d["job"])]
        judge(check, [d["job"]], res, "replay")
        check.count(repr(d["job"]), evaluations=len(res[0]["lines"]))
        check.sample({"replayed": d["job"]})
        check.cov["rule"] = "replay of one recorded script"
        return
    cfg = ("SPECIFICATION FairSpec\nCONSTANTS MaxTime = %d\nIdle = 4\nPto = 1\nINVARIANT TypeOk\nINVARIANT TimerAlways\n"
           "INVARIANT TerminatesOnce\nINVARIANT Deadline\nINVARIANT NotOverdue\nPROPERTY Terminates\n" % (9 if check.quick else 14))
    r = check.run_tlc("Lifecycle", cfg, name="Lifecycle_M", timeout=1800)
    if r.violated:
        check.model_violation(r, "Lifecycle")
    rnd = random.Random(check.seed)
    jobs = make_jobs(check, rnd)
    results = runner.run_many(job_fn, jobs)
    judge(check, jobs, results, "TraceLifecycle_V")
    for job, res in zip(jobs, results):
        check.count(repr(job), nontrivial=bool(res["causes"]) or bool(res["terminated"]), evaluations=len(res["lines"]))
    check.cov["causes_seen"] = sorted({c for r in results for c in r["causes"]})
    check.cov["termination_codes_seen"] = sorted({t[1] for r in results for t in r["terminated"]})
    check.cov["runs_with_api_exception"] = sum(1 for r in results if r["raised"])
    ex = next((r for r in results if r["terminated"]), results[0])
    check.sample({"script": jobs[results.index(ex)]["script"][:20], "trace_tail": ex["lines"][-12:]})
    check.cov["rule"] = ("one case = one script on two real connections; non-trivial = the trace contains a close/terminate cause "
                         "(application close by either side, fatal error or CONNECTION_CLOSE injected by a key-holding peer in "
                         "Initial/Handshake/1-RTT packets, blackout until the idle timeout); get_timer() is judged after every API call")
    check.cov["trusted_base"] = ["TLC 1.8", "netsim driver", "observer (frame types of packets sent after closing began)",
                                 "internal reads: _state (when closing began), _loss.get_probe_timeout() at that instant, _close_at"]
    check.assumptions += ["the caller fires the timer when asked (1 microsecond after the deadline, or later in 'late' steps) and "
                          "transmits after every call, as QuicConnectionProtocol does",
                          "no API call is made on an endpoint after it reported termination, except a final poll of next_event()"]
