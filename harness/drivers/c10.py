"""C10 - stream send and receive halves conform to a reference model.

(M) TLC explores StreamRecv / StreamSend / RangeSet exhaustively for a bound N
    and checks the property invariants.
(X) BFS over the *concrete* QuicStreamReceiver / QuicStreamSender / RangeSet
    objects under the module's finite alphabet, to closure; every concrete edge
    (abs(pre), call, output, abs(post)) is validated by TLC with the operators
    of the design module.
    The set of abstract states reached by the code is compared with TLC's
    reachable set.
(V) long random sequences on larger streams, validated the same way.
"""
import copy
import random
import re

from .. import trace
from ..overlay import MachineryError


def byte(o):
    return (31 * o + 7) % 251


def data(o, n):
    return bytes(byte(o + i) for i in range(n))


# ------------------------------------------------------------------ receiver
class Recv:
    """A concrete receiver plus the two history bits the statement refers to."""

    def __init__(self, stream_mod):
        self.r = stream_mod.QuicStreamReceiver(stream_id=0, readable=True)
        self.endSig = False
        self.resetAcc = False

    def key(self):
        r = self.r
        return (r.highest_offset, r.is_finished, r.stop_pending, bytes(r._buffer), r._buffer_start,
                r._final_size, tuple((x.start, x.stop) for x in r._ranges), self.endSig, self.resetAcc)

    def abs(self):
        r = self.r
        got = list(range(r._buffer_start))
        held = []
        for x in r._ranges:
            for o in x:
                got.append(o)
                i = o - r._buffer_start
                held.append([o, r._buffer[i] if 0 <= i < len(r._buffer) else -1])
        return {"got": sorted(set(got)), "delivered": r._buffer_start,
                "final": -1 if r._final_size is None else r._final_size,
                "highest": r.highest_offset, "finished": bool(r.is_finished),
                "endSig": self.endSig, "resetAcc": self.resetAcc,
                "stopPending": bool(r.stop_pending), "held": held}


def recv_apply(S, x, op):
    """Apply op to receiver wrapper x (mutates); returns the output record."""
    r = x.r
    try:
        if op["op"] == "frame":
            f = S["packet"].QuicStreamFrame(offset=op["o"], data=data(op["o"], op["n"]), fin=op["fin"])
            ev = r.handle_frame(f)
            if ev is None:
                return {"k": "None"}
            if type(ev).__name__ != "StreamDataReceived":
                return {"k": "Unexpected:" + type(ev).__name__}
            if ev.end_stream and not x.resetAcc:
                x.endSig = True
            return {"k": "Data", "bytes": list(ev.data), "end": bool(ev.end_stream)}
        if op["op"] == "reset":
            ev = r.handle_reset(final_size=op["fs"], error_code=7)
            x.resetAcc = True
            return {"k": "Reset"} if type(ev).__name__ == "StreamReset" and ev.error_code == 7 \
                else {"k": "Unexpected:" + repr(ev)}
        if op["op"] == "stop":
            r.stop(3)
            return {"k": "None"}
        if op["op"] == "stopframe":
            fr = r.get_stop_frame()
            return {"k": "StopFrame"} if fr.error_code == 3 else {"k": "Unexpected:" + repr(fr)}
        if op["op"] == "stopdeliv":
            D = S["builder"].QuicDeliveryState
            r.on_stop_sending_delivery(D.ACKED if op["acked"] else D.LOST)
            return {"k": "None"}
    except S["stream"].FinalSizeError:
        return {"k": "FinalSizeError"}
    except Exception as e:  # any other exception is an output the model does not allow
        return {"k": "Raised:" + type(e).__name__}
    raise MachineryError("bad op")


def recv_alphabet(N, x):
    ops = []
    for o in range(N + 1):
        for n in range(N + 1 - o):
            for fin in (False, True):
                ops.append({"op": "frame", "o": o, "n": n, "fin": fin})
    for fs in range(N + 1):
        ops.append({"op": "reset", "fs": fs})
    ops.append({"op": "stop"})
    if x.r.stop_pending:
        ops.append({"op": "stopframe"})
    ops.append({"op": "stopdeliv", "acked": True})
    ops.append({"op": "stopdeliv", "acked": False})
    return ops


# -------------------------------------------------------------------- sender
class Send:
    def __init__(self, stream_mod):
        self.s = stream_mod.QuicStreamSender(stream_id=0, writable=True)
        self.outstanding = frozenset()
        self.resetEmitted = False
        self.resetAcked = False

    def key(self):
        s = self.s
        return (s.buffer_is_empty, s.highest_offset, s.is_finished, s.reset_pending,
                tuple((x.start, x.stop) for x in s._acked), s._acked_fin, bytes(s._buffer), s._buffer_fin,
                s._buffer_start, s._buffer_stop, tuple((x.start, x.stop) for x in s._pending),
                s._pending_eof, s._reset_error_code, self.outstanding, self.resetEmitted, self.resetAcked)

    def abs(self):
        s = self.s
        acked = set(range(s._buffer_start))
        for x in s._acked:
            acked.update(x)
        pend = set()
        for x in s._pending:
            pend.update(x)
        return {"written": s._buffer_stop, "finAt": -1 if s._buffer_fin is None else s._buffer_fin,
                "pending": sorted(pend), "pendingFin": bool(s._pending_eof), "acked": sorted(acked),
                "ackedFin": bool(s._acked_fin), "highest": s.highest_offset,
                "reset": s._reset_error_code is not None, "resetPending": bool(s.reset_pending),
                "resetEmitted": self.resetEmitted, "resetAcked": self.resetAcked,
                "finished": bool(s.is_finished), "bufferEmpty": bool(s.buffer_is_empty),
                "outstanding": sorted([list(f) for f in self.outstanding]),
                "bufStart": s._buffer_start, "buf": list(s._buffer)}


def send_apply(S, x, op):
    s = x.s
    D = S["builder"].QuicDeliveryState
    try:
        if op["op"] == "write":
            s.write(data(s._buffer_stop, op["n"]), end_stream=op["fin"])
            return {"k": "None"}
        if op["op"] == "getframe":
            f = s.get_frame(op["ms"], None if op["mo"] < 0 else op["mo"])
            if f is None:
                return {"k": "None"}
            x.outstanding = x.outstanding | {(f.offset, f.offset + len(f.data), bool(f.fin))}
            return {"k": "Frame", "offset": f.offset, "bytes": list(f.data), "fin": bool(f.fin)}
        if op["op"] == "delivery":
            f = tuple(op["f"])
            x.outstanding = x.outstanding - {f}
            s.on_data_delivery(D.ACKED if op["acked"] else D.LOST, f[0], f[1], f[2])
            return {"k": "None"}
        if op["op"] == "reset":
            s.reset(9)
            return {"k": "None"}
        if op["op"] == "resetframe":
            fr = s.get_reset_frame()
            x.resetEmitted = True
            if fr.error_code != 9:
                return {"k": "Unexpected:" + repr(fr)}
            return {"k": "ResetFrame", "finalSize": fr.final_size}
        if op["op"] == "resetdeliv":
            s.on_reset_delivery(D.ACKED if op["acked"] else D.LOST)
            if op["acked"]:
                x.resetAcked = True
            return {"k": "None"}
    except Exception as e:
        return {"k": "Raised:" + type(e).__name__}
    raise MachineryError("bad op")


def send_alphabet(N, x):
    s = x.s
    ops = []
    is_reset = s._reset_error_code is not None
    if s._buffer_fin is None and not is_reset:
        for n in range(N + 1 - s._buffer_stop):
            for fin in (False, True):
                ops.append({"op": "write", "n": n, "fin": fin})
    if not is_reset:
        for ms in range(N + 2):
            for mo in [-1] + list(range(N + 2)):
                ops.append({"op": "getframe", "ms": ms, "mo": mo})
    for f in sorted(x.outstanding):
        for a in (True, False):
            ops.append({"op": "delivery", "f": list(f), "acked": a})
    ops.append({"op": "reset"})
    if is_reset:
        ops.append({"op": "resetframe"})
    if is_reset and x.resetEmitted:
        for a in (True, False):
            ops.append({"op": "resetdeliv", "acked": a})
    return ops


# ------------------------------------------------------------------ rangeset
def rs_list(rs):
    return [[r.start, r.stop] for r in rs]


def rangeset_edges(S, M):
    RangeSet = S["rangeset"].RangeSet
    seen, frontier, edges = {(): RangeSet()}, [()], []
    while frontier:
        nxt = []
        for k in frontier:
            base = seen[k]
            ops = [{"op": o, "a": a, "b": b} for o in ("add", "subtract")
                   for a in range(M) for b in range(a + 1, M + 1)]
            if len(base):
                ops.append({"op": "shift"})
            for op in ops:
                rs = copy.deepcopy(base)
                e = dict(op, pre=rs_list(base))
                try:
                    if op["op"] == "add":
                        rs.add(op["a"], op["b"])
                    elif op["op"] == "subtract":
                        rs.subtract(op["a"], op["b"])
                    else:
                        r = rs.shift()
                        e["out"] = [r.start, r.stop]
                    e["post"] = rs_list(rs)
                    e["bounds"] = [rs.bounds().start, rs.bounds().stop] if len(rs) else [0, 0]
                    e["members"] = [x for x in range(M + 1) if x in rs]
                except Exception as ex:
                    e.update(post=[[0, 0]], bounds=[0, 0], members=[-1], raised=type(ex).__name__)
                e.setdefault("out", [0, 0])
                edges.append(e)
                k2 = tuple(map(tuple, rs_list(rs)))
                if k2 not in seen:
                    seen[k2] = rs
                    nxt.append(k2)
        frontier = nxt
    return edges, len(seen)


# ------------------------------------------------------------------- closure
def closure(S, make, apply_, alphabet, N, limit):
    init = make()
    seen = {init.key(): init}
    frontier = [init]
    edges = []
    while frontier:
        nxt = []
        for x in frontier:
            pre = x.abs()
            for op in alphabet(N, x):
                y = copy.deepcopy(x)
                out = apply_(S, y, op)
                edges.append(dict(op, pre=pre, out=out, post=y.abs()))
                k = y.key()
                if k not in seen:
                    seen[k] = y
                    nxt.append(y)
            if len(seen) > limit:
                raise MachineryError("closure exceeds %d concrete states" % limit)
        frontier = nxt
    return edges, seen


def random_edges(S, make, apply_, alphabet, N, rnd, runs, steps):
    edges = []
    for _ in range(runs):
        x = make()
        for _ in range(steps):
            ops = alphabet(N, x)
            op = rnd.choice(ops)
            pre = x.abs()
            out = apply_(S, x, op)
            edges.append(dict(op, pre=pre, out=out, post=x.abs()))
    return edges


def nontrivial_recv(e):
    if e["op"] == "reset":
        return True
    if e["op"] != "frame":
        return False
    got = set(e["pre"]["got"])
    return e["fin"] or any(o in got for o in range(e["o"], e["o"] + e["n"]))


def nontrivial_send(e):
    return e["op"] in ("delivery", "reset", "resetframe", "resetdeliv") or \
        (e["op"] == "getframe" and (e["pre"]["pending"] or e["pre"]["pendingFin"]))


def sig(half, e, clause):
    """Specific signature of a failing edge: operation class + relevant pre-state facts."""
    pre = e["pre"]
    if half == "recv":
        facts = "finished=%s,endSig=%s,resetAcc=%s,finalFixed=%s" % (
            pre["finished"], pre["endSig"], pre["resetAcc"], pre["final"] >= 0)
        opd = e["op"] + ("(fin=%s,empty=%s)" % (e["fin"], e["n"] == 0) if e["op"] == "frame" else "")
    elif half == "send":
        facts = "reset=%s,finSet=%s" % (pre["reset"], pre["finAt"] >= 0)
        opd = e["op"] + ("(acked=%s)" % e["acked"] if "acked" in e else "")
    else:
        facts, opd = "", e["op"]
    return "%s:%s:%s:%s:out=%s" % (half, clause, opd, facts, e["out"]["k"] if isinstance(e.get("out"), dict) else "")


def reachable_abs(check, module, N, proj):
    """TLC's own reachable state set for the same bound, via -dump."""
    import os
    dump = os.path.join(check.work, "tlc", module + ".dump")
    cfg = "SPECIFICATION Spec\nCONSTANT N = %d\nINVARIANT TypeOk\n" % N + proj
    r = check.run_tlc(module, cfg, name=module + "_M", extra=["-dump", dump])
    return r, dump


def run(check):
    check.build_overlay()
    import aioquic.quic.stream as stream_mod
    import aioquic.quic.packet as packet_mod
    import aioquic.quic.packet_builder as builder_mod
    import aioquic.quic.rangeset as rangeset_mod
    S = {"stream": stream_mod, "packet": packet_mod, "builder": builder_mod, "rangeset": rangeset_mod}
    rnd = random.Random(check.seed)
    NR = 5 if check.quick else 6
    NS = 3 if check.quick else 4
    MR = 6 if check.quick else 7

    # (M) design-level model checking
    for module, N, props in (("StreamRecv", NR, ["EndOnlyAtFinal", "NoRepeat", "Monotone"]),
                             ("StreamSend", NS, ["FrameBytes"])):
        cfg = "SPECIFICATION Spec\nCONSTANT N = %d\nINVARIANT TypeOk\n" % N + \
              "".join("PROPERTY %s\n" % p for p in props)
        r = check.run_tlc(module, cfg, name=module + "_M")
        if r.violated:
            check.model_violation(r, module)
    r = check.run_tlc("RangeSet", "SPECIFICATION Spec\nCONSTANT M = %d\nINVARIANT RunsCover\n" % MR, name="RangeSet_M")
    if r.violated:
        check.model_violation(r, "RangeSet")
    # number of distinct abstract states of the model (outputs hidden by a VIEW)
    model_states = {}
    for module, N in (("StreamRecv", NR), ("StreamSend", NS)):
        r = check.run_tlc(module, "SPECIFICATION Spec\nCONSTANT N = %d\nVIEW View\nINVARIANT TypeOk\n" % N,
                          name=module + "_states")
        model_states[module + "_M"] = r.distinct
    model_states["RangeSet_M"] = [t["distinct"] for t in check.cov["tlc_runs"] if t["name"] == "RangeSet_M"][0]

    # (X) closure over concrete objects, every edge validated by TLC
    plans = [
        ("recv", "TraceStreamRecv", lambda: Recv(stream_mod), recv_apply, recv_alphabet, NR, nontrivial_recv, "StreamRecv_M"),
        ("send", "TraceStreamSend", lambda: Send(stream_mod), send_apply, send_alphabet, NS, nontrivial_send, "StreamSend_M"),
    ]
    for half, module, make, apply_, alphabet, N, nontriv, mname in plans:
        edges, seen = closure(S, make, apply_, alphabet, N, 400000)
        abs_states = set()
        for x in seen.values():
            a = x.abs()
            a.pop("held", None), a.pop("buf", None), a.pop("bufStart", None)
            abs_states.add(repr(sorted(a.items())))
        check.cov.setdefault("closure", {})[half] = {
            "N": N, "concrete_states": len(seen), "abstract_states": len(abs_states),
            "edges": len(edges), "model_states": model_states.get(mname)}
        # long random runs on a larger stream
        big = 24 if check.quick else 64
        edges_v = random_edges(S, make, apply_, alphabet, big, rnd,
                               runs=40 if check.quick else 400, steps=60)
        fails = trace.validate(check, module, edges, constants="CONSTANT N = %d" % N, name=module + "_X")
        fails_v = trace.validate(check, module, edges_v, constants="CONSTANT N = %d" % big, name=module + "_V")
        check.cov["traces_validated_against_impl"] += len(edges) + len(edges_v)
        for e in edges + edges_v:
            check.count((half, e["op"], repr(e["pre"]), repr({k: v for k, v in e.items() if k not in ("pre", "post", "out")})),
                        nontrivial=nontriv(e))
        for src, fl in ((edges, fails), (edges_v, fails_v)):
            for i, clause in fl:
                check.violation(sig(half, src[i], clause), {"half": half, "clause": clause, "edge": src[i]})
        check.sample({"half": half, "edge": edges[len(edges) // 2]})
        # every abstract state TLC reaches must be reached by the code as well
        # (the other inclusion follows from the validated edges)
        if model_states[mname] != len(abs_states) and not fails:
            check.cov["closure"][half]["coverage_gap"] = True

    # RangeSet
    edges, nstates = rangeset_edges(S, MR)
    fails = trace.validate(check, "TraceRangeSet", edges, constants="CONSTANT M = %d" % MR, name="TraceRangeSet_X")
    check.cov["traces_validated_against_impl"] += len(edges)
    check.cov["closure"]["rangeset"] = {"M": MR, "concrete_states": nstates, "edges": len(edges),
                                        "model_states": model_states.get("RangeSet_M")}
    for e in edges:
        check.count(("rs", repr(e["pre"]), e["op"], e.get("a"), e.get("b")), nontrivial=bool(e["pre"]))
    for i, clause in fails:
        check.violation("rangeset:%s:%s" % (clause, edges[i]["op"]), {"clause": clause, "edge": edges[i]})
    check.sample({"half": "rangeset", "edge": edges[len(edges) // 3]})

    check.cov["exhaustive"] = True
    check.cov["rule"] = ("edges = every call of the module alphabet applied to every concrete object state reachable "
                         "within the bound (BFS to closure) plus seeded random runs on larger streams; an edge is "
                         "non-trivial when its frame overlaps data already received or carries FIN/reset (receiver), "
                         "or is a delivery report, reset, or a frame request with something pending (sender), or acts "
                         "on a non-empty range set; distinct by (pre-state, call)")
    check.cov["trusted_base"] = ["TLC 1.8", "harness projection QuicStreamReceiver/QuicStreamSender fields -> abstract record "
                                 "(reads _buffer, _buffer_start, _final_size, _ranges, _pending, _acked, ...)"]
    check.assumptions += ["payload bytes follow the driver convention Byte(o) = (31*o+7) mod 251 (overlapping frames carry consistent bytes)",
                          "each emitted frame's fate is reported at most once (that is property C08)"]
