"""C10 - stream send and receive halves conform to a reference model.

(M) TLC explores StreamRecv / StreamSend / RangeSet exhaustively for a bound N
    and checks the property invariants.
(X) BFS over the *concrete* QuicStreamReceiver / QuicStreamSender / RangeSet
    objects under the module's finite alphabet, to closure; every concrete edge
    (abs(pre), call, output, abs(post)) is validated by TLC with the operators
    of the design module.
    The set of abstract states reached by the code is compared with TLC's
    reachable set.
(V) long random sequences on larger streams, validated the same way.
"""
import copy
import random
import re

from .. import trace
from ..overlay import MachineryError


def byte(o):
    return (31 * o + 7) % 251


def data(o, n):
    return bytes(byte(o + i) for i in range(n))


def canon(v):
    """Hashable image of an attribute value of a stream half."""
    if v is None or isinstance(v, (bool, int, str, bytes)):
        return v
    if isinstance(v, bytearray):
        return bytes(v)
    if type(v).__name__ == "RangeSet":
        return tuple((x.start, x.stop) for x in v)
    if isinstance(v, (list, tuple)):
        return tuple(canon(x) for x in v)
    if isinstance(v, (set, frozenset)):
        return tuple(sorted(map(repr, v)))
    if isinstance(v, dict):
        return tuple(sorted((repr(k), canon(x)) for k, x in v.items()))
    return repr(v)


def concrete_key(obj, history):
    """Identity of a concrete state for the closure: *every* instance attribute
    of the object (not a hand-picked list, so no attribute that influences later
    behaviour can be merged away) plus the driver's history components."""
    return (tuple(sorted((k, canon(v)) for k, v in vars(obj).items())), history)


STOP_CODES = (3, 4)
STOP_OPS = ("stop", "stopframe", "stopdeliv")


# ------------------------------------------------------------------ receiver
class Recv:
    """A concrete receiver plus the history components the statement / the
    environment refer to: end marker seen, reset accepted, and the number of
    STOP_SENDING frames emitted whose fate has not been reported yet."""

    def __init__(self, stream_mod):
        self.r = stream_mod.QuicStreamReceiver(stream_id=0, readable=True)
        self.endSig = False
        self.resetAcc = False
        self.stopInFlight = 0

    def key(self):
        return concrete_key(self.r, (self.endSig, self.resetAcc, self.stopInFlight))

    def abs(self):
        r = self.r
        got = list(range(r._buffer_start))
        held = []
        for x in r._ranges:
            for o in x:
                got.append(o)
                i = o - r._buffer_start
                held.append([o, r._buffer[i] if 0 <= i < len(r._buffer) else -1])
        return {"got": sorted(set(got)), "delivered": r._buffer_start,
                "final": -1 if r._final_size is None else r._final_size,
                "highest": r.highest_offset, "finished": bool(r.is_finished),
                "endSig": self.endSig, "resetAcc": self.resetAcc,
                "stopPending": bool(r.stop_pending),
                "stopCode": -1 if r._stop_error_code is None else r._stop_error_code,
                "stopInFlight": self.stopInFlight, "held": held}


def recv_apply(S, x, op):
    """Apply op to receiver wrapper x (mutates); returns the output record."""
    r = x.r
    try:
        if op["op"] == "frame":
            f = S["packet"].QuicStreamFrame(offset=op["o"], data=data(op["o"], op["n"]), fin=op["fin"])
            ev = r.handle_frame(f)
            if ev is None:
                return {"k": "None"}
            if type(ev).__name__ != "StreamDataReceived":
                return {"k": "Unexpected:" + type(ev).__name__}
            if ev.end_stream and not x.resetAcc:
                x.endSig = True
            return {"k": "Data", "bytes": list(ev.data), "end": bool(ev.end_stream)}
        if op["op"] == "reset":
            ev = r.handle_reset(final_size=op["fs"], error_code=7)
            x.resetAcc = True
            return {"k": "Reset"} if type(ev).__name__ == "StreamReset" and ev.error_code == 7 \
                else {"k": "Unexpected:" + repr(ev)}
        if op["op"] == "stop":
            r.stop(op["code"])
            return {"k": "None"}
        if op["op"] == "stopframe":
            fr = r.get_stop_frame()
            x.stopInFlight += 1
            if type(fr).__name__ != "QuicStopSendingFrame" or fr.stream_id != 0 or not isinstance(fr.error_code, int):
                return {"k": "Unexpected:" + repr(fr)}
            return {"k": "StopFrame", "code": fr.error_code}
        if op["op"] == "stopdeliv":
            D = S["builder"].QuicDeliveryState
            x.stopInFlight -= 1
            r.on_stop_sending_delivery(D.ACKED if op["acked"] else D.LOST)
            return {"k": "None"}
    except S["stream"].FinalSizeError:
        return {"k": "FinalSizeError"}
    except Exception as e:  # any other exception is an output the model does not allow
        return {"k": "Raised:" + type(e).__name__}
    raise MachineryError("bad op")


def recv_alphabet(N, x, codes=STOP_CODES[:1], F=1):
    """Every call the environment of a receiver can make in state x: any frame,
    any reset, stop() with any code; a STOP_SENDING frame is requested only
    while one is pending (connection.py _write_stop_sending_frame call site) and
    its fate is reported only for a frame that was emitted."""
    ops = []
    for o in range(N + 1):
        for n in range(N + 1 - o):
            for fin in (False, True):
                ops.append({"op": "frame", "o": o, "n": n, "fin": fin})
    for fs in range(N + 1):
        ops.append({"op": "reset", "fs": fs})
    for c in codes:
        ops.append({"op": "stop", "code": c})
    if x.r.stop_pending and x.stopInFlight < F:
        ops.append({"op": "stopframe"})
    if x.stopInFlight > 0:
        ops.append({"op": "stopdeliv", "acked": True})
        ops.append({"op": "stopdeliv", "acked": False})
    return ops


# -------------------------------------------------------------------- sender
class Send:
    def __init__(self, stream_mod):
        self.s = stream_mod.QuicStreamSender(stream_id=0, writable=True)
        self.outstanding = frozenset()
        self.resetInFlight = 0
        self.resetAcked = False

    def key(self):
        return concrete_key(self.s, (self.outstanding, self.resetInFlight, self.resetAcked))

    def abs(self):
        s = self.s
        acked = set(range(s._buffer_start))
        for x in s._acked:
            acked.update(x)
        pend = set()
        for x in s._pending:
            pend.update(x)
        return {"written": s._buffer_stop, "finAt": -1 if s._buffer_fin is None else s._buffer_fin,
                "pending": sorted(pend), "pendingFin": bool(s._pending_eof), "acked": sorted(acked),
                "ackedFin": bool(s._acked_fin), "highest": s.highest_offset,
                "reset": s._reset_error_code is not None, "resetPending": bool(s.reset_pending),
                "resetInFlight": self.resetInFlight, "resetAcked": self.resetAcked,
                "finished": bool(s.is_finished), "bufferEmpty": bool(s.buffer_is_empty),
                "outstanding": sorted([list(f) for f in self.outstanding]),
                "bufStart": s._buffer_start, "buf": list(s._buffer)}


def send_apply(S, x, op):
    s = x.s
    D = S["builder"].QuicDeliveryState
    try:
        if op["op"] == "write":
            s.write(data(s._buffer_stop, op["n"]), end_stream=op["fin"])
            return {"k": "None"}
        if op["op"] == "getframe":
            f = s.get_frame(op["ms"], None if op["mo"] < 0 else op["mo"])
            if f is None:
                return {"k": "None"}
            x.outstanding = x.outstanding | {(f.offset, f.offset + len(f.data), bool(f.fin))}
            return {"k": "Frame", "offset": f.offset, "bytes": list(f.data), "fin": bool(f.fin)}
        if op["op"] == "delivery":
            f = tuple(op["f"])
            x.outstanding = x.outstanding - {f}
            s.on_data_delivery(D.ACKED if op["acked"] else D.LOST, f[0], f[1], f[2])
            return {"k": "None"}
        if op["op"] == "reset":
            s.reset(9)
            return {"k": "None"}
        if op["op"] == "resetframe":
            fr = s.get_reset_frame()
            x.resetInFlight += 1
            if type(fr).__name__ != "QuicResetStreamFrame" or fr.error_code != 9 or fr.stream_id != 0:
                return {"k": "Unexpected:" + repr(fr)}
            return {"k": "ResetFrame", "finalSize": fr.final_size}
        if op["op"] == "resetdeliv":
            x.resetInFlight -= 1
            s.on_reset_delivery(D.ACKED if op["acked"] else D.LOST)
            if op["acked"]:
                x.resetAcked = True
            return {"k": "None"}
    except Exception as e:
        return {"k": "Raised:" + type(e).__name__}
    raise MachineryError("bad op")


def send_alphabet(N, x):
    s = x.s
    ops = []
    is_reset = s._reset_error_code is not None
    if s._buffer_fin is None and not is_reset:
        for n in range(N + 1 - s._buffer_stop):
            for fin in (False, True):
                ops.append({"op": "write", "n": n, "fin": fin})
    if not is_reset:
        for ms in range(N + 2):
            for mo in [-1] + list(range(N + 2)):
                ops.append({"op": "getframe", "ms": ms, "mo": mo})
    for f in sorted(x.outstanding):
        for a in (True, False):
            ops.append({"op": "delivery", "f": list(f), "acked": a})
    ops.append({"op": "reset"})
    # a RESET_STREAM frame is requested only while one is pending and its fate
    # is reported only for a frame that was emitted (connection.py call sites)
    if is_reset and s.reset_pending:
        ops.append({"op": "resetframe"})
    if x.resetInFlight > 0:
        for a in (True, False):
            ops.append({"op": "resetdeliv", "acked": a})
    return ops


# ------------------------------------------------------------------ rangeset
def rs_list(rs):
    return [[r.start, r.stop] for r in rs]


def rangeset_edges(S, M):
    RangeSet = S["rangeset"].RangeSet
    seen, frontier, edges = {(): RangeSet()}, [()], []
    while frontier:
        nxt = []
        for k in frontier:
            base = seen[k]
            ops = [{"op": o, "a": a, "b": b} for o in ("add", "subtract")
                   for a in range(M) for b in range(a + 1, M + 1)]
            if len(base):
                ops.append({"op": "shift"})
            for op in ops:
                rs = copy.deepcopy(base)
                e = dict(op, pre=rs_list(base))
                try:
                    if op["op"] == "add":
                        rs.add(op["a"], op["b"])
                    elif op["op"] == "subtract":
                        rs.subtract(op["a"], op["b"])
                    else:
                        r = rs.shift()
                        e["out"] = [r.start, r.stop]
                    e["post"] = rs_list(rs)
                    e["bounds"] = [rs.bounds().start, rs.bounds().stop] if len(rs) else [0, 0]
                    e["members"] = [x for x in range(M + 1) if x in rs]
                except Exception as ex:
                    e.update(post=[[0, 0]], bounds=[0, 0], members=[-1], raised=type(ex).__name__)
                e.setdefault("out", [0, 0])
                edges.append(e)
                k2 = tuple(map(tuple, rs_list(rs)))
                if k2 not in seen:
                    seen[k2] = rs
                    nxt.append(k2)
        frontier = nxt
    return edges, len(seen)


# ------------------------------------------------------------------- closure
def closure(S, make, apply_, alphabet, N, limit):
    """BFS over concrete object states.  Returns (edges, seen, parents): every
    edge carries "sid", the id of its source state; parents[sid] = (parent sid,
    op) gives a shortest call sequence from the initial state (for replays)."""
    init = make()
    seen = {init.key(): (init, 0)}
    parents = {0: None}
    frontier = [(init, 0)]
    edges = []
    while frontier:
        nxt = []
        for x, sid in frontier:
            pre = x.abs()
            for op in alphabet(N, x):
                y = copy.deepcopy(x)
                out = apply_(S, y, op)
                edges.append(dict(op, pre=pre, out=out, post=y.abs(), sid=sid))
                k = y.key()
                if k not in seen:
                    seen[k] = (y, len(seen))
                    parents[seen[k][1]] = (sid, op)
                    nxt.append(seen[k])
            if len(seen) > limit:
                raise MachineryError("closure exceeds %d concrete states" % limit)
        frontier = nxt
    return edges, seen, parents


def path_to(parents, sid):
    ops = []
    while parents[sid] is not None:
        sid, op = parents[sid]
        ops.append(op)
    return ops[::-1]


def random_edges(S, make, apply_, alphabet, N, rnd, runs, steps):
    """Seeded random call sequences; every edge carries (run, step) and
    histories[run] is the list of calls of that run (for replays)."""
    edges, histories = [], []
    for run in range(runs):
        x = make()
        hist = []
        histories.append(hist)
        for step in range(steps):
            ops = alphabet(N, x)
            op = rnd.choice(ops)
            pre = x.abs()
            out = apply_(S, x, op)
            hist.append(op)
            edges.append(dict(op, pre=pre, out=out, post=x.abs(), run=run, step=step))
    return edges, histories


def is_drift(half, e, clause):
    """C10 quantifies over frames and resets; what the receiver does with / after
    stop() is covered by the model but not by the statement of the property."""
    return half == "recv" and (clause == "stop-bookkeeping" or e["op"] in STOP_OPS or e["pre"]["stopCode"] != -1)


HARNESS_FIELDS = ("pre", "post", "out", "sid", "run", "step")


def op_of(e):
    return {k: v for k, v in e.items() if k not in HARNESS_FIELDS}


def replay(check, S, stream_mod):
    """--replay: re-run the recorded call sequence on the current tree and let
    TLC judge its last edge again."""
    import json
    d = json.load(open(check.replay))["detail"]
    if d.get("kind") == "model":
        raise MachineryError("replay of a design-level counterexample: run the check itself, the TLC trace is in the replay file")
    if d["half"] == "rangeset":
        edges, _ = rangeset_edges(S, d["M"])
        cand = [e for e in edges if e["pre"] == d["edge"]["pre"] and all(e.get(k) == d["edge"].get(k) for k in ("op", "a", "b"))]
        fails = trace.validate(check, "TraceRangeSet", cand, constants=d["constants"], name="replay", shards=1)
        check.cov["traces_validated_against_impl"] += len(cand)
        for i, clause in fails:
            check.violation("rangeset:%s:%s" % (clause, cand[i]["op"]), dict(d, clause=clause, edge=cand[i]))
        check.sample({"replayed": cand[:1]})
        return
    half = d["half"]
    x = Recv(stream_mod) if half == "recv" else Send(stream_mod)
    apply_ = recv_apply if half == "recv" else send_apply
    edges = []
    for op in d["path"] + [d["op"]]:
        pre = x.abs()
        out = apply_(S, x, op)
        edges.append(dict(op, pre=pre, out=out, post=x.abs()))
    module = "TraceStreamRecv" if half == "recv" else "TraceStreamSend"
    fails = trace.validate(check, module, edges, constants=d["constants"], name="replay", shards=1)
    check.cov["traces_validated_against_impl"] += len(edges)
    for e in edges:
        check.count((half, repr(e)), nontrivial=True)
    for i, clause in fails:
        if clause == "harness-guard":
            raise MachineryError("replayed call is outside the environment's alphabet: %r" % (edges[i],))
        if is_drift(half, edges[i], clause):
            check.drift(sig(half, edges[i], clause), dict(d, clause=clause, edge=edges[i]))
        else:
            check.violation(sig(half, edges[i], clause), dict(d, clause=clause, edge=edges[i]))
    check.sample({"replayed_calls": len(edges), "last": edges[-1]})
    check.cov["rule"] = "replay of one recorded call sequence; every edge of it judged by TLC"


def nontrivial_recv(e):
    if e["op"] == "reset":
        return True
    if e["op"] != "frame":
        return False
    got = set(e["pre"]["got"])
    return e["fin"] or any(o in got for o in range(e["o"], e["o"] + e["n"]))


def nontrivial_send(e):
    return e["op"] in ("delivery", "reset", "resetframe", "resetdeliv") or \
        (e["op"] == "getframe" and (e["pre"]["pending"] or e["pre"]["pendingFin"]))


def sig(half, e, clause):
    """Specific signature of a failing edge: operation class + relevant pre-state facts."""
    pre = e["pre"]
    if half == "recv":
        facts = "finished=%s,endSig=%s,resetAcc=%s,finalFixed=%s" % (
            pre["finished"], pre["endSig"], pre["resetAcc"], pre["final"] >= 0)
        opd = e["op"] + ("(fin=%s,empty=%s)" % (e["fin"], e["n"] == 0) if e["op"] == "frame" else "")
    elif half == "send":
        facts = "reset=%s,finSet=%s" % (pre["reset"], pre["finAt"] >= 0)
        opd = e["op"] + ("(acked=%s)" % e["acked"] if "acked" in e else "")
    else:
        facts, opd = "", e["op"]
    return "%s:%s:%s:%s:out=%s" % (half, clause, opd, facts, e["out"]["k"] if isinstance(e.get("out"), dict) else "")


def run(check):
    check.build_overlay()
    import aioquic.quic.stream as stream_mod
    import aioquic.quic.packet as packet_mod
    import aioquic.quic.packet_builder as builder_mod
    import aioquic.quic.rangeset as rangeset_mod
    S = {"stream": stream_mod, "packet": packet_mod, "builder": builder_mod, "rangeset": rangeset_mod}
    if check.replay:
        return replay(check, S, stream_mod)
    rnd = random.Random(check.seed)
    NR = 5 if check.quick else 6
    NS = 3 if check.quick else 4
    MR = 6 if check.quick else 7

    # (M) design-level model checking
    # bound of the STOP_SENDING sub-state explored to closure / sampled
    codesX, FX = (STOP_CODES[:1], 1) if check.quick else (STOP_CODES, 1)
    codesV, FV = STOP_CODES, 3

    def consts(half, N, codes=None, F=None):
        c = "CONSTANT N = %d\n" % N
        if half == "recv":
            c += "CONSTANT Codes = {%s}\nCONSTANT F = %d\n" % (", ".join(map(str, codes)), F)
        return c
    constX = {"StreamRecv": consts("recv", NR, codesX, FX), "StreamSend": consts("send", NS)}

    for module, N, props in (("StreamRecv", NR, ["EndOnlyAtFinal", "NoRepeat", "Monotone", "StopCarriesCode"]),
                             ("StreamSend", NS, ["FrameBytes"])):
        cfg = "SPECIFICATION Spec\n" + constX[module] + "INVARIANT TypeOk\n" + \
              "".join("PROPERTY %s\n" % p for p in props)
        r = check.run_tlc(module, cfg, name=module + "_M")
        if r.violated:
            check.model_violation(r, module)
    r = check.run_tlc("RangeSet", "SPECIFICATION Spec\nCONSTANT M = %d\nINVARIANT RunsCover\n" % MR, name="RangeSet_M")
    if r.violated:
        check.model_violation(r, "RangeSet")
    # number of distinct abstract states of the model (outputs hidden by a VIEW)
    model_states = {}
    for module, N in (("StreamRecv", NR), ("StreamSend", NS)):
        r = check.run_tlc(module, "SPECIFICATION Spec\n" + constX[module] + "VIEW View\nINVARIANT TypeOk\n",
                          name=module + "_states")
        model_states[module + "_M"] = r.distinct
    model_states["RangeSet_M"] = [t["distinct"] for t in check.cov["tlc_runs"] if t["name"] == "RangeSet_M"][0]

    # (X) closure over concrete objects, every edge validated by TLC
    big = 24 if check.quick else 64
    plans = [
        ("recv", "TraceStreamRecv", lambda: Recv(stream_mod), recv_apply,
         lambda N, x: recv_alphabet(N, x, codesX, FX), lambda N, x: recv_alphabet(N, x, codesV, FV),
         NR, nontrivial_recv, "StreamRecv_M", constX["StreamRecv"], consts("recv", big, codesV, FV)),
        ("send", "TraceStreamSend", lambda: Send(stream_mod), send_apply, send_alphabet, send_alphabet,
         NS, nontrivial_send, "StreamSend_M", constX["StreamSend"], consts("send", big)),
    ]
    for half, module, make, apply_, alphabet, alphabet_v, N, nontriv, mname, cX, cV in plans:
        edges, seen, parents = closure(S, make, apply_, alphabet, N, 400000)
        abs_states = set()
        for x, _ in seen.values():
            a = x.abs()
            a.pop("held", None), a.pop("buf", None), a.pop("bufStart", None)
            abs_states.add(repr(sorted(a.items())))
        check.cov.setdefault("closure", {})[half] = {
            "N": N, "concrete_states": len(seen), "abstract_states": len(abs_states),
            "edges": len(edges), "model_states": model_states.get(mname),
            # edges on which a disagreement is a VIOLATION (the alphabet of the statement);
            # on the others (stop() calls and what follows them) it is SPEC-DRIFT
            "edges_in_property_scope": sum(1 for e in edges if not is_drift(half, e, ""))}
        # long random runs on a larger stream
        edges_v, histories = random_edges(S, make, apply_, alphabet_v, big, rnd,
                               runs=40 if check.quick else 400, steps=60)
        fails = trace.validate(check, module, edges, constants=cX, name=module + "_X")
        fails_v = trace.validate(check, module, edges_v, constants=cV, name=module + "_V")
        check.cov["traces_validated_against_impl"] += len(edges) + len(edges_v)
        for e in edges + edges_v:
            check.count((half, e["op"], repr(e["pre"]), repr(op_of(e))),
                        nontrivial=nontriv(e))
        for src, fl, const in ((edges, fails, cX), (edges_v, fails_v, cV)):
            for i, clause in fl:
                if clause == "harness-guard":
                    # the driver made a call the environment cannot make: that is
                    # a fault of this machinery, never a verdict about the code
                    raise MachineryError("driver issued a call outside the environment's alphabet: %r" % (src[i],))
                e = src[i]
                detail = {"half": half, "clause": clause, "edge": e, "constants": const, "op": op_of(e),
                          "path": path_to(parents, e["sid"]) if "sid" in e else histories[e["run"]][:e["step"]]}
                if is_drift(half, e, clause):
                    check.drift(sig(half, e, clause), detail)
                    continue
                check.violation(sig(half, e, clause), detail)
        check.sample({"half": half, "edge": edges[len(edges) // 2]})
        # every abstract state TLC reaches must be reached by the code as well
        # (the other inclusion follows from the validated edges)
        if model_states[mname] != len(abs_states) and not fails:
            check.cov["closure"][half]["coverage_gap"] = True

    # RangeSet
    edges, nstates = rangeset_edges(S, MR)
    fails = trace.validate(check, "TraceRangeSet", edges, constants="CONSTANT M = %d" % MR, name="TraceRangeSet_X")
    check.cov["traces_validated_against_impl"] += len(edges)
    check.cov["closure"]["rangeset"] = {"M": MR, "concrete_states": nstates, "edges": len(edges),
                                        "model_states": model_states.get("RangeSet_M")}
    for e in edges:
        check.count(("rs", repr(e["pre"]), e["op"], e.get("a"), e.get("b")), nontrivial=bool(e["pre"]))
    for i, clause in fails:
        check.violation("rangeset:%s:%s" % (clause, edges[i]["op"]),
                        {"half": "rangeset", "clause": clause, "edge": edges[i], "M": MR, "constants": "CONSTANT M = %d" % MR})
    check.sample({"half": "rangeset", "edge": edges[len(edges) // 3]})

    check.cov["exhaustive"] = True
    check.cov["rule"] = ("edges = every call of the module alphabet applied to every concrete object state reachable "
                         "within the bound (BFS to closure) plus seeded random runs on larger streams; an edge is "
                         "non-trivial when its frame overlaps data already received or carries FIN/reset (receiver), "
                         "or is a delivery report, reset, or a frame request with something pending (sender), or acts "
                         "on a non-empty range set; distinct by (pre-state, call)")
    check.cov["trusted_base"] = ["TLC 1.8", "harness projection QuicStreamReceiver/QuicStreamSender fields -> abstract record "
                                 "(reads _buffer, _buffer_start, _final_size, _ranges, _pending, _acked, ...)"]
    check.assumptions += ["payload bytes follow the driver convention Byte(o) = (31*o+7) mod 251 (overlapping frames carry consistent bytes)",
                          "each emitted frame's fate is reported at most once (that is property C08)",
                          "environment discipline of connection.py: get_stop_frame/get_reset_frame are called only while "
                          "stop_pending/reset_pending is set, and on_stop_sending_delivery/on_reset_delivery only for a frame "
                          "that was emitted (they are the delivery handlers of the packets carrying those frames); "
                          "at most F STOP_SENDING frames in flight (F=1 in the closure, 3 in the random runs)"]
