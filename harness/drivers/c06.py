"""C06 - the sender never exceeds the peer's flow-control and stream-count limits.

(M) TLC explores FlowSend.tla: all interleavings of application writes, MAX_DATA /
    MAX_STREAM_DATA / MAX_STREAMS updates, emissions, losses and retransmissions over
    small limits; invariants StreamWithinLimit, ConnWithinLimit, StreamCount,
    RetransmitFree and the progress property Unblocked under fairness.
(R->V) the real endpoints are configured with the same kind of small limits
    (max_data, max_stream_data in 0..5000 bytes, stream-count limits 1..4) and driven by
    netsim scripts writing around the limits (0, 1, boundary, boundary+1) on up to 13
    streams, with losses, duplicates and retransmissions.  TLC judges the observer's view
    of the wire with TraceFlowSend: every STREAM / RESET_STREAM frame an endpoint emits
    against the limits carried by MAX_* frames in packets that were delivered to and
    authenticated by that endpoint, and, at the quiescent end, that nothing sendable was
    left unsent.  Connections through a Retry and resumed sessions whose early (0-RTT) data is sent under the
    limits remembered from the ticket (accepted or rejected by the server) are part of the scripts.
"""
import json
import os
import random

from .. import trace
from ..netsim import project, runner, script, sim
from ..overlay import MachineryError

_A = None


def job_fn(job):
    s = script.run(_A, job["cfg"], job["script"], seed=job["seed"], hs_adv=job["hs_adv"], early=job.get("early"))
    lines = project.flowsend(s.log)
    zr = [e for e in s.log if e["k"] == "pkt" and e["type"] == "0rtt" and e.get("ok")]
    blocked = any(e["k"] == "pkt" and e.get("ok") and any(f["t"] in ("data_blocked", "stream_data_blocked", "streams_blocked")
                                                          for f in e.get("frames", [])) for e in s.log)
    raised_limits = sum(1 for l in lines if l["ev"] == "lim")
    return {"lines": lines, "nontrivial": bool(blocked or raised_limits), "raised": s.raised[:3],
            "frames": sum(len(l["ends"]) for l in lines if l["ev"] == "sent"), "limits": raised_limits,
            "zrtt": len(zr), "zrtt_frames": sum(1 for e in zr for f in e["frames"] if f["t"] in ("stream", "reset_stream")),
            "retries": s.retry["sent"]}


def zrtt_jobs(rnd, per):
    """Retry and resumed sessions.  In a resumed session the client writes before the handshake completes: the limits
    in force for that (0-RTT) data are the ones remembered from the ticket - the priming connection's server is
    configured with limits that are smaller than or equal to this run's (cfg "prime"; a server must not reduce them,
    RFC 9000 7.4.1) - and the new ones from the moment the client has processed the server's transport parameters."""
    jobs = []
    for mode in script.ZRTT_MODES:
        for i in range(per):
            msd = rnd.choice([50, 64, 1000, 1500, 5000])
            md = rnd.choice([100, 1500, 3000, 10000])
            ms = rnd.choice([None, 2, 3, 4])
            cfg = {"cc": rnd.choice(["reno", "cubic"]), "version": rnd.choice(["v1", "v2", "v1->v2"]),
                   "max_stream_data": msd, "max_data": md, "max_streams": ms}
            cfg.update(mode)
            if mode.get("resume"):
                # what the client remembers: not larger than what this run's server grants
                cfg["prime"] = {"s_max_stream_data": rnd.choice([0, 1, msd // 2, msd]), "s_max_data": rnd.choice([0, 1, md // 2, md]),
                                "max_streams": rnd.choice([1, 2, ms or 128]) if (ms or 128) >= 2 else 1}
            sizes = [1, 2, max(1, msd - 1), msd, msd + 1, 30, 200, 1300, 3000]
            jobs.append({"cfg": cfg, "script": script.random_script(rnd, rnd.choice([20, 50]), script.PROFILES["flow"],
                                                                     streams=script.MANY_STREAMS, sizes=sizes),
                         "seed": rnd.randrange(1 << 30), "hs_adv": rnd.random() < 0.4,
                         "early": script.random_early(rnd, streams=script.MANY_STREAMS, sizes=sizes, n=rnd.choice([2, 4, 6])),
                         "profile": "zrtt-flow"})
    # corpus: early writes straddling the remembered limits (stream 10, connection 15, two streams of each kind), the new
    # limits are larger; the rest must follow once the handshake has brought them
    early = [["write", "c", 0, 11, False], ["write", "c", 4, 11, False], ["write", "c", 8, 5, True], ["write", "c", 2, 20, True]]
    for mode in script.ZRTT_MODES:
        cfg = dict({"max_stream_data": 40, "max_data": 100, "max_streams": 3}, **mode)
        if mode.get("resume"):
            cfg["prime"] = {"s_max_stream_data": 10, "s_max_data": 15, "max_streams": 2}
        jobs.append({"cfg": cfg, "script": [["write", "c", 0, 30, True]], "seed": 41, "hs_adv": False, "early": early,
                     "profile": "corpus-zrtt-remembered-limits"})
        jobs.append({"cfg": cfg, "script": [["deliver", 0], ["drop", 0], ["deliver", 0], ["deliver", 0], ["timer", "c"], ["write", "c", 0, 30, True]],
                     "seed": 42, "hs_adv": True, "early": early, "profile": "corpus-zrtt-remembered-limits-loss"})
    return jobs


def judge(check, jobs, results, name):
    lines, owner = [], []
    for ji, r in enumerate(results):
        for ln in r["lines"]:
            lines.append(ln)
            owner.append(ji)
    fails = trace.validate(check, "TraceFlowSend", lines, name=name, group_key=lambda ln: ln["ev"] == "init",
                           constants="CONSTANTS NS = 1\nMaxLen = 1\nMaxLimit = 1")
    check.cov["traces_validated_against_impl"] += len(jobs)
    seen = set()
    for i, clause in fails:
        ji = owner[i]
        if (ji, clause) in seen:
            continue
        seen.add((ji, clause))
        ln = lines[i]
        sig = "flowsend:%s:ep=%s" % (clause, ln.get("ep", "-"))
        mode = jobs[ji]["cfg"]
        if mode.get("retry") or mode.get("resume"):
            sig += ":" + "+".join((["retry"] if mode.get("retry") else []) + (["resume-" + mode["resume"]] if mode.get("resume") else []))
        detail = {"clause": clause, "line": ln, "job": jobs[ji]}
        (check.drift if clause.startswith("model:") else check.violation)(sig, detail)


def run(check):
    global _A
    check.build_overlay()
    _A = sim.load_modules()
    if check.replay:
        d = json.load(open(check.replay))["detail"]
        if "job" not in d:
            raise MachineryError("replay of a design-level counterexample: run the check itself")
        res = [job_fn(d["job"])]
        judge(check, [d["job"]], res, "replay")
        check.count(repr(d["job"]), evaluations=len(res[0]["lines"]))
        check.sample({"replayed": d["job"]})
        check.cov["rule"] = "replay of one recorded script"
        return
    ns, ml, mx = (2, 2, 2) if check.quick else (2, 3, 3)
    cfg = ("SPECIFICATION FairSpec\nCONSTANTS NS = %d\nMaxLen = %d\nMaxLimit = %d\nINVARIANT TypeOk\nINVARIANT StreamWithinLimit\n"
           "INVARIANT ConnWithinLimit\nINVARIANT StreamCount\nPROPERTY RetransmitFree\nPROPERTY Unblocked\n" % (ns, ml, mx))
    r = check.run_tlc("FlowSend", cfg, name="FlowSend_M", timeout=2400, heap="6g")
    if r.violated:
        check.model_violation(r, "FlowSend")
    rnd = random.Random(check.seed)
    jobs = []
    n = 40 if check.quick else 500
    for i in range(n):
        msd = rnd.choice([0, 1, 50, 64, 1000, 1500, 5000])
        md = rnd.choice([0, 1, 100, 1500, 3000, 10000])
        cfg = {"cc": rnd.choice(["reno", "cubic"]), "version": rnd.choice(["v1", "v2"]),
               "max_stream_data": msd, "max_data": md,
               "s_max_stream_data": rnd.choice([msd, 64, 2000]), "s_max_data": rnd.choice([md, 200, 4000]),
               "max_streams": rnd.choice([None, 1, 2, 3, 4])}
        sizes = [0, 1, 2, max(0, msd - 1), msd, msd + 1, 30, 200, 1300, 3000]
        jobs.append({"cfg": cfg, "script": script.random_script(rnd, rnd.choice([20, 50, 90]), script.PROFILES["flow"],
                                                                 streams=script.MANY_STREAMS, sizes=sizes),
                     "seed": rnd.randrange(1 << 30), "hs_adv": rnd.random() < 0.2, "profile": "flow"})
    # tight connection limit, few streams, heavy tail loss with writes in between (lost and new ranges coalesce)
    for i in range(n):
        md = rnd.choice([1500, 2500, 4000, 6000])
        cfg = {"cc": rnd.choice(["reno", "cubic"]), "max_stream_data": 100000, "max_data": md, "s_max_data": md}
        jobs.append({"cfg": cfg, "script": script.random_script(rnd, rnd.choice([40, 80, 120]), script.PROFILES["tailloss"],
                                                                 streams=[0, 0, 0, 4, 3, 3], sizes=[200, 700, 1100, 1300, 1300, 2000]),
                     "seed": rnd.randrange(1 << 30), "hs_adv": False, "profile": "tailloss"})
    # corpus
    jobs.append({"cfg": {"max_stream_data": 10, "max_data": 15, "max_streams": 2},
                 "script": [["write", "c", 0, 11, False], ["write", "c", 4, 11, False], ["write", "c", 8, 5, True], ["write", "c", 2, 20, True],
                            ["deliver", 0], ["deliver", 0], ["drop", 0], ["timer", "c"], ["deliver", 0], ["deliver", 0]],
                 "seed": 1, "hs_adv": False, "profile": "corpus-boundary"})
    jobs += zrtt_jobs(rnd, 2 if check.quick else 40)
    results = runner.run_many(job_fn, jobs)
    check.cov["zero_rtt_packets_on_the_wire"] = sum(r["zrtt"] for r in results)
    check.cov["stream_and_reset_frames_in_zero_rtt_packets"] = sum(r["zrtt_frames"] for r in results)
    check.cov["retry_packets_sent"] = sum(r["retries"] for r in results)
    check.cov["retry_or_resumed_runs"] = sum(1 for j in jobs if j["cfg"].get("retry") or j["cfg"].get("resume"))
    judge(check, jobs, results, "TraceFlowSend_V")
    for job, res in zip(jobs, results):
        check.count(repr(job), nontrivial=res["nontrivial"], evaluations=res["frames"])
    check.cov["stream_and_reset_frames_judged"] = sum(r["frames"] for r in results)
    check.cov["limit_updates_seen"] = sum(r["limits"] for r in results)
    ex = next((r for r in results if r["nontrivial"]), results[0])
    check.sample({"cfg": jobs[results.index(ex)]["cfg"], "script": jobs[results.index(ex)]["script"][:16], "trace": ex["lines"][:14]})
    check.cov["rule"] = ("one case = one script on two real connections configured with small limits; non-trivial = a *_BLOCKED frame was "
                         "emitted or a MAX_* update was processed during the run (some write was blocked by a limit)")
    check.cov["trusted_base"] = ["TLC 1.8", "netsim driver", "observer (STREAM/RESET_STREAM/MAX_* frames)",
                                 "internal read: keys installed for the epoch of an arriving packet",
                                 "internal write on the peer object: _local_max_streams_*.value (aioquic has no configuration option)"]
    check.assumptions += ["an endpoint's limits are the peer's configured initial values (it cannot send STREAM data before it has "
                          "processed the peer's transport parameters) raised by every MAX_* frame in a packet delivered to and "
                          "authenticated by it; peers never lower a limit",
                          "resumed sessions: until the client has processed the server's transport parameters (ProtocolNegotiated) "
                          "its limits are the ones remembered from the ticket = the configuration of the priming connection's server, "
                          "which is never larger than this run's (RFC 9000 7.4.1); from then on the larger of the two"]
