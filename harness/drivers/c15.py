"""C15 - HTTP/3 applications only ever see well-formed messages.

(M)    TLC model-checks HeaderRulesMC: the stream operators of HeaderRules over a
       small universe of frames, with the nondeterminism the statement leaves.
(M->R) TLC enumerates (HeaderRulesCases) every scenario of four families - A one
       probe header over the boundary alphabet, B all short sequences of
       pseudo-headers, C lists of good and bad headers, D content-length spellings x
       DATA frame sizes x trailers x end of stream - for requests, responses,
       trailers, push promises and pushed responses.  The driver encodes each
       header list with a raw pylsqpack.Encoder, frames it, feeds it under several
       chunkings as StreamDataReceived events to a real H3Connection (on a stub of
       QuicConnection) and records the events the application gets and the close
       code.  Family Q replays scenarios of B, C, D with header blocks that refer
       to the QPACK dynamic table and arrive before the peer's encoder stream.
(V)    seeded random header lists / bodies / chunkings / encodings, recorded the
       same way.
TLC (TraceHeaderRules) judges every record with the operators of HeaderRules:
statement clauses -> VIOLATION, model: clauses (the implementation's additional
rules) -> SPEC-DRIFT.
"""
import json
import os
import random
import time
from concurrent.futures import ThreadPoolExecutor

from .. import trace
from ..overlay import MachineryError

FT_DATA, FT_HEADERS, FT_PUSH_PROMISE = 0x0, 0x1, 0x5


# ---------------------------------------------------------------- wire helpers
def varint(v):
    if v < 0x40:
        return bytes([v])
    if v < 0x4000:
        return (v | 0x4000).to_bytes(2, "big")
    if v < 0x40000000:
        return (v | 0x80000000).to_bytes(4, "big")
    return (v | 0xC000000000000000).to_bytes(8, "big")


def frame(ftype, payload):
    return varint(ftype) + varint(len(payload)) + payload


def qpack_int(prefix_bits, first, n):
    mx = (1 << prefix_bits) - 1
    if n < mx:
        return bytes([first | n])
    out = bytearray([first | mx])
    n -= mx
    while n >= 128:
        out.append((n & 127) | 128)
        n >>= 7
    out.append(n)
    return bytes(out)


def qpack_literal(headers):
    """A field section of literal field lines with literal names, no Huffman
    (RFC 9204 4.5.6), required insert count 0: an encoding independent of
    ls-qpack's encoder (which refuses to encode an empty name)."""
    out = bytearray(b"\x00\x00")
    for n, v in headers:
        out += qpack_int(3, 0x20, len(n)) + n + qpack_int(7, 0x00, len(v)) + v
    return bytes(out)


class FakeQuic:
    """The part of QuicConnection that H3Connection uses (after
    tests/test_h3.py FakeQuicConnection): records close() and sent data."""

    def __init__(self, configuration):
        self.configuration = configuration
        self.closed = None
        self.sent = []
        self._quic_logger = None
        self._remote_max_datagram_frame_size = None
        self._next_bidi = 0 if configuration.is_client else 1
        self._next_uni = 2 if configuration.is_client else 3

    def close(self, error_code=0, frame_type=None, reason_phrase=""):
        if self.closed is None:
            self.closed = int(error_code)

    def get_next_available_stream_id(self, is_unidirectional=False):
        if is_unidirectional:
            s = self._next_uni
            self._next_uni += 4
        else:
            s = self._next_bidi
            self._next_bidi += 4
        return s

    def send_stream_data(self, stream_id, data, end_stream=False):
        self.sent.append((stream_id, bytes(data), end_stream))


class Rig:
    def __init__(self):
        import pylsqpack
        import aioquic.h3.connection as h3c
        import aioquic.h3.events as h3e
        from aioquic.quic.configuration import QuicConfiguration
        from aioquic.quic.events import StreamDataReceived
        self.pylsqpack, self.h3c, self.h3e = pylsqpack, h3c, h3e
        self.SDR = StreamDataReceived
        self.cfg = {"client": QuicConfiguration(is_client=True), "server": QuicConfiguration(is_client=False)}
        # what the peer of each role sends when its connection starts: control
        # stream + SETTINGS, QPACK encoder and decoder streams
        self.peer_init = {}
        for role, peer in (("client", "server"), ("server", "client")):
            q = FakeQuic(self.cfg[peer])
            h3c.H3Connection(q)
            merged = {}
            for sid, data, _ in q.sent:
                merged[sid] = merged.get(sid, b"") + data
            self.peer_init[role] = sorted(merged.items())
        self.REQ = [(b":method", b"GET"), (b":scheme", b"https"), (b":authority", b"a"), (b":path", b"/")]

    def encode_block(self, enc, sid, headers, how):
        """(block, bytes for the QPACK encoder stream)"""
        if how == "literal" or any(len(n) == 0 for n, _ in headers):
            return qpack_literal(headers), b""
        if how == "dynamic":
            # the list encoded once for another stream enters the dynamic table;
            # the block for our stream then refers to those entries
            warm, _ = enc.encode(sid + 400, headers)
            more, block = enc.encode(sid, headers)
            return block, warm + more
        stream_bytes, block = enc.encode(sid, headers)
        if stream_bytes:
            raise MachineryError("raw QPACK encoder used the dynamic table")
        return block, b""

    def build(self, scn, enc_how="lsqpack"):
        """The bytes of the stream under test: (payload, length of each frame's
        share of it, deliverable, bytes of the peer's QPACK encoder stream,
        how many blocks depend on them).  Deliverable = an
        independent QPACK decoder turns every block back into the list it was
        made from."""
        sid = 0 if scn["chan"] == "request" else 15
        enc = self.pylsqpack.Encoder()
        dec = self.pylsqpack.Decoder(4096, 16)
        estream = enc.apply_settings(max_table_capacity=4096, blocked_streams=16) if enc_how == "dynamic" else b""
        prefix = varint(1) + varint(0) if scn["chan"] == "push" else b""   # stream type PUSH, push id 0
        parts, blocks, dyn = [], [], 0
        for f in scn["frames"]:
            if f["t"] == "D":
                parts.append(frame(FT_DATA, b"x" * f["n"]))
                continue
            headers = [(bytes(n), bytes(v)) for n, v in f["hs"]]
            block, more = self.encode_block(enc, sid, headers, enc_how)
            estream += more
            blocks.append((block, headers))
            dyn += block[:1] != b"\x00"                             # required insert count > 0
            parts.append(frame(FT_HEADERS, block) if f["t"] == "H" else frame(FT_PUSH_PROMISE, varint(1) + block))
        ok = True
        try:
            if estream:
                dec.feed_encoder(estream)
            for block, headers in blocks:
                _, got = dec.feed_header(sid, block)
                ok = ok and got == headers
        except (self.pylsqpack.DecompressionFailed, self.pylsqpack.EncoderStreamError, self.pylsqpack.StreamBlocked):
            ok = False
        if parts:
            parts[0] = prefix + parts[0]
        return b"".join(parts), [len(x) for x in parts], ok, estream, dyn

    def run(self, scn, cuts, enc_how="lsqpack", built=None):
        """Replay one scenario.  `cuts` = chunk sizes of the stream under test
        (None = whole).  With enc_how = "dynamic" the peer's QPACK encoder stream
        arrives after the stream under test (whose header blocks wait for it).
        Returns the record for TraceHeaderRules."""
        role, chan, fin = scn["role"], scn["chan"], scn["fin"]
        payload, _, ok, estream = (built or self.build(scn, enc_how))[:4]
        q = FakeQuic(self.cfg[role])
        h3 = self.h3c.H3Connection(q)
        peer_encoder_stream = None
        for sid, data in self.peer_init[role]:
            h3.handle_event(self.SDR(data=data, end_stream=False, stream_id=sid))
            if data[:1] == b"\x02":
                peer_encoder_stream = sid
        sid = 0
        if role == "client":
            sid = q.get_next_available_stream_id()
            h3.send_headers(sid, self.REQ, end_stream=True)       # the request being answered
            if chan == "push":                                     # a pushed response follows a promise
                promise = frame(FT_PUSH_PROMISE, varint(0) + self.encode_block(self.pylsqpack.Encoder(), sid, self.REQ, "lsqpack")[0])
                h3.handle_event(self.SDR(data=promise, end_stream=False, stream_id=sid))
                sid = 15                                           # the server's 4th unidirectional stream
        if sid != (0 if chan == "request" else 15) or q.closed is not None or peer_encoder_stream is None:
            raise MachineryError("scenario preamble went wrong: stream %d, closed %r" % (sid, q.closed))
        chunks, pos = [], 0
        for c in (cuts or [len(payload)]):
            chunks.append(payload[pos:pos + c])
            pos += c
        if pos < len(payload):
            chunks.append(payload[pos:])
        events, raised = [], ""
        feeds = [(sid, c, fin == "last" and i == len(chunks) - 1) for i, c in enumerate(chunks)]
        if fin == "lone":
            feeds.append((sid, b"", True))
        if estream:
            feeds.append((peer_encoder_stream, estream, False))
        for on, data, end in feeds:
            try:
                evs = h3.handle_event(self.SDR(data=data, end_stream=end, stream_id=on))
            except Exception as ex:       # an exception is not an outcome the property knows
                raised = type(ex).__name__
                break
            for ev in evs:
                if getattr(ev, "stream_id", None) == sid:
                    events.append(self.project(ev))
        return {"role": role, "chan": chan, "frames": scn["frames"], "fin": fin, "ok": ok,
                "events": events, "close": q.closed or 0, "raised": raised}

    def project(self, ev):
        e = self.h3e
        if isinstance(ev, e.HeadersReceived):
            return {"t": "H", "hs": [[list(n), list(v)] for n, v in ev.headers], "n": 0, "end": bool(ev.stream_ended)}
        if isinstance(ev, e.PushPromiseReceived):
            return {"t": "P", "hs": [[list(n), list(v)] for n, v in ev.headers], "n": 0, "end": False}
        if isinstance(ev, e.DataReceived):
            return {"t": "D", "hs": [], "n": len(ev.data), "end": bool(ev.stream_ended)}
        return {"t": type(ev).__name__, "hs": [], "n": 0, "end": False}


# ------------------------------------------------------------------ chunkings
def cuts_for(built, mode, rnd):
    """Chunk sizes for the stream under test.  whole: one event; frames: one
    event per frame; bytes: one per byte; two / rand: seeded cut points."""
    payload, lens = built[0], built[1]
    total = len(payload)
    if mode == "whole":
        return None
    if mode == "bytes":
        return [1] * total
    if mode == "frames":
        return list(lens)
    if mode == "two":
        k = rnd.randrange(1, total) if total > 1 else 1
        return [k, total - k] if total > k else [k]
    if mode == "rand":
        out, left = [], total
        while left > 0:
            k = min(left, rnd.choice((1, 1, 2, 3, 5, 8, 13)))
            out.append(k)
            left -= k
        return out
    raise MachineryError("unknown chunking " + mode)


# ------------------------------------------------------ TLC-enumerated families
def tlc_cases(check, family, part, consts):
    """One TLC run of HeaderRulesCases; returns (path of the NDJSON file, number of cases)."""
    tag = "%s%d" % (family, part)
    out = os.path.join(check.work, "cases_%s.ndjson" % tag)
    cfg = "CONSTANTS\nFamily = \"%s\"\nPart = %d\n%s\n" % (family, part, consts)
    r = check.run_tlc("HeaderRulesCases", cfg, name="HeaderRulesCases_" + tag, workers=1,
                      env={"CASES_OUT": out}, timeout=1500)
    if r.violated:
        raise MachineryError("case generation failed (family %s): %s" % (tag, r.violated))
    n = None
    for p in r.prints:
        if p.startswith('<<"CASES"'):
            n = int(p.rstrip(">").split(",")[-1])
    if n is None:
        raise MachineryError("family %s: TLC did not announce its cases" % tag)
    return out, n


def read_cases(path, n):
    got = 0
    with open(path) as f:
        for line in f:
            got += 1
            yield json.loads(line)
    os.unlink(path)
    if got != n:
        raise MachineryError("%s: TLC announced %d cases, file has %d" % (path, n, got))


# ----------------------------------------------------------- random scenarios
PSEUDO = [b":method", b":scheme", b":authority", b":path", b":protocol", b":status"]
GOODV = {b":method": [b"GET", b"POST", b"CONNECT"], b":scheme": [b"https", b"http", b"a"],
         b":authority": [b"a", b"localhost", b""], b":path": [b"/", b"/a?b", b""],
         b":protocol": [b"websocket"], b":status": [b"200", b"404", b"100"]}
BOUNDARY = bytes([0x00, 0x09, 0x0A, 0x0D, 0x20, 0x21, 0x3A, 0x41, 0x5A, 0x61, 0x7F, 0x80, 0xFF,
                  0x0B, 0x0C, 0x1F, 0x40, 0x5B, 0x60, 0x7B, 0x7E, 0x2D, 0x30, 0x39, 0x5F, 0x2B])
CL_SPELL = [b"0", b"1", b"2", b"3", b"5", b"8", b"13", b"007", b"+2", b"-0", b"-1", b"1_0", b"0_3", b"1__0", b"_1", b"1_",
            b"", b"x", b"1,1", b"0x2", b"2.0", b"\x0b2", b"2\x0c", b"\x0b\x0c", b" 2", b"2\t", b"1 1", b"1e1",
            b"4294967296", b"99999999999999999999", b"\xd9\xa2", b"+", b"-", b"+-1", b"00", b"1\x002"]


def rand_token(rnd, good):
    n = rnd.choice((1, 1, 2, 3, 5, 12))
    if good:
        return bytes(rnd.choice(b"abcdefghijklmnopqrstuvwxyz0123456789-_.~!#$%&'*+^`|") for _ in range(n))
    pool = BOUNDARY if rnd.random() < 0.7 else bytes(range(256))
    return bytes(rnd.choice(pool) for _ in range(n))


def rand_value(rnd, good):
    n = rnd.choice((0, 1, 1, 2, 3, 6, 20))
    if good:
        s = bytes(rnd.choice(b"abcxyz019 \t,;=/\x0b\x7f\x80\xff") for _ in range(n))
        return s.strip(b" \t")
    pool = BOUNDARY if rnd.random() < 0.7 else bytes(range(256))
    return bytes(rnd.choice(pool) for _ in range(n))


def rand_block(rnd, kind, body_total):
    """A header list for `kind`: usually valid, with a few seeded defects."""
    req = [b":method", b":scheme", b":authority", b":path"]
    pseudo = {"request": req, "push": req, "response": [b":status"], "trailers": []}[kind]
    hs = [(p, rnd.choice(GOODV[p])) for p in pseudo]
    if kind == "request" and rnd.random() < 0.15:
        hs.append((b":protocol", b"websocket"))
    rnd.random() < 0.2 and rnd.shuffle(hs)
    regular = []
    for _ in range(rnd.choice((0, 1, 1, 2, 3))):
        regular.append((rand_token(rnd, True), rand_value(rnd, True)))
    if kind == "trailers" and rnd.random() < 0.4:
        # trailers that mention a content-length themselves (the real size of the body, or something near it): they declare nothing
        regular.append((b"content-length", str(max(0, body_total + rnd.choice((0, 0, 0, 1, -1)))).encode()))
    if kind in ("request", "response") and rnd.random() < 0.6:
        for _ in range(rnd.choice((1, 1, 1, 2))):
            v = rnd.choice(CL_SPELL) if rnd.random() < 0.5 else str(max(0, body_total + rnd.choice((0, 0, 0, 1, -1, 10)))).encode()
            regular.insert(rnd.randrange(len(regular) + 1), (b"content-length", v))
    if rnd.random() < 0.1:
        regular.append((b"transfer-encoding", rnd.choice((b"trailers", b"chunked", b"Trailers", b""))))
    hs += regular
    for _ in range(rnd.choice((0, 0, 0, 1, 1, 2))):          # defects
        what = rnd.randrange(8)
        if what == 0 and hs:
            del hs[rnd.randrange(len(hs))]
        elif what == 1 and hs:
            hs.insert(rnd.randrange(len(hs) + 1), rnd.choice(hs))
        elif what == 2:
            hs.insert(rnd.randrange(len(hs) + 1), (rnd.choice(PSEUDO), rnd.choice((b"a", b"200", b"GET"))))
        elif what == 3:
            hs.insert(rnd.randrange(len(hs) + 1), (rand_token(rnd, False), rand_value(rnd, True)))
        elif what == 4:
            hs.insert(rnd.randrange(len(hs) + 1), (rand_token(rnd, True), rand_value(rnd, False)))
        elif what == 5 and hs:
            i = rnd.randrange(len(hs))
            n, v = hs[i]
            j = rnd.randrange(len(n) + 1)
            hs[i] = (n[:j] + bytes([rnd.choice(BOUNDARY)]) + n[j:], v)
        elif what == 6 and hs:
            i = rnd.randrange(len(hs))
            n, v = hs[i]
            j = rnd.choice((0, len(v), rnd.randrange(len(v) + 1)))
            hs[i] = (n, v[:j] + bytes([rnd.choice(BOUNDARY)]) + v[j:])
        elif what == 7:
            hs.insert(rnd.randrange(len(hs) + 1), (b":" + rand_token(rnd, True), b"a"))
    return [[list(n), list(v)] for n, v in hs if len(n) + len(v) <= 60]


def rand_scenario(rnd):
    role, chan = rnd.choice((("server", "request"), ("client", "request"), ("client", "request"), ("client", "push")))
    sizes = [rnd.choice((0, 0, 1, 2, 3, 7)) for _ in range(rnd.choice((0, 1, 1, 2, 3)))]
    total = sum(sizes)
    frames = []
    if role == "client" and chan == "request" and rnd.random() < 0.3:
        frames.append({"t": "P", "hs": rand_block(rnd, "push", 0), "n": 0})
    if frames and rnd.random() < 0.4:
        return {"role": role, "chan": chan, "frames": frames, "fin": rnd.choice(("none", "none", "last", "lone"))}
    frames.append({"t": "H", "hs": rand_block(rnd, "request" if role == "server" else "response", total), "n": 0})
    for n in sizes:
        frames.append({"t": "D", "hs": [], "n": n})
    if role == "client" and chan == "request" and rnd.random() < 0.1:      # a promise after the response
        frames.append({"t": "P", "hs": rand_block(rnd, "push", 0), "n": 0})
    if rnd.random() < 0.35:
        frames.append({"t": "H", "hs": rand_block(rnd, "trailers", total), "n": 0})
    return {"role": role, "chan": chan, "frames": frames, "fin": rnd.choice(("none", "last", "last", "lone", "lone"))}


# -------------------------------------------------------------------- judging
def signature(rec, meta, clause):
    """Failing clause (with the kind of block and the rule broken, named by TLC)
    + the class of the input: role, stream, where the end of stream is, close
    code; for the content-length clauses also the frame sequence and chunking."""
    extra = ""
    if "cl-mismatch" in clause:
        extra = ":frames=%s:chunks=%s" % ("".join(f["t"] for f in rec["frames"]), meta["family"].split("/")[1])
    return "h3-message:%s:role=%s:chan=%s:fin=%s%s:close=%s%s" % (
        clause, rec["role"], rec["chan"], rec["fin"], extra,
        hex(rec["close"]) if rec["close"] else "none", ":raised=" + rec["raised"] if rec["raised"] else "")


def judge(check, records, metas, name):
    """TLC judges every record; statement clauses are violations, model: clauses drift."""
    # many short-lived single-worker TLC processes side by side: keep each JVM from
    # starting a garbage collector / compiler thread per core
    saved = os.environ.get("_JAVA_OPTIONS")
    os.environ["_JAVA_OPTIONS"] = "-XX:ParallelGCThreads=2 -XX:TieredStopAtLevel=1"
    try:
        fails = trace.validate(check, "TraceHeaderRules", records, name=name,
                               shards=max(1, min(8 if check.quick else 16, len(records) // 1500)))
    finally:
        if saved is None:
            del os.environ["_JAVA_OPTIONS"]
        else:
            os.environ["_JAVA_OPTIONS"] = saved
    check.cov["traces_validated_against_impl"] += len(records)
    for i, clause in fails:
        rec, meta = records[i], metas[i]
        detail = {"clause": clause, "scenario": {k: rec[k] for k in ("role", "chan", "frames", "fin")},
                  "cuts": meta["cuts"], "enc": meta["enc"], "family": meta["family"],
                  "observed": {k: rec[k] for k in ("events", "close", "raised", "ok")}}
        if clause == "harness-guard":
            raise MachineryError("driver produced a scenario outside the environment's alphabet: %r" % (detail,))
        if clause.startswith("model:"):
            check.drift(signature(rec, meta, clause), detail)
        else:
            check.violation(signature(rec, meta, clause), detail)
    return fails


def is_nontrivial(rec):
    has_cl = any(bytes(h[0]) == b"content-length" for f in rec["frames"] for h in f["hs"])
    return rec["close"] != 0 or (has_cl and rec["fin"] != "none")


def readable(rec):
    """A record with its header lists as text, for the evidence samples."""
    def hs(x):
        return [[bytes(n).decode("latin-1"), bytes(v).decode("latin-1")] for n, v in x]
    return {"role": rec["role"], "stream": rec["chan"], "end_of_stream": rec["fin"],
            "sent": [f["t"] + (" %d" % f["n"] if f["t"] == "D" else " " + repr(hs(f["hs"]))) for f in rec["frames"]],
            "events": [e["t"] + (" %d" % e["n"] if e["t"] == "D" else " " + repr(hs(e["hs"]))) + (" END" if e["end"] else "")
                       for e in rec["events"]],
            "close": hex(rec["close"]) if rec["close"] else "-"}


class Sink:
    """Collects records; every `size` of them are handed to TLC (one batch at a
    time, in a helper thread, while the replay continues)."""

    def __init__(self, check, size):
        self.check, self.size = check, size
        self.records, self.metas = [], []
        self.pool = ThreadPoolExecutor(max_workers=1)
        self.pending = []
        self.batches = self.total = self.accepted = self.refused = self.multi_cl = 0
        self.sampled = set()

    def add(self, rec, meta):
        check = self.check
        self.total += 1
        check.count((rec["role"], rec["chan"], rec["fin"], repr(rec["frames"]), repr(meta["cuts"]), meta["enc"]),
                    nontrivial=is_nontrivial(rec))
        if rec["close"]:
            self.refused += 1
        else:
            self.accepted += 1
            first = rec["frames"][0]
            if first["t"] == "H" and any(e["end"] for e in rec["events"]) and \
                    len({bytes(h[1]) for h in first["hs"] if bytes(h[0]) == b"content-length"}) > 1:
                self.multi_cl += 1
        key = (meta["family"][0], bool(rec["close"]))
        if key not in self.sampled and (meta["family"][0] in "ADQ" or not rec["close"]) and len(self.sampled) < 6:
            self.sampled.add(key)
            check.sample({"family": meta["family"], "chunk sizes": meta["cuts"] or "whole", "encoding": meta["enc"],
                          "case": readable(rec)})
        self.records.append(rec)
        self.metas.append(meta)
        if len(self.records) >= self.size:
            self.flush()

    def flush(self):
        if self.records:
            self.batches += 1
            self.pending.append(self.pool.submit(judge, self.check, self.records, self.metas,
                                                 "TraceHeaderRules_%d" % self.batches))
            self.records, self.metas = [], []
        while len(self.pending) > 1:          # at most one batch waiting behind the one being judged
            self.pending.pop(0).result()

    def close(self):
        self.flush()
        for f in self.pending:
            f.result()
        self.pool.shutdown()


def replay(check, rig):
    d = json.load(open(check.replay))["detail"]
    if d.get("kind") == "model":
        raise MachineryError("replay of a design-level counterexample: run the check itself, the TLC trace is in the replay file")
    rec = rig.run(d["scenario"], d["cuts"], d["enc"])
    if not rec["ok"]:
        raise MachineryError("replayed scenario is not deliverable (QPACK)")
    judge(check, [rec], [{"cuts": d["cuts"], "enc": d["enc"], "family": d["family"]}], "replay")
    check.count(repr(d["scenario"]), nontrivial=True)
    check.sample({"replayed": rec})
    check.cov["rule"] = "replay of one recorded scenario, judged again by TLC"


def run(check):
    check.build_overlay()
    rig = Rig()
    if check.replay:
        return replay(check, rig)
    rnd = random.Random(check.seed)
    quick = check.quick
    phase, t0 = {}, time.time()

    def lap(name):
        nonlocal t0
        phase[name] = round(time.time() - t0, 1)
        t0 = time.time()

    # (M) design-level model checking, and (M->R) TLC enumerating the scenarios:
    # independent TLC runs side by side (large families in parts)
    def consts(ln, lv, lp, k, dup, nb, all_templates):
        return "LN = %d\nLV = %d\nLP = %d\nK = %d\nDup = %s\nNB = %d\nAllTemplates = %s" % (ln, lv, lp, k, dup, nb, all_templates)
    if quick:
        common = consts(2, 2, 1, 4, "FALSE", 2, "FALSE")
        jobs = [(fam, 0, common) for fam in "ABCD"]
    else:
        # A and B in one part per kind: the full bounds for requests and responses
        # (parts 1, 2), smaller ones for push promises and trailers of a request
        # (parts 3, 4); C also over the two further templates (pushed response,
        # trailers of a response); D in one part per role / stream.  Small parts first.
        full, less = consts(3, 3, 2, 5, "TRUE", 3, "TRUE"), consts(3, 3, 1, 4, "TRUE", 3, "TRUE")
        jobs = [("C", 0, full)] + [("D", k, full) for k in (1, 2, 3)] + \
               [("B", k, less) for k in (3, 4)] + [("A", k, less) for k in (3, 4)] + \
               [("B", k, full) for k in (1, 2)] + [("A", k, full) for k in (1, 2)]
    ex = ThreadPoolExecutor(max_workers=5 if quick else 6)
    fut_m = ex.submit(check.run_tlc, "HeaderRulesMC",
                      "SPECIFICATION Spec\nCONSTANT MaxBody = %d\nBig = %s\nINVARIANT TypeOk\n"
                      "INVARIANT DeliveredWellFormed\nINVARIANT EndedMatches\n" % ((2, "FALSE") if quick else (2, "TRUE")),
                      name="HeaderRulesMC", workers=4)
    futs = [(fam, part, ex.submit(tlc_cases, check, fam, part, c)) for fam, part, c in jobs]

    # the driver replays every enumerated scenario; records are judged by TLC in
    # batches while the replay (and the enumeration of later parts) goes on.
    # Q: scenarios of B, C and D once more, their header blocks referring to the
    # QPACK dynamic table and arriving before the peer's encoder stream (blocked,
    # then resumed).
    sink = Sink(check, 60000)
    plan = {"A": ("whole",),
            "B": ("whole",),
            "C": ("whole",) if quick else ("whole", "two", "bytes"),
            "D": ("whole", "bytes") if quick else ("whole", "rand")}
    qmax = 2 if quick else 3
    skipped = {}
    fam_counts = {"Q": 0}
    waited = 0
    for fam, part, fut in futs:
        path, n = fut.result()
        fam_counts[fam] = fam_counts.get(fam, 0) + n
        for scn in read_cases(path, n):
            built = rig.build(scn)
            if not built[2]:
                skipped[fam] = skipped.get(fam, 0) + 1
                continue
            for mode in plan[fam]:
                cuts = cuts_for(built, mode, rnd)
                sink.add(rig.run(scn, cuts, built=built), {"cuts": cuts, "enc": "lsqpack", "family": fam + "/" + mode})
            hs0, hs_last = scn["frames"][0]["hs"], scn["frames"][-1]["hs"]      # D: the block with content-length; B: the block under test
            if (fam == "B" and len(hs_last) <= qmax) or (fam == "C" and not quick) or \
                    (fam == "D" and (quick or sum(1 for h in hs0 if bytes(h[0]) == b"content-length") <= 1)):
                built = rig.build(scn, "dynamic")
                fam_counts["Q"] += 1
                if not built[2]:
                    skipped["Q"] = skipped.get("Q", 0) + 1
                    continue
                waited += built[4] > 0
                sink.add(rig.run(scn, None, "dynamic", built=built), {"cuts": None, "enc": "dynamic", "family": "Q/whole"})
        lap("replay_%s%d" % (fam, part))
    r = fut_m.result()
    ex.shutdown()
    if r.violated:
        check.model_violation(r, "HeaderRulesMC")
    check.cov["Q_scenarios_with_a_block_waiting_for_the_encoder_stream"] = waited
    check.cov["tlc_enumerated_scenarios"] = fam_counts

    # (V) seeded random scenarios
    nv = 6000 if quick else 100000
    made = 0
    while made < nv:
        scn = rand_scenario(rnd)
        if any(f["t"] != "D" and not f["hs"] for f in scn["frames"]):
            continue                                  # ls-qpack cannot carry an empty field section
        mode = rnd.choice(("whole", "frames", "bytes", "two", "rand"))
        how = rnd.choice(("lsqpack", "lsqpack", "lsqpack", "literal", "dynamic"))
        built = rig.build(scn, how)
        cuts = cuts_for(built, mode, rnd)
        rec = rig.run(scn, cuts, how, built=built)
        made += 1
        if not rec["ok"]:
            skipped["V"] = skipped.get("V", 0) + 1
            continue
        sink.add(rec, {"cuts": cuts, "enc": how, "family": "V/" + mode})
    lap("replay_V")
    sink.close()
    lap("judge_tail")
    check.cov["phase_wall_s"] = phase
    check.cov["not_deliverable_by_qpack"] = skipped
    if sum(skipped.values()) > sink.total // 10:
        raise MachineryError("too many scenarios not deliverable through QPACK: %r" % skipped)
    if sink.accepted < sink.total // 50 or sink.refused < sink.total // 50:
        raise MachineryError("implausible split accepted=%d refused=%d: the rig is not exercising the rules"
                             % (sink.accepted, sink.refused))
    check.cov["outcomes"] = {"accepted": sink.accepted, "refused": sink.refused}
    check.cov["observations"] = {
        "streams accepted to their end although the header block carried several differing content-length values "
        "(the implementation keeps the last one; the statement is not explicit, not judged)": sink.multi_cl}
    check.cov["exhaustive"] = True
    check.cov["rule"] = ("one case = one stream (role, request or push stream, frames with their header lists, where the "
                         "end of stream is, chunking, QPACK encoding) replayed into a fresh H3Connection; families A-D are "
                         "every case TLC enumerates for the bounds, V is seeded random; non-trivial = the connection "
                         "refused the message, or a content-length was declared and the stream was ended; distinct by "
                         "the whole case")
    check.cov["trusted_base"] = ["TLC 1.8 + CommunityModules (Json, SequencesExt)", "pylsqpack (ls-qpack) encoder and decoder",
                                 "harness FakeQuic stub standing for QuicConnection (close code, stream ids)",
                                 "projection of HeadersReceived/PushPromiseReceived/DataReceived to (type, headers, length, end)"]
    check.assumptions += [
        "H3Connection sits on a stub of QuicConnection (after tests/test_h3.py); qlog is off",
        "the peer respects frame sequencing (HEADERS, DATA*, optional trailers; complete frames); malformed frames and "
        "frame sequences are property C16",
        "header blocks come from a raw pylsqpack.Encoder (static table and literals), a hand-written literal encoding, or "
        "(family Q, a fifth of V) refer to the dynamic table and arrive before the peer's encoder stream; blocks that "
        "ls-qpack's decoder refuses (empty field section, empty name) are counted, not judged",
        "a content-length field declares a length when it is 1*DIGIT; when a block has several content-length fields only "
        "'the body equals none of them, however liberally read' is judged",
        "a PUSH_PROMISE block is a request block: it needs :method"]
