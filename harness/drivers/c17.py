"""C17 - wire codecs round-trip and agree with an independent codec.

The independent codec is spec/Codec.tla (TLA+ operators written from RFC 9000,
9369, 9368, 9221 and 8446).  TLC is the judge of every observation:

(M)   TLC evaluates Codec on exhaustively enumerated small domains (integers at
      and around every encoding boundary, every range set over 0..7 at five
      offsets, every long-header shape for both versions, every subset of a pool
      of transport parameters) and checks the codec against itself.
(M->R) the cases TLC enumerated are printed, replayed into aioquic's encoders
      (Buffer.push_*, push_ack_frame, QuicPacketBuilder, encode_quic_retry,
      encode_quic_version_negotiation, push_quic_transport_parameters, and for
      TLS the push_* functions on driver-enumerated presence patterns) and each
      row (value, bytes aioquic produced, value aioquic decodes from them) is
      judged by TLC with TraceCodec: Enc(value) = bytes, Dec(bytes) = value.
(V)   seeded random byte strings and mutations of the valid encodings
      (truncate, flip, extend, alter a length field, insert, delete, and a
      systematic lie in the length of every TLS extension) are decoded by
      aioquic; TLC computes Dec(bytes) with the length-strict decoder of Codec
      and judges outcome, value, bytes consumed and re-encoding.

Python only drives aioquic and projects objects to JSON mechanically
(integers to base-256 limbs, bytes to lists, dataclass fields in the order the
library writes them)."""
import ipaddress
import json
import os
import traceback

from .. import tlaparse, trace
from ..overlay import MachineryError

A = {}            # aioquic modules, filled by run()

V1, V2 = 0x00000001, 0x6B3343CF
INT_CODECS = ("uint_var", "uint8", "uint16", "uint32", "uint64")
TLS_CODECS = ("client_hello", "server_hello", "new_session_ticket", "encrypted_extensions",
              "certificate", "certificate_request", "certificate_verify", "finished")
MSG_TYPE = {"client_hello": 1, "server_hello": 2, "new_session_ticket": 4, "encrypted_extensions": 8,
            "certificate": 11, "certificate_request": 13, "certificate_verify": 15, "finished": 20}
TYPE_NAME = {"INITIAL": "initial", "ZERO_RTT": "0rtt", "HANDSHAKE": "handshake", "RETRY": "retry",
             "VERSION_NEGOTIATION": "vn", "ONE_RTT": "1rtt"}
NAME_TYPE = {v: k for k, v in TYPE_NAME.items()}


# ---------------------------------------------------------------------------
# mechanical projections
# ---------------------------------------------------------------------------
def limbs(v):
    return list(v.to_bytes((v.bit_length() + 7) // 8, "big"))


def unlimbs(m):
    return int.from_bytes(bytes(m), "big")


def big(v):
    return {"neg": 1 if v < 0 else 0, "m": limbs(abs(v))}


def unbig(x):
    return -unlimbs(x["m"]) if x["neg"] else unlimbs(x["m"])


def fix4(v):
    return list(v.to_bytes(4, "big"))


class OutOfDomain(Exception):
    """The library returned a value outside the value domain of the codec."""


def nat(v, bits=64):
    if not isinstance(v, int) or v < 0 or v >> bits:
        raise OutOfDomain(repr(v))
    return v


def exc_classes(e):
    return [k.__name__ for k in type(e).__mro__ if k not in (object, BaseException, Exception)]


def innermost(e):
    root = os.path.dirname(os.path.realpath(A["packet"].__file__))
    root = os.path.dirname(root)
    fn = "?"
    for fs in traceback.extract_tb(e.__traceback__):
        if os.path.realpath(fs.filename).startswith(root):
            fn = fs.name
    return fn


# ---------------------------------------------------------------------------
# integers (aioquic.buffer.Buffer)
# ---------------------------------------------------------------------------
def int_encode(codec, arg, val):
    buf = A["buffer"].Buffer(capacity=16)
    getattr(buf, "push_" + codec)(unbig(val))
    return buf.data, {}


def int_decode(codec, arg, b):
    buf = A["buffer"].Buffer(data=b)
    v = getattr(buf, "pull_" + codec)()
    return big(nat(v, 128)), buf.tell(), v


def int_reencode(codec, arg, obj):
    buf = A["buffer"].Buffer(capacity=16)
    getattr(buf, "push_" + codec)(obj)
    return buf.data


# ---------------------------------------------------------------------------
# ACK frames (aioquic.quic.packet push_ack_frame / pull_ack_frame)
# ---------------------------------------------------------------------------
def ack_encode(codec, arg, val):
    rs = A["rangeset"].RangeSet()
    for lo, hi in val["ranges"]:
        rs.add(unlimbs(lo), unlimbs(hi) + 1)
    buf = A["buffer"].Buffer(capacity=64 + 16 * len(val["ranges"]))
    A["packet"].push_ack_frame(buf, rs, unlimbs(val["delay"]))
    return buf.data, {}


def ack_project(rs, delay):
    return {"ranges": [[limbs(nat(r.start)), limbs(nat(r.stop - 1))] for r in rs], "delay": limbs(nat(delay))}


def ack_decode(codec, arg, b):
    buf = A["buffer"].Buffer(data=b)
    rs, delay = A["packet"].pull_ack_frame(buf)
    used = buf.tell()
    return ack_project(rs, delay), used, (rs, delay)


def ack_reencode(codec, arg, obj):
    rs, delay = obj
    buf = A["buffer"].Buffer(capacity=64 + 16 * len(rs))
    A["packet"].push_ack_frame(buf, rs, delay)
    return buf.data


# ---------------------------------------------------------------------------
# transport parameters
# ---------------------------------------------------------------------------
def tp_kind(t):
    P = A["packet"]
    return {int: "int", bytes: "bytes", bool: "flag", P.QuicPreferredAddress: "pa",
            P.QuicVersionInformation: "vi"}[t]


def addr_to(a, n):
    if not a:
        return None
    host, port = bytes(a[:n]), unlimbs(a[n:])
    return (str(ipaddress.IPv4Address(host) if n == 4 else ipaddress.IPv6Address(host)), port)


def addr_from(a, n):
    if a is None:
        return []
    cls = ipaddress.IPv4Address if n == 4 else ipaddress.IPv6Address
    return list(cls(a[0]).packed) + list(nat(a[1], 16).to_bytes(2, "big"))


def tp_object(val):
    P = A["packet"]
    params = P.QuicTransportParameters()
    for pid, v in val:
        name, t = P.PARAMS[pid]
        k = tp_kind(t)
        if k == "int":
            x = unlimbs(v)
        elif k == "bytes":
            x = bytes(v)
        elif k == "flag":
            x = True
        elif k == "pa":
            x = P.QuicPreferredAddress(ipv4_address=addr_to(v[0], 4), ipv6_address=addr_to(v[1], 16),
                                       connection_id=bytes(v[2]), stateless_reset_token=bytes(v[3]))
        else:
            x = P.QuicVersionInformation(chosen_version=unlimbs(v[0]), available_versions=[unlimbs(y) for y in v[1]])
        setattr(params, name, x)
    return params


def tp_project(params):
    P = A["packet"]
    out = []
    for pid, (name, t) in P.PARAMS.items():
        x = getattr(params, name)
        if x is None or x is False:
            continue
        k = tp_kind(t)
        if k == "int":
            v = limbs(nat(x))
        elif k == "bytes":
            v = list(x)
        elif k == "flag":
            v = []
        elif k == "pa":
            v = [addr_from(x.ipv4_address, 4), addr_from(x.ipv6_address, 16), list(x.connection_id),
                 list(x.stateless_reset_token)]
        else:
            v = [fix4(nat(x.chosen_version, 32)), [fix4(nat(y, 32)) for y in x.available_versions]]
        out.append([pid, v])
    return out


def tp_encode(codec, arg, val):
    buf = A["buffer"].Buffer(capacity=4096)
    A["packet"].push_quic_transport_parameters(buf, tp_object(val))
    return buf.data, {}


def tp_decode(codec, arg, b):
    buf = A["buffer"].Buffer(data=b)
    params = A["packet"].pull_quic_transport_parameters(buf)
    used = buf.tell()
    return tp_project(params), used, params


def tp_reencode(codec, arg, obj):
    buf = A["buffer"].Buffer(capacity=4096)
    A["packet"].push_quic_transport_parameters(buf, obj)
    return buf.data


# ---------------------------------------------------------------------------
# packet headers
# ---------------------------------------------------------------------------
def header_value(ver, typ, dcid, scid, token=(), tag=(), versions=(), plen=0):
    return {"ver": ver, "type": typ, "plen": plen, "dcid": list(dcid), "scid": list(scid),
            "token": list(token), "tag": list(tag), "versions": [list(v) for v in versions]}


def header_decode(codec, arg, b):
    buf = A["buffer"].Buffer(data=b)
    h = A["packet"].pull_quic_header(buf, host_cid_length=arg["hcl"])
    used = buf.tell()
    v = header_value([] if h.version is None else fix4(nat(h.version, 32)), TYPE_NAME[h.packet_type.name],
                     h.destination_cid, h.source_cid, h.token, h.integrity_tag,
                     [fix4(nat(x, 32)) for x in h.supported_versions], nat(h.packet_length, 31))
    return v, used, h


class StubCrypto:
    """Stands in for CryptoPair in QuicPacketBuilder: no protection, so that the
    header bytes the builder wrote can be read (AEAD and header protection are C02)."""
    aead_tag_size = 16

    def __init__(self, key_phase=0):
        self.key_phase = key_phase
        self.header = self.payload = None

    def encrypt_packet(self, plain_header, plain_payload, packet_number):
        self.header, self.payload = plain_header, plain_payload
        return plain_header + plain_payload + bytes(self.aead_tag_size)


def builder_encode(codec, arg, val):
    P = A["packet"]
    long = codec == "builder_long"
    ver = unlimbs(val["ver"]) if long else V1
    b = A["builder"].QuicPacketBuilder(
        host_cid=bytes(val["scid"]), peer_cid=bytes(val["dcid"]), version=ver, is_client=False,
        max_datagram_size=1280, packet_number=arg["pnfull"], peer_token=bytes(val["token"]),
        spin_bit=bool(arg.get("spin", 0)))
    crypto = StubCrypto(arg.get("kp", 0))
    b.start_packet(P.QuicPacketType[NAME_TYPE[val["type"]]], crypto)
    b.start_frame(P.QuicFrameType.PING)
    datagrams, packets = b.flush()
    if len(packets) != 1 or crypto.header is None:
        raise MachineryError("packet builder did not produce exactly one packet")
    pkt = datagrams[0][:packets[0].sent_bytes]
    extra = {"hlen": len(crypto.header), "pn": [(arg["pnfull"] >> 8) & 0xFF, arg["pnfull"] & 0xFF]}
    if long:
        extra.update(low4=1, lenw=2, length=2 + len(crypto.payload) + crypto.aead_tag_size)
    return pkt, extra


def retry_encode(codec, arg, val):
    b = A["packet"].encode_quic_retry(version=unlimbs(val["ver"]), source_cid=bytes(val["scid"]),
                                      destination_cid=bytes(val["dcid"]),
                                      original_destination_cid=bytes(arg["odcid"]),
                                      retry_token=bytes(val["token"]), unused=arg["low4"])
    return b, {"tag": list(b[-16:])}


def vn_encode(codec, arg, val):
    b = A["packet"].encode_quic_version_negotiation(
        source_cid=bytes(val["scid"]), destination_cid=bytes(val["dcid"]),
        supported_versions=[unlimbs(v) for v in val["versions"]])
    return b, {"first": b[0]}


# ---------------------------------------------------------------------------
# TLS handshake messages.  A value mirrors the schema in Codec.tla: a message is
# [0, body] (0 = the constant type byte), a struct is a list of its fields, an
# extension list is [[type, value], ...] in the order the library writes them.
# ---------------------------------------------------------------------------
def _names(xs):
    return [list(x.encode("ascii")) for x in xs]


def _u(v, bits):
    return nat(v, bits)


def _others(xs):
    return [[_u(t, 16), list(d)] for t, d in xs]


def tls_project(codec, o):
    if codec == "client_hello":
        ex = []
        if o.key_share is not None:
            ex.append([51, [[_u(g, 16), list(d)] for g, d in o.key_share]])
        if o.supported_versions is not None:
            ex.append([43, [_u(x, 16) for x in o.supported_versions]])
        if o.signature_algorithms is not None:
            ex.append([13, [_u(x, 16) for x in o.signature_algorithms]])
        if o.supported_groups is not None:
            ex.append([10, [_u(x, 16) for x in o.supported_groups]])
        if o.psk_key_exchange_modes is not None:
            ex.append([45, [_u(x, 8) for x in o.psk_key_exchange_modes]])
        if o.server_name is not None:
            ex.append([0, [0, list(o.server_name.encode("ascii"))]])
        if o.alpn_protocols is not None:
            ex.append([16, _names(o.alpn_protocols)])
        ex += _others(o.other_extensions)
        if o.early_data:
            ex.append([42, []])
        if o.pre_shared_key is not None:
            ex.append([41, [[[list(i), fix4(_u(a, 32))] for i, a in o.pre_shared_key.identities],
                            [list(x) for x in o.pre_shared_key.binders]]])
        return [0, [0, list(o.random), list(o.legacy_session_id), [_u(x, 16) for x in o.cipher_suites],
                    [_u(x, 8) for x in o.legacy_compression_methods], ex]]
    if codec == "server_hello":
        ex = []
        if o.supported_version is not None:
            ex.append([43, _u(o.supported_version, 16)])
        if o.key_share is not None:
            ex.append([51, [_u(o.key_share[0], 16), list(o.key_share[1])]])
        if o.pre_shared_key is not None:
            ex.append([41, _u(o.pre_shared_key, 16)])
        ex += _others(o.other_extensions)
        return [0, [0, list(o.random), list(o.legacy_session_id), _u(o.cipher_suite, 16),
                    _u(o.compression_method, 8), ex]]
    if codec == "new_session_ticket":
        ex = []
        if o.max_early_data_size is not None:
            ex.append([42, fix4(_u(o.max_early_data_size, 32))])
        ex += _others(o.other_extensions)
        return [0, [fix4(_u(o.ticket_lifetime, 32)), fix4(_u(o.ticket_age_add, 32)), list(o.ticket_nonce),
                    list(o.ticket), ex]]
    if codec == "encrypted_extensions":
        ex = []
        if o.alpn_protocol is not None:
            ex.append([16, _names([o.alpn_protocol])])
        if o.early_data:
            ex.append([42, []])
        ex += _others(o.other_extensions)
        return [0, [ex]]
    if codec == "certificate":
        return [0, [list(o.request_context), [[list(d), list(e)] for d, e in o.certificates]]]
    if codec == "certificate_request":
        ex = []
        if o.signature_algorithms is not None:
            ex.append([13, [_u(x, 16) for x in o.signature_algorithms]])
        ex += _others(o.other_extensions)
        return [0, [list(o.request_context), ex]]
    if codec == "certificate_verify":
        return [0, [_u(o.algorithm, 16), list(o.signature)]]
    if codec == "finished":
        return [0, list(o.verify_data)]
    raise MachineryError("unknown TLS codec " + codec)


def _known(ex, t, default=None):
    for tt, v in ex:
        if tt == t:
            return v
    return default


def _rest(ex, known):
    return [(t, bytes(v)) for t, v in ex if t not in known]


def tls_object(codec, val):
    T = A["tls"]
    if codec == "finished":
        return T.Finished(verify_data=bytes(val[1]))
    f = val[1]
    if codec == "client_hello":
        ex = f[5]
        psk = _known(ex, 41)
        sn = _known(ex, 0)
        alpn = _known(ex, 16)
        ks = _known(ex, 51)
        return T.ClientHello(
            random=bytes(f[1]), legacy_session_id=bytes(f[2]), cipher_suites=list(f[3]),
            legacy_compression_methods=list(f[4]),
            alpn_protocols=None if alpn is None else [bytes(x).decode("ascii") for x in alpn],
            early_data=_known(ex, 42) is not None,
            key_share=None if ks is None else [(g, bytes(d)) for g, d in ks],
            pre_shared_key=None if psk is None else T.OfferedPsks(
                identities=[(bytes(i), unlimbs(a)) for i, a in psk[0]], binders=[bytes(x) for x in psk[1]]),
            psk_key_exchange_modes=_known(ex, 45), server_name=None if sn is None else bytes(sn[1]).decode("ascii"),
            signature_algorithms=_known(ex, 13), supported_groups=_known(ex, 10), supported_versions=_known(ex, 43),
            other_extensions=_rest(ex, (51, 43, 13, 10, 45, 0, 16, 42, 41)))
    if codec == "server_hello":
        ex = f[5]
        ks = _known(ex, 51)
        return T.ServerHello(random=bytes(f[1]), legacy_session_id=bytes(f[2]), cipher_suite=f[3],
                             compression_method=f[4], key_share=None if ks is None else (ks[0], bytes(ks[1])),
                             pre_shared_key=_known(ex, 41), supported_version=_known(ex, 43),
                             other_extensions=_rest(ex, (43, 51, 41)))
    if codec == "new_session_ticket":
        ex = f[4]
        me = _known(ex, 42)
        return T.NewSessionTicket(ticket_lifetime=unlimbs(f[0]), ticket_age_add=unlimbs(f[1]),
                                  ticket_nonce=bytes(f[2]), ticket=bytes(f[3]),
                                  max_early_data_size=None if me is None else unlimbs(me),
                                  other_extensions=_rest(ex, (42,)))
    if codec == "encrypted_extensions":
        ex = f[0]
        alpn = _known(ex, 16)
        return T.EncryptedExtensions(alpn_protocol=None if alpn is None else bytes(alpn[0]).decode("ascii"),
                                     early_data=_known(ex, 42) is not None, other_extensions=_rest(ex, (16, 42)))
    if codec == "certificate":
        return T.Certificate(request_context=bytes(f[0]), certificates=[(bytes(d), bytes(e)) for d, e in f[1]])
    if codec == "certificate_request":
        ex = f[1]
        return T.CertificateRequest(request_context=bytes(f[0]), signature_algorithms=_known(ex, 13),
                                    other_extensions=_rest(ex, (13,)))
    if codec == "certificate_verify":
        return T.CertificateVerify(algorithm=f[0], signature=bytes(f[1]))
    raise MachineryError("unknown TLS codec " + codec)


def tls_can_push(codec, o):
    """push_client_hello / push_certificate_request write some extensions unconditionally;
    the library itself only ever calls them with those fields set."""
    if codec == "client_hello":
        return None not in (o.key_share, o.supported_versions, o.signature_algorithms, o.supported_groups)
    if codec == "certificate_request":
        return o.signature_algorithms is not None
    return True


def tls_encode(codec, arg, val):
    o = tls_object(codec, val)
    if not tls_can_push(codec, o):
        raise MachineryError("driver asked to push a %s without its mandatory extensions" % codec)
    buf = A["buffer"].Buffer(capacity=8192)
    getattr(A["tls"], "push_" + codec)(buf, o)
    return buf.data, {}


def tls_decode(codec, arg, b):
    buf = A["buffer"].Buffer(data=b)
    o = getattr(A["tls"], "pull_" + codec)(buf)
    used = buf.tell()
    return tls_project(codec, o), used, o


def tls_reencode(codec, arg, obj):
    if not tls_can_push(codec, obj):
        return None
    buf = A["buffer"].Buffer(capacity=8192)
    getattr(A["tls"], "push_" + codec)(buf, obj)
    return buf.data


# ---------------------------------------------------------------------------
# dispatch and rows
# ---------------------------------------------------------------------------
def family(codec):
    if codec in INT_CODECS:
        return (int_encode, int_decode, int_reencode, codec)
    if codec == "ack":
        return (ack_encode, ack_decode, ack_reencode, codec)
    if codec == "tp":
        return (tp_encode, tp_decode, tp_reencode, codec)
    if codec in TLS_CODECS:
        return (tls_encode, tls_decode, tls_reencode, codec)
    if codec == "header":
        return (None, header_decode, None, codec)
    if codec in ("builder_long", "builder_short"):
        return (builder_encode, header_decode, None, "header")
    if codec == "retry":
        return (retry_encode, header_decode, None, "header")
    if codec == "vn":
        return (vn_encode, header_decode, None, "header")
    raise MachineryError("unknown codec " + codec)


def blank(op, codec, arg):
    a = {"hcl": 0}
    a.update(arg)
    return {"op": op, "codec": codec, "arg": a, "val": [], "dom": 1, "b": [], "out": "ok", "exc": [], "fn": "",
            "used": -1, "dec": [], "dout": "na", "re": [], "reout": "na"}


def enc_row(codec, arg, val):
    """Give `val` to aioquic's encoder, then its bytes to aioquic's decoder."""
    encode, decode, _, dcodec = family(codec)
    row = blank("enc", codec, arg)
    row["val"] = val
    try:
        b, extra = encode(codec, row["arg"], val)
    except MachineryError:
        raise
    except Exception as e:
        row.update(out="raise", exc=exc_classes(e), fn=innermost(e))
        return row
    row["arg"].update(extra)
    row["b"] = list(b)
    try:
        v, used, _ = decode(dcodec, row["arg"], b)
        row.update(dec=v, used=used, dout="ok")
    except OutOfDomain:
        row.update(dout="ok", dec=[], used=-1)
    except Exception as e:
        row.update(dout="raise", exc=exc_classes(e), fn=innermost(e))
    return row


def dec_row(codec, arg, b):
    """Give the bytes `b` to aioquic's decoder; re-encode what it returns."""
    _, decode, reencode, _ = family(codec)
    row = blank("dec", codec, arg)
    row["b"] = list(b)
    try:
        v, used, obj = decode(codec, row["arg"], bytes(b))
    except OutOfDomain:
        row.update(dom=0, out="ok")
        return row
    except Exception as e:
        row.update(out="raise", exc=exc_classes(e), fn=innermost(e))
        return row
    row.update(val=v, used=used)
    if reencode is not None:
        try:
            r = reencode(codec, row["arg"], obj)
            if r is not None:
                row.update(re=list(r), reout="ok")
        except Exception as e:
            row.update(reout="raise", exc=exc_classes(e), fn=innermost(e))
    return row


def inputs(row):
    """What is needed to observe the row again (--replay)."""
    arg = {k: v for k, v in row["arg"].items() if k in ("hcl", "pnfull", "spin", "kp", "odcid", "low4")}
    if row["codec"] in ("builder_long", "builder_short"):
        arg.pop("low4", None)
    d = {"op": row["op"], "codec": row["codec"], "arg": arg}
    if row["op"] == "enc":
        d["val"] = row["val"]
    else:
        d["b"] = row["b"]
    return d


def observe(d):
    if d["op"] == "enc":
        return enc_row(d["codec"], d["arg"], d["val"])
    return dec_row(d["codec"], d["arg"], bytes(d["b"]))


# ---------------------------------------------------------------------------
# (M) and the cases TLC enumerated
# ---------------------------------------------------------------------------
def model_cfg(check, emit):
    if check.quick:
        nat_lo, nat_max, scid, pool = 700, 16640, "{0, 8, 20}", "{0, 1, 2, 3, 12, 13, 14, 17, 32, 3127}"
    else:
        nat_lo, nat_max, scid = 70000, 70000, "{%s}" % ", ".join(str(i) for i in range(21))
        pool = "{0, 1, 2, 3, 4, 8, 10, 12, 13, 14, 15, 17, 32, 3127}"
    return ("SPECIFICATION Spec\nCONSTANTS NatLo = %d\nNatMax = %d\nScidLens = %s\nTokLens = {0, 1, 63, 64, 300}\n"
            "TPPool = %s\nEmit = %s\nINVARIANT Lemma\n" % (nat_lo, nat_max, scid, pool, "TRUE" if emit else "FALSE"))


TRACE_CONSTANTS = "CONSTANTS NatLo = 0\nNatMax = 0\nScidLens = {}\nTokLens = {}\nTPPool = {}\nEmit = FALSE"


def tlc_cases(check):
    r = check.run_tlc("Codec", model_cfg(check, True), name="Codec_M", timeout=1500)
    if r.violated:
        check.model_violation(r, "Codec")
        return []
    cases = []
    for line in r.out.splitlines():
        if line.startswith('"GEN '):
            cases.append(tlaparse.parse_value(line[5:-1].replace('\\"', '"')))
    if not cases:
        raise MachineryError("TLC printed no cases")
    cases.sort(key=repr)          # the order workers print in is not deterministic
    return cases


INT_POOL = [0, 1, 63, 64, 16383, 16384, 2 ** 30 - 1, 2 ** 30, 2 ** 62 - 1]


def tp_value(pid, rnd):
    P = A["packet"]
    k = tp_kind(P.PARAMS[pid][1])
    if k == "int":
        return limbs(rnd.choice(INT_POOL) if rnd.random() < 0.8 else rnd.getrandbits(62))
    if k == "bytes":
        n = 16 if pid == 2 else rnd.choice([0, 1, 8, 20])
        return list(rnd.randbytes(n))
    if k == "flag":
        return []
    if k == "pa":
        v4 = [] if rnd.random() < 0.3 else [rnd.randint(1, 255)] + list(rnd.randbytes(5))
        v6 = [] if rnd.random() < 0.3 else [rnd.randint(1, 255)] + list(rnd.randbytes(17))
        return [v4, v6, list(rnd.randbytes(rnd.choice([0, 4, 8, 20]))), list(rnd.randbytes(16))]
    return [fix4(rnd.choice([V1, V2, 0x0A1A2A3A])), [fix4(rnd.choice([V1, V2, 0xFF00001D])) for _ in range(rnd.randint(0, 3))]]


def rows_from_cases(cases, rnd):
    P = A["packet"]
    rows = []
    order = list(P.PARAMS)
    for cs in cases:
        k = cs["kind"]
        if k == "int":
            x = {"neg": cs["x"]["neg"], "m": list(cs["x"]["m"])}
            for codec in INT_CODECS:
                rows.append(enc_row(codec, {}, x))
        elif k == "ack":
            v = {"ranges": [[list(lo), list(hi)] for lo, hi in cs["v"]["ranges"]], "delay": list(cs["v"]["delay"])}
            rows.append(enc_row("ack", {}, v))
        elif k == "hdr":
            t = cs["type"]
            if t in ("0rtt", "handshake") and cs["tl"] != 0:
                continue                       # these carry no token
            ver = list(cs["ver"])
            dcid, scid, token = rnd.randbytes(cs["dl"]), rnd.randbytes(cs["sl"]), rnd.randbytes(cs["tl"])
            val = header_value(ver, t, dcid, scid, token)
            if t == "retry":
                rows.append(enc_row("retry", {"hcl": 8, "odcid": list(rnd.randbytes(rnd.choice([0, 8, 20]))),
                                              "low4": rnd.randrange(16)}, val))
            else:
                rows.append(enc_row("builder_long", {"hcl": 8, "pnfull": rnd.choice([0, 1, 255, 256, 65535, 65536, 2 ** 31 + 5])}, val))
        elif k == "tp":
            ids = sorted(cs["ids"], key=order.index)
            rows.append(enc_row("tp", {}, [[pid, tp_value(pid, rnd)] for pid in ids]))
        else:
            raise MachineryError("unknown case kind %r" % (k,))
    return rows


def extra_enc_rows(check, rnd):
    """Domains enumerated by the driver: random 62/64-bit integers, Version
    Negotiation and short headers for every CID length, random parameter sets."""
    rows = []
    for _ in range(200 if check.quick else 2000):
        v = rnd.getrandbits(rnd.choice([8, 16, 30, 32, 62, 62, 64, 64, 70]))
        for codec in INT_CODECS:
            rows.append(enc_row(codec, {}, big(v)))
    for v in (-1, -64, -2 ** 62, 2 ** 64 + 5, 2 ** 70):
        for codec in INT_CODECS:
            rows.append(enc_row(codec, {}, big(v)))
    sls = [0, 8, 20] if check.quick else range(21)
    for dl in range(21):
        for sl in sls:
            vs = [fix4(rnd.choice([V1, V2, rnd.getrandbits(32)])) for _ in range(rnd.choice([0, 1, 2, 5]))]
            rows.append(enc_row("vn", {"hcl": 8}, header_value(fix4(0), "vn", rnd.randbytes(dl), rnd.randbytes(sl),
                                                                versions=vs)))
        for spin in (0, 1):
            for kp in (0, 1):
                rows.append(enc_row("builder_short", {"hcl": dl, "spin": spin, "kp": kp,
                                                      "pnfull": rnd.choice([0, 255, 256, 65535, 70000])},
                                    header_value([], "1rtt", rnd.randbytes(dl), b"")))
    order = list(A["packet"].PARAMS)
    for _ in range(300 if check.quick else 3000):
        ids = [pid for pid in order if rnd.random() < 0.5]
        rows.append(enc_row("tp", {}, [[pid, tp_value(pid, rnd)] for pid in ids]))
    return rows


# ---------------------------------------------------------------------------
# TLS values: every pattern of optional parts present / absent, random bodies
# ---------------------------------------------------------------------------
def rb(rnd, choices):
    return list(rnd.randbytes(rnd.choice(choices)))


def ascii_name(rnd, lens=(1, 2, 5)):
    return [rnd.randrange(0x21, 0x7F) for _ in range(rnd.choice(lens))]


def u16s(rnd, ns=(1, 2, 4)):
    return [rnd.choice([0, 0x0304, 0x1301, 0x001D, 0xFFFF, rnd.getrandbits(16)]) for _ in range(rnd.choice(ns))]


def unknown_exts(rnd, known, n):
    out = []
    for _ in range(n):
        t = rnd.choice([57, 0xFFA5, 5, 27, 44, 0xFAFA, rnd.getrandbits(16)])
        if t not in known:
            out.append([t, rb(rnd, (0, 1, 6))])
    return out


def tls_values(check, rnd):
    out = []
    reps = 2 if check.quick else 12
    for _ in range(reps):
        for mask in range(64):
            ex = [[51, [[rnd.choice([0x1D, 0x17, 0xAAAA]), rb(rnd, (0, 1, 4))] for _ in range(rnd.choice([0, 1, 2]))]],
                  [43, u16s(rnd)], [13, u16s(rnd)], [10, u16s(rnd)]]
            if mask & 1:
                ex.append([45, [rnd.randrange(256) for _ in range(rnd.choice([0, 1, 2]))]])
            if mask & 2:
                ex.append([0, [0, ascii_name(rnd, (0, 1, 9))]])
            if mask & 4:
                ex.append([16, [ascii_name(rnd) for _ in range(rnd.choice([0, 1, 3]))]])
            if mask & 8:
                ex += unknown_exts(rnd, (51, 43, 13, 10, 45, 0, 16, 42, 41), rnd.choice([1, 2]))
            if mask & 16:
                ex.append([42, []])
            if mask & 32:
                ex.append([41, [[[rb(rnd, (0, 1, 5)), fix4(rnd.getrandbits(32))] for _ in range(rnd.choice([0, 1, 2]))],
                                [rb(rnd, (0, 1, 4)) for _ in range(rnd.choice([0, 1, 2]))]]])
            out.append(("client_hello", [0, [0, rb(rnd, (32,)), rb(rnd, (0, 1, 32)), u16s(rnd, (0, 1, 3)),
                                             [rnd.randrange(256) for _ in range(rnd.choice([0, 1, 2]))], ex]]))
        for mask in range(16):
            ex = []
            if mask & 1:
                ex.append([43, rnd.choice([0x0304, 0, 0xFFFF])])
            if mask & 2:
                ex.append([51, [rnd.choice([0x1D, 0x17]), rb(rnd, (0, 1, 4))]])
            if mask & 4:
                ex.append([41, rnd.choice([0, 1, 0xFFFF])])
            if mask & 8:
                ex += unknown_exts(rnd, (43, 51, 41), rnd.choice([1, 2]))
            out.append(("server_hello", [0, [0, rb(rnd, (32,)), rb(rnd, (0, 1, 32)), rnd.choice([0x1301, 0, 0xFFFF]),
                                             rnd.choice([0, 1, 255]), ex]]))
        for mask in range(4):
            ex = []
            if mask & 1:
                ex.append([42, fix4(rnd.choice([0, 1, 0xFFFFFFFF, rnd.getrandbits(32)]))])
            if mask & 2:
                ex += unknown_exts(rnd, (42,), rnd.choice([1, 2]))
            out.append(("new_session_ticket", [0, [fix4(rnd.choice([0, 0xFFFFFFFF, rnd.getrandbits(32)])),
                                                   fix4(rnd.getrandbits(32)), rb(rnd, (0, 1, 8)), rb(rnd, (0, 1, 20)), ex]]))
        for mask in range(8):
            ex = []
            if mask & 1:
                ex.append([16, [ascii_name(rnd)]])
            if mask & 2:
                ex.append([42, []])
            if mask & 4:
                ex += unknown_exts(rnd, (16, 42), rnd.choice([1, 2]))
            out.append(("encrypted_extensions", [0, [ex]]))
        for n in (0, 1, 2, 3):
            out.append(("certificate", [0, [rb(rnd, (0, 1, 4)), [[rb(rnd, (0, 1, 12)), rb(rnd, (0, 3))] for _ in range(n)]]]))
        for mask in range(2):
            ex = [[13, u16s(rnd, (0, 1, 3))]]
            if mask & 1:
                ex += unknown_exts(rnd, (13,), rnd.choice([1, 2]))
            out.append(("certificate_request", [0, [rb(rnd, (0, 1, 4)), ex]]))
        for n in (0, 1, 16):
            out.append(("certificate_verify", [0, [rnd.choice([0x0804, 0, 0xFFFF]), rb(rnd, (n,))]]))
            out.append(("finished", [0, rb(rnd, (n, 32))]))
    return out


# ---------------------------------------------------------------------------
# (V) arbitrary bytes
# ---------------------------------------------------------------------------
def fix_frame(codec, b):
    """A handshake message reaches pull_<codec> only complete and with its own
    type: keep the type byte and make the outer 24-bit length match."""
    b = bytearray(b)
    if len(b) < 4:
        b += bytes(4 - len(b))
    b[0] = MSG_TYPE[codec]
    b[1:4] = (len(b) - 4).to_bytes(3, "big")
    return bytes(b)


def mutate(b, rnd):
    b = bytearray(b)
    kind = rnd.choice(["truncate", "flip", "extend", "length", "length", "insert", "delete"])
    if kind == "truncate" and b:
        del b[rnd.randrange(len(b)):]
    elif kind == "flip" and b:
        b[rnd.randrange(len(b))] ^= 1 << rnd.randrange(8)
    elif kind == "extend":
        b += rnd.randbytes(rnd.choice([1, 2, 4, 9]))
    elif kind == "length" and b:
        i = rnd.randrange(len(b))
        b[i] = rnd.choice([(b[i] + 1) & 255, (b[i] - 1) & 255, 0, 1, 255, 0x40, 0x80, 0xC0, rnd.randrange(256)])
    elif kind == "insert":
        b.insert(rnd.randrange(len(b) + 1), rnd.randrange(256))
    elif kind == "delete" and b:
        del b[rnd.randrange(len(b))]
    return kind, bytes(b)


EXT_BODIES = {
    "client_hello": {51: "0006001d0002aabb", 43: "020304", 13: "00020804", 10: "0002001d", 45: "0101",
                     0: "0006000003616263", 16: "0003026833", 42: "",
                     41: "00070001aa00000001000201bb"},
    "server_hello": {43: "0304", 51: "001d0002aabb", 41: "0000"},
    "encrypted_extensions": {16: "0003026833", 42: ""},
    "new_session_ticket": {42: "00000400"},
    "certificate_request": {13: "00020804"},
}
PREFIX = {
    "client_hello": "0303" + "11" * 32 + "00" + "00021301" + "0100",
    "server_hello": "0303" + "22" * 32 + "00" + "1301" + "00",
    "encrypted_extensions": "",
    "new_session_ticket": "00000e10" + "01020304" + "00" + "0000",
    "certificate_request": "00",
}


def ext_bytes(t, declared, body):
    return t.to_bytes(2, "big") + declared.to_bytes(2, "big") + body


def length_lies(rnd):
    """For every extension the library understands: the same message with the
    extension's declared length one short of its body (the parser has to stop
    at the declared length) and with a declared length that swallows the
    extension that follows (the parser has to consume all of it)."""
    out = []
    for codec, bodies in EXT_BODIES.items():
        for t, hx in bodies.items():
            body = bytes.fromhex(hx)
            follow = ext_bytes(0xFAFA, 2, b"\x07\x08")
            variants = [("exact", ext_bytes(t, len(body), body) + follow)]
            if body:
                variants.append(("short", ext_bytes(t, len(body) - 1, body) + follow))
            variants.append(("swallow", ext_bytes(t, len(body) + len(follow), body) + follow))
            if t == 41 and codec == "client_hello":       # pre_shared_key has to be last
                variants = [("exact", ext_bytes(t, len(body), body)), ("short", ext_bytes(t, len(body) - 1, body))]
            for name, exts in variants:
                msg = bytes.fromhex(PREFIX[codec]) + len(exts).to_bytes(2, "big") + exts
                out.append((codec, "ext-length-" + name, fix_frame(codec, b"\x00\x00\x00\x00" + msg)))
    # text fields that are not ASCII; an ALPN extension without a protocol name
    for codec, exts in (("client_hello", ext_bytes(0, 8, bytes.fromhex("0006000003") + b"a\xffb")),
                        ("client_hello", ext_bytes(16, 5, bytes.fromhex("000302") + b"\xc3\xa9")),
                        ("encrypted_extensions", ext_bytes(16, 2, bytes.fromhex("0000"))),
                        ("encrypted_extensions", ext_bytes(16, 5, bytes.fromhex("000302") + b"\xc3\xa9"))):
        msg = bytes.fromhex(PREFIX[codec]) + len(exts).to_bytes(2, "big") + exts
        out.append((codec, "ext-length-text", fix_frame(codec, b"\x00\x00\x00\x00" + msg)))
    return out


def dec_rows(check, rnd, enc_rows):
    seeds = {}
    for r in enc_rows:
        if r["out"] == "ok" and len(r["b"]) <= 160:
            seeds.setdefault(family(r["codec"])[3], []).append((bytes(r["b"]), r["arg"]["hcl"]))
    rows, kinds = [], []
    per = 300 if check.quick else 4000
    for codec in sorted(seeds):
        pool = seeds[codec]
        n = per * (3 if codec in ("header", "tp", "ack") else 1)
        for _ in range(n):
            b, hcl = rnd.choice(pool)
            kind, m = mutate(b, rnd)
            if rnd.random() < 0.25:
                k2, m = mutate(m, rnd)
                kind += "+" + k2
            if codec in TLS_CODECS:
                m = fix_frame(codec, m)
            if codec == "header" and rnd.random() < 0.2:
                hcl = rnd.choice([0, 4, 8, 20])
            rows.append(dec_row(codec, {"hcl": hcl}, m))
            kinds.append(kind)
    # arbitrary byte strings
    for codec in list(INT_CODECS) + ["ack", "tp", "header"] + list(TLS_CODECS):
        for _ in range(120 if check.quick else 1500):
            m = rnd.randbytes(rnd.choice([0, 1, 2, 3, 5, 8, 13, 24, 40]))
            if codec in TLS_CODECS:
                m = fix_frame(codec, m)
            if codec == "ack" and rnd.random() < 0.7:      # mostly small integers, so that several ranges parse
                m = bytes(rnd.choice([0, 1, 2, 3, 5, 9, 40, 63, 64, rnd.randrange(256)]) for _ in range(len(m)))
            rows.append(dec_row(codec, {"hcl": rnd.choice([0, 8, 20])}, m))
            kinds.append("random")
    for codec, kind, m in length_lies(rnd):
        rows.append(dec_row(codec, {}, m))
        kinds.append(kind)
    return rows, kinds


# ---------------------------------------------------------------------------
# judging
# ---------------------------------------------------------------------------
def signature(row, clause):
    exc0 = (row["exc"] or ["?"])[0]
    if clause.startswith(("undocumented-exception:", "round-trip:encoder-raised:")):
        return "%s:%s:%s" % (clause, row["codec"], row["fn"])
    if clause in ("round-trip:decoder-raised", "reencode:raised"):
        return "%s:%s:%s:%s" % (clause, exc0, row["codec"], row["fn"])
    if clause.startswith(("declared-length:", "model:lenient-accept:")):
        head, at = clause.rsplit(":", 1)
        return "%s:%s:%s" % (head, row["codec"], at or "block")
    return "%s:%s" % (clause, row["codec"])


def judge(check, rows, name, probes=()):
    """TLC judges every row.  `probes` are (row, clause) pairs: good rows with one
    recorded field corrupted, which TLC has to reject with that clause (binding
    demonstration); they are never reported."""
    allrows = list(rows) + [p for p, _ in probes]
    wire = [{k: v for k, v in r.items() if k != "fn"} for r in allrows]
    fails = trace.validate(check, "TraceCodec", wire, constants=TRACE_CONSTANTS, name=name,
                           shards=max(1, min(8, len(wire) // 2500)))
    check.cov["traces_validated_against_impl"] += len(rows)
    caught = {}
    for i, clause in fails:
        if i >= len(rows):
            caught[i - len(rows)] = clause
            continue
        row = rows[i]
        sig = signature(row, clause)
        detail = {"clause": clause, "inputs": inputs(row), "observed": {k: row[k] for k in
                  ("out", "exc", "fn", "used", "val", "dom", "b", "dec", "dout", "re", "reout")}}
        if clause == "harness-guard":
            raise MachineryError("driver left the call alphabet: %s" % json.dumps(inputs(row))[:400])
        if clause.startswith("model:"):
            check.drift(sig, detail)
        else:
            check.violation(sig, detail)
    for k, (_, want) in enumerate(probes):
        if caught.get(k) != want:
            raise MachineryError("binding demonstration failed: corrupted row %d judged %r, expected %r"
                                 % (k, caught.get(k), want))
    if probes:
        check.cov["binding_demonstration"] = ["corrupted %s row rejected with clause %s" % (p["codec"], w) for p, w in probes]
    return fails


def corrupted(enc, dec):
    """Good rows with one recorded field changed; TLC must reject each."""
    import copy
    out = []
    r = copy.deepcopy(next(x for x in enc if x["codec"] == "ack" and x["out"] == "ok" and len(x["val"]["ranges"]) > 1))
    r["b"][-1] ^= 1
    out.append((r, "bytes-differ-from-independent-encoder"))
    r = copy.deepcopy(next(x for x in enc if x["codec"] == "uint_var" and x["out"] == "ok" and x["dout"] == "ok"))
    r["dec"] = big(unbig(r["dec"]) + 1)
    out.append((r, "round-trip:value"))
    r = copy.deepcopy(next(x for x in dec if x["codec"] == "tp" and x["out"] == "ok" and len(x["val"]) > 1))
    r["val"] = r["val"][:-1]
    out.append((r, "decode-value"))
    r = copy.deepcopy(next(x for x in dec if x["codec"] == "header" and x["out"] == "ok"))
    r["used"] += 1
    out.append((r, "decode-consumed"))
    r = copy.deepcopy(next(x for x in dec if x["codec"] == "finished" and x["out"] == "ok" and x["reout"] == "ok"))
    r["re"] = r["re"] + [0]
    out.append((r, "reencode:bytes-differ-from-independent-encoder"))
    return out


def replay(check):
    d = json.load(open(check.replay))["detail"]
    if d.get("kind") == "model":
        raise MachineryError("replay of a design-level counterexample: run the check itself, the TLC trace is in the replay file")
    row = observe(d["inputs"])
    judge(check, [row], "replay")
    check.count(repr(d["inputs"]), nontrivial=True)
    check.sample({"replayed": {k: row[k] for k in ("op", "codec", "out", "exc", "used")}})
    check.cov["rule"] = "replay of one recorded observation, judged again by TLC"


def run(check):
    check.build_overlay()
    import random

    import aioquic.buffer as buffer
    import aioquic.quic.packet as packet
    import aioquic.quic.packet_builder as builder
    import aioquic.quic.rangeset as rangeset
    import aioquic.tls as tls
    A.update(buffer=buffer, packet=packet, builder=builder, rangeset=rangeset, tls=tls)
    if check.replay:
        return replay(check)
    rnd = random.Random(check.seed)

    # (M) + the enumerated cases
    cases = tlc_cases(check)
    check.cov["tlc_cases_replayed"] = len(cases)
    # (M->R)
    enc = rows_from_cases(cases, rnd)
    enc += extra_enc_rows(check, rnd)
    tvals = tls_values(check, rnd)
    enc += [enc_row(codec, {}, val) for codec, val in tvals]
    for r in enc:
        check.count(("enc", r["codec"], json.dumps(r["val"]), json.dumps(r["arg"], sort_keys=True)), nontrivial=True)
    # (V)
    dec, kinds = dec_rows(check, rnd, enc)
    judge(check, enc + dec, "TraceCodec_RV", probes=corrupted(enc, dec))
    accepted = 0
    for r, kind in zip(dec, kinds):
        ok = r["out"] == "ok"
        accepted += ok
        check.count(("dec", r["codec"], bytes(r["b"]).hex(), r["arg"]["hcl"]),
                    nontrivial=ok or kind.startswith(("length", "truncate", "ext-length")))
    by = {}
    for r in enc + dec:
        k = "%s:%s" % (r["op"], r["codec"])
        by[k] = by.get(k, 0) + 1
    check.cov["rows_by_codec"] = by
    check.cov["dec_rows_accepted_by_aioquic"] = accepted
    for r in (enc[0], next(x for x in enc if x["codec"] == "ack"), next(x for x in enc if x["codec"] == "builder_long"),
              next(x for x in dec if x["codec"] == "client_hello" and x["out"] == "ok"),
              next(x for x in dec if x["codec"] == "tp" and x["out"] == "raise")):
        check.sample({k: v for k, v in r.items() if k != "fn"})
    check.cov["rule"] = ("enc rows: one per enumerated value (TLC-enumerated boundary integers x 5 integer codecs, range sets, "
                         "header shapes, parameter subsets; driver-enumerated VN/short headers, TLS presence patterns, random "
                         "62/64-bit integers), all counted; dec rows: mutated or random bytes, non-trivial when aioquic returned "
                         "a value for them or the mutation truncated the input or altered a (length) byte; distinct by "
                         "(codec, value / bytes)")
    check.cov["trusted_base"] = [
        "TLC 1.8 and its Json module", "Python int <-> base-256 limb conversion (int.to_bytes / int.from_bytes)",
        "mechanical projection of RangeSet, QuicHeader, QuicTransportParameters and the tls dataclasses to nested lists "
        "(field order = the order the library writes extensions in; ipaddress for the preferred_address hosts)",
        "StubCrypto: QuicPacketBuilder is given a crypto object that does not protect the packet, so the header bytes "
        "it wrote can be read; AEAD / header protection and the Retry integrity tag are opaque here (C02)"]
    check.assumptions += [
        "handshake messages are handed to pull_<message> complete and with their own type byte (tls.Context.handle_message)",
        "repeated extensions / transport parameters: the last one counts; protocol names that are not ASCII are dropped; "
        "EncryptedExtensions keeps the first protocol name; a preferred address with an all-zero host is absent "
        "(leniency the statement does not forbid, written into Codec.tla)",
        "packets of an unknown version are laid out like version 1",
        "TLS integers are kept inside their type's range (out-of-range integers are judged at the Buffer level)",
        "byte strings in rows are at most ~400 bytes; header Length / token lengths above 2^24 are treated as longer than any buffer"]
