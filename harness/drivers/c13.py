"""C13 - datagram emission respects size, padding and anti-amplification rules.

(M) TLC explores Emission.tla: datagrams of every size arriving from two addresses with
    every proof value (garbage, Initial, authenticated Handshake, 1-RTT, PATH_RESPONSE),
    emissions within the budget of the current path; invariant AntiAmplification.
(V) netsim scripts with handshake loss / duplication / reordering, spoofed-source copies
    of client datagrams, client address changes mid-connection, damaged datagrams,
    certificate chains of two sizes and max_datagram_size in {1200, 1280, 1350, 1452};
    the independent observer decodes every datagram; TLC judges every emitted datagram
    with TraceEmission: size <= max_datagram_size, padding of datagrams that carry
    Initial packets, and sent <= 3 x received per unvalidated address, where an address
    counts as validated as permissively as RFC 9000 allows (an authenticated Handshake
    packet came from it, a PATH_RESPONSE echoed a challenge sent to it, or the Retry token issued to it came
    back from it).  Retry runs and resumed sessions whose early data fills the congestion window are included.
"""
import json
import os
import random

from .. import trace
from ..netsim import project, runner, script, sim
from ..overlay import MachineryError

_A = None


def job_fn(job):
    s = script.run(_A, job["cfg"], job["script"], seed=job["seed"], hs_adv=job["hs_adv"], early=job.get("early"))
    lines = project.emission(s.log)
    unval = any(e["k"] == "net" and e["fate"] in ("spoof", "rebind") for e in s.log)
    late_initial = sum(1 for l in lines if l["ev"] == "dg" and l["hasInitial"]) > 2
    return {"lines": lines, "nontrivial": bool(unval or late_initial), "raised": s.raised[:3],
            "ndg": sum(1 for l in lines if l["ev"] == "dg"),
            "zrtt": sum(1 for e in s.log if e["k"] == "pkt" and e["type"] == "0rtt"), "retries": s.retry["sent"],
            "token_initials": sum(1 for e in s.log if e["k"] == "pkt" and e["type"] == "initial" and e["ep"] == "c"
                                  and any(p.get("token") for p in s.emitted.get(e["dg"], [])[e["idx"]:e["idx"] + 1]))}


def zrtt_jobs(rnd, per):
    """Retry (the Retry packet counts towards the bytes sent to the unvalidated address; the Initial that carries the
    token validates it; spoofed copies do not) and resumed sessions whose early data fills the congestion window before
    the Initial has to be sent again."""
    jobs = []
    for mode in script.ZRTT_MODES:
        for prof in ("amplify", "lossy", "dup"):
            for i in range(per):
                cfg = dict({"mds": rnd.choice([1200, 1280, 1350, 1452]), "chain": rnd.random() < 0.5, "smallcert": rnd.random() < 0.3,
                            "cc": rnd.choice(["reno", "cubic"]), "version": rnd.choice(["v1", "v2", "v1->v2"])}, **mode)
                jobs.append({"cfg": cfg, "script": script.random_script(rnd, rnd.choice([15, 40, 70]), script.PROFILES[prof]),
                             "seed": rnd.randrange(1 << 30), "hs_adv": rnd.random() < 0.7,
                             "early": script.random_early(rnd, sizes=[30, 1100, 3000, 9000, 20000]), "profile": "zrtt-" + prof})
    fill = [["write", "c", 0, 20000, False], ["write", "c", 4, 3000, True]]
    for mode in script.ZRTT_MODES:
        for mds in ((1200, 1452)[len(jobs) % 2:][:1] if per < 2 else (1200, 1452)):
            # the window is full of early data; the server's whole first flight is lost (twice), so the client has to send
            # its Initial again; spoofed copies of the first datagram reach the server in between
            jobs.append({"cfg": dict({"mds": mds, "chain": True}, **mode),
                         "script": [["spoof", 0, 0], ["deliver", 0], ["deliver", 0], ["deliver", 0], ["drop", 0], ["drop", 0], ["drop", 0], ["timer", "c"],
                                    ["spoof", 0, 1], ["deliver", 0], ["drop", 0], ["drop", 0], ["drop", 0], ["timer", "c"], ["timer", "s"]],
                         "seed": 61, "hs_adv": True, "early": fill, "profile": "corpus-zrtt-window-full-initial-again"})
            # a silent client after the (token-bearing) Initial: the server may only retransmit within its budget
            sc = [["deliver", 0], ["deliver", 0], ["deliver", 0]]
            for _ in range(5):
                sc += [["drop", 0], ["drop", 0], ["drop", 0], ["drop", 0], ["timer", "s"]]
            jobs.append({"cfg": dict({"mds": mds}, **mode), "script": sc, "seed": 62, "hs_adv": True, "early": fill[1:],
                         "profile": "corpus-zrtt-silent-client"})
    return jobs


def judge(check, jobs, results, name):
    lines, owner = [], []
    for ji, r in enumerate(results):
        for ln in r["lines"]:
            lines.append(ln)
            owner.append(ji)
    fails = trace.validate(check, "TraceEmission", lines, name=name, group_key=lambda ln: ln["ev"] == "init",
                           constants="CONSTANTS Addrs = {0}\nMaxDg = 1\nPad = 1\nMaxRecv = 1")
    check.cov["traces_validated_against_impl"] += len(jobs)
    seen = set()
    for i, clause in fails:
        ji = owner[i]
        if (ji, clause) in seen:
            continue
        seen.add((ji, clause))
        ln = lines[i]
        sig = "emission:%s:ep=%s:initial=%s" % (clause, ln.get("ep"), ln.get("hasInitial"))
        mode = jobs[ji]["cfg"]
        if mode.get("retry") or mode.get("resume"):
            sig += ":" + "+".join((["retry"] if mode.get("retry") else []) + (["resume-" + mode["resume"]] if mode.get("resume") else []))
        detail = {"clause": clause, "line": ln, "job": jobs[ji]}
        (check.drift if clause.startswith("model:") else check.violation)(sig, detail)


def run(check):
    global _A
    check.build_overlay()
    _A = sim.load_modules()
    if check.replay:
        d = json.load(open(check.replay))["detail"]
        if "job" not in d:
            raise MachineryError("replay of a design-level counterexample: run the check itself")
        res = [job_fn(d["job"])]
        judge(check, [d["job"]], res, "replay")
        check.count(repr(d["job"]), evaluations=len(res[0]["lines"]))
        check.sample({"replayed": d["job"]})
        check.cov["rule"] = "replay of one recorded script"
        return
    cfg = ("SPECIFICATION Spec\nCONSTANTS Addrs = {a1, a2}\nMaxDg = %d\nPad = 2\nMaxRecv = %d\nINVARIANT TypeOk\n"
           "INVARIANT AntiAmplification\nPROPERTY ValidatedByProof\n" % ((2, 3) if check.quick else (3, 4)))
    r = check.run_tlc("Emission", cfg, name="Emission_M", timeout=2400, heap="6g")
    if r.violated:
        check.model_violation(r, "Emission")
    rnd = random.Random(check.seed)
    jobs = []
    n = 7 if check.quick else 70
    for mds in (1200, 1280, 1350, 1452):
        for prof in ("amplify", "lossy", "migrate", "dup"):
            for i in range(n):
                cfg = {"mds": mds, "chain": rnd.random() < 0.5, "smallcert": rnd.random() < 0.3, "cc": rnd.choice(["reno", "cubic"]),
                       "version": rnd.choice(["v1", "v2", "v1->v2"])}
                jobs.append({"cfg": cfg, "script": script.random_script(rnd, rnd.choice([15, 40, 70]), script.PROFILES[prof]),
                             "seed": rnd.randrange(1 << 30), "hs_adv": rnd.random() < 0.6, "profile": prof})
    # corpus: spoofed copies of the first flight, then nothing more from that address
    for mds in (1200, 1452):
        jobs.append({"cfg": {"mds": mds, "chain": True}, "script": [["spoof", 0, 0], ["spoof", 0, 1], ["timer", "s"], ["timer", "s"],
                                                                   ["timer", "s"], ["deliver", 0]],
                     "seed": 11, "hs_adv": True, "profile": "corpus-spoofed-initial"})
        jobs.append({"cfg": {"mds": mds, "chain": True}, "script": [["deliver", 0], ["drop", 0], ["drop", 0], ["drop", 0], ["timer", "s"],
                                                                   ["timer", "s"], ["timer", "s"], ["timer", "c"]],
                     "seed": 12, "hs_adv": True, "profile": "corpus-server-flight-lost"})
        jobs.append({"cfg": {"mds": mds}, "script": [["write", "s", 3, 20000, False], ["deliver", 0], ["rebind"], ["write", "c", 0, 10, False],
                                                     ["deliver", 0], ["deliver", 0], ["timer", "s"], ["timer", "s"]],
                     "seed": 13, "hs_adv": False, "profile": "corpus-migration-while-sending"})
    # a client that falls silent after its first Initial: the server may only retransmit within 3x what it received,
    # trailing datagram padding included (small flight: no chain, larger datagrams)
    for mds in (1200, 1350, 1452):
        for chain in (False, True, "small"):
            sc = [["deliver", 0]]
            for _ in range(7):
                sc += [["drop", 0], ["drop", 0], ["drop", 0], ["drop", 0], ["timer", "s"]]
            jobs.append({"cfg": {"mds": mds, "chain": chain is True, "smallcert": chain == "small"}, "script": sc, "seed": 21,
                         "hs_adv": True, "profile": "corpus-silent-client-server-pto"})
            # ... and then the server application closes the connection while the budget is used up
            jobs.append({"cfg": {"mds": mds, "chain": chain is True, "smallcert": chain == "small"},
                         "script": sc[:16] + [["close", "s", 0], ["drop", 0], ["timer", "s"]], "seed": 22,
                         "hs_adv": True, "profile": "corpus-silent-client-server-close"})
    # a server that pushes data as soon as the protocol is negotiated (0.5-RTT), to a client that falls silent: datagram
    # sizes swept so that the handshake flight ends close to the end of a datagram in some of them (trailing padding counts)
    for mds in (1200, 1350):
        for pad in [True] + list(range(40, 700, 40)):        # certificate sizes: the flight ends 0..600 bytes before the datagram does
            sc = [["deliver", 0]] + [["drop", 0]] * 12 + [["timer", "s"]] + [["drop", 0]] * 6
            jobs.append({"cfg": {"mds": mds, "chain": False, "smallcert": pad, "on_negotiated": {"s": [3, 9000]}}, "script": sc,
                         "seed": 23, "hs_adv": True, "profile": "corpus-half-rtt-data-silent-client"})
    # regression corpus: the script with which the thorough tier found the ACK-of-ACK PING in an Initial datagram that cannot be padded
    jobs.append({'cfg': {'mds': 1280, 'chain': False, 'smallcert': True, 'cc': 'reno', 'version': 'v1'}, 'script': [['write', 'c', 2, 1100, False], ['deliver', 4], ['spoof', 5, 0], ['drop', 3], ['write', 's', 3, 1300, False], ['spoof', 3, 2], ['dup', 2], ['changecid', 's'], ['deliver', 6], ['drop', 0], ['drop', 1], ['write', 'c', 4, 200, False], ['drop', 7], ['write', 's', 3, 5, False], ['write', 'c', 2, 30, False], ['write', 'c', 2, 2, False], ['write', 'c', 0, 3000, True], ['deliver', 5], ['timer', 's'], ['dup', 2], ['drop', 4], ['drop', 2], ['deliver', 7], ['changecid', 's'], ['corrupt', 5, 60], ['drop', 0], ['timer', 's'], ['deliver', 5], ['corrupt', 3, 1150], ['timer', 'c'], ['deliver', 0], ['spoof', 6, 0], ['write', 's', 1, 3000, True], ['spoof', 6, 1], ['spoof', 3, 0], ['write', 'c', 0, 200, False], ['drop', 6], ['drop', 7], ['timer', 's'], ['spoof', 6, 1]], 'seed': 1071925593, 'hs_adv': True, 'profile': 'corpus-ack-of-ack-ping-unpaddable-initial'})
    # regression corpus: the script with which the thorough tier found the datagram that went one byte over the 3x budget
    jobs.append({'cfg': {'mds': 1200, 'chain': True, 'smallcert': False, 'cc': 'reno', 'version': 'v1'}, 'script': [['deliver', 7], ['dup', 0], ['corrupt', 7, 1150], ['timer', 's'], ['spoof', 3, 2], ['deliver', 7], ['deliver', 4], ['deliver', 1], ['deliver', 2], ['timer', 's'], ['rebind'], ['deliver', 2], ['write', 's', 4, 2, False], ['rebind'], ['drop', 6], ['spoof', 2, 1], ['dup', 3], ['spoof', 7, 2], ['deliver', 7], ['write', 'c', 4, 1100, False], ['timer', 's'], ['drop', 7], ['deliver', 3], ['changecid', 's'], ['drop', 3], ['write', 'c', 4, 1300, False], ['deliver', 6], ['spoof', 0, 1], ['write', 'c', 4, 1300, False], ['rebind'], ['write', 's', 1, 3000, False], ['write', 'c', 0, 200, False], ['write', 's', 3, 2, False], ['timer', 'c'], ['write', 'c', 2, 3000, True], ['deliver', 3], ['deliver', 7], ['deliver', 7], ['write', 'c', 0, 5, False], ['deliver', 1]], 'seed': 342864517, 'hs_adv': True, 'profile': 'corpus-one-byte-over-the-budget'})
    jobs += zrtt_jobs(rnd, 1 if check.quick else 20)
    results = runner.run_many(job_fn, jobs)
    check.cov["zero_rtt_packets_on_the_wire"] = sum(r["zrtt"] for r in results)
    check.cov["retry_packets_sent"] = sum(r["retries"] for r in results)
    check.cov["client_initials_carrying_a_retry_token"] = sum(r["token_initials"] for r in results)
    check.cov["retry_or_resumed_runs"] = sum(1 for j in jobs if j["cfg"].get("retry") or j["cfg"].get("resume"))
    judge(check, jobs, results, "TraceEmission_V")
    for job, res in zip(jobs, results):
        check.count(repr(job), nontrivial=res["nontrivial"], evaluations=res["ndg"])
    check.cov["datagrams_judged"] = sum(r["ndg"] for r in results)
    ex = next((r for r in results if r["nontrivial"]), results[0])
    check.sample({"script": jobs[results.index(ex)]["script"][:20], "trace": ex["lines"][:14]})
    check.cov["rule"] = ("one case = one script on two real connections; every datagram either endpoint hands out is judged; "
                         "non-trivial = an unvalidated address received datagrams (spoofed source or client rebinding) or an Initial "
                         "was emitted after the first flight")
    check.cov["trusted_base"] = ["TLC 1.8", "netsim driver", "observer (packet types, ack-eliciting classification, PATH_CHALLENGE / "
                                 "PATH_RESPONSE payloads)", "internal read: keys installed for the epoch of an arriving packet"]
    check.assumptions += ["an address counts as validated once an authenticated Handshake packet arrived from it or a PATH_RESPONSE "
                          "echoed a challenge sent to it, or an Initial carrying the Retry token issued to it arrived from it (the most "
                          "permissive reading of RFC 9000 section 8; aioquic itself does not count the token); in Retry runs the "
                          "Retry packets (sent by the simulator playing the server application, independent encoder) and the "
                          "Initial packets they answer count towards the bytes sent to / received from that address",
                          "only the server is subject to the anti-amplification clause (a client's peer address is the one the "
                          "application passed to connect)"]
