"""C03 - handshake completes only with the authentic peer and both sides agree.

(M) TLC explores TlsAgree.tla exhaustively (abstract cryptography: transcripts
    are sequences of message records, MAC / Sig / key derivation are injective
    constructors, an altered message is a distinct record): every configuration
    pair over the small alphabets (cipher-suite lists, ALPN lists incl. none,
    version lists / original version, PSK, 0-RTT, Retry, client-certificate
    request, the six certificate kinds) x the message a man in the middle
    alters; invariants Authentic, TamperStops, Agreement, NoCommonNoCompletion.
(R) every configuration pair (and configuration x altered message kind) TLC
    enumerates as an initial state is run with two REAL QuicConnections in the
    netsim (harness/c03_mitm.py: per-side option lists, the server application's
    Version Negotiation / Retry, session resumption with a ticket from a first
    connection, generated certificates).
(V) every run is recorded as Completed / Secret / Tamper / Terminated events
    and judged by TLC with the operators of TlsAgree (TraceTlsAgree):
    - certificate matrix: authentic certificates of key types RSA / P-256 /
      P-384 / Ed25519 / Ed448 and the not-authentic ones (wrong name, expired,
      not yet valid, self-signed, unknown CA with and without its root in the
      chain, wrong key of the same or another type), with and without PSK;
    - byte sweep: the man in the middle alters one byte (masks 0x01 0x80 0xff)
      of ClientHello, ServerHello, EncryptedExtensions, CertificateRequest,
      Certificate, CertificateVerify, Finished in either direction (quick:
      stride + every type / length byte, thorough: every position), also under
      datagram loss, duplication and reordering scripts.
"""
import json
import random
import time
import warnings
from concurrent.futures import ThreadPoolExecutor

from .. import trace
from ..netsim import runner, script, sim
from ..overlay import MachineryError

_A = None
_PKI = None
MASKS = (0x01, 0x80, 0xFF)
SERVER_MSGS = ("SH", "EE", "CR", "CERT", "CV", "FIN")
CLIENT_MSGS = ("CH", "CCERT", "CCV", "CFIN")
KFIELDS = ("cs", "ss", "ca", "sa", "cv", "co", "sv", "cpsk", "spsk", "zrtt", "retry", "creq", "cert")
DEFAULT_K = {"cs": ["AES_128_GCM_SHA256", "CHACHA20_POLY1305_SHA256"], "ss": ["CHACHA20_POLY1305_SHA256", "AES_256_GCM_SHA384"],
             "ca": ["hq", "h3"], "sa": ["h3"], "cv": ["v1", "v2"], "co": "none", "sv": ["v1", "v2"],
             "cpsk": False, "spsk": False, "zrtt": False, "retry": False, "creq": "no", "cert": "valid"}
# a handshake that cannot make progress (keys that do not match after an altered hello) exchanges probes and
# acknowledgements for ever without ever idling out: a run is cut after this many deliveries / timer firings
MAX_STEPS = 250
LOSSY = {"deliver": 6, "drop": 2, "dup": 1, "swap": 2, "timer": 1.5}

INV = ("INVARIANT TypeOk\nINVARIANT Authentic\nINVARIANT AuthenticObservable\nINVARIANT TamperStops\nINVARIANT Agreement\n"
       "INVARIANT NoCommonNoCompletion\nINVARIANT ChosenCommon\nINVARIANT EarlyOnlyResumed\nINVARIANT ServerAfterClient\n")
SMALL = dict(SuiteListsC="OneSuiteList", SuiteListsS="TwoSuiteListsS", AlpnListsC="OneAlpnList", AlpnListsS="TwoAlpnListsS",
             VersionsC="OneVersionC", VersionsS="OneVersionS", PskOpts="NoPsk", RetryOpts="No", CreqOpts="NoCreq",
             CertKinds="ValidCert", TamperKinds="NoTamper")


def tlc_cfg(print_cases=True, inv=INV, **kw):
    d = dict(SMALL)
    d.update(kw)
    return ("SPECIFICATION Spec\n" + "".join("CONSTANT %s <- %s\n" % kv for kv in d.items())
            + "CONSTANT PrintCases = %s\n" % ("TRUE" if print_cases else "FALSE") + inv)


TRACE_CONSTANTS = "".join("CONSTANT %s <- %s\n" % kv for kv in dict(SMALL, SuiteListsS="OneSuiteList", AlpnListsS="OneAlpnList").items()) \
    + "CONSTANT PrintCases = FALSE\n"


# ------------------------------------------------------------------ one run
def sim_cfg(k, ident):
    al = lambda x: None if list(x) == ["-"] else list(x)       # noqa: E731
    return {"idle": 10.0, "c_suites": list(k["cs"]), "s_suites": list(k["ss"]), "c_alpn": al(k["ca"]), "s_alpn": al(k["sa"]),
            "c_versions": list(k["cv"]), "c_orig": None if k["co"] == "none" else k["co"], "s_versions": list(k["sv"]),
            "s_ident": ident, "c_ident": "client" if k["creq"] == "cert" else None, "creq": k["creq"] != "no",
            "retry": bool(k["retry"]), "server_name": "192.0.2.10" if ident.startswith("ip-") else None}


def impostor_job(job):
    """An active impostor at the level of tls.Context (the forging adversary of the C11 driver): the client offers a session
    ticket; the impostor, which holds neither the resumption secret nor a valid certificate, answers with a ServerHello that
    claims to have selected the PSK (with its own cipher suite and keys derived without the PSK), EncryptedExtensions and a
    Finished that is correct for those keys - no Certificate, no CertificateVerify."""
    import aioquic.tls as tls
    from aioquic.buffer import Buffer
    from . import c11
    lab = c11.Lab(tls, Buffer)
    k = job["k"]
    init = {f: k[f] for f in KFIELDS}
    init.update(tam="none", fair=True)
    lines = [dict(init, ev="init")]
    if lab.client_ticket is None:
        raise MachineryError("impostor case: no session ticket could be obtained")
    case = c11.run_case(lab, {"role": "client", "pskOffered": True, "certReq": False, "tickets": False}, job["names"])
    last = case[-1]
    if last.get("post") == "CLIENT_POST_HANDSHAKE":
        lines.append({"ev": "completed", "ep": "c", "version": "v1", "iversion": "v1", "cipher": "", "alpn": "", "resumed": bool(last["resumed"]),
                      "early": False})
    lines.append({"ev": "end", "quiescent": True})
    return {"lines": lines, "msgs": {}, "tampered": 0, "raised": [], "vn": 0, "retry": 0,
            "done": ["c"] if len(lines) == 3 else [], "codes": []}


def job_fn(job):
    if job.get("impostor"):
        return impostor_job(job)
    from ..c03_mitm import MitmSim, trace_lines
    warnings.filterwarnings("ignore")         # cryptography's deprecation warnings about altered certificates
    k, ident = job["k"], job["ident"]
    if _PKI["kinds"][ident] != k["cert"]:
        raise MachineryError("identity %s is not of certificate kind %s" % (ident, k["cert"]))
    base = sim_cfg(k, ident)
    ticket, store = None, None
    if k["cpsk"]:
        # a first connection to the AUTHENTIC server (same option lists) hands out the ticket
        store = {}
        s1 = MitmSim(_A, dict(base, s_ident="ip-valid" if ident.startswith("ip-") else "fixture", ticket_store=store, retry=False, creq=False, c_ident=None),
                     seed=job["seed"] ^ 0x5A5A, pki=_PKI)
        try:
            s1.connect()
            s1.run_fair()
        finally:
            s1.close()
        ticket = s1.tickets[-1] if s1.tickets else None
    cfg = dict(base)
    if ticket is not None and not k["zrtt"] and job["seed"] % 2:
        # a ticket that does not allow early data (the application stored it without that permission): the ClientHello then
        # offers the PSK without an early_data extension - resumption without 0-RTT
        import dataclasses
        ticket = dataclasses.replace(ticket, max_early_data_size=None)
    if ticket is not None:
        cfg["session_ticket"] = ticket
    if k["spsk"]:
        cfg["ticket_store"] = store if store is not None else {}
    tam = job.get("tamper")
    init = {f: k[f] for f in KFIELDS}
    # what the client really holds: without a ticket from the first connection nothing is offered
    init.update(cpsk=ticket is not None, zrtt=bool(k["zrtt"]) and ticket is not None, spsk=bool(k["spsk"]),
                tam=tam["msg"] if tam else "none", fair=not job.get("script"))
    s = MitmSim(_A, cfg, seed=job["seed"], pki=_PKI, tamper=tam)
    try:
        ex = script.Exec(s)
        s.connect()
        if init["zrtt"]:
            s.api("c", "write", 0, 0, 100, False)
        for st in job.get("script") or []:
            ex.step(st)
        s.quiescent_end = s.run_fair(max_steps=MAX_STEPS)
        s.run_closing()
        s.final_poll()
    finally:
        s.close()
    lines = trace_lines(s, init)
    done = sorted(ln["ep"] for ln in lines if ln["ev"] == "completed")
    return {"lines": lines, "msgs": s.message_lengths(), "tampered": s.tampered, "raised": s.raised[:3],
            "vn": s.vn_sent, "retry": s.retry_sent, "done": done,
            "codes": sorted({(ln["ep"], ln["code"]) for ln in lines if ln["ev"] == "terminated"})}


# ------------------------------------------------------------ configurations
def parse_case(text):
    f = text.split("|")
    if len(f) != 12 or f[0] != "CASE":
        raise MachineryError("unparsable CASE line from TLC: " + text)
    lst = lambda x: x.split(",")          # noqa: E731   ("-" stays ["-"]: no ALPN configured)
    b = f[8]
    k = {"cs": lst(f[1]), "ss": lst(f[2]), "ca": lst(f[3]), "sa": lst(f[4]), "cv": lst(f[5]), "co": f[6], "sv": lst(f[7]),
         "cpsk": b[0] == "1", "spsk": b[1] == "1", "zrtt": b[2] == "1", "retry": b[3] == "1", "creq": f[9], "cert": f[10]}
    return k, f[11]


def cases_of(r):
    out, seen = [], set()
    for line in r.out.splitlines():
        line = line.strip()
        if line.startswith('"CASE|') and line.endswith('"'):
            t = line[1:-1]
            if t not in seen:
                seen.add(t)
                out.append(parse_case(t))
    return out


def has_common(k):
    common = lambda a, b: bool(set(a) & set(b))     # noqa: E731  (coverage bookkeeping only; TLC judges with HasCommon)
    return common(k["cs"], k["ss"]) and (k["sa"] == ["-"] or common(k["ca"], k["sa"])) and common(k["cv"], k["sv"])


IDENT_OF_KIND = {"valid": ["fixture"], "wrongname": ["wrongname"], "expired": ["expired", "notyetvalid"],
                 "selfsigned": ["selfsigned", "selfsigned-rsa"],
                 "untrustedchain": ["untrusted-ca-root-in-chain", "untrusted-ca"],
                 "wrongkey": ["wrongkey", "wrongkey-ec", "wrongkey-type"]}


def positions(rnd, length, quick, stride):
    """Byte positions of a message of `length` bytes: the type byte, the three
    length bytes, then every stride-th byte (thorough: stride 1) and the last."""
    pos = set(range(min(4, length)))
    start = 4 + (rnd.randrange(stride) if stride > 1 else 0)
    pos |= set(range(start, length, stride))
    if length:
        pos.add(length - 1)
    return sorted(pos)


def field_of(pos):
    return "type" if pos == 0 else "length" if pos < 4 else "body"


# ------------------------------------------------------------------ judging
def signature(clause, job, res, line):
    k = job["k"]
    if clause.startswith("altered-message"):
        t = job["tamper"]
        return "c03:%s:msg=%s:field=%s:ep=%s" % (clause, t["msg"], field_of(t["pos"]), line["ep"])
    if clause.startswith("no-common-option"):
        common = lambda a, b: bool(set(a) & set(b))     # noqa: E731
        lacking = [n for n, ok in (("suite", common(k["cs"], k["ss"])),
                                   ("alpn:client=%s,server=%s" % ("none" if k["ca"] == ["-"] else "list",
                                                                  "none" if k["sa"] == ["-"] else "list"),
                                    k["sa"] == ["-"] or common(k["ca"], k["sa"])),
                                   ("version", common(k["cv"], k["sv"]))) if not ok]
        return "c03:%s:ep=%s:lacking=%s" % (clause, line["ep"], "+".join(lacking))
    if clause.startswith("unauthentic-server"):
        return "c03:%s:certificate=%s:ticket=%s:resumed=%s" % (clause, job["ident"], k["cpsk"], line.get("resumed"))
    if clause.startswith("agreement"):
        rc = next((ln for ln in res["lines"] if ln["ev"] == "completed" and ln["ep"] == "c"), {})
        rs = next((ln for ln in res["lines"] if ln["ev"] == "completed" and ln["ep"] == "s"), {})
        what = clause.split(":")[1]
        f = {"version": "version", "cipher-suite": "cipher", "alpn": "alpn", "resumption": "resumed"}.get(what)
        if f:
            return "c03:%s:client=%s:server=%s" % (clause, rc.get(f), rs.get(f))
        return "c03:%s:psk=%s:retry=%s:versions=%s/%s" % (clause, k["cpsk"], k["retry"], ",".join(k["cv"]), ",".join(k["sv"]))
    return "c03:%s:tamper=%s" % (clause, (job.get("tamper") or {}).get("msg", "none"))


def judge(check, jobs, results, name):
    lines, owner = [], []
    for ji, r in enumerate(results):
        for li, ln in enumerate(r["lines"]):
            lines.append(ln)
            owner.append((ji, li))
    fails = trace.validate(check, "TraceTlsAgree", lines, name=name, constants=TRACE_CONSTANTS,
                           group_key=lambda ln: ln["ev"] == "init", shards=max(1, min(16 if len(lines) > 100000 else 8, len(lines) // 3000)))
    check.cov["traces_validated_against_impl"] += len(jobs)
    seen = set()
    for i, clause in fails:
        ji, li = owner[i]
        if (ji, clause) in seen:
            continue
        seen.add((ji, clause))
        job, res = jobs[ji], results[ji]
        if clause == "harness-guard":
            raise MachineryError("driver ran a case outside the model's alphabet: %r (%r)" % (lines[i], job))
        sig = signature(clause, job, res, lines[i])
        detail = {"clause": clause, "line": lines[i], "job": job, "done": res["done"], "codes": res["codes"],
                  "raised": res["raised"], "tampered": res["tampered"]}
        (check.drift if clause.startswith("model:") else check.violation)(sig, detail)
    return fails


def run_jobs(jobs):
    if len(jobs) < 200:            # starting the worker pool costs more than a few hundred handshakes
        return [job_fn(j) for j in jobs]
    return runner.run_many(job_fn, jobs)


# -------------------------------------------------------------------- main
def run(check):
    global _A, _PKI
    check.build_overlay()
    _A = sim.load_modules()
    from ..c03_mitm import make_pki
    _PKI = make_pki(_A["tls"])
    quick = check.quick
    rnd = random.Random(check.seed)
    if check.replay:
        d = json.load(open(check.replay))["detail"]
        if "job" not in d:
            raise MachineryError("replay of a design-level counterexample: run the check itself, the TLC trace is in the replay file")
        res = run_jobs([d["job"]])
        judge(check, [d["job"]], res, "replay")
        check.count(repr(d["job"]), evaluations=len(res[0]["lines"]))
        check.sample({"replayed": d["job"], "done": res[0]["done"], "codes": res[0]["codes"], "tampered": res[0]["tampered"]})
        check.cov["rule"] = "replay of one recorded case; every event of it judged by TLC"
        return

    # ---- (M) design level; the initial states are the cases of (R) -------------
    full = dict(SuiteListsC="AllSuiteLists", SuiteListsS="AllSuiteLists", AlpnListsC="AllAlpnLists", AlpnListsS="AllAlpnLists")
    # quick: the runs that vary something else keep one server suite / ALPN list (the full product of those is "negotiation")
    one = dict(SuiteListsS="OneSuiteListS", AlpnListsS="OneAlpnListS") if quick else {}
    runs = [("negotiation", tlc_cfg(**full)),
            ("versions", tlc_cfg(VersionsC="AllVersionsC", VersionsS="AllVersionsS", PskOpts="AllPskOpts", RetryOpts="BOOLEAN",
                                 CreqOpts="AllCreq", **one)),
            ("tamper", tlc_cfg(PskOpts="AllPskOpts", CreqOpts="AllCreq", CertKinds="AllCertKinds", TamperKinds="AllTamperKinds",
                               RetryOpts="BOOLEAN" if not quick else "No", **one)),
            ("reach", tlc_cfg(print_cases=False, inv="INVARIANT NeverBothComplete\n", PskOpts="AllPskOpts", CreqOpts="AllCreq"))]
    if not quick:
        runs.append(("product", tlc_cfg(print_cases=False, VersionsC="AllVersionsC", VersionsS="AllVersionsS", PskOpts="AllPskOpts",
                                        TamperKinds="AllTamperKinds", CreqOpts="AllCreq", AlpnListsC="AllAlpnLists",
                                        AlpnListsS="AllAlpnLists")))
    phases, t0 = {}, time.time()
    with ThreadPoolExecutor(max_workers=len(runs)) as ex:
        rs = list(ex.map(lambda nr: check.run_tlc("TlsAgree", nr[1], workers=6 if quick else 8,
                                                  name="TlsAgree_" + nr[0] + ("_must_find_a_completing_behaviour" if nr[0] == "reach" else "")), runs))
    tlc_cases = {}
    for (name, _), r in zip(runs, rs):
        if name == "reach":
            if r.violated != "NeverBothComplete":
                raise MachineryError("TlsAgree is vacuous: no behaviour in which both endpoints complete")
            continue
        if r.violated:
            check.model_violation(r, "TlsAgree-" + name)
        tlc_cases[name] = cases_of(r)
    want = {"negotiation": 2025, "versions": 1200 if quick else 4800, "tamper": 990 if quick else 7920}
    for n, w in want.items():
        if len(tlc_cases[n]) != w:
            raise MachineryError("TLC printed %d initial configurations of run %s, expected %d" % (len(tlc_cases[n]), n, w))
    check.cov["configurations_from_tlc"] = {n: len(v) for n, v in tlc_cases.items() if v}

    phases["tlc_design_runs"] = round(time.time() - t0, 1)
    seed = lambda: rnd.randrange(1 << 30)       # noqa: E731
    jobs = []

    def add(k, ident=None, tamper=None, scr=None, cls=""):
        for i in ([ident] if ident else IDENT_OF_KIND[k["cert"]][:1]):
            jobs.append({"k": k, "ident": i, "tamper": tamper, "script": scr or [], "seed": seed(), "class": cls})

    # ---- (R) configuration pairs enumerated by TLC --------------------------------
    for name in ("negotiation", "versions"):
        for k, tk in tlc_cases[name]:
            add(k, cls="R:" + name)
    # reference runs: the message lengths of every configuration whose message is to be altered
    tam_cases = [(k, tk) for k, tk in tlc_cases["tamper"]]
    ref_keys, ref_jobs = {}, []
    for k, tk in tam_cases:
        key = json.dumps(k, sort_keys=True)
        if key not in ref_keys:
            ref_keys[key] = len(ref_jobs)
            ref_jobs.append({"k": k, "ident": IDENT_OF_KIND[k["cert"]][0], "tamper": None, "script": [], "seed": 77, "class": "R:tamper-ref"})

    # ---- certificate matrix ---------------------------------------------------------
    for ident, kind in sorted(_PKI["kinds"].items()):
        if ident == "client":
            continue
        for psk in ((False, False), (True, True), (True, False)):
            for ss in (["AES_256_GCM_SHA384"], ["CHACHA20_POLY1305_SHA256", "AES_128_GCM_SHA256"]):
                for creq in ("no", "cert"):
                    k = dict(DEFAULT_K, cs=["AES_128_GCM_SHA256", "AES_256_GCM_SHA384"] if ss[0].startswith("AES_256") else DEFAULT_K["cs"],
                             ss=ss, cert=kind, cpsk=psk[0], spsk=psk[1], creq=creq)
                    add(k, ident=ident, cls="cert")
    # ---- byte sweep: reference runs first ----------------------------------------------
    sweeps = [("rsa-fixture", dict(DEFAULT_K), "fixture"),
              ("client-cert-p256", dict(DEFAULT_K, creq="cert", ss=["AES_256_GCM_SHA384"], cs=["AES_256_GCM_SHA384"]), "p256"),
              ("resumed-0rtt", dict(DEFAULT_K, cpsk=True, spsk=True, zrtt=True), "fixture"),
              ("v2-compatible-retry", dict(DEFAULT_K, cv=["v2", "v1"], co="v1", retry=True, sa=["-"]), "ed25519")]
    sweep_refs = [{"k": k, "ident": ident, "tamper": None, "script": [], "seed": 1000 + i, "class": "sweep-ref"}
                  for i, (_, k, ident) in enumerate(sweeps)]
    t0 = time.time()
    refs = run_jobs(ref_jobs + sweep_refs)
    phases["reference_runs"] = round(time.time() - t0, 1)
    ref_res, sweep_res = refs[:len(ref_jobs)], refs[len(ref_jobs):]
    # (R) configuration x altered message kind from TLC: concrete positions
    for k, tk in tam_cases:
        if tk == "none":
            add(k, cls="R:tamper")
            continue
        msgs = ref_res[ref_keys[json.dumps(k, sort_keys=True)]]["msgs"]
        n = msgs.get(tk)
        if n is None:
            continue                                         # the message does not occur in this configuration
        for pos in sorted({0, rnd.randrange(1, 4), rnd.randrange(4, n), n - 1} if not quick else {rnd.choice([0, 1, 2, 3]), rnd.randrange(4, n)}):
            jobs.append({"k": k, "ident": IDENT_OF_KIND[k["cert"]][0], "tamper": {"msg": tk, "pos": pos, "mask": rnd.choice(MASKS)},
                         "script": [], "seed": 77, "class": "R:tamper"})
    stride = 7 if quick else 1
    sweep_info, refs_complete = {}, True
    for (name, k, ident), ref, rj in zip(sweeps, sweep_res, sweep_refs):
        if sorted(ref["done"]) != ["c", "s"]:
            refs_complete = False
            check.drift("c03:model:sweep-reference-run-did-not-complete:" + name, {"job": rj, "codes": ref["codes"]})
        sweep_info[name] = dict(ref["msgs"])
        for msg, n in sorted(ref["msgs"].items()):
            if name != "rsa-fixture" and quick and msg in ("CERT", "CCERT") and n > 600:
                st = stride * 3
            else:
                st = stride
            for pos in positions(rnd, n, quick, st):
                masks = MASKS if (not quick or pos < 4) else (MASKS[(pos // st) % 3],)
                for mask in masks:
                    jobs.append({"k": k, "ident": ident, "tamper": {"msg": msg, "pos": pos, "mask": mask}, "script": [],
                                 "seed": rj["seed"], "class": "sweep:" + name})
    check.cov["sweep_message_lengths"] = sweep_info
    # ---- the same under datagram loss, duplication and reordering ---------------------------
    n_lossy = 400 if quick else 4000
    pool = [j for j in jobs if j["class"].startswith(("sweep:", "R:tamper", "cert"))]
    pool2 = [j for j in jobs if j["class"].startswith(("R:negotiation", "R:versions"))]
    for i in range(n_lossy):
        j = rnd.choice(pool if i % 4 else pool2)
        jobs.append(dict(j, script=script.random_script(rnd, rnd.choice([4, 8, 16]), LOSSY), seed=j["seed"], **{"class": "lossy:" + j["class"]}))

    # ---- active impostor (tls.Context level): a party without the resumption secret and without a certificate
    # (the flights with a plain ServerHello - no PSK selected, certificate skipped, with and without the early-data indication -
    # were added after seeded/C03-M5)
    for names in (["SHpskbad", "EE", "FIN"], ["SHpskbad", "EEearly", "FIN"], ["SHpskbad", "EE", "CERT", "CV", "FIN"],
                  ["SH", "EEearly", "FIN"], ["SH", "EE", "FIN"], ["SH", "EEearly", "CERT", "FIN"]):
        jobs.append({"k": dict(DEFAULT_K, cert="selfsigned", cpsk=True, spsk=False), "ident": "selfsigned", "tamper": None, "script": [],
                     "seed": 4242, "class": "impostor", "impostor": True, "names": names})
    t0 = time.time()
    results = run_jobs(jobs)
    phases["runs"] = round(time.time() - t0, 1)
    all_jobs, all_res = ref_jobs + sweep_refs + jobs, refs + results
    t0 = time.time()
    judge(check, all_jobs, all_res, "TraceTlsAgree")
    phases["tlc_trace_judging"] = round(time.time() - t0, 1)
    check.cov["phase_wall_s"] = phases

    # ---- coverage ----------------------------------------------------------------------------
    by_class, altered = {}, {}
    for j, r in zip(all_jobs, all_res):
        cls = j["class"].split(":")[0] + (":" + j["class"].split(":")[1] if j["class"].startswith(("R:", "lossy:")) else "")
        c = by_class.setdefault(cls, {"runs": 0, "both_completed": 0, "none_completed": 0, "altered_byte_delivered": 0})
        c["runs"] += 1
        c["both_completed"] += r["done"] == ["c", "s"]
        c["none_completed"] += not r["done"]
        c["altered_byte_delivered"] += bool(r["tampered"])
        k = j["k"]
        nontrivial = bool(r["tampered"]) or r["done"] == ["c", "s"] or not has_common(k) or k["cert"] != "valid"
        if j["tamper"] and not r["tampered"]:
            nontrivial = False
        check.count((json.dumps(k, sort_keys=True), j["ident"], json.dumps(j["tamper"]), json.dumps(j["script"])),
                    nontrivial=nontrivial, evaluations=len(r["lines"]))
        if r["tampered"]:
            a = altered.setdefault(j["tamper"]["msg"], {"positions": set(), "runs": 0})
            a["positions"].add(j["tamper"]["pos"])
            a["runs"] += 1
    check.cov["runs_by_class"] = by_class
    check.cov["altered_messages"] = {m: {"distinct_positions": len(a["positions"]), "runs": a["runs"]} for m, a in sorted(altered.items())}
    check.cov["runs_with_version_negotiation"] = sum(1 for r in all_res if r["vn"])
    check.cov["runs_with_retry"] = sum(1 for r in all_res if r["retry"])
    check.cov["runs_with_api_exception"] = sum(1 for r in all_res if r["raised"])
    check.cov["termination_codes_seen"] = sorted({c for r in all_res for _, c in r["codes"]})[:40]
    missing = [m for m in SERVER_MSGS + CLIENT_MSGS if m not in altered]
    if missing and refs_complete:     # (a tree on which no handshake completes has no client flight to alter: reported as drift above)
        raise MachineryError("no run delivered an altered byte of: " + ",".join(missing))
    for want_cls in (lambda j, r: j["tamper"] and r["tampered"] and j["tamper"]["msg"] == "CERT",
                     lambda j, r: not has_common(j["k"]),
                     lambda j, r: j["k"]["cert"] == "untrustedchain",
                     lambda j, r: j["k"]["cpsk"] and r["done"] == ["c", "s"]):
        for j, r in zip(all_jobs, all_res):
            if want_cls(j, r):
                check.sample({"class": j["class"], "k": j["k"], "ident": j["ident"], "tamper": j["tamper"], "script": j["script"][:8],
                              "events": [ln for ln in r["lines"] if ln["ev"] in ("tamper", "completed", "terminated")]})
                break
    check.cov["exhaustive"] = True
    check.cov["rule"] = ("one case = one run of two real QuicConnections in the netsim for a configuration pair (TLC-enumerated, "
                         "certificate matrix or byte sweep), optionally with one altered handshake byte and a loss/reorder script; "
                         "non-trivial when an altered byte was actually delivered to its receiver, or the configurations share no "
                         "common option, or the certificate is not authentic, or both endpoints completed (agreement evaluated)")
    check.cov["trusted_base"] = ["TLC", "netsim driver and observer (RFC 9001 un-protection / re-protection of the altered packet; the "
                                 "encryptor must reproduce the genuine packet bit for bit before it is used)",
                                 "cryptography / pyOpenSSL (generation of the test PKI)",
                                 "internal reads: QuicConnection._version, tls.Context.key_schedule.cipher_suite",
                                 "key logs written through QuicConfiguration.secrets_log_file"]
    check.assumptions += [
        "client-certificate request: tls.Context._request_client_certificate has no public API; it is set on the server's Context "
        "right after QuicConnection._initialize created it",
        "Version Negotiation and Retry packets are sent by the server application (asyncio/server.py), here by the netsim, built from "
        "the RFCs; the Retry token is an opaque constant",
        "the man in the middle alters the same stream byte in every packet that carries it (retransmissions included)",
        "certificate validity periods are relative to the wall clock at the start of the run (expired = ended 10 days ago)",
        "a server without an ALPN list does not negotiate ALPN: both sides then report no protocol, which counts as agreement",
    ]
