"""C01 - reliable, ordered, exactly-once stream delivery over any lossy network.

(M) TLC explores Transfer.tla: safety (prefix delivery, end marker once and only
    after all bytes, monotone) for two flows with drop/dup/reorder, and the
    liveness clause (fair phase ~> everything delivered) under fairness.
(R->V) application/network scripts (seeded random over the profiles benign /
    lossy / dup / mixed / migrate, and scripts derived from TLC-simulated
    behaviours of Transfer.tla) are executed by the netsim on two real
    QuicConnection objects for reno/cubic x v1/v2/v1->v2; the application-level
    trace (writes, resets, StreamDataReceived with its bytes, StreamReset,
    ConnectionTerminated, end of the fair phase) is judged line by line by TLC
    with TraceTransfer (which extends Transfer).  Connections through a Retry and resumed sessions with writes
    before the handshake (0-RTT data, accepted or rejected by the server) are part of the scripts.
"""
import json
import os

from .. import trace
from ..netsim import project, runner, script, sim
from ..overlay import MachineryError

MATRIX = [("reno", "v1"), ("cubic", "v1"), ("reno", "v2"), ("cubic", "v1->v2")]
_A = None


def job_fn(job):
    s = script.run(_A, job["cfg"], job["script"], seed=job["seed"], hs_adv=job["hs_adv"], early=job.get("early"))
    fates = sorted({e["fate"] for e in s.log if e["k"] == "net" and e["fate"] in ("drop", "dup", "rebind")})
    if job["cfg"].get("retry") or job["cfg"].get("resume"):
        # (the signature of such a run names the kind of handshake instead of the per-datagram fates)
        fates = (["retry"] if job["cfg"].get("retry") else []) + (["resume-" + job["cfg"]["resume"]] if job["cfg"].get("resume") else [])
    stream_hit = any(e["k"] == "net" and e["fate"] in ("drop", "dup") and
                     any(f["t"] == "stream" for p in s.emitted.get(e["dg"], []) if p.get("ok") for f in p.get("frames", []))
                     for e in s.log)
    retrans = sum(1 for e in s.log if e["k"] == "pkt" and e.get("ok") and any(f["t"] == "stream" for f in e.get("frames", [])))
    return {"lines": project.transfer(s.log), "fates": fates, "nontrivial": bool(stream_hit), "nstream_pkts": retrans,
            "unopened": sum(1 for e in s.log if e["k"] == "pkt" and e["type"] in ("initial", "handshake", "1rtt", "0rtt") and not e["ok"]),
            "zrtt": sum(1 for e in s.log if e["k"] == "pkt" and e["type"] == "0rtt"), "retries": s.retry["sent"],
            "raised": s.raised[:3]}


def tlc_scripts(check, n, depth):
    """Behaviours of Transfer.tla produced by TLC (-simulate) turned into
    netsim scripts: application actions map to API calls, network actions to
    fates of the datagram with the same ordinal, sends to timer firings."""
    import os
    from ..tlaparse import parse_behaviour_file
    cfg = ("SPECIFICATION Spec\nCONSTANTS Flows = {\"c0\", \"c2\", \"s0\", \"s3\"}\nMaxLen = 3\nMaxNet = 3\n"
           "MaxDrop = 3\nMaxDup = 2\nINVARIANT PrefixDelivery\nINVARIANT FinOnce\n")
    d = os.path.join(check.work, "sim")
    os.makedirs(d, exist_ok=True)
    r = check.run_tlc("Transfer", cfg, name="Transfer_sim", workers=1,
                      simulate="file=%s/b,num=%d" % (d, n), depth=depth, seed=check.seed)
    if r.violated:
        check.model_violation(r, "Transfer(simulate)")
    out = []
    scale = {0: 0, 1: 40, 2: 1300, 3: 2600}
    for f in sorted(os.listdir(d)):
        states = parse_behaviour_file(os.path.join(d, f))
        steps = []
        for a, b in zip(states, states[1:]):
            ta, tb = a["tx"], b["tx"]
            if a["phase"] != b["phase"]:
                break
            changed = False
            for fl in tb:
                wa, wb = ta[fl], tb[fl]
                ep, sid = fl[0], int(fl[1:])
                if wb["written"] != wa["written"] or wb["fin"] != wa["fin"]:
                    steps.append(["write", ep, sid, scale[wb["written"]] - scale[wa["written"]], bool(wb["fin"])])
                    changed = True
                elif wb["reset"] != wa["reset"]:
                    steps.append(["reset", ep, sid])
                    changed = True
            if changed:
                continue
            if b["drops"] != a["drops"]:
                steps.append(["drop", len(a["net"])])
            elif b["dups"] != a["dups"]:
                steps.append(["dup", len(a["net"])])
            elif len(b["net"]) > len(a["net"]):
                steps.append(["timer", "c" if len(steps) % 2 else "s"])
            else:
                steps.append(["deliver", len(b["net"])])
        out.append(steps)
    return out


def zrtt_jobs(rnd, per):
    """Connections that go through a Retry and/or resume a session with early data (accepted or rejected): random
    profiles with writes before the first flight is delivered, and a small corpus."""
    jobs = []
    for mode in script.ZRTT_MODES:
        for prof in ("lossy", "dup", "mixed"):
            for i in range(per):
                cc, ver = MATRIX[rnd.randrange(len(MATRIX))]
                cfg = dict({"cc": cc, "version": ver}, **mode)
                if rnd.random() < 0.3:
                    cfg.update({"max_stream_data": rnd.choice([1500, 5000]), "max_data": rnd.choice([3000, 10000])})
                jobs.append({"cfg": cfg, "script": script.random_script(rnd, rnd.choice([15, 40, 80]), script.PROFILES[prof]),
                             "seed": rnd.randrange(1 << 30), "hs_adv": rnd.random() < 0.6, "early": script.random_early(rnd),
                             "profile": "zrtt-" + prof})
    early = [["write", "c", 0, 3000, False], ["write", "c", 2, 20, True]]
    for mode in script.ZRTT_MODES:
        # the early data, then more of the same streams after the handshake; once undisturbed, once with the first
        # 0-RTT datagram lost and one duplicated, once with the 0-RTT datagrams overtaking the ClientHello
        jobs.append({"cfg": dict(mode), "script": [["write", "c", 0, 10, True]], "seed": 31, "hs_adv": False, "early": early,
                     "profile": "corpus-zrtt-plain"})
        jobs.append({"cfg": dict(mode), "script": [["deliver", 0], ["drop", 0], ["dup", 0], ["deliver", 1], ["deliver", 0], ["deliver", 0],
                                                   ["write", "c", 0, 10, True]], "seed": 32, "hs_adv": True, "early": early,
                     "profile": "corpus-zrtt-loss-dup"})
        jobs.append({"cfg": dict(mode), "script": [["deliver", 1], ["deliver", 1], ["deliver", 0], ["write", "s", 0, 50, True]],
                     "seed": 33, "hs_adv": True, "early": early, "profile": "corpus-zrtt-overtakes-hello"})
    return jobs


def signature(clause, fates):
    return "transfer:%s:fates=%s" % (clause, "+".join(fates) or "none")


def judge(check, jobs, results, name):
    lines, owner = [], []
    for ji, r in enumerate(results):
        for ln in r["lines"]:
            lines.append(ln)
            owner.append(ji)
    fails = trace.validate(check, "TraceTransfer", lines, name=name, group_key=lambda ln: ln["ev"] == "init",
                           constants="CONSTANTS Flows = {}\nMaxLen = 0\nMaxNet = 0\nMaxDrop = 0\nMaxDup = 0")
    check.cov["traces_validated_against_impl"] += len(jobs)
    seen = set()
    for i, clause in fails:
        ji = owner[i]
        if (ji, clause.startswith("model:")) in seen:
            continue
        seen.add((ji, clause.startswith("model:")))
        job, res = jobs[ji], results[ji]
        detail = {"clause": clause, "line": lines[i] if len(json.dumps(lines[i])) < 600 else {"ev": lines[i]["ev"]},
                  "job": job, "raised": res["raised"]}
        sig = signature(clause, res["fates"])
        if clause.startswith("model:"):
            check.drift(sig, detail)
        else:
            check.violation(sig, detail)
    return fails


def run(check):
    global _A
    check.build_overlay()
    _A = sim.load_modules()
    if check.replay:
        d = json.load(open(check.replay))["detail"]
        if "job" not in d:
            raise MachineryError("replay of a design-level counterexample: run the check itself")
        res = [job_fn(d["job"])]
        judge(check, [d["job"]], res, "replay")
        check.count(repr(d["job"]), evaluations=len(res[0]["lines"]))
        check.sample({"replayed": d["job"], "last_lines": res[0]["lines"][-3:]})
        check.cov["rule"] = "replay of one recorded script"
        return

    # (M)
    inv = "INVARIANT TypeOk\nINVARIANT PrefixDelivery\nINVARIANT FinOnce\nPROPERTY Monotone\nPROPERTY EventsOk\n"
    live = ("SPECIFICATION FairSpec\nCONSTANTS Flows = {f1}\nMaxLen = 2\nMaxNet = 2\nMaxDrop = 1\nMaxDup = 1\n"
            + inv + "PROPERTY Live\n")
    r = check.run_tlc("Transfer", live, name="Transfer_safety_liveness_1flow", timeout=3000, heap="6g")
    if r.violated:
        check.model_violation(r, "Transfer safety+liveness")
    if not check.quick:
        for name, consts in (("2flows", "Flows = {f1, f2}\nMaxLen = 1\nMaxNet = 2\nMaxDrop = 1\nMaxDup = 1"),
                             ("1flow_net3", "Flows = {f1}\nMaxLen = 2\nMaxNet = 3\nMaxDrop = 1\nMaxDup = 1")):
            r = check.run_tlc("Transfer", "SPECIFICATION Spec\nCONSTANTS " + consts + "\n" + inv,
                              name="Transfer_safety_" + name, timeout=3000, heap="8g")
            if r.violated:
                check.model_violation(r, "Transfer safety " + name)

    # (R->V)
    import random
    rnd = random.Random(check.seed)
    jobs = []
    per = 10 if check.quick else 120
    for cc, ver in MATRIX:
        for prof in ("benign", "lossy", "dup", "mixed", "migrate"):
            for i in range(per):
                cfg = {"cc": cc, "version": ver}
                if rnd.random() < 0.3:
                    cfg["suite"] = rnd.choice(["AES_128_GCM_SHA256", "CHACHA20_POLY1305_SHA256"])
                if rnd.random() < 0.25:
                    cfg.update({"max_stream_data": rnd.choice([64, 1500, 5000]), "max_data": rnd.choice([3000, 10000])})
                jobs.append({"cfg": cfg, "script": script.random_script(rnd, rnd.choice([15, 40, 80]), script.PROFILES[prof]),
                             "seed": rnd.randrange(1 << 30), "hs_adv": prof in ("lossy", "mixed") and rnd.random() < 0.4,
                             "profile": prof})
    behs = tlc_scripts(check, 40 if check.quick else 600, 30)
    for k, steps in enumerate(behs):
        cc, ver = MATRIX[k % len(MATRIX)]
        jobs.append({"cfg": {"cc": cc, "version": ver}, "script": steps, "seed": k, "hs_adv": False, "profile": "tlc"})
    check.cov["tlc_behaviours_replayed"] = len(behs)
    # regression corpus: duplicate the datagram that carries the FIN / a PATH_RESPONSE
    jobs.append({"cfg": {}, "script": [["write", "c", 0, 10, True], ["dup", 0], ["deliver", 0], ["deliver", 0]],
                 "seed": 1, "hs_adv": False, "profile": "corpus-dup-fin"})
    jobs.append({"cfg": {}, "script": [["write", "c", 0, 10, False], ["deliver", 0], ["rebind"], ["write", "c", 0, 10, True],
                                        ["deliver", 0], ["dup", 0], ["deliver", 0], ["deliver", 0], ["deliver", 0]],
                 "seed": 2, "hs_adv": False, "profile": "corpus-dup-path-response"})
    # corpus: the stream is finished by an empty write, so the FIN travels alone; it overtakes the last data (reordering), or
    # the data is lost and retransmitted after the FIN arrived
    for ep, sid in (("c", 0), ("s", 1), ("c", 2), ("s", 3)):
        # (the pauses let the pacer release each write as a datagram of its own; the acknowledgement the receiver sends at once
        # for the overtaking FIN is lost, the delayed one covers both packets, so the sender sees no loss and repeats nothing)
        two = [["tick", 50000], ["write", ep, sid, 300, False], ["tick", 50000], ["write", ep, sid, 0, True]]
        jobs.append({"cfg": {}, "script": two + [["swap"], ["deliver", 0], ["deliver", 0], ["drop", 0]],
                     "seed": 3, "hs_adv": False, "profile": "corpus-fin-only-overtakes-data"})
        jobs.append({"cfg": {}, "script": two + [["swap"], ["deliver", 0], ["deliver", 0]],
                     "seed": 3, "hs_adv": False, "profile": "corpus-fin-only-overtakes-data"})
        jobs.append({"cfg": {}, "script": two + [["drop", 0], ["deliver", 0]],
                     "seed": 4, "hs_adv": False, "profile": "corpus-fin-only-data-lost"})
    # corpus: the flight that uses up the peer's connection credit exactly loses its tail (less than half the window arrives,
    # so no MAX_DATA comes back): retransmissions need no new credit
    for ep, sid, key in (("c", 0, "s_max_data"), ("s", 1, "max_data")):
        for md, keep in ((6000, 2), (3000, 1), (12000, 4)):
            cfg = {"max_stream_data": 1 << 20, "s_max_stream_data": 1 << 20, "max_data": 1 << 20, "s_max_data": 1 << 20}
            cfg[key] = md
            jobs.append({"cfg": cfg, "script": [["tick", 50000], ["write", ep, sid, 20000, True]] + [["timer", ep]] * (md // 1000 + 2)
                         + [["deliver", 0]] * keep + [["drop", 0]] * 16,
                         "seed": 5, "hs_adv": False, "profile": "corpus-credit-exhausted-tail-loss"})
    # regression corpus: locally initiated key updates while the client keeps changing its address (the two scripts with which the
    # thorough tier found the key-retention defect 0120d2f)
    jobs.append({'cfg': {'cc': 'cubic', 'version': 'v1->v2', 'suite': 'AES_128_GCM_SHA256'}, 'script': [['keyupdate', 'c'], ['deliver', 2], ['drop', 5], ['keyupdate', 'c'], ['deliver', 5], ['timer', 's'], ['dup', 3], ['deliver', 1], ['timer', 's'], ['changecid', 's'], ['timer', 'c'], ['rebind'], ['deliver', 7], ['deliver', 5], ['write', 's', 3, 30, False], ['rebind'], ['write', 'c', 2, 5, False], ['deliver', 6], ['deliver', 5], ['deliver', 1], ['keyupdate', 'c'], ['write', 'c', 1, 1300, True], ['write', 'c', 4, 2, True], ['write', 's', 1, 1300, False], ['dup', 4], ['rebind'], ['write', 's', 1, 1100, True], ['rebind'], ['keyupdate', 'c'], ['keyupdate', 's'], ['write', 's', 3, 2, False], ['rebind'], ['deliver', 5], ['deliver', 0], ['deliver', 6], ['changecid', 's'], ['timer', 'c'], ['deliver', 0], ['rebind'], ['drop', 5]], 'seed': 459791728, 'hs_adv': False, 'profile': 'corpus-keyupdate-rebind-1'})
    jobs.append({'cfg': {'cc': 'reno', 'version': 'v1'}, 'script': [['changecid', 'c'], ['rebind'], ['drop', 3], ['drop', 6], ['keyupdate', 's'], ['write', 'c', 2, 1100, True], ['changecid', 'c'], ['timer', 's'], ['write', 'c', 2, 200, False], ['dup', 4], ['deliver', 5], ['deliver', 2], ['timer', 's'], ['changecid', 's'], ['rebind'], ['changecid', 'c'], ['write', 's', 1, 1, False], ['write', 's', 1, 1100, False], ['changecid', 's'], ['rebind'], ['write', 'c', 4, 2, False], ['write', 's', 4, 200, True], ['deliver', 2], ['deliver', 6], ['timer', 's'], ['deliver', 7], ['changecid', 's'], ['deliver', 6], ['write', 'c', 2, 30, True], ['rebind'], ['drop', 2], ['deliver', 6], ['rebind'], ['rebind'], ['deliver', 4], ['rebind'], ['deliver', 1], ['timer', 's'], ['deliver', 3], ['drop', 7], ['changecid', 'c'], ['write', 'c', 2, 1, False], ['write', 's', 1, 1300, False], ['write', 'c', 1, 2, True], ['deliver', 7], ['write', 'c', 2, 1300, True], ['deliver', 7], ['deliver', 3], ['deliver', 7], ['timer', 'c'], ['timer', 's'], ['write', 'c', 0, 30, True], ['write', 'c', 4, 1, True], ['drop', 5], ['write', 's', 3, 1100, True], ['deliver', 6], ['deliver', 1], ['deliver', 0], ['keyupdate', 's'], ['timer', 's'], ['deliver', 6], ['rebind'], ['drop', 3], ['timer', 'c'], ['timer', 'c'], ['timer', 'c'], ['dup', 5], ['dup', 4], ['dup', 0], ['drop', 4], ['deliver', 0], ['write', 's', 3, 200, True], ['drop', 5], ['timer', 's'], ['drop', 1], ['deliver', 3], ['timer', 'c'], ['deliver', 6], ['timer', 'c'], ['changecid', 's']], 'seed': 12238300, 'hs_adv': False, 'profile': 'corpus-keyupdate-rebind-2'})
    jobs += zrtt_jobs(rnd, 1 if check.quick else 20)
    results = runner.run_many(job_fn, jobs)
    check.cov["zero_rtt_packets_on_the_wire"] = sum(r["zrtt"] for r in results)
    check.cov["retry_packets_sent"] = sum(r["retries"] for r in results)
    check.cov["retry_or_resumed_runs"] = sum(1 for j in jobs if j["cfg"].get("retry") or j["cfg"].get("resume"))
    judge(check, jobs, results, "TraceTransfer_V")
    for job, res in zip(jobs, results):
        check.count(repr(job), nontrivial=res["nontrivial"], evaluations=len(res["lines"]))
    check.cov["packets_the_observer_could_not_open"] = sum(r["unopened"] for r in results)
    check.cov["runs_with_api_exception"] = sum(1 for r in results if r["raised"])
    ex = next((r for r in results if r["nontrivial"]), results[0])
    check.sample({"script": jobs[results.index(ex)]["script"][:25], "trace_head": [
        {k: (v if k != "data" else "<%d bytes>" % len(v)) for k, v in ln.items()} for ln in ex["lines"][:14]]})
    check.cov["rule"] = ("one case = one script (application writes/resets/stops/pings/key updates/CID changes on 5 streams in "
                         "both directions + per-datagram fates drop/dup/swap/deliver/rebind + timer firings, then a fair phase "
                         "to quiescence) on a configuration of the matrix reno/cubic x v1/v2/v1->v2; non-trivial = a dropped or "
                         "duplicated datagram carried STREAM data; distinct by script+configuration")
    check.cov["trusted_base"] = ["TLC 1.8", "netsim driver (virtual time, in-memory network)", "payload convention Byte(s,o)",
                                 "mechanical projection of API calls and QuicEvents"] + sim.INTERNAL_READS
    check.assumptions += ["scripts never close a connection and the adversarial phase is shorter than 5 s of virtual time "
                          "(idle timeout 60 s), so every ConnectionTerminated event is charged to the network",
                          "the application does not write or reset after FIN/reset and not on streams it has not seen",
                          "fair phase = in-order delivery, timers fired on time, until nothing is in flight and both "
                          "endpoints wait only for their idle deadline"]
